    // ---- oracle (C07, "unit mapping both ways"): the GDSII database unit, in metres, of each raw length unit; user unit = 1 micron ----
    fn metres(u: Units) -> f64 {
        match u { Units::Micro => 1e-6, Units::Nano => 1e-9, Units::Angstrom => 1e-10, Units::Pico => 1e-12 }
    }
    /// error-message construction is irrelevant to the property and dominates CBMC's cost
    fn fmt_stub(_a: std::fmt::Arguments<'_>) -> String { String::new() }

    /// a GDSII library whose database unit is `u`'s size in metres (user unit one micron) imports as `u`
    /// (the exporter's side of the table, export_lib's `match self.lib.units`, is checked by the Verus unit raw_gds against the same numbers)
    fn roundtrip(u: Units) {
        let g = gds21::GdsUnits::new(metres(u) / 1e-6, metres(u));
        let r = on_importer(|imp| imp.import_units(&g));
        assert!(r.is_ok());
        assert!(r.unwrap() == u);
    }
    /// an importer of which only the error-context stack is initialised: import_units touches nothing else, and building the whole
    /// `GdsImporter::default()` (Arc<RwLock<Layers>>, two HashMaps, a Library) drags hashbrown's internals into CBMC (no result in 15 min)
    fn on_importer<R>(f: impl FnOnce(&mut GdsImporter) -> R) -> R {
        let mut slot = std::mem::MaybeUninit::<GdsImporter>::uninit();
        let p = slot.as_mut_ptr();
        unsafe {
            std::ptr::addr_of_mut!((*p).ctx).write(Vec::new());
            let r = f(&mut *p);
            std::ptr::drop_in_place(std::ptr::addr_of_mut!((*p).ctx));
            r
        }
    }
    #[kani::proof]
    #[kani::stub(alloc::fmt::format, fmt_stub)]
    #[kani::unwind(8)]
    fn units_micro() { roundtrip(Units::Micro); }
    #[kani::proof]
    #[kani::stub(alloc::fmt::format, fmt_stub)]
    #[kani::unwind(8)]
    fn units_nano() { roundtrip(Units::Nano); }
    #[kani::proof]
    #[kani::stub(alloc::fmt::format, fmt_stub)]
    #[kani::unwind(8)]
    fn units_angstrom() { roundtrip(Units::Angstrom); }
    #[kani::proof]
    #[kani::stub(alloc::fmt::format, fmt_stub)]
    #[kani::unwind(8)]
    fn units_pico() { roundtrip(Units::Pico); }
    // vacuity canary: MUST fail
    #[kani::proof]
    #[kani::stub(alloc::fmt::format, fmt_stub)]
    #[kani::unwind(8)]
    fn canary_units_reachable() {
        let r = on_importer(|imp| imp.import_units(&gds21::GdsUnits::new(1e-3, 1e-9)));
        assert!(r.is_ok() && r.unwrap() == Units::Micro);
    }
