    // ---- oracle: the GDSII eight-byte real, from the format definition (DESIGN.md appendix A), integers only ----
    // value(v) = (-1)^s * m / 2^56 * 16^(e-64),  s = bit 63, e = bits 62..56, m = bits 55..0; normalised iff m >= 2^52.

    /// correctly rounded (nearest, ties to even) double of a normalised GDSII real, computed with integers only
    fn ref_decode(v: u64) -> f64 {
        let neg = v >> 63;
        let e = ((v >> 56) & 0x7f) as i64;
        let m = v & 0x00FF_FFFF_FFFF_FFFF;
        if m == 0 {
            return if neg == 1 { -0.0 } else { 0.0 };
        }
        let lz = m.leading_zeros() as i64 - 8; // 0..3 for a normalised mantissa
        let msb = 55 - lz;
        let shift = msb - 52; // 0..3 bits must be rounded away
        let mut sig = m >> shift;
        let rem = m & ((1u64 << shift) - 1);
        let half = if shift > 0 { 1u64 << (shift - 1) } else { 0 };
        let mut e2 = 4 * (e - 64) - 56 + msb;
        if shift > 0 && (rem > half || (rem == half && (sig & 1) == 1)) {
            sig += 1;
            if sig == (1u64 << 53) {
                sig >>= 1;
                e2 += 1;
            }
        }
        let bits = (neg << 63) | (((e2 + 1023) as u64) << 52) | (sig & ((1u64 << 52) - 1));
        f64::from_bits(bits)
    }

    /// contract stub for f64::powi — exact on the bases the codec uses; a call outside the domain FAILS (assert, not assume)
    fn powi_exact(b: f64, n: i32) -> f64 {
        assert!(b == 16.0 || b == 2.0);
        let k: i32 = if b == 16.0 { 4 } else { 1 };
        assert!(n > -300 && n < 300);
        let e = k * n;
        assert!(e > -1022 && e < 1023);
        f64::from_bits(((1023 + e) as u64) << 52)
    }
    /// contract stub for f64::log2 — any faithful libm: x = f*2^e with 1 <= f < 2  ==>  e <= log2(x) <= e+1
    fn log2_contract(x: f64) -> f64 {
        assert!(x.is_finite() && x > 0.0);
        let be = ((x.to_bits() >> 52) & 0x7ff) as i32;
        assert!(be != 0); // normal
        let e = be - 1023;
        let r: f64 = kani::any();
        kani::assume(r >= e as f64 && r <= (e + 1) as f64);
        r
    }
    /// the doubles inside the GDSII real range: 16^-65 <= |x| < 16^63  <=>  biased binary exponent in 763..=1274
    fn in_gds_range(x: f64) -> bool {
        let e2 = ((x.to_bits() >> 52) & 0x7ff) as i64;
        e2 >= 763 && e2 <= 1274
    }

    #[kani::proof]
    #[kani::stub(f64::powi, powi_exact)]
    fn decode_exact() {
        let v: u64 = kani::any();
        kani::assume((v & 0x00F0_0000_0000_0000) != 0); // normalised
        let d = GdsFloat64::decode(v);
        assert!(d.to_bits() == ref_decode(v).to_bits());
    }

    #[kani::proof]
    #[kani::stub(f64::powi, powi_exact)]
    fn decode_zero_mantissa() {
        let v: u64 = kani::any();
        kani::assume((v & 0x00FF_FFFF_FFFF_FFFF) == 0);
        let d = GdsFloat64::decode(v);
        assert!(d == 0.0);
    }

    #[kani::proof]
    #[kani::stub(f64::powi, powi_exact)]
    #[kani::stub(f64::log2, log2_contract)]
    fn encode_exact() {
        let x: f64 = kani::any();
        kani::assume(in_gds_range(x));
        let bits = x.to_bits();
        let e2 = ((bits >> 52) & 0x7ff) as i64;
        let sig = (bits & ((1u64 << 52) - 1)) | (1u64 << 52);
        let r = GdsFloat64::encode(x);
        // x = sig * 2^(e2-1075) = (sig << s) / 2^56 * 16^E   with  0 <= s <= 3,  4E = e2 - 1019 - s,  field = E + 64
        let s = (e2 - 763) % 4;
        let field = (e2 - 763 - s) / 4;
        assert!(r >> 63 == bits >> 63);                          // sign
        assert!(((r >> 56) & 0x7f) as i64 == field);             // excess-64 exponent
        assert!(r & 0x00FF_FFFF_FFFF_FFFF == sig << s);          // mantissa, exact
        assert!((r & 0x00F0_0000_0000_0000) != 0);               // normalised
    }

    #[kani::proof]
    #[kani::stub(f64::powi, powi_exact)]
    #[kani::stub(f64::log2, log2_contract)]
    fn encode_zero() {
        assert!(GdsFloat64::encode(0.0) == 0);
        assert!(GdsFloat64::encode(-0.0) == 0);
        assert!(GdsFloat64::decode(0) == 0.0);
    }

    #[kani::proof]
    #[kani::stub(f64::powi, powi_exact)]
    #[kani::stub(f64::log2, log2_contract)]
    fn roundtrip_identity() {
        let x: f64 = kani::any();
        kani::assume(in_gds_range(x));
        let y = GdsFloat64::decode(GdsFloat64::encode(x));
        assert!(y.to_bits() == x.to_bits());
    }

    #[kani::proof]
    #[kani::stub(f64::powi, powi_exact)]
    #[kani::stub(f64::log2, log2_contract)]
    fn reencode_53bit() {
        let v: u64 = kani::any();
        let m = v & 0x00FF_FFFF_FFFF_FFFF;
        kani::assume((v & 0x00F0_0000_0000_0000) != 0); // normalised
        // at most 53 significant bits: the bits below the 53-bit window starting at the leading one are zero
        let lz = m.leading_zeros() - 8;
        let low = 3 - lz; // number of bits below the window
        kani::assume(m & ((1u64 << low) - 1) == 0);
        let w = GdsFloat64::encode(GdsFloat64::decode(v));
        assert!(w == v);
    }

    // ---- vacuity canaries: these MUST fail (the assumptions above are satisfiable and the calls are reached) ----
    #[kani::proof]
    #[kani::stub(f64::powi, powi_exact)]
    fn canary_decode_reachable() {
        let v: u64 = kani::any();
        kani::assume((v & 0x00F0_0000_0000_0000) != 0);
        let d = GdsFloat64::decode(v);
        assert!(d == 1.0);
    }
    #[kani::proof]
    #[kani::stub(f64::powi, powi_exact)]
    #[kani::stub(f64::log2, log2_contract)]
    fn canary_encode_reachable() {
        let x: f64 = kani::any();
        kani::assume(in_gds_range(x));
        assert!(GdsFloat64::encode(x) == 0);
    }
