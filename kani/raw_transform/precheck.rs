// Native check of the libm facts the Kani stubs encode: sin/cos of the four right angles (as computed by
// `f64::to_radians` from 0, 90, 180, 270 degrees) on THIS machine's libm are exactly the constants in harness.rs.
fn main() {
    let exp: [(u64, u64, u64); 4] = [
        (0x0, 0x0, 0x3ff0000000000000),
        (0x3ff921fb54442d18, 0x3ff0000000000000, 0x3c91a62633145c07),
        (0x400921fb54442d18, 0x3ca1a62633145c07, 0xbff0000000000000),
        (0x4012d97c7f3321d2, 0xbff0000000000000, 0xbcaa79394c9e8a0a),
    ];
    let mut ok = true;
    for k in 0..4 {
        let a = (90.0f64 * k as f64).to_radians();
        let got = (a.to_bits(), a.sin().to_bits(), a.cos().to_bits());
        if got != exp[k] {
            println!("MISMATCH k={} got {:x?} expected {:x?}", k, got, exp[k]);
            ok = false;
        }
    }
    if ok { println!("OK libm right-angle constants"); } else { std::process::exit(1); }
}
