    // ---- oracle: exact integer maps.  A placement = reflect about the x-axis (optional), rotate ccw by k*90 degrees, translate ----
    #[derive(Clone, Copy)]
    struct Place { lx: isize, ly: isize, refl: bool, k: u8 }
    fn exact(pl: Place, x: isize, y: isize) -> (isize, isize) {
        let (x0, y0) = (x, if pl.refl { -y } else { y });
        let (x1, y1) = match pl.k { 0 => (x0, y0), 1 => (-y0, x0), 2 => (-x0, -y0), _ => (y0, -x0) };
        (x1 + pl.lx, y1 + pl.ly)
    }
    /// a symbolic signed value of `bits` bits
    fn any_coord(bits: u32) -> isize {
        let v: i32 = kani::any();
        if bits < 32 {
            let lim: i32 = 1 << (bits - 1);
            kani::assume(v >= -lim && v < lim);
        }
        v as isize
    }
    fn place(refl: bool, k: u8, bits: u32) -> Place { Place { lx: any_coord(bits), ly: any_coord(bits), refl, k } }
    fn transform_of(pl: Place, none_for_zero: bool) -> Transform {
        // `None` and `Some(0.0)` both mean "not rotated"
        let angle = if pl.k == 0 && none_for_zero { None } else { Some(90.0 * (pl.k as f64)) };
        Transform::from_instance(&Point::new(pl.lx, pl.ly), pl.refl, angle)
    }

    // ---- contract stubs for libm at the four right angles: the values of this machine's libm, confirmed natively by
    // ---- precheck.rs before every run.  Any other argument is outside the stub's domain and FAILS (assert, not assume).
    const H: f64 = 1.5707963267948966; // 90f64.to_radians()
    fn sin_stub(x: f64) -> f64 {
        if x == 0.0 { 0.0 } else if x == H { 1.0 } else if x == 2.0 * H { f64::from_bits(0x3ca1a62633145c07) } else if x == 3.0 * H { -1.0 }
        else { assert!(false, "sin stub called outside its domain"); 0.0 }
    }
    fn cos_stub(x: f64) -> f64 {
        if x == 0.0 { 1.0 } else if x == H { f64::from_bits(0x3c91a62633145c07) } else if x == 2.0 * H { -1.0 } else if x == 3.0 * H { f64::from_bits(0xbcaa79394c9e8a0a) }
        else { assert!(false, "cos stub called outside its domain"); 0.0 }
    }

    fn depth1(refl: bool, k: u8, bits: u32) {
        let pl = place(refl, k, bits);
        let (x, y) = (any_coord(bits), any_coord(bits));
        let e = exact(pl, x, y);
        // (1) the placement transform is reflect, then rotate ccw, then translate
        let direct = Point::new(x, y).transform(&transform_of(pl, false));
        assert!(direct.x == e.0 && direct.y == e.1);
        if k == 0 {
            let direct_none = Point::new(x, y).transform(&transform_of(pl, true));
            assert!(direct_none.x == e.0 && direct_none.y == e.1);
        }
        // (2) identical to composing the library's own elementary transforms in that order
        let r = if refl { Transform::reflect_vert() } else { Transform::identity() };
        let rot = Transform::rotate(90.0 * (k as f64));
        let tr = Transform::translate(pl.lx as f64, pl.ly as f64);
        let composed = Transform::cascade(&tr, &Transform::cascade(&rot, &r));
        let via = Point::new(x, y).transform(&composed);
        assert!(via == direct);
    }
    fn depth2(refl_o: bool, k_o: u8, bits: u32) {
        // outer orientation concrete, inner orientation symbolic
        let outer = place(refl_o, k_o, bits);
        let ki: u8 = kani::any();
        kani::assume(ki < 4);
        let inner = place(kani::any(), ki, bits);
        let (x, y) = (any_coord(bits), any_coord(bits));
        let t = Transform::cascade(&transform_of(outer, false), &transform_of(inner, false));
        let p = Point::new(x, y).transform(&t);
        let i = exact(inner, x, y);
        let e = exact(outer, i.0, i.1);
        assert!(p.x == e.0 && p.y == e.1);
    }
    macro_rules! orient {
        ($name:ident, $f:ident, $refl:expr, $k:expr, $bits:expr) => {
            #[kani::proof]
            #[kani::stub(f64::sin, sin_stub)]
            #[kani::stub(f64::cos, cos_stub)]
            fn $name() { $f($refl, $k, $bits); }
        };
    }
    orient!(d1_r0_k0_b6, depth1, false, 0, 6);
    orient!(d1_r0_k1_b6, depth1, false, 1, 6);
    orient!(d1_r0_k2_b6, depth1, false, 2, 6);
    orient!(d1_r0_k3_b6, depth1, false, 3, 6);
    orient!(d1_r1_k0_b6, depth1, true, 0, 6);
    orient!(d1_r1_k1_b6, depth1, true, 1, 6);
    orient!(d1_r1_k2_b6, depth1, true, 2, 6);
    orient!(d1_r1_k3_b6, depth1, true, 3, 6);
    orient!(d1_r0_k0_b8, depth1, false, 0, 8);
    orient!(d1_r0_k1_b8, depth1, false, 1, 8);
    orient!(d1_r0_k2_b8, depth1, false, 2, 8);
    orient!(d1_r0_k3_b8, depth1, false, 3, 8);
    orient!(d1_r1_k0_b8, depth1, true, 0, 8);
    orient!(d1_r1_k1_b8, depth1, true, 1, 8);
    orient!(d1_r1_k2_b8, depth1, true, 2, 8);
    orient!(d1_r1_k3_b8, depth1, true, 3, 8);
    orient!(d1_r0_k0_b16, depth1, false, 0, 16);
    orient!(d1_r0_k1_b16, depth1, false, 1, 16);
    orient!(d1_r0_k2_b16, depth1, false, 2, 16);
    orient!(d1_r0_k3_b16, depth1, false, 3, 16);
    orient!(d1_r1_k0_b16, depth1, true, 0, 16);
    orient!(d1_r1_k1_b16, depth1, true, 1, 16);
    orient!(d1_r1_k2_b16, depth1, true, 2, 16);
    orient!(d1_r1_k3_b16, depth1, true, 3, 16);
    orient!(d2_r0_k1_b5, depth2, false, 1, 5);
    orient!(d2_r1_k1_b5, depth2, true, 1, 5);
    orient!(d2_r1_k2_b5, depth2, true, 2, 5);
    orient!(d2_r0_k3_b5, depth2, false, 3, 5);

    // depth 2 over the whole orientation group: all 8 x 8 (outer, inner) orientation pairs with two concrete sets of offsets and points
    // (symbolic offsets over 64 pairs do not finish: 900 s timeout at 3 bits).  Complete for the matrix part of `cascade`/`matmul`,
    // which only ever sees these 64 pairs of orientation matrices; a sample for the translation part.
    fn group2(x: isize, y: isize, ox: isize, oy: isize, ix: isize, iy: isize) {
        let mut n: u8 = 0;
        while n < 64 {
            let outer = Place { lx: ox, ly: oy, refl: n & 1 != 0, k: (n >> 1) & 3 };
            let inner = Place { lx: ix, ly: iy, refl: n & 8 != 0, k: (n >> 4) & 3 };
            let t = Transform::cascade(&transform_of(outer, false), &transform_of(inner, false));
            let p = Point::new(x, y).transform(&t);
            let i = exact(inner, x, y);
            let e = exact(outer, i.0, i.1);
            assert!(p.x == e.0 && p.y == e.1);
            n += 1;
        }
    }
    #[kani::proof]
    #[kani::stub(f64::sin, sin_stub)]
    #[kani::stub(f64::cos, cos_stub)]
    #[kani::unwind(65)]
    fn d2_group_concrete() { group2(3, -5, 7, 2, -4, 11); group2(-1000003, 77, 40009, -123457, 5, -999983); }

    // the elementary transforms alone (matrix entries exactly 0/1/-1, no libm involved), 16-bit coordinates
    #[kani::proof]
    fn elementary_exact() {
        let (x, y) = (any_coord(16), any_coord(16));
        let p = Point::new(x, y);
        assert!(p.transform(&Transform::identity()) == p);
        let (dx, dy) = (any_coord(16) as i32, any_coord(16) as i32);
        let t = p.transform(&Transform::translate(dx as f64, dy as f64));
        assert!(t.x == x + dx as isize && t.y == y + dy as isize);
        let r = p.transform(&Transform::reflect_vert());
        assert!(r.x == x && r.y == -y);
    }

    // vacuity canary: MUST fail
    #[kani::proof]
    #[kani::stub(f64::sin, sin_stub)]
    #[kani::stub(f64::cos, cos_stub)]
    fn canary_transform_reachable() {
        let pl = place(true, 1, 8);
        let (x, y) = (any_coord(8), any_coord(8));
        let p = Point::new(x, y).transform(&transform_of(pl, false));
        assert!(p.x == x);
    }
