    // ---- oracle: exact integer maps.  A placement = reflect about the x-axis (optional), rotate ccw by k*90 degrees, translate ----
    #[derive(Clone, Copy)]
    struct Place { lx: isize, ly: isize, refl: bool, k: u8 }
    fn exact(pl: Place, x: isize, y: isize) -> (isize, isize) {
        let (x0, y0) = (x, if pl.refl { -y } else { y });
        let (x1, y1) = match pl.k { 0 => (x0, y0), 1 => (-y0, x0), 2 => (-x0, -y0), _ => (y0, -x0) };
        (x1 + pl.lx, y1 + pl.ly)
    }
    fn any_place(bits: u32) -> Place {
        let lx: i32 = kani::any();
        let ly: i32 = kani::any();
        if bits < 32 {
            let lim: i32 = 1 << (bits - 1);
            kani::assume(lx >= -lim && lx < lim && ly >= -lim && ly < lim);
        }
        let k: u8 = kani::any();
        kani::assume(k < 4);
        Place { lx: lx as isize, ly: ly as isize, refl: kani::any(), k }
    }
    fn any_coord(bits: u32) -> isize {
        let v: i32 = kani::any();
        if bits < 32 {
            let lim: i32 = 1 << (bits - 1);
            kani::assume(v >= -lim && v < lim);
        }
        v as isize
    }
    fn angle_of(pl: Place) -> Option<f64> {
        // `None` and `Some(0.0)` both mean "not rotated"
        if pl.k == 0 && kani::any() { None } else { Some(90.0 * (pl.k as f64)) }
    }
    fn transform_of(pl: Place) -> Transform {
        Transform::from_instance(&Point::new(pl.lx, pl.ly), pl.refl, angle_of(pl))
    }

    // ---- contract stubs for libm: right angles only (anything else is outside the domain and FAILS) ----
    const H: f64 = 1.5707963267948966; // 90f64.to_radians()
    fn quadrant(x: f64) -> u8 {
        if x == 0.0 { 0 } else if x == H { 1 } else if x == 2.0 * H { 2 } else if x == 3.0 * H { 3 } else { assert!(false, "sin/cos stub called outside its domain"); 0 }
    }
    fn near(exact: f64) -> f64 {
        let r: f64 = kani::any();
        kani::assume(r >= exact - 2.5e-16 && r <= exact + 2.5e-16);
        r
    }
    fn sin_stub(x: f64) -> f64 { match quadrant(x) { 0 => near(0.0), 1 => near(1.0), 2 => near(0.0), _ => near(-1.0) } }
    fn cos_stub(x: f64) -> f64 { match quadrant(x) { 0 => near(1.0), 1 => near(0.0), 2 => near(-1.0), _ => near(0.0) } }

    #[kani::proof]
    #[kani::stub(f64::sin, sin_stub)]
    #[kani::stub(f64::cos, cos_stub)]
    fn elementary_transforms() {
        let (x, y) = (any_coord(32), any_coord(32));
        let p = Point::new(x, y);
        assert!(p.transform(&Transform::identity()) == p);
        let (dx, dy): (i32, i32) = (kani::any(), kani::any());
        let t = p.transform(&Transform::translate(dx as f64, dy as f64));
        assert!(t.x == x + dx as isize && t.y == y + dy as isize);
        let r = p.transform(&Transform::reflect_vert());
        assert!(r.x == x && r.y == -y);
        let k: u8 = kani::any();
        kani::assume(k < 4);
        let q = p.transform(&Transform::rotate(90.0 * (k as f64)));
        let e = exact(Place { lx: 0, ly: 0, refl: false, k }, x, y);
        assert!(q.x == e.0 && q.y == e.1);
    }

    #[kani::proof]
    #[kani::stub(f64::sin, sin_stub)]
    #[kani::stub(f64::cos, cos_stub)]
    fn from_instance_exact_depth1() {
        let pl = any_place(32);
        let (x, y) = (any_coord(32), any_coord(32));
        let p = Point::new(x, y).transform(&transform_of(pl));
        let e = exact(pl, x, y);
        assert!(p.x == e.0 && p.y == e.1);
    }

    #[kani::proof]
    #[kani::stub(f64::sin, sin_stub)]
    #[kani::stub(f64::cos, cos_stub)]
    fn from_instance_equals_cascade() {
        // identical to composing the library's own elementary transforms: reflect, then rotate, then translate
        let pl = any_place(32);
        let (x, y) = (any_coord(32), any_coord(32));
        let direct = Point::new(x, y).transform(&transform_of(pl));
        let refl = if pl.refl { Transform::reflect_vert() } else { Transform::identity() };
        let rot = Transform::rotate(90.0 * (pl.k as f64));
        let tr = Transform::translate(pl.lx as f64, pl.ly as f64);
        let composed = Transform::cascade(&tr, &Transform::cascade(&rot, &refl));
        let via = Point::new(x, y).transform(&composed);
        assert!(direct == via);
    }

    #[kani::proof]
    #[kani::stub(f64::sin, sin_stub)]
    #[kani::stub(f64::cos, cos_stub)]
    fn cascade_depth2() {
        let (outer, inner) = (any_place(24), any_place(24));
        let (x, y) = (any_coord(24), any_coord(24));
        let t = Transform::cascade(&transform_of(outer), &transform_of(inner));
        let p = Point::new(x, y).transform(&t);
        let i = exact(inner, x, y);
        let e = exact(outer, i.0, i.1);
        assert!(p.x == e.0 && p.y == e.1);
    }

    #[kani::proof]
    #[kani::stub(f64::sin, sin_stub)]
    #[kani::stub(f64::cos, cos_stub)]
    fn cascade_depth3() {
        let (a, b, c) = (any_place(16), any_place(16), any_place(16));
        let (x, y) = (any_coord(16), any_coord(16));
        let t = Transform::cascade(&transform_of(a), &Transform::cascade(&transform_of(b), &transform_of(c)));
        let p = Point::new(x, y).transform(&t);
        let i = exact(c, x, y);
        let j = exact(b, i.0, i.1);
        let e = exact(a, j.0, j.1);
        assert!(p.x == e.0 && p.y == e.1);
    }

    #[kani::proof]
    #[kani::stub(f64::sin, sin_stub)]
    #[kani::stub(f64::cos, cos_stub)]
    fn canary_transform_reachable() {
        let pl = any_place(32);
        let (x, y) = (any_coord(32), any_coord(32));
        let p = Point::new(x, y).transform(&transform_of(pl));
        assert!(p.x == x);
    }
