//! Native replay of finding F17 (property C08; fixed in /repo by 7c83194): LibValidator::validate_assign computed `i.cross.layer - 1` on usize
//! layer indices.  A net assignment whose cross layer is metal 0 and whose track layer is not metal 1 (here metal 3: opposite directions, so
//! validate_track_cross accepts it) underflows: a debug/test build panics with "attempt to subtract with overflow" (validate.rs:324) where
//! C08 requires "either reports an error or produces shapes".
//!
//! In-crate test (the sample stack is test-only): append to layout21tetris/src/tests/demos.rs and run
//!     cargo test --offline -p layout21tetris probe_nonadjacent_assign
//! Before 7c83194: the test thread panics.  From 7c83194 on: passes (the conversion returns the "non-adjacent layers" error).

#[test]
fn probe_nonadjacent_assign() -> LayoutResult<()> {
    let yaml = r#"---
domain: demoassn
cells:
  - name: c
    layout:
      name: c
      outline: { x: [20], y: [4], metals: 4 }
      instances: []
      assignments:
        - net: a
          at: { track: { layer: 3, track: 1 }, cross: { layer: 0, track: 1 } }
      cuts: []
"#;
    let plib: protos::tetris::Library = Yaml.from_str(yaml)?;
    let lib = ProtoLibImporter::import(&plib)?;
    let r = crate::conv::raw::RawExporter::convert(lib, SampleStacks::pdka()?);
    assert!(r.is_err(), "a net assignment across non-adjacent layers must be reported as an error");
    Ok(())
}
