//! Native replay of known finding F15 (property C14): "conversely a protobuf library whose cells are listed before their users
//! converts to raw and back to an equal message".  The raw data model keeps an abstract port's shapes (and an abstract's blockages)
//! in a HashMap<LayerKey, Vec<Shape>>; ProtoExporter::export_abstract_port / export_abstract follow its iteration order, which
//! std's RandomState changes from process to process.  A port with shapes on several layers therefore comes back with its layer
//! messages permuted: proto -> raw -> proto is not the identity on messages.
//!
//! Place at layout21raw/tests/f15_abstract_layer_order.rs and run
//!     cargo test --offline -p layout21raw --test f15_abstract_layer_order
//! Expected on the unchanged tree: the assertion fails (8 layers: the order survives with probability 1/40320), e.g.
//!     in  [1, 2, 3, 4, 5, 6, 7, 8]
//!     out [8, 4, 7, 5, 3, 1, 2, 6]
use layout21raw::proto::proto::raw as proto;
use layout21raw::{Library, Layers, Layer, LayerPurpose};
use layout21raw::utils::Ptr;

#[test]
fn proto_abstract_roundtrip_keeps_layer_order() {
    let mut plib = proto::Library::default();
    plib.domain = "lib".into();
    let mut pcell = proto::Cell::default();
    pcell.name = "c".into();
    let mut pabs = proto::Abstract::default();
    pabs.name = "c".into();
    pabs.outline = Some(proto::Polygon { vertices: vec![proto::Point { x: 0, y: 0 }, proto::Point { x: 10, y: 0 }, proto::Point { x: 10, y: 10 }], net: "".into() });
    let mut port = proto::AbstractPort::default();
    port.net = "a".into();
    for k in 1..9 {
        let mut ls = proto::LayerShapes::default();
        ls.layer = Some(proto::Layer { number: k, purpose: 0 });
        ls.rectangles.push(proto::Rectangle { net: "".into(), lower_left: Some(proto::Point { x: 0, y: 0 }), width: k, height: 2 });
        port.shapes.push(ls);
    }
    pabs.ports.push(port);
    pcell.r#abstract = Some(pabs);
    plib.cells.push(pcell);
    let mut layers = Layers::default();
    for k in 1..9 { layers.add(Layer::from_pairs(k, &[(0, LayerPurpose::Pin)]).unwrap()); }
    let lib = Library::from_proto(plib.clone(), Some(Ptr::new(layers))).unwrap();
    let back = lib.to_proto().unwrap();
    let a: Vec<i64> = plib.cells[0].r#abstract.as_ref().unwrap().ports[0].shapes.iter().map(|s| s.layer.as_ref().unwrap().number).collect();
    let b: Vec<i64> = back.cells[0].r#abstract.as_ref().unwrap().ports[0].shapes.iter().map(|s| s.layer.as_ref().unwrap().number).collect();
    println!("in  {:?}\nout {:?}", a, b);
    assert_eq!(plib, back, "proto -> raw -> proto must give an equal message");
}
