//! Native replay of finding F16 (property C08; fixed in /repo by daef3d1): RawExporter::temp_cell_layer_period computed every instance
//! blockage as [origin, origin + size] along the track direction, ignoring the instance's reflection in that direction.  A horizontally
//! reflected instance at x = 30 of a 5-pitch-wide cell occupies x in [25, 30] pitches, exactly like an unreflected one at x = 25 — yet
//! the met1 tracks were blocked over [30, 35] and wires were drawn through the instance.
//!
//! The sample stack lives in the crate's `#[cfg(test)] mod tests`, so this replay is an in-crate test: append the function below to
//! layout21tetris/src/tests/demos.rs and run
//!     cargo test --offline -p layout21tetris probe_reflected_instance_blockage -- --nocapture
//! Before daef3d1: FAILS — row 1 (y 2720..5440) wires of the unreflected case end at x = 11500 and resume at 13800; of the reflected case
//! end at 13800 and resume at 16100.  From daef3d1 on: passes.

#[test]
fn probe_reflected_instance_blockage() -> LayoutResult<()> {
    fn met1_rects(x: i64, reflect: bool) -> LayoutResult<Vec<(isize, isize, isize, isize)>> {
        let yaml = format!(r#"---
domain: demoinst
cells:
  - name: unit
    layout:
      name: unit
      outline: {{ x: [5], y: [1], metals: 2 }}
      instances: []
      assignments: []
      cuts: []
  - name: democell
    layout:
      name: democell
      outline: {{ x: [100], y: [10], metals: 5 }}
      instances:
        - name: unit1
          cell: {{ to: {{ Local: unit }} }}
          loc: {{ place: {{ Abs: {{ x: {}, y: 1 }} }} }}
          reflect_horiz: {}
          reflect_vert: false
      assignments: []
      cuts: []
"#, x, reflect);
        let plib: protos::tetris::Library = Yaml.from_str(&yaml)?;
        let lib = ProtoLibImporter::import(&plib)?;
        let rawlib = crate::conv::raw::RawExporter::convert(lib, SampleStacks::pdka()?)?;
        let rawlib = rawlib.read()?;
        let layers = rawlib.layers.read()?;
        let mut out = Vec::new();
        for cell in rawlib.cells.iter() {
            let cell = cell.read()?;
            if cell.name != "democell" { continue; }
            for e in cell.layout.as_ref().unwrap().elems.iter() {
                // met1 of the sample stack is GDSII layer 68
                if layers.get(e.layer).map(|l| l.layernum) == Some(68) {
                    if let crate::raw::Shape::Rect(r) = &e.inner { out.push((r.p0.x, r.p0.y, r.p1.x, r.p1.y)); }
                }
            }
        }
        out.sort();
        Ok(out)
    }
    let plain = met1_rects(25, false)?;
    let refl = met1_rects(30, true)?;
    assert_eq!(plain, refl, "both instances occupy x in [25,30] pitches: the met1 wires must be cut identically");
    Ok(())
}
