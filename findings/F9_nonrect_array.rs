// Native replay of known finding F9 (property C06): place at layout21raw/tests/f9.rs and run
//   cargo test --offline -p layout21raw --test f9
// A legal GDSII array whose lattice is not axis-aligned is imported without error and without its placements.
use layout21raw::*;
use layout21raw::gds::gds21::*;
#[test]
fn nonrectangular_array_is_dropped() {
    let mut child = GdsStruct::new("child");
    child.elems.push(GdsElement::GdsBoundary(GdsBoundary { layer: 1, datatype: 0, xy: GdsPoint::vec(&[(0,0),(1,0),(1,1),(0,1),(0,0)]), ..Default::default() }));
    let mut top = GdsStruct::new("top");
    top.elems.push(GdsElement::GdsArrayRef(GdsArrayRef { name: "child".into(), xy: [GdsPoint::new(0,0), GdsPoint::new(100,10), GdsPoint::new(0,100)], cols: 2, rows: 2, ..Default::default() }));
    let mut lib = GdsLibrary::new("lib");
    lib.structs = vec![child, top];
    let raw = Library::from_gds(&lib, None).expect("import reports no error");
    let n = raw.cells[1].read().unwrap().layout.as_ref().unwrap().insts.len();
    assert_eq!(n, 4, "the four placements must not be dropped");   // fails: n == 0
}
