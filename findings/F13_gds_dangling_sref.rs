//! Native replay of (now fixed) finding F13 (properties C06, C17): the GDSII importer's structure orderer `GdsDepOrder::push` looks a
//! referenced structure up by name with `self.strukts.get(&x.name).unwrap()`.  A GDSII library containing an SREF (or AREF) to a
//! structure that is not defined in the library makes `Library::from_gds` panic instead of reporting an error.
//!
//! Place at layout21raw/tests/f13_gds_dangling_sref.rs and run
//!     cargo test --offline -p layout21raw --test f13_gds_dangling_sref
//! FIXED in /repo by commit 1f0018f (the test passes from that commit on).  Before it: panic "called `Option::unwrap()` on a `None` value" inside GdsDepOrder::push.
use gds21::{GdsElement, GdsLibrary, GdsPoint, GdsStruct, GdsStructRef};
use layout21raw::Library;

#[test]
fn dangling_reference_is_an_error_not_a_panic() {
    let mut lib = GdsLibrary::new("dangling");
    let mut top = GdsStruct::new("top");
    top.elems.push(GdsElement::GdsStructRef(GdsStructRef { name: "missing".into(), xy: GdsPoint::new(0, 0), ..Default::default() }));
    lib.structs.push(top);
    // C06: "malformed hierarchies (dangling and cyclic references ...) for which the required outcome is an error"
    let r = std::panic::catch_unwind(|| Library::from_gds(&lib, None));
    assert!(r.is_ok(), "from_gds panicked on a dangling structure reference");
    assert!(r.unwrap().is_err());
}
