//! Native replay of known finding F12 (property C17): `layout21tetris::library::DepOrder` (behind `Library::dep_order`, used by the
//! raw exporter) has no "pending" set.  On a library whose cells instantiate each other it recurses without bound: the
//! process dies with a stack overflow instead of returning an error.
//!
//! Place at layout21tetris/tests/f12_cyclic_tetris_cells.rs and run
//!     cargo test --offline -p layout21tetris --test f12_cyclic_tetris_cells
//! Expected on the unchanged tree: the test process aborts ("has overflowed its stack", SIGABRT).
use layout21tetris::cell::Cell;
use layout21tetris::coords::{PrimPitches, Xy};
use layout21tetris::instance::Instance;
use layout21tetris::layout::Layout;
use layout21tetris::library::Library;
use layout21tetris::outline::Outline;
use layout21tetris::placement::Place;

#[test]
fn cyclic_library_order_does_not_return() {
    let mut lib = Library::new("cyc");
    let a = lib.add_cell(Cell::from(Layout::new("a", 1, Outline::rect(10, 10).unwrap())));
    let b = lib.add_cell(Cell::from(Layout::new("b", 1, Outline::rect(10, 10).unwrap())));
    let at = |x, y| Place::Abs(Xy::new(PrimPitches::x(x), PrimPitches::y(y)));
    a.write().unwrap().layout.as_mut().unwrap().instances.add(Instance {
        inst_name: "ib".into(), cell: b.clone(), loc: at(0, 0), reflect_horiz: false, reflect_vert: false,
    });
    b.write().unwrap().layout.as_mut().unwrap().instances.add(Instance {
        inst_name: "ia".into(), cell: a.clone(), loc: at(0, 0), reflect_horiz: false, reflect_vert: false,
    });
    // C17: a cycle must be an error; this call never returns (stack overflow)
    let order = lib.dep_order();
    assert!(order.len() <= 2);
}
