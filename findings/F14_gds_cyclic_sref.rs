//! Native replay of (now fixed) finding F14 (properties C06, C17): `GdsDepOrder::push` has no pending set.  A GDSII library whose
//! structures reference each other in a cycle makes `Library::from_gds` recurse without bound: stack overflow, not an error.
//!
//! Place at layout21raw/tests/f14_gds_cyclic_sref.rs and run
//!     cargo test --offline -p layout21raw --test f14_gds_cyclic_sref
//! FIXED in /repo by commit 0ad94c3 (the test passes from that commit on).  Before it: the test process aborts ("has overflowed its stack", SIGABRT).
use gds21::{GdsElement, GdsLibrary, GdsPoint, GdsStruct, GdsStructRef};
use layout21raw::Library;

#[test]
fn cyclic_references_are_an_error_not_a_stack_overflow() {
    let mut lib = GdsLibrary::new("cyclic");
    let mut a = GdsStruct::new("a");
    a.elems.push(GdsElement::GdsStructRef(GdsStructRef { name: "b".into(), xy: GdsPoint::new(0, 0), ..Default::default() }));
    let mut b = GdsStruct::new("b");
    b.elems.push(GdsElement::GdsStructRef(GdsStructRef { name: "a".into(), xy: GdsPoint::new(0, 0), ..Default::default() }));
    lib.structs.push(a);
    lib.structs.push(b);
    let r = Library::from_gds(&lib, None);
    assert!(r.is_err(), "a cyclic GDSII hierarchy must be reported as an error");
}
