//! Native replay of known finding F11 (property C17): the cell orderer embedded in layout21raw (`DepOrder`, used by the
//! protobuf exporter) has no "pending" set.  On a library whose cells instantiate each other in a cycle it recurses
//! without bound: the process dies with a stack overflow instead of returning an error.
//!
//! Place at layout21raw/tests/f11_cyclic_cells.rs and run
//!     cargo test --offline -p layout21raw --test f11_cyclic_cells
//! Expected on the unchanged tree: the test process aborts ("thread ... has overflowed its stack", SIGABRT).
use layout21raw::{Cell, Instance, Layout, Library, Point, Units};

#[test]
fn cyclic_library_export_does_not_return() {
    let mut lib = Library::new("cyc", Units::Nano);
    // two cells, each with a layout; A instantiates B and B instantiates A
    let a = lib.cells.insert(Cell::from(Layout { name: "a".into(), ..Default::default() }));
    let b = lib.cells.insert(Cell::from(Layout { name: "b".into(), ..Default::default() }));
    a.write().unwrap().layout.as_mut().unwrap().insts.push(Instance {
        inst_name: "ib".into(), cell: b.clone(), loc: Point::new(0, 0), reflect_vert: false, angle: None,
    });
    b.write().unwrap().layout.as_mut().unwrap().insts.push(Instance {
        inst_name: "ia".into(), cell: a.clone(), loc: Point::new(0, 0), reflect_vert: false, angle: None,
    });
    // C17: "If the graph has a cycle an error is returned; no ordering is produced and the call does not recurse without bound."
    let r = lib.to_proto();
    assert!(r.is_err(), "a cyclic library must be reported as an error");
}
