"""Replacement pieces for tools/gen_gds_parse.py: content-threaded fold (`*_fold(tr, cc, b, p)`) and the stream tie of the element parsers."""


def fold_built(fn, struct, STRUCTS):
    b = struct + 'Builder'
    fields = STRUCTS[struct]
    has_strans = any(f == 'strans' for f, _, _ in fields)
    dflt = '%s { %s }' % (b, ', '.join('%s: None' % f for f, _, _ in fields))
    lines = ['/// what follows a record of the element in the stream: a PROPATTR is followed by its PROPVALUE (the value of the property just appended)%s; nothing else'
             % (', a STRANS by the MAG / ANGLE records its transform was read from' if has_strans else ''),
             'pub open spec fn %s_sub(r: GdsRecord, sub: Seq<Content>, b: %s, p: Seq<GdsProperty>) -> bool {' % (fn, b),
             '    match r {',
             '        GdsRecord::PropAttr(_) => p.len() >= 1 && sub == seq![cs(0x2C, string_bytes(&p.last().value))],']
    if has_strans:
        lines.append('        GdsRecord::Strans(_, _) => b.strans is Some && b.strans->0 is Some && strans_read(sub, b.strans->0->0),')
    lines += ['        _ => sub.len() == 0,',
              '    }',
              '}',
              '/// one step of the fold: the grammar step of record `r`, and the contents `cc` grow by the record and what follows it',
              'pub open spec fn %s_link(b0: %s, p0: Seq<GdsProperty>, cc0: Seq<Content>, sub: Seq<Content>, r: GdsRecord, b: %s, p: Seq<GdsProperty>, cc: Seq<Content>) -> bool {' % (fn, b, b),
              '    %s_step(b0, p0, r, b, p) && %s_sub(r, sub, b, p) && cc == cc0.push(content(r)) + sub' % (fn, fn),
              '}',
              '/// the builder state and property list reached by applying the grammar steps of `tr`, in order, from nothing — and `cc`, the record contents',
              '/// consumed on the way (the records of `tr`, each followed by what its sub-parser read)',
              'pub open spec fn %s_fold(tr: Seq<GdsRecord>, cc: Seq<Content>, b: %s, p: Seq<GdsProperty>) -> bool decreases tr.len() {' % (fn, b),
              '    if tr.len() == 0 { cc.len() == 0 && b == (%s) && p.len() == 0 }' % dflt,
              '    else { exists|b0: %s, p0: Seq<GdsProperty>, cc0: Seq<Content>, sub: Seq<Content>| %s_fold(tr.drop_last(), cc0, b0, p0) && #[trigger] %s_link(b0, p0, cc0, sub, tr.last(), b, p, cc) }' % (b, fn, fn),
              '}',
              '/// element `x` is what the collected fields build: every required field present and copied, optional fields default to None, the properties as collected',
              'pub open spec fn %s_built(x: %s, b: %s, p: Seq<GdsProperty>) -> bool {' % (fn, struct, b)]
    conj = []
    for f, t, k in fields:
        if f == 'properties':
            conj.append('x.properties@ == p')
        elif k == 'req':
            conj.append('b.%s is Some && x.%s == b.%s->0' % (f, f, f))
        elif k == 'opt':
            conj.append('x.%s == (match b.%s { Some(v) => v, None => None })' % (f, f))
    lines.append('    ' + '\n    && '.join(conj))
    lines.append('}')
    lines.append('/// element `x` is what the parser builds from a record sequence whose consumed contents (before ENDEL) are `cc`')
    lines.append('pub open spec fn %s_from(x: %s, cc: Seq<Content>) -> bool { exists|tr: Seq<GdsRecord>, bb: %s, pp: Seq<GdsProperty>| #[trigger] %s_fold(tr, cc, bb, pp) && %s_built(x, bb, pp) }' % (fn, struct, b, fn, fn))
    lines.append('/// what the element parser guarantees: the element is built from contents `cc`, and `cc` followed by ENDEL are exactly the records consumed from the stream')
    lines.append('pub open spec fn %s_post(pre: GdsParser, post: GdsParser, x: %s) -> bool { exists|cc: Seq<Content>| #[trigger] %s_from(x, cc) && tied_c(pre, post, cc.push(c0(0x11))) }' % (fn, struct, fn))
    return '\n'.join(lines)


DIRECTIVE = r'''//@ fn gds21/src/read.rs :: impl<R> GdsParser<R> :: fn %(fn)s
//@   attr #[verifier::spinoff_prover] #[verifier::rlimit(80)]
//@   ret r
//@   sub R5? /let xy: \[GdsPoint; (\d)\] = match v\.try_into\(\)/ => let xy: [GdsPoint; \1] = match vp_vec_to_array::<\1>(v)
//@   spec
//|     requires pwf(*old(self)),
//|     ensures pwf(*final(self)), pm(*final(self)) <= pm(*old(self)), final(self).rdr.source.data@ == old(self).rdr.source.data@,
//|         // the element returned is built from the fields that the records up to ENDEL set, one grammar step per record, in order;
//|         // `cc`, the contents those records (and their sub-parsers) consumed, followed by ENDEL, are EXACTLY the next records of the stream
//|         r is Ok ==> %(fn)s_post(*old(self), *final(self), r->Ok_0),
//@   before /^        loop \{$/
//|         let ghost mut tr: Seq<GdsRecord> = Seq::empty(); let ghost mut cc: Seq<Content> = Seq::empty(); let ghost mut ended = false;
//@   loop 1
//|             invariant_except_break !ended,
//|             invariant pwf(*self), pm(*self) <= pm(*old(self)), self.rdr.source.data@ == old(self).rdr.source.data@, %(fn)s_fold(tr, cc, b, props@),
//|                 forall|k0: int| #[trigger] at(*old(self), k0) ==> at(*self, k0 + cc.len() + (if ended { 1int } else { 0int }))
//|                     && (if ended { cc.push(c0(0x11)) } else { cc }) =~= pcs(*old(self)).subrange(k0 - 1, k0 - 1 + cc.len() + (if ended { 1int } else { 0int })),
//|             ensures ended,
//|             decreases pm(*self),
//@   before /let r = self\.next\(\)\?;/
//|             let ghost b0 = b; let ghost p0 = props@; let ghost m0 = pm(*self); let ghost pre0 = *self;
//@   after /let r = self\.next\(\)\?;/
//|             let ghost r0 = r; let ghost pre = *self;
//|             proof {
//|                 if r0 is EndElement {
//|                     ended = true;
//|                     assert forall|k0: int| #[trigger] at(*old(self), k0) implies at(*self, k0 + cc.len() + 1) && cc.push(c0(0x11)) =~= pcs(*old(self)).subrange(k0 - 1, k0 + cc.len()) by {
//|                         let k = k0 + cc.len(); assert(at(pre0, k)); assert(content(r0) == pcs(pre0)[k - 1]);
//|                         assert(pcs(*old(self)).subrange(k0 - 1, k0 + cc.len()) =~= pcs(*old(self)).subrange(k0 - 1, k0 - 1 + cc.len()).push(pcs(pre0)[k - 1]));
//|                     }
//|                 }
//|             }
//@   loopend 1
//|             proof {
//|                 assert(pm(*self) < m0);
%(arms)s
//|                 assert(%(fn)s_step(b0, p0, r0, b, props@));
//|                 let sub: Seq<Content> = match r0 {
//|                     GdsRecord::PropAttr(_) => seq![cs(0x2C, string_bytes(&props@.last().value))],
%(strans_sub)s//|                     _ => Seq::<Content>::empty(),
//|                 };
//|                 let cc1 = cc.push(content(r0)) + sub;
//|                 assert(%(fn)s_sub(r0, sub, b, props@));
//|                 let tr1 = tr.push(r0);
//|                 assert(tr1.drop_last() =~= tr); assert(tr1.last() == r0);
//|                 assert(%(fn)s_link(b0, p0, cc, sub, tr1.last(), b, props@, cc1));
//|                 assert(%(fn)s_fold(tr1, cc1, b, props@));
//|                 assert forall|k0: int| #[trigger] at(*old(self), k0) implies at(*self, k0 + cc1.len()) && cc1 =~= pcs(*old(self)).subrange(k0 - 1, k0 - 1 + cc1.len()) by {
//|                     let k = k0 + cc.len(); assert(at(pre0, k)); assert(content(r0) == pcs(pre0)[k - 1]); assert(at(pre, k + 1));
//|                     let cs_ = pcs(*old(self));
//|                     assert(cs_.subrange(k0 - 1, k) =~= cs_.subrange(k0 - 1, k - 1).push(cs_[k - 1]));
//|                     assert(at(*self, k + 1 + sub.len()));
//|                     if sub.len() > 0 { assert(sub =~= cs_.subrange(k, k + sub.len())); }
//|                     assert(cs_.subrange(k0 - 1, k + sub.len()) =~= cs_.subrange(k0 - 1, k) + cs_.subrange(k, k + sub.len()));
//|                 }
//|                 tr = tr1; cc = cc1;
//|             }
//@   before1 /b = b\.properties\(props\);|let b = b\.build\(\)\?;/
//|         let ghost bf = b; let ghost pf = props@;
//@   before /^        Ok\(b\)$/
//|         proof { assert(%(fn)s_fold(tr, cc, bf, pf)); assert(%(fn)s_built(b, bf, pf)); assert(%(fn)s_from(b, cc)); assert(tied_c(*old(self), *self, cc.push(c0(0x11)))); assert(%(fn)s_post(*old(self), *self, b)); }
//@ end
'''

STRANS_SUB = '''//|                     GdsRecord::Strans(_, _) => contents(strans_ts(pre, *self, b.strans->0->0)),
'''


def elem_directive(fn, struct, STRUCTS, arms_text):
    has_strans = any(f == 'strans' for f, _, _ in STRUCTS[struct])
    return DIRECTIVE % {'fn': fn, 'struct': struct, 'arms': arms_text, 'strans_sub': STRANS_SUB if has_strans else ''}
