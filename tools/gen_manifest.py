#!/usr/bin/env python3
"""Generate MANIFEST.json from checks.json + manifest_meta.json (levels, notes, not_applicable)."""
import json, os
V = os.path.dirname(os.path.dirname(os.path.abspath(__file__)))
checks = json.load(open(os.path.join(V, 'checks.json')))
meta = json.load(open(os.path.join(V, 'manifest_meta.json')))
out = {
    "version": 1,
    "setup_cmd": "python3 tools/setup.py",
    "hooks": meta["hooks"],
    "engines": meta["engines"],
    "checks": [],
    "notes": meta["notes"],
    "not_applicable": meta["not_applicable"],
}
for pid in sorted(checks["properties"]):
    m = meta["checks"][pid]
    out["checks"].append({
        "property_id": pid,
        "quick_cmd": "./check %s --tier quick" % pid,
        "thorough_cmd": "./check %s --tier thorough" % pid,
        "evidence_file": "/verif/evidence/%s.json" % pid,
        "replay_cmd_template": "./check --replay {path}",
        "engine": m["engine"],
        "level_claimed": {"category": m.get("category", "proof"), "text": m["level_text"], "design_ref": m.get("design_ref", "DESIGN.md section 4")},
        "level_note": m["level_note"],
        "technique": m["technique"],
    })
claimed = set(checks["properties"]); listed = set(x["property_id"] for x in out["not_applicable"])
for l in open(os.path.join(V, "properties.jsonl")):
    pid = json.loads(l)["id"]
    if pid not in claimed and pid not in listed:
        out["not_applicable"].append({"property_id": pid, "reason": "not claimed at this commit: the contract unit planned for it in DESIGN.md section 4 is not built yet"})
json.dump(out, open(os.path.join(V, 'MANIFEST.json'), 'w'), indent=1)
print('MANIFEST.json written:', len(out['checks']), 'checks,', len(out['not_applicable']), 'not applicable')
