#!/usr/bin/env python3
"""Generate units/gds_parse/unit.rs: models of the derive_builder builders (from a table copied from the
`#[builder(..)]` attributes in gds21/src/data.rs), per-element step predicates typed from the GDSII grammar
(which record sets which field), and the extraction directives for GdsParser's routines.
Run once by hand after editing the tables; the generated template is committed."""
import os, sys
sys.path.insert(0, os.path.dirname(os.path.abspath(__file__)))
import gen_parse_ext
V = os.path.dirname(os.path.dirname(os.path.abspath(__file__)))

# struct -> [(field, type, kind)]   kind: 'req' (required), 'opt' (Option<U>, default None; setter takes U), 'vec' (Vec, default empty)
STRUCTS = {
    'GdsBoundary': [('layer', 'i16', 'req'), ('datatype', 'i16', 'req'), ('xy', 'Vec<GdsPoint>', 'req'),
                    ('elflags', 'GdsElemFlags', 'opt'), ('plex', 'GdsPlex', 'opt'), ('properties', 'Vec<GdsProperty>', 'vec')],
    'GdsPath': [('layer', 'i16', 'req'), ('datatype', 'i16', 'req'), ('xy', 'Vec<GdsPoint>', 'req'),
                ('width', 'i32', 'opt'), ('path_type', 'i16', 'opt'), ('begin_extn', 'i32', 'opt'), ('end_extn', 'i32', 'opt'),
                ('elflags', 'GdsElemFlags', 'opt'), ('plex', 'GdsPlex', 'opt'), ('properties', 'Vec<GdsProperty>', 'vec')],
    'GdsStructRef': [('name', 'String', 'req'), ('xy', 'GdsPoint', 'req'), ('strans', 'GdsStrans', 'opt'),
                     ('elflags', 'GdsElemFlags', 'opt'), ('plex', 'GdsPlex', 'opt'), ('properties', 'Vec<GdsProperty>', 'vec')],
    'GdsArrayRef': [('name', 'String', 'req'), ('xy', '[GdsPoint; 3]', 'req'), ('cols', 'i16', 'req'), ('rows', 'i16', 'req'),
                    ('strans', 'GdsStrans', 'opt'), ('elflags', 'GdsElemFlags', 'opt'), ('plex', 'GdsPlex', 'opt'),
                    ('properties', 'Vec<GdsProperty>', 'vec')],
    'GdsTextElem': [('string', 'String', 'req'), ('layer', 'i16', 'req'), ('texttype', 'i16', 'req'), ('xy', 'GdsPoint', 'req'),
                    ('presentation', 'GdsPresentation', 'opt'), ('path_type', 'i16', 'opt'), ('width', 'i32', 'opt'),
                    ('strans', 'GdsStrans', 'opt'), ('elflags', 'GdsElemFlags', 'opt'), ('plex', 'GdsPlex', 'opt'),
                    ('properties', 'Vec<GdsProperty>', 'vec')],
    'GdsNode': [('layer', 'i16', 'req'), ('nodetype', 'i16', 'req'), ('xy', 'Vec<GdsPoint>', 'req'),
                ('elflags', 'GdsElemFlags', 'opt'), ('plex', 'GdsPlex', 'opt'), ('properties', 'Vec<GdsProperty>', 'vec')],
    'GdsBox': [('layer', 'i16', 'req'), ('boxtype', 'i16', 'req'), ('xy', '[GdsPoint; 5]', 'req'),
               ('elflags', 'GdsElemFlags', 'opt'), ('plex', 'GdsPlex', 'opt'), ('properties', 'Vec<GdsProperty>', 'vec')],
    'GdsStruct': [('name', 'String', 'req'), ('dates', 'GdsDateTimes', 'req'), ('elems', 'Vec<GdsElement>', 'req')],
    'GdsLibrary': [('name', 'String', 'req'), ('version', 'i16', 'req'), ('dates', 'GdsDateTimes', 'req'), ('units', 'GdsUnits', 'req'),
                   ('structs', 'Vec<GdsStruct>', 'req')],
}
UNSUPPORTED = ['libdirsize', 'srfname', 'libsecur', 'reflibs', 'fonts', 'attrtable', 'generations', 'format_type']


def builder(name, fields):
    b = name + 'Builder'
    def bty(t, k):
        return 'Option<Option<%s>>' % t if k == 'opt' else 'Option<%s>' % t
    out = ['/// model of #[derive(Builder)] #[builder(pattern = "owned", setter(into))] on %s (derive_builder 0.9): one Option per field,' % name,
           '/// setters store, build() fails exactly when a field without `#[builder(default)]` was never set — ASSUMPTION',
           'pub struct %s { %s }' % (b, ', '.join('pub %s: %s' % (f, bty(t, k)) for f, t, k in fields))]
    out.append('impl Default for %s { fn default() -> (r: Self) ensures %s { %s { %s } } }' % (
        b, ', '.join('r.%s is None' % f for f, _, _ in fields), b, ', '.join('%s: None' % f for f, _, _ in fields)))
    out.append('impl %s {' % b)
    for f, t, k in fields:
        val = 'Some(Some(v))' if k == 'opt' else 'Some(v)'
        out.append('    pub fn %s(self, v: %s) -> (r: Self) ensures r == (%s { %s: %s, ..self }) { %s { %s: %s, ..self } }' % (f, t, b, f, val, b, f, val))
    req = [f for f, _, k in fields if k == 'req']
    ens = ['(r is Ok) == (%s)' % (' && '.join('self.%s is Some' % f for f in req) or 'true')]
    for f, t, k in fields:
        if k == 'req':
            ens.append('r is Ok ==> r->Ok_0.%s == self.%s->0' % (f, f))
        elif k == 'opt':
            ens.append('r is Ok ==> r->Ok_0.%s == (match self.%s { Some(x) => x, None => None })' % (f, f))
        else:
            ens.append('r is Ok ==> (match self.%s { Some(x) => r->Ok_0.%s == x, None => r->Ok_0.%s@.len() == 0 })' % (f, f, f))
    out.append('    #[verifier::external_body]')
    out.append('    pub fn build(self) -> (r: Result<%s, String>)\n        ensures %s,\n    { unimplemented!() }' % (name, ',\n            '.join(ens)))
    out.append('}')
    return '\n'.join(out)


# element parsers: fn name, struct, builder var is `b`; arms: record pattern -> (field, value expr in spec, special)
COMMON = [('Plex(d)', 'plex', 'GdsPlex(d)'), ('ElemFlags(d0, d1)', 'elflags', 'GdsElemFlags(d0, d1)')]
ELEMS = {
    'parse_boundary': ('GdsBoundary', [('Layer(d)', 'layer', 'd'), ('DataType(d)', 'datatype', 'd'), ('Xy(d)', 'xy', 'VEC')] + COMMON),
    'parse_path': ('GdsPath', [('Layer(d)', 'layer', 'd'), ('DataType(d)', 'datatype', 'd'), ('Xy(d)', 'xy', 'VEC'), ('Width(d)', 'width', 'd'),
                               ('PathType(d)', 'path_type', 'd'), ('BeginExtn(d)', 'begin_extn', 'd'), ('EndExtn(d)', 'end_extn', 'd')] + COMMON),
    'parse_text_elem': ('GdsTextElem', [('Layer(d)', 'layer', 'd'), ('TextType(d)', 'texttype', 'd'), ('Xy(d)', 'xy', 'PT'), ('String(d)', 'string', 'd'),
                                        ('Presentation(d0, d1)', 'presentation', 'GdsPresentation(d0, d1)'), ('PathType(d)', 'path_type', 'd'),
                                        ('Width(d)', 'width', 'd'), ('Strans(d0, d1)', 'strans', 'STRANS')] + COMMON),
    'parse_node': ('GdsNode', [('Layer(d)', 'layer', 'd'), ('Nodetype(d)', 'nodetype', 'd'), ('Xy(d)', 'xy', 'VEC')] + COMMON),
    'parse_box': ('GdsBox', [('Layer(d)', 'layer', 'd'), ('BoxType(d)', 'boxtype', 'd'), ('Xy(d)', 'xy', 'ARR5')] + COMMON),
    'parse_struct_ref': ('GdsStructRef', [('StructRefName(d)', 'name', 'd'), ('Xy(d)', 'xy', 'PT'), ('Strans(d0, d1)', 'strans', 'STRANS')] + COMMON),
    'parse_array_ref': ('GdsArrayRef', [('StructRefName(d)', 'name', 'd'), ('ColRow { cols, rows }', 'COLROW', ''), ('Xy(d)', 'xy', 'ARR3'),
                                        ('Strans(d0, d1)', 'strans', 'STRANS')] + COMMON),
}


def step_pred(fn, struct, arms):
    b = struct + 'Builder'
    fields = [f for f, _, _ in STRUCTS[struct]]
    def same_except(ex):
        return ' && '.join('b1.%s == b0.%s' % (f, f) for f in fields if f not in ex)
    lines = ['/// GRAMMAR STEP for %s: what one record of the element does to the fields collected so far (typed from the GDSII record meanings,' % struct,
             '/// independent of the code): each record sets exactly its own field, a PROPATTR appends one property with that attribute number',
             'pub open spec fn %s_step(b0: %s, p0: Seq<GdsProperty>, r: GdsRecord, b1: %s, p1: Seq<GdsProperty>) -> bool {' % (fn, b, b),
             '    match r {']
    for pat, field, val in arms:
        if field == 'COLROW':
            lines.append('        GdsRecord::%s => b1 == (%s { cols: Some(cols), rows: Some(rows), ..b0 }) && p1 == p0,' % (pat, b))
        elif val == 'VEC':
            lines.append('        GdsRecord::%s => b1.%s is Some && xy_of(b1.%s->0@, d@) && %s && p1 == p0,' % (pat, field, field, same_except([field])))
        elif val == 'PT':
            lines.append('        GdsRecord::%s => d@.len() == 2 && b1.%s is Some && b1.%s->0.x == d@[0] && b1.%s->0.y == d@[1] && %s && p1 == p0,' % (pat, field, field, field, same_except([field])))
        elif val in ('ARR3', 'ARR5'):
            n = val[3]
            lines.append('        GdsRecord::%s => d@.len() == %d && b1.%s is Some && xy_of(b1.%s->0@, d@) && %s && p1 == p0,' % (pat, 2 * int(n), field, field, same_except([field])))
        elif val == 'STRANS':
            lines.append('        GdsRecord::%s => b1.%s is Some && b1.%s->0 is Some && strans_flags_ok(b1.%s->0->0, d0, d1) && %s && p1 == p0,' % (pat, field, field, field, same_except([field])))
        else:
            opt = [k for f, _, k in STRUCTS[struct] if f == field][0] == 'opt'
            sv = 'Some(Some(%s))' % val if opt else 'Some(%s)' % val
            lines.append('        GdsRecord::%s => b1 == (%s { %s: %s, ..b0 }) && p1 == p0,' % (pat, b, field, sv))
    lines.append('        GdsRecord::PropAttr(attr) => b1 == b0 && p1.len() == p0.len() + 1 && p1.drop_last() == p0 && p1.last().attr == attr,')
    lines.append('        _ => false,')
    lines.append('    }')
    lines.append('}')
    return '\n'.join(lines)


def fold_built(fn, struct):
    b = struct + 'Builder'
    fields = STRUCTS[struct]
    dflt = '%s { %s }' % (b, ', '.join('%s: None' % f for f, _, _ in fields))
    lines = ['/// the builder state and property list reached by applying the grammar steps of `tr`, in order, from nothing',
             'pub open spec fn %s_fold(tr: Seq<GdsRecord>, b: %s, p: Seq<GdsProperty>) -> bool decreases tr.len() {' % (fn, b),
             '    if tr.len() == 0 { b == (%s) && p.len() == 0 }' % dflt,
             '    else { exists|b0: %s, p0: Seq<GdsProperty>| %s_fold(tr.drop_last(), b0, p0) && #[trigger] %s_step(b0, p0, tr.last(), b, p) }' % (b, fn, fn),
             '}',
             '/// element `x` is what the collected fields build: every required field present and copied, optional fields default to None, the properties as collected',
             'pub open spec fn %s_built(x: %s, b: %s, p: Seq<GdsProperty>) -> bool {' % (fn, struct, b)]
    conj = []
    for f, t, k in fields:
        if f == 'properties':
            conj.append('x.properties@ == p')
        elif k == 'req':
            conj.append('b.%s is Some && x.%s == b.%s->0' % (f, f, f))
        elif k == 'opt':
            conj.append('x.%s == (match b.%s { Some(v) => v, None => None })' % (f, f))
    lines.append('    ' + '\n    && '.join(conj))
    lines.append('}')
    return '\n'.join(lines)


def arm_proof(fn, struct, arms):
    b = struct + 'Builder'
    fields = [f for f, _, _ in STRUCTS[struct]]
    out = ['//|                 match r0 {']
    for pat, field, val in arms:
        if field == 'COLROW':
            body = 'assert(b == (%s { cols: Some(cols), rows: Some(rows), ..b0 }));' % b
        elif val in ('VEC', 'PT', 'ARR3', 'ARR5', 'STRANS'):
            body = 'assert(b.%s is Some); ' % field + ' '.join('assert(b.%s == b0.%s);' % (f, f) for f in fields if f != field)
        else:
            opt = [k for f, _, k in STRUCTS[struct] if f == field][0] == 'opt'
            sv = 'Some(Some(%s))' % val if opt else 'Some(%s)' % val
            body = 'assert(b == (%s { %s: %s, ..b0 }));' % (b, field, sv)
        out.append('//|                     GdsRecord::%s => { %s assert(props@ == p0); }' % (pat, body))
    out.append('//|                     GdsRecord::PropAttr(attr) => { assert(b == b0); assert(props@.drop_last() == p0); assert(props@.last().attr == attr); }')
    out.append('//|                     _ => { assert(false); }')
    out.append('//|                 }')
    return '\n'.join(out)


def elem_directive(fn, struct):
    return '''//@ fn gds21/src/read.rs :: impl<R> GdsParser<R> :: fn %(fn)s
//@   attr #[verifier::spinoff_prover] #[verifier::rlimit(60)]
//@   ret r
//@   sub R5? /let xy: \\[GdsPoint; (\\d)\\] = match v\\.try_into\\(\\)/ => let xy: [GdsPoint; \\1] = match vp_vec_to_array::<\\1>(v)
//@   spec
//|     requires pwf(*old(self)),
//|     ensures pwf(*final(self)), pm(*final(self)) <= pm(*old(self)), final(self).rdr.source.data@ == old(self).rdr.source.data@,
//|         // the element returned is built from the fields that the records up to ENDEL set, one grammar step per record, in order
//|         r is Ok ==> exists|tr: Seq<GdsRecord>, bb: %(struct)sBuilder, pp: Seq<GdsProperty>| #[trigger] %(fn)s_fold(tr, bb, pp) && %(fn)s_built(r->Ok_0, bb, pp),
//@   before /^        loop \\{$/
//|         let ghost mut tr: Seq<GdsRecord> = Seq::empty();
//@   loop 1
//|             invariant pwf(*self), pm(*self) <= pm(*old(self)), self.rdr.source.data@ == old(self).rdr.source.data@, %(fn)s_fold(tr, b, props@),
//|             decreases pm(*self),
//@   before /let r = self\\.next\\(\\)\\?;/
//|             let ghost b0 = b; let ghost p0 = props@; let ghost m0 = pm(*self);
//@   after /let r = self\\.next\\(\\)\\?;/
//|             let ghost r0 = r;
//@   loopend 1
//|             proof {
//|                 assert(pm(*self) < m0);
%(arms)s
//|                 assert(%(fn)s_step(b0, p0, r0, b, props@));
//|                 let tr1 = tr.push(r0);
//|                 assert(tr1.drop_last() =~= tr); assert(tr1.last() == r0);
//|                 assert(%(fn)s_fold(tr1.drop_last(), b0, p0));
//|                 assert(%(fn)s_step(b0, p0, tr1.last(), b, props@));
//|                 assert(%(fn)s_fold(tr1, b, props@));
//|                 tr = tr1;
//|             }
//@   before1 /b = b\\.properties\\(props\\);|let b = b\\.build\\(\\)\\?;/
//|         let ghost bf = b; let ghost pf = props@;
//@   before /^        Ok\\(b\\)$/
//|         proof { assert(%(fn)s_fold(tr, bf, pf)); assert(%(fn)s_built(b, bf, pf)); }
//@ end
''' % {'fn': fn, 'struct': struct, 'arms': arm_proof(fn, struct, ELEMS[fn][1])}


HEAD = r'''// Unit U4 gds_parse: gds21 record stream -> library tree (GdsParser) (C01, C03, C10).   GENERATED by tools/gen_gds_parse.py
use vstd::prelude::*;
use vstd::string::*;
use vstd::utf8::*;
use std::convert::{TryFrom, TryInto};
verus! {
global size_of usize == 8;
//@ include units/common/float.inc.rs
//@ include units/gds_codec/spec.inc.rs
//@ include units/gds_codec/points.inc.rs
//@ include units/gds_codec/reader.inc.rs
//@ include units/gds_codec/lemmas.inc.rs
//@ include units/gds_tree/tree.inc.rs

// =====================================================================================================
// MODELS (rule R5)
// =====================================================================================================
impl vstd::std_specs::convert::FromSpecImpl<String> for GdsError {
    open spec fn obeys_from_spec() -> bool { true }
    open spec fn from_spec(e: String) -> GdsError { GdsError::Str(e) }
}
impl From<String> for GdsError { fn from(e: String) -> Self { GdsError::Str(e) } }
// model of #[derive(derive_more::From)] on GdsElement — assumption
'''


def main():
    out = [HEAD]
    for t in ('GdsBoundary', 'GdsPath', 'GdsStructRef', 'GdsArrayRef', 'GdsTextElem', 'GdsNode', 'GdsBox'):
        out.append('impl vstd::std_specs::convert::FromSpecImpl<%s> for GdsElement { open spec fn obeys_from_spec() -> bool { true } open spec fn from_spec(b: %s) -> GdsElement { GdsElement::%s(b) } }' % (t, t, t))
        out.append('impl From<%s> for GdsElement { fn from(b: %s) -> GdsElement { GdsElement::%s(b) } }' % (t, t, t))
    out.append('impl Default for GdsStrans { fn default() -> (r: Self) ensures !r.reflected, !r.abs_mag, !r.abs_angle, r.mag is None, r.angle is None { GdsStrans { reflected: false, abs_mag: false, abs_angle: false, mag: None, angle: None } } }')
    out.append('impl Default for Unsupported { fn default() -> Self { Unsupported } }')
    for name, fields in STRUCTS.items():
        if name == 'GdsLibrary':
            # the eight Unsupported fields have #[builder(default)] and no setter is ever called
            fields = fields
        out.append(builder(name, fields) if name != 'GdsLibrary' else builder(name, fields).replace(
            'r is Ok ==> r->Ok_0.structs == self.structs->0', 'r is Ok ==> r->Ok_0.structs == self.structs->0'))
    out.append(open(os.path.join(V, 'units', 'gds_parse', 'parser_core.rs')).read())
    for fn, (struct, arms) in ELEMS.items():
        out.append(step_pred(fn, struct, arms))
        out.append(gen_parse_ext.fold_built(fn, struct, STRUCTS))
    out.append('impl GdsParser {')
    for fn, (struct, arms) in ELEMS.items():
        out.append(gen_parse_ext.elem_directive(fn, struct, STRUCTS, arm_proof(fn, struct, ELEMS[fn][1])))
    out.append(open(os.path.join(V, 'units', 'gds_parse', 'parser_top.rs')).read())
    out.append('}')
    out.append('//@ include units/gds_parse/inversion.inc.rs')
    out.append('//@ include units/gds_parse/inversion_top.inc.rs')
    out.append('proof fn canary_pwf(p: GdsParser) requires pwf(p), p.numread == 3 ensures false {}')
    out.append('}\nfn main() {}\n')
    open(os.path.join(V, 'units', 'gds_parse', 'unit.rs'), 'w').write('\n'.join(out))
    print('written units/gds_parse/unit.rs')


if __name__ == '__main__':
    main()
