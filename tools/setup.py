#!/usr/bin/env python3
"""setup: nothing to build (python + verus + kani are pre-installed); verify the tools answer, offline."""
import shutil, subprocess, sys, os
ok = True
for t in ('verus', 'cargo', 'rsync'):
    if not shutil.which(t):
        print('missing tool:', t); ok = False
try:
    out = subprocess.run(['cargo', 'kani', '--version'], capture_output=True, text=True, timeout=120).stdout
    print('kani:', out.strip())
except Exception as e:
    print('cargo kani not answering:', e); ok = False
os.makedirs(os.path.join(os.path.dirname(os.path.dirname(os.path.abspath(__file__))), 'build'), exist_ok=True)
os.makedirs(os.path.join(os.path.dirname(os.path.dirname(os.path.abspath(__file__))), 'evidence'), exist_ok=True)
sys.exit(0 if ok else 1)
