#!/usr/bin/env python3
"""Apply each mutants/<PROP>__<name>.patch to a scratch worktree of /repo and require `./check PROP` to exit 1.
usage: tools/selftest.py [substring-filter]"""
import glob, os, subprocess, sys
V = os.path.dirname(os.path.dirname(os.path.abspath(__file__)))
W = os.environ.get('VERIF_MUT', '/var/tmp/l21-mut')
flt = sys.argv[1] if len(sys.argv) > 1 else ''
if not os.path.isdir(W):
    subprocess.run(['git', '-C', '/repo', 'worktree', 'add', '-q', '--detach', W, 'HEAD'], check=True)
subprocess.run(['git', '-C', W, 'checkout', '-q', '--detach', subprocess.run(['git', '-C', '/repo', 'rev-parse', 'HEAD'], capture_output=True, text=True).stdout.strip()], check=True)
res = []
for p in sorted(glob.glob(os.path.join(V, 'mutants', '*.patch'))):
    name = os.path.basename(p)[:-6]
    if flt not in name:
        continue
    prop = name.split('__')[0]
    subprocess.run(['git', '-C', W, 'checkout', '-q', '--', '.'], check=True)
    a = subprocess.run(['git', '-C', W, 'apply', p], capture_output=True, text=True)
    if a.returncode != 0:
        res.append((name, 'PATCH-DOES-NOT-APPLY', a.stderr.strip()[:200]))
        continue
    r = subprocess.run([os.path.join(V, 'check'), prop, '--repo', W], capture_output=True, text=True, cwd=V)
    viol = [l for l in r.stdout.split('\n') if l.startswith('VIOLATION') or l.startswith('obligation failed') or l.startswith('UNDECIDED')]
    res.append((name, {0: 'MISSED', 1: 'caught', 2: 'undecided'}.get(r.returncode, 'rc=%d' % r.returncode), ' | '.join(viol)[:400]))
    print(res[-1], flush=True)
subprocess.run(['git', '-C', W, 'checkout', '-q', '--', '.'], check=True)
bad = [r for r in res if r[1] != 'caught']
print('\n%d mutants, %d caught, %d not caught' % (len(res), len(res) - len(bad), len(bad)))
for b in bad:
    print('  ', b)
