#!/usr/bin/env python3
"""Re-run the owning check on every seeded change (seeded/<id>/patch.diff) and update meta.json['detected'].
usage: tools/seed_rerun.py [filter]"""
import glob, json, os, subprocess, sys
V = os.path.dirname(os.path.dirname(os.path.abspath(__file__)))
W = os.environ.get('VERIF_MUT', '/var/tmp/l21-mut')
flt = sys.argv[1] if len(sys.argv) > 1 else ''
head = subprocess.run(['git', '-C', '/repo', 'rev-parse', 'HEAD'], capture_output=True, text=True).stdout.strip()
if not os.path.isdir(W):
    subprocess.run(['git', '-C', '/repo', 'worktree', 'add', '-q', '--detach', W, 'HEAD'], check=True)
subprocess.run('git -C %s checkout -q -- . && git -C %s checkout -q --detach %s' % (W, W, head), shell=True, check=True)
rows = []
for d in sorted(glob.glob(os.path.join(V, 'seeded', '*'))):
    sid = os.path.basename(d)
    if flt not in sid:
        continue
    meta = json.load(open(os.path.join(d, 'meta.json')))
    subprocess.run(['git', '-C', W, 'checkout', '-q', '--', '.'], check=True)
    a = subprocess.run(['git', '-C', W, 'apply', os.path.join(d, 'patch.diff')], capture_output=True, text=True)
    if a.returncode != 0:
        rows.append((sid, 'patch does not apply to HEAD', ''))
        continue
    c = subprocess.run([os.path.join(V, 'check'), meta['property'], '--repo', W], capture_output=True, text=True, cwd=V)
    out = [l for l in c.stdout.split('\n') if l.startswith(('VIOLATION', 'obligation failed', 'UNDECIDED', 'OK'))][:4]
    meta['detected'] = c.returncode == 1
    meta['last_check'] = {'rc': c.returncode, 'output': out, 'repo_commit': head}
    json.dump(meta, open(os.path.join(d, 'meta.json'), 'w'), indent=1)
    rows.append((sid, {0: 'MISSED', 1: 'caught', 2: 'undecided'}.get(c.returncode, str(c.returncode)), (out[0] if out else '')[:160]))
    print(rows[-1], flush=True)
subprocess.run(['git', '-C', W, 'checkout', '-q', '--', '.'], check=True)
print('\n%d seeded changes: %d caught, %d undecided, %d missed' % (len(rows), sum(r[1] == 'caught' for r in rows), sum(r[1] == 'undecided' for r in rows), sum(r[1] == 'MISSED' for r in rows)))
