#!/bin/bash
# usage: tools/mkmutant.sh <PROP>__<name> <file-relative-to-repo> <sed-expression>
# creates mutants/<PROP>__<name>.patch from a one-line sed edit applied to a scratch worktree
set -e
W=${VERIF_MUT:-/var/tmp/l21-mut}
git -C $W checkout -q -- . 
sed -i "$3" $W/$2
if git -C $W diff --quiet; then echo "NO CHANGE for $1"; exit 1; fi
git -C $W diff > /verif/mutants/$1.patch
git -C $W checkout -q -- .
echo "created mutants/$1.patch"
