#!/usr/bin/env python3
"""Confirm a seeded change in a scratch worktree, then store it under /verif/seeded/<id>/ and run the owning check on it.
usage: tools/seed_confirm.py <src-dir with patch.diff, demo.rs, notes.md> <PROP> <id> <crate> [demo-dest relative to repo]"""
import json, os, shutil, subprocess, sys, time
V = os.path.dirname(os.path.dirname(os.path.abspath(__file__)))
src, prop, sid, crate = sys.argv[1:5]
dest = sys.argv[5] if len(sys.argv) > 5 else '%s/tests/demo.rs' % crate
W = os.environ.get('VERIF_PROBE', '/var/tmp/l21-probe')
head = subprocess.run(['git', '-C', '/repo', 'rev-parse', 'HEAD'], capture_output=True, text=True).stdout.strip()
def sh(cmd, **kw):
    return subprocess.run(cmd, shell=True, capture_output=True, text=True, **kw)
sh('git -C %s checkout -q -- . && git -C %s clean -fdq && git -C %s checkout -q --detach %s' % (W, W, W, head))
env = dict(os.environ, CARGO_TARGET_DIR='/repo/target')
def demo():
    os.makedirs(os.path.dirname(os.path.join(W, dest)), exist_ok=True)
    shutil.copy(os.path.join(src, 'demo.rs'), os.path.join(W, dest))
    r = subprocess.run(['cargo', 'test', '--offline', '-p', crate, '--test', os.path.basename(dest)[:-3]], cwd=W, env=env, capture_output=True, text=True, timeout=1800)
    os.remove(os.path.join(W, dest))
    return r.returncode == 0, (r.stdout + r.stderr)[-1500:]
ran = {}
ok0, out0 = demo()
ran['demo_without_change_passes'] = ok0
a = sh('git -C %s apply %s' % (W, os.path.join(src, 'patch.diff')))
ran['patch_applies'] = a.returncode == 0
ok1, out1 = demo()
ran['demo_with_change_fails'] = not ok1
t = subprocess.run(['cargo', 'test', '--workspace', '--no-fail-fast', '--offline'], cwd=W, env=env, capture_output=True, text=True, timeout=3600)
failed = [l for l in t.stdout.split('\n') if l.startswith('test ') and l.rstrip().endswith('FAILED')]
ran['suite_failures_with_change'] = failed
ran['suite_ok_with_change'] = all('it_has_gds_properties' in f for f in failed)
# run the owning check on the changed tree
c = subprocess.run([os.path.join(V, 'check'), prop, '--repo', W], capture_output=True, text=True, cwd=V)
ran['check_rc'] = c.returncode
ran['check_output'] = [l for l in c.stdout.split('\n') if l.startswith(('VIOLATION', 'obligation failed', 'UNDECIDED', 'OK'))][:6]
sh('git -C %s checkout -q -- . && git -C %s clean -fdq' % (W, W))
good = ran['patch_applies'] and ok0 and not ok1 and ran['suite_ok_with_change']
print(json.dumps(ran, indent=1))
if good:
    d = os.path.join(V, 'seeded', sid)
    os.makedirs(d, exist_ok=True)
    shutil.copy(os.path.join(src, 'patch.diff'), d)
    shutil.copy(os.path.join(src, 'demo.rs'), d)
    if os.path.exists(os.path.join(src, 'notes.md')):
        shutil.copy(os.path.join(src, 'notes.md'), d)
    meta = {'property': prop, 'id': sid, 'repo_commit': head, 'demo_path': dest, 'crate': crate,
            'needs_to_manifest': '(see notes.md)', 'confirmed': ran,
            'commands': ['cargo test --offline -p %s --test %s (without change: pass; with change: fail)' % (crate, os.path.basename(dest)[:-3]),
                         'cargo test --workspace --no-fail-fast --offline (with change: only the known-failing it_has_gds_properties fails)',
                         './check %s --repo <worktree with the change>' % prop],
            'detected': c.returncode == 1}
    json.dump(meta, open(os.path.join(d, 'meta.json'), 'w'), indent=1)
    print('KEPT as seeded/%s  detected=%s' % (sid, c.returncode == 1))
else:
    print('NOT KEPT')
