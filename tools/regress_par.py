#!/usr/bin/env python3
"""Parallel regression: every mutants/*.patch must be caught (exit 1) and every seeded/<id>/patch.diff is re-run, each on its own scratch
worktree of /repo HEAD with its own Verus build directory.  usage: tools/regress_par.py [-j N] [mutants|seeds|all] [substring-filter, alternatives separated by '|']
Results: one line per change; summary at the end; seeded/<id>/meta.json `last_check` is updated for seeds."""
import glob, json, os, subprocess, sys, threading, queue, shutil
V = os.path.dirname(os.path.dirname(os.path.abspath(__file__)))
args = sys.argv[1:]
J = 4
if '-j' in args:
    i = args.index('-j'); J = int(args[i + 1]); del args[i:i + 2]
what = args[0] if args else 'all'
flt = args[1] if len(args) > 1 else ''
head = subprocess.run(['git', '-C', '/repo', 'rev-parse', 'HEAD'], capture_output=True, text=True).stdout.strip()
jobs = queue.Queue()
if what in ('mutants', 'all'):
    for p in sorted(glob.glob(os.path.join(V, 'mutants', '*.patch'))):
        name = os.path.basename(p)[:-6]
        if any(f in name for f in flt.split('|')):
            jobs.put(('mutant', name, name.split('__')[0], p))
if what in ('seeds', 'all'):
    for d in sorted(glob.glob(os.path.join(V, 'seeded', '*'))):
        name = os.path.basename(d)
        if any(f in name for f in flt.split('|')) and os.path.exists(os.path.join(d, 'patch.diff')):
            jobs.put(('seed', name, name.split('-')[0], os.path.join(d, 'patch.diff')))
results = []
lock = threading.Lock()
def worker(k):
    W = '/var/tmp/l21-par-%d' % k
    B = '/var/tmp/vx/build-par-%d' % k
    if os.path.isdir(W):
        subprocess.run(['git', '-C', '/repo', 'worktree', 'remove', '--force', W])
    subprocess.run(['git', '-C', '/repo', 'worktree', 'add', '-q', '--detach', W, head], check=True)
    env = dict(os.environ, VERIF_BUILD_DIR=B)
    while True:
        try:
            kind, name, prop, patch = jobs.get_nowait()
        except queue.Empty:
            break
        subprocess.run(['git', '-C', W, 'checkout', '-q', '--', '.'], check=True)
        subprocess.run(['git', '-C', W, 'clean', '-fdq'], check=True)
        a = subprocess.run(['git', '-C', W, 'apply', patch], capture_output=True, text=True)
        if a.returncode != 0:
            res = (kind, name, 'PATCH-DOES-NOT-APPLY', a.stderr.strip()[:200], [])
        else:
            r = subprocess.run([os.path.join(V, 'check'), prop, '--repo', W], capture_output=True, text=True, cwd=V, env=env)
            lines = [l for l in r.stdout.split('\n') if l.startswith(('VIOLATION', 'obligation failed', 'UNDECIDED'))]
            res = (kind, name, {0: 'MISSED', 1: 'caught', 2: 'undecided'}.get(r.returncode, 'rc=%d' % r.returncode), ' | '.join(lines)[:300], lines[:6], r.returncode)
        with lock:
            results.append(res)
            print(res[:4], flush=True)
        if kind == 'seed' and len(res) > 5:
            mp = os.path.join(V, 'seeded', name, 'meta.json')
            try:
                m = json.load(open(mp))
                m['last_check'] = {'rc': res[5], 'output': res[4], 'repo_commit': head}
                m['detected'] = res[5] == 1
                json.dump(m, open(mp, 'w'), indent=1)
            except Exception as e:
                print('meta update failed', name, e)
    subprocess.run(['git', '-C', '/repo', 'worktree', 'remove', '--force', W])
    shutil.rmtree(B, ignore_errors=True)
ts = [threading.Thread(target=worker, args=(k,)) for k in range(J)]
for t in ts: t.start()
for t in ts: t.join()
for kind in ('mutant', 'seed'):
    rs = [r for r in results if r[0] == kind]
    if rs:
        bad = [r for r in rs if r[2] != 'caught']
        print('\n%d %ss: %d caught, %d not caught' % (len(rs), kind, len(rs) - len(bad), len(bad)))
        for b in sorted(bad, key=lambda r: r[1]):
            print('  ', b[1:4])
