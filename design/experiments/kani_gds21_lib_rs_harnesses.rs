#[cfg(kani)]
mod verif_harness {
    use crate::data::*;
    fn stub_format(_a: std::fmt::Arguments<'_>) -> String { String::new() }
    fn fixed_dates() -> GdsDateTimes {
        let d = GdsDateTime { year: kani::any(), month: 1, day: 2, hour: 3, minute: 4, second: 5 };
        GdsDateTimes { modified: d.clone(), accessed: d }
    }
    #[kani::proof]
    #[kani::unwind(14)]
    #[kani::stub(alloc::fmt::format, stub_format)]
    fn lib_roundtrip_boundary() {
        let b = GdsBoundary { layer: kani::any(), datatype: kani::any(),
            xy: vec![GdsPoint::new(kani::any(), kani::any())],
            elflags: if kani::any() { Some(GdsElemFlags(kani::any(), kani::any())) } else { None },
            plex: None, properties: Vec::new() };
        let lib = GdsLibrary { name: "ab".to_string(), version: kani::any(), dates: fixed_dates(), units: GdsUnits(0.0, 0.0),
            structs: vec![GdsStruct { name: "c".to_string(), dates: fixed_dates(), elems: vec![GdsElement::GdsBoundary(b)] }],
            libdirsize: Unsupported, srfname: Unsupported, libsecur: Unsupported, reflibs: Unsupported, fonts: Unsupported,
            attrtable: Unsupported, generations: Unsupported, format_type: Unsupported };
        let mut bytes: Vec<u8> = Vec::new();
        let r = lib.write(&mut bytes);
        assert!(r.is_ok());
        let lib2 = GdsLibrary::from_bytes(&bytes);
        match lib2 { Ok(l2) => assert!(l2 == lib), Err(_) => assert!(false) }
    }
}
