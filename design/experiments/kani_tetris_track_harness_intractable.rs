#[cfg(kani)]
mod kani_harness {
    use super::*;
    fn tiles(t: &Track, lo: isize, hi: isize) -> bool {
        if t.segments.len() == 0 { return false; }
        if t.segments[0].start.0 != lo { return false; }
        if t.segments[t.segments.len()-1].stop.0 != hi { return false; }
        let mut i = 0;
        while i < t.segments.len() {
            if t.segments[i].start.0 > t.segments[i].stop.0 { return false; }
            if i + 1 < t.segments.len() && t.segments[i].stop.0 != t.segments[i+1].start.0 { return false; }
            i += 1;
        }
        true
    }
    #[kani::proof]
    #[kani::unwind(8)]
    fn cut_keeps_tiling() {
        let hi: i16 = kani::any(); kani::assume(hi > 0);
        let cross = TrackCross::from_parts(0, 0, 1, 0);
        let mut t = Track { data: TrackData { ttype: TrackType::Signal, index: 0, dir: Dir::Horiz, start: DbUnits(0), width: DbUnits(1) },
            segments: vec![TrackSegment { tp: TrackSegmentType::Wire { src: None }, start: DbUnits(0), stop: DbUnits(hi as isize) }] };
        let (a0, a1, b0, b1): (i16, i16, i16, i16) = (kani::any(), kani::any(), kani::any(), kani::any());
        kani::assume(0 <= a0 && a0 < a1 && 0 <= b0 && b0 < b1);
        let r1 = t.cut(DbUnits(a0 as isize), DbUnits(a1 as isize), &cross);
        if r1.is_ok() { assert!(tiles(&t, 0, hi as isize)); assert!(t.segments.len() >= 2); }
        let n1 = t.segments.len();
        let r2 = t.cut(DbUnits(b0 as isize), DbUnits(b1 as isize), &cross);
        if r1.is_ok() && r2.is_ok() { assert!(tiles(&t, 0, hi as isize)); assert!(t.segments.len() > n1); }
        std::mem::forget(r1); std::mem::forget(r2); std::mem::forget(t);
    }
}
