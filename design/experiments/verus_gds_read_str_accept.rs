use vstd::prelude::*;
verus! {
pub struct BigEndian;
pub struct IoError;
pub struct Utf8Error;
pub struct Source { pub data: Vec<u8>, pub pos: usize }
impl Source {
    #[verifier::external_body]
    pub fn read_exact(&mut self, buf: &mut [u8]) -> (r: Result<(), IoError>)
    { unimplemented!() }
    #[verifier::external_body]
    pub fn read_u16<E>(&mut self) -> (r: Result<u16, IoError>)
    { unimplemented!() }
}
pub enum GdsError { RecordLen(usize), Boxed(IoError), Utf(Utf8Error) }
impl vstd::std_specs::convert::FromSpecImpl<IoError> for GdsError { open spec fn obeys_from_spec() -> bool { true } open spec fn from_spec(e: IoError) -> GdsError { GdsError::Boxed(e) } }
impl vstd::std_specs::convert::FromSpecImpl<Utf8Error> for GdsError { open spec fn obeys_from_spec() -> bool { true } open spec fn from_spec(e: Utf8Error) -> GdsError { GdsError::Utf(e) } }
impl From<IoError> for GdsError { fn from(e: IoError) -> Self { GdsError::Boxed(e) } }
impl From<Utf8Error> for GdsError { fn from(e: Utf8Error) -> Self { GdsError::Utf(e) } }
pub type GdsResult<T> = Result<T, GdsError>;
const READER_BUFSIZE: usize = 65537;
pub struct GdsReader {
    buf: [u8; READER_BUFSIZE],
    source: Source,
}
#[verifier::external_body]
pub fn from_utf8(b: &[u8]) -> Result<&str, Utf8Error> { unimplemented!() }

impl GdsReader {
    fn read_str(&mut self, len: u16) -> GdsResult<String> {
        let len: usize = len.into();
        let mut data = &mut self.buf[0..len];
        self.source.read_exact(data)?;
        let len = data.len();
        if data[len - 1] == 0x00 {
            data = &mut data[0..len - 1];
        }
        let s: String = from_utf8(&data)?.into();
        Ok(s)
    }
}
}
fn main() {}
