use vstd::prelude::*;
use vstd::std_specs::hash::*;
use std::collections::HashSet;
use std::marker::PhantomData;
verus! {
pub open spec fn inv_raw<T>(stack: Seq<T>, seen: Set<T>, pending: Set<T>, deps: spec_fn(T) -> Set<T>) -> bool {
    &&& stack.no_duplicates()
    &&& seen == stack.to_set()
    &&& seen.disjoint(pending)
    &&& forall|i: int| 0 <= i < stack.len() ==> (#[trigger] deps(stack[i])).subset_of(stack.take(i).to_set())
}
pub trait DepOrder: Sized {
    type Item: Clone + Eq + std::hash::Hash;
    type Error;
    spec fn deps(item: Self::Item) -> Set<Self::Item>;
    proof fn clone_faithful(a: Self::Item, b: Self::Item)
        requires cloned(a, b) ensures a == b;
    fn process(item: &Self::Item, orderer: &mut DepOrderer<Self>) -> (r: Result<(), Self::Error>)
        requires inv_raw(old(orderer).stack@, old(orderer).seen@, old(orderer).pending@, |i: Self::Item| Self::deps(i)),
            old(orderer).pending@.contains(*item), obeys_key_model::<Self::Item>(),
        ensures r is Ok ==> (inv_raw(final(orderer).stack@, final(orderer).seen@, final(orderer).pending@, |i: Self::Item| Self::deps(i))
            && old(orderer).stack@.is_prefix_of(final(orderer).stack@)
            && final(orderer).pending@ == old(orderer).pending@
            && Self::deps(*item).subset_of(final(orderer).seen@));
    fn fail() -> (r: Result<(), Self::Error>)
        ensures r is Err;
}
pub struct DepOrderer<P: DepOrder> {
    pub stack: Vec<P::Item>,
    pub seen: HashSet<P::Item>,
    pub pending: HashSet<P::Item>,
    pub p: PhantomData<P>,
}
impl<P: DepOrder> DepOrderer<P> {
    pub fn push(&mut self, item: &P::Item) -> (r: Result<(), P::Error>)
        requires inv_raw(old(self).stack@, old(self).seen@, old(self).pending@, |i: P::Item| P::deps(i)), obeys_key_model::<P::Item>(),
        ensures r is Ok ==> (inv_raw(final(self).stack@, final(self).seen@, final(self).pending@, |i: P::Item| P::deps(i))
            && old(self).stack@.is_prefix_of(final(self).stack@)
            && final(self).pending@ == old(self).pending@
            && final(self).seen@.contains(*item)),
    {
        if !self.seen.contains(item) {
            if self.pending.contains(item) {
                return P::fail();
            }
            self.pending.insert(item.clone());
            P::process(item, self)?;
            if !self.pending.remove(item) {
                return P::fail();
            }
            self.seen.insert(item.clone());
            self.stack.push(item.clone());
        }
        Ok(())
    }
}
}
fn main() {}
