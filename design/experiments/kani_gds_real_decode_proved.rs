// Appended to gds21/src/lib.rs of a scratch copy; run:
//   CARGO_NET_OFFLINE=true cargo kani -p gds21 --harness float_decode_exact -Z stubbing
// Result during design: VERIFICATION SUCCESSFUL, 2.06 s (0 of 34 checks failed).
// Without the powi stub CBMC's __builtin_powi model makes the same harness FAIL spuriously
// (counterexample v = 0x0010001AD81314F1 does not reproduce natively).
#[cfg(kani)]
mod verif_harness {
    use crate::data::*;
    /// reference decoder: integer operations only, round-to-nearest-even from 56 to 53 bits
    fn ref_decode(v: u64) -> f64 {
        let neg = v >> 63;
        let e = ((v >> 56) & 0x7f) as i64; // excess-64
        let m = v & 0x00FF_FFFF_FFFF_FFFF;
        if m == 0 { return if neg == 1 { -0.0 } else { 0.0 }; }
        let lz = m.leading_zeros() as i64 - 8; // 0..3 for normalised
        let msb = 55 - lz;
        let shift = msb - 52; // 0..3
        let mut sig = m >> shift;
        let rem = m & ((1u64 << shift) - 1);
        let half = if shift > 0 { 1u64 << (shift - 1) } else { 0 };
        let mut e2 = 4 * (e - 64) - 56 + msb;
        if shift > 0 && (rem > half || (rem == half && (sig & 1) == 1)) {
            sig += 1;
            if sig == (1u64 << 53) { sig >>= 1; e2 += 1; }
        }
        let bits = (neg << 63) | (((e2 + 1023) as u64) << 52) | (sig & ((1u64 << 52) - 1));
        f64::from_bits(bits)
    }
    /// contract stub for f64::powi: exact on power-of-two bases 2 and 16 in the normal range.
    /// (In the real unit the two `assume`s are `assert`s, so a call outside the domain fails.)
    fn powi_exact(b: f64, n: i32) -> f64 {
        let k: i32 = if b == 16.0 { 4 } else { 1 };
        kani::assume(b == 16.0 || b == 2.0);
        let e = k * n;
        kani::assume(e > -1022 && e < 1023);
        f64::from_bits(((1023 + e) as u64) << 52)
    }
    #[kani::proof]
    #[kani::stub(f64::powi, powi_exact)]
    fn float_decode_exact() {
        let v: u64 = kani::any();
        kani::assume((v & 0x00F0_0000_0000_0000) != 0); // normalised
        let d = GdsFloat64::decode(v);
        assert!(d.to_bits() == ref_decode(v).to_bits());
    }
    #[kani::proof]
    fn float_roundtrip_unstubbed_fails() {
        // FAILS (11.7 s): genuine defect F2 *and* CBMC's approximate log2 — replay decides which.
        let x: f64 = kani::any();
        kani::assume(x.is_finite());
        kani::assume(x.abs() >= 5.4e-79 && x.abs() < 7.2e75);
        assert!(GdsFloat64::decode(GdsFloat64::encode(x)) == x);
    }
}
