#[cfg(kani)]
mod kani_harness {
    use super::*;
    const N: usize = 3;
    static mut ADJ: [[bool; N]; N] = [[false; N]; N];
    struct G;
    impl DepOrder for G {
        type Item = u8;
        type Error = ();
        fn process(item: &u8, orderer: &mut DepOrderer<Self>) -> Result<(), ()> {
            let mut j = 0;
            while j < N {
                if unsafe { ADJ[*item as usize][j] } { orderer.push(&(j as u8))?; }
                j += 1;
            }
            Ok(())
        }
        fn fail() -> Result<(), ()> { Err(()) }
    }
    #[kani::proof]
    #[kani::unwind(6)]
    fn order_small_graphs() {
        let adj: [[bool; N]; N] = kani::any();
        unsafe { ADJ = adj; }
        let items: [u8; N] = [0, 1, 2];
        // acyclic iff exists topological numbering: check by brute force reachability (Warshall)
        let mut reach = adj;
        let mut k = 0; while k < N { let mut i = 0; while i < N { let mut j = 0; while j < N { if reach[i][k] && reach[k][j] { reach[i][j] = true; } j+=1; } i+=1; } k+=1; }
        let cyclic = reach[0][0] || reach[1][1] || reach[2][2];
        match G::order(&items) {
            Ok(v) => {
                assert!(!cyclic);
                assert!(v.len() == N);
                // each exactly once, deps first
                let mut pos = [usize::MAX; N];
                let mut i = 0; while i < v.len() { assert!(pos[v[i] as usize] == usize::MAX); pos[v[i] as usize] = i; i += 1; }
                let mut a = 0; while a < N { let mut b = 0; while b < N { if adj[a][b] { assert!(pos[b] < pos[a]); } b+=1; } a+=1; }
                std::mem::forget(v);
            }
            Err(_) => assert!(cyclic),
        }
    }
}
