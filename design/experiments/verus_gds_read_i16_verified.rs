use vstd::prelude::*;
verus! {
global size_of usize == 8;
pub assume_specification<T>[ <[T] as core::convert::AsRef<[T]>>::as_ref ](s: &[T]) -> (r: &[T]) ensures r@ == s@;
pub struct BigEndian;
pub struct IoError;
pub open spec fn be16(s: Seq<u8>, i: int) -> i16 { (((s[2*i] as u16) << 8) | (s[2*i+1] as u16)) as i16 }
// model of std::io::Cursor<&[u8]> + byteorder::ReadBytesExt
pub struct Source { pub data: Vec<u8>, pub pos: usize }
impl Source {
    pub open spec fn rest(&self) -> Seq<u8> { self.data@.subrange(self.pos as int, self.data@.len() as int) }
    pub open spec fn wf(&self) -> bool { self.pos <= self.data@.len() }
    #[verifier::external_body]
    pub fn read_exact(&mut self, buf: &mut [u8]) -> (r: Result<(), IoError>)
        requires old(self).wf(),
        ensures final(self).wf(), final(self).data@ == old(self).data@, final(buf)@.len() == old(buf)@.len(),
            r is Ok ==> (old(self).rest().len() >= old(buf)@.len() && final(self).pos == old(self).pos + old(buf)@.len()
                         && final(buf)@ == old(self).rest().subrange(0, old(buf)@.len() as int)),
            r is Err ==> old(self).rest().len() < old(buf)@.len(),
    { unimplemented!() }
    #[verifier::external_body]
    pub fn read_u64_into<E>(&mut self, dst: &mut [u64]) -> (r: Result<(), IoError>)
    { unimplemented!() }
}
// model of `impl Read for &[u8]` + ReadBytesExt::read_i16_into
pub trait SliceReadExt {
    fn read_i16_into<E>(&mut self, dst: &mut [i16]) -> Result<(), IoError>;
}
impl SliceReadExt for &[u8] {
    #[verifier::external_body]
    fn read_i16_into<E>(&mut self, dst: &mut [i16]) -> (r: Result<(), IoError>)
    { unimplemented!() }
}
const READER_BUFSIZE: usize = 65537;
pub struct GdsReader {
    buf: [u8; READER_BUFSIZE],
    source: Source,
}
impl GdsReader {
    fn read_i16(&mut self, len: u16) -> Result<Vec<i16>, IoError> 
        requires old(self).source.wf()
    {
        let len: usize = len.into();
        self.source.read_exact(&mut self.buf[0..len])?;
        let mut rv: Vec<i16> = vec![0; len / 2];
        self.buf[0..len]
            .as_ref()
            .read_i16_into::<BigEndian>(&mut rv)?;
        Ok(rv)
    }
}
}
fn main() {}
