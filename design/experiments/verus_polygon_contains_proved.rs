use vstd::prelude::*;
verus! {
global size_of usize == 8;
pub type Int = isize;
#[derive(Debug, Copy, Clone)]
pub struct Point { pub x: Int, pub y: Int }

// ---------------- spec (mathematical definition, independent of the code) ----------------
pub open spec fn cross(a: Point, b: Point, q: Point) -> int {
    (b.x - a.x) * (q.y - a.y) - (q.x - a.x) * (b.y - a.y)
}
pub open spec fn min(a: int, b: int) -> int { if a <= b { a } else { b } }
pub open spec fn max(a: int, b: int) -> int { if a >= b { a } else { b } }
pub open spec fn on_edge(a: Point, b: Point, q: Point) -> bool {
    cross(a, b, q) == 0 && min(a.x as int, b.x as int) <= q.x <= max(a.x as int, b.x as int) && min(a.y as int, b.y as int) <= q.y <= max(a.y as int, b.y as int)
}
pub open spec fn contrib(a: Point, b: Point, q: Point) -> int {
    if a.y <= q.y && q.y < b.y && cross(a, b, q) > 0 { 1 }
    else if b.y <= q.y && q.y < a.y && cross(a, b, q) < 0 { -1 }
    else { 0 }
}
pub open spec fn edge_a(p: Seq<Point>, i: int) -> Point { p[i] }
pub open spec fn edge_b(p: Seq<Point>, i: int) -> Point { p[(i + 1) % (p.len() as int)] }
pub open spec fn wind(p: Seq<Point>, q: Point, k: int) -> int
    decreases k
{
    if k <= 0 { 0 } else { wind(p, q, k - 1) + contrib(edge_a(p, k - 1), edge_b(p, k - 1), q) }
}
pub open spec fn on_boundary_upto(p: Seq<Point>, q: Point, k: int) -> bool {
    exists|i: int| 0 <= i < k && on_edge(edge_a(p, i), edge_b(p, i), q)
}
pub open spec fn inside(p: Seq<Point>, q: Point) -> bool {
    on_boundary_upto(p, q, p.len() as int) || wind(p, q, p.len() as int) != 0
}
pub open spec fn small(p: Point) -> bool { -0x2000_0000 <= p.x <= 0x2000_0000 && -0x2000_0000 <= p.y <= 0x2000_0000 }


// ---------------- lemmas: a point outside any box holding all vertices is not inside ----------------
pub open spec fn all_in_box(p: Seq<Point>, lo: Point, hi: Point) -> bool {
    forall|i: int| 0 <= i < p.len() ==> lo.x <= (#[trigger] p[i]).x <= hi.x && lo.y <= p[i].y <= hi.y
}
pub open spec fn above(v: Point, q: Point) -> int { if v.y > q.y { 1 } else { 0 } }

proof fn lemma_cross_sign_right(a: Point, b: Point, q: Point)
    requires q.x > a.x, q.x > b.x,
    ensures (a.y <= q.y < b.y) ==> cross(a, b, q) < 0, (b.y <= q.y < a.y) ==> cross(a, b, q) > 0,
{
    let dx = b.x - a.x; let h = b.y - a.y; let t = q.y - a.y; let u = q.x - a.x;
    if a.y <= q.y < b.y {
        assert(dx * t - u * h < 0) by (nonlinear_arith) requires h > 0, 0 <= t < h, u > 0, u > dx;
    }
    if b.y <= q.y < a.y {
        assert(dx * t - u * h > 0) by (nonlinear_arith) requires h < 0, h <= t < 0, u > 0, u > dx;
    }
}
proof fn lemma_cross_sign_left(a: Point, b: Point, q: Point)
    requires q.x < a.x, q.x < b.x,
    ensures (a.y <= q.y < b.y) ==> cross(a, b, q) > 0, (b.y <= q.y < a.y) ==> cross(a, b, q) < 0,
{
    let dx = b.x - a.x; let h = b.y - a.y; let t = q.y - a.y; let u = q.x - a.x;
    if a.y <= q.y < b.y {
        assert(dx * t - u * h > 0) by (nonlinear_arith) requires h > 0, 0 <= t < h, u < 0, u < dx;
    }
    if b.y <= q.y < a.y {
        assert(dx * t - u * h < 0) by (nonlinear_arith) requires h < 0, h <= t < 0, u < 0, u < dx;
    }
}
proof fn lemma_wind_zero_when_no_contrib(p: Seq<Point>, q: Point, k: int)
    requires 0 <= k <= p.len(), p.len() > 0,
        forall|i: int| 0 <= i < p.len() ==> contrib(edge_a(p, i), edge_b(p, i), q) == 0,
    ensures wind(p, q, k) == 0,
    decreases k
{
    if k > 0 { lemma_wind_zero_when_no_contrib(p, q, k - 1); }
}
proof fn lemma_wind_telescopes(p: Seq<Point>, q: Point, k: int)
    requires 0 <= k <= p.len(), p.len() > 0,
        forall|i: int| 0 <= i < p.len() ==> contrib(edge_a(p, i), edge_b(p, i), q) == above(edge_b(p, i), q) - above(edge_a(p, i), q),
    ensures wind(p, q, k) == above(p[k % (p.len() as int)], q) - above(p[0], q),
    decreases k
{
    let n = p.len() as int;
    if k > 0 {
        lemma_wind_telescopes(p, q, k - 1);
        assert((k - 1) % n == k - 1) by (nonlinear_arith) requires 0 <= k - 1 < n;
        assert(edge_a(p, k - 1) == p[k - 1]);
        assert(edge_b(p, k - 1) == p[k % n]);
    } else {
        assert(0int % n == 0);
    }
}
pub proof fn lemma_outside_box(p: Seq<Point>, q: Point, lo: Point, hi: Point)
    requires p.len() > 0, all_in_box(p, lo, hi),
        !(lo.x <= q.x && hi.x >= q.x && lo.y <= q.y && hi.y >= q.y),
    ensures !inside(p, q),
{
    let n = p.len() as int;
    assert forall|i: int| 0 <= i < n implies 0 <= #[trigger] ((i + 1) % n) < n by {
        assert(0 <= (i + 1) % n < n) by (nonlinear_arith) requires n > 0, i >= 0;
    }
    assert forall|i: int| 0 <= i < n implies !on_edge(edge_a(p, i), edge_b(p, i), q) by {
        let a = edge_a(p, i); let b = edge_b(p, i);
        assert(lo.x <= a.x <= hi.x && lo.y <= a.y <= hi.y);
        assert(lo.x <= b.x <= hi.x && lo.y <= b.y <= hi.y);
    }
    if q.y < lo.y || q.y > hi.y || q.x > hi.x {
        assert forall|i: int| 0 <= i < n implies contrib(edge_a(p, i), edge_b(p, i), q) == 0 by {
            let a = edge_a(p, i); let b = edge_b(p, i);
            assert(lo.x <= a.x <= hi.x && lo.y <= a.y <= hi.y);
            assert(lo.x <= b.x <= hi.x && lo.y <= b.y <= hi.y);
            if !(q.y < lo.y || q.y > hi.y) { lemma_cross_sign_right(a, b, q); }
        }
        lemma_wind_zero_when_no_contrib(p, q, n);
    } else {
        assert(q.x < lo.x);
        assert forall|i: int| 0 <= i < n implies contrib(edge_a(p, i), edge_b(p, i), q) == above(edge_b(p, i), q) - above(edge_a(p, i), q) by {
            let a = edge_a(p, i); let b = edge_b(p, i);
            assert(lo.x <= a.x <= hi.x && lo.y <= a.y <= hi.y);
            assert(lo.x <= b.x <= hi.x && lo.y <= b.y <= hi.y);
            lemma_cross_sign_left(a, b, q);
        }
        lemma_wind_telescopes(p, q, n);
        assert(n % n == 0) by (nonlinear_arith) requires n > 0;
    }
}

// ---------------- candidate fixed code (as it would be extracted from geom.rs) ----------------
pub struct Polygon { pub points: Vec<Point> }
impl Polygon {
    fn contains_core(&self, pt: &Point) -> (r: bool)
        requires self.points.len() > 0, self.points.len() < 0x7fff_ffff_ffff_ffff, small(*pt),
            forall|i: int| 0 <= i < self.points.len() ==> small(#[trigger] self.points[i]),
        ensures r == inside(self.points@, *pt),
    {
        let mut winding_num: isize = 0;
        for idx in 0..self.points.len()
            invariant
                self.points.len() > 0, self.points.len() < 0x7fff_ffff_ffff_ffff, small(*pt),
                forall|i: int| 0 <= i < self.points.len() ==> small(#[trigger] self.points[i]),
                !on_boundary_upto(self.points@, *pt, idx as int),
                winding_num == wind(self.points@, *pt, idx as int),
                -(idx as int) <= winding_num <= idx as int,
        {
            let (past, next) = (
                &self.points[idx],
                &self.points[(idx + 1) % self.points.len()],
            );
            proof {
                assert(*past == edge_a(self.points@, idx as int));
                assert(*next == edge_b(self.points@, idx as int));
                assert(small(*past) && small(*next));
                assert(-0x1000_0000_0000_0000i128 <= (next.x - past.x) * (pt.y - past.y) <= 0x1000_0000_0000_0000i128) by (nonlinear_arith)
                    requires -0x4000_0000i64 <= next.x - past.x <= 0x4000_0000i64, -0x4000_0000i64 <= pt.y - past.y <= 0x4000_0000i64;
                assert(-0x1000_0000_0000_0000i128 <= (pt.x - past.x) * (next.y - past.y) <= 0x1000_0000_0000_0000i128) by (nonlinear_arith)
                    requires -0x4000_0000i64 <= pt.x - past.x <= 0x4000_0000i64, -0x4000_0000i64 <= next.y - past.y <= 0x4000_0000i64;
            }
            let cross = (next.x - past.x) * (pt.y - past.y) - (pt.x - past.x) * (next.y - past.y);
            if cross == 0
                && past.x.min(next.x) <= pt.x && pt.x <= past.x.max(next.x)
                && past.y.min(next.y) <= pt.y && pt.y <= past.y.max(next.y)
            {
                proof { assert(on_edge(edge_a(self.points@, idx as int), edge_b(self.points@, idx as int), *pt)); }
                return true;
            }
            if past.y <= pt.y && pt.y < next.y && cross > 0 {
                winding_num += 1;
            } else if next.y <= pt.y && pt.y < past.y && cross < 0 {
                winding_num -= 1;
            }
            proof {
                assert(!on_edge(edge_a(self.points@, idx as int), edge_b(self.points@, idx as int), *pt));
                assert forall|i: int| 0 <= i < idx + 1 implies !on_edge(edge_a(self.points@, i), edge_b(self.points@, i), *pt) by {
                    if i < idx { assert(!on_boundary_upto(self.points@, *pt, idx as int)); }
                }
            }
        }
        winding_num != 0
    }
}
}
fn main() {}
