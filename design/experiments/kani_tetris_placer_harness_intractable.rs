#[cfg(kani)]
mod kani_harness {
    use super::*;
    use crate::outline::Outline;
    use crate::placement::{Place, Placeable, RelativePlace, Separation, Side};
    use crate::stack::*;
    use crate::coords::*;
    use crate::validate::*;

    fn any_side() -> Side { match kani::any::<u8>() % 4 { 0 => Side::Top, 1 => Side::Bottom, 2 => Side::Left, _ => Side::Right } }
    fn stub_format(_a: std::fmt::Arguments<'_>) -> String { String::new() }

    #[kani::proof]
    #[kani::unwind(3)]
    #[kani::stub(alloc::fmt::format, stub_format)]
    fn resolve_place_touches() {
        let (w0, h0, w1, h1): (i16, i16, i16, i16) = (kani::any(), kani::any(), kani::any(), kani::any());
        kani::assume(w0 >= 0 && h0 >= 0 && w1 >= 0 && h1 >= 0);
        let mut lib = Library::new("l");
        let c0 = lib.cells.add(Layout::new("a", 0, Outline::rect(w0 as isize, h0 as isize).unwrap()));
        let c1 = lib.cells.add(Layout::new("b", 0, Outline::rect(w1 as isize, h1 as isize).unwrap()));
        let (x0, y0): (i32, i32) = (kani::any(), kani::any());
        let i0 = Ptr::new(Instance { inst_name: String::new(), cell: c0, loc: (x0 as isize, y0 as isize).into(), reflect_horiz: kani::any(), reflect_vert: kani::any() });
        let side = any_side();
        let align = any_side();
        let horiz = |s: Side| matches!(s, Side::Left | Side::Right);
        kani::assume(horiz(side) != horiz(align));
        let sepn: i16 = kani::any();
        kani::assume(sepn >= 0);
        let sep = if kani::any() { Separation::default() } else if horiz(side) { Separation::x(SepBy::UnitSpeced(PrimPitches::x(sepn as isize).into())) } else { Separation::y(SepBy::UnitSpeced(PrimPitches::y(sepn as isize).into())) };
        let sepv: isize = if sep.x.is_some() || sep.y.is_some() { sepn as isize } else { 0 };
        let rel = RelativePlace { to: Placeable::Instance(i0.clone()), side, align: Align::Side(align), sep };
        let mut i1 = Instance { inst_name: String::new(), cell: c1, loc: Place::Rel(rel.clone()), reflect_horiz: kani::any(), reflect_vert: kani::any() };
        let stack = Stack { units: crate::raw::Units::Nano, prim: PrimitiveLayer::new((1, 1).into()), vias: vec![], metals: vec![], rawlayers: None, boundary_layer: None }.validate().unwrap();
        let mut placer = Placer { lib, stack, ctx: Vec::new() };
        let abs = placer.resolve_instance_place(&i1, &rel).unwrap();
        i1.loc = Place::Abs(abs);
        let b0 = i0.read().unwrap().boundbox().unwrap();
        let b1 = i1.boundbox().unwrap();
        // touching on `side` with separation
        match side {
            Side::Right => assert!(b1.p0.x.num == b0.p1.x.num + sepv),
            Side::Left => assert!(b1.p1.x.num == b0.p0.x.num - sepv),
            Side::Top => assert!(b1.p0.y.num == b0.p1.y.num + sepv),
            Side::Bottom => assert!(b1.p1.y.num == b0.p0.y.num - sepv),
        }
        match align {
            Side::Right => assert!(b1.p1.x.num == b0.p1.x.num),
            Side::Left => assert!(b1.p0.x.num == b0.p0.x.num),
            Side::Top => assert!(b1.p1.y.num == b0.p1.y.num),
            Side::Bottom => assert!(b1.p0.y.num == b0.p0.y.num),
        }
    }
}
