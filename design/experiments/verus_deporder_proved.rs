use vstd::prelude::*;
use vstd::std_specs::hash::*;
use std::collections::HashSet;
use std::marker::PhantomData;
verus! {
pub proof fn lemma_push_no_dup<T>(s: Seq<T>, x: T)
    requires s.no_duplicates(), !s.contains(x)
    ensures s.push(x).no_duplicates()
{
    let t = s.push(x);
    assert forall|i: int, j: int| 0 <= i < t.len() && 0 <= j < t.len() && i != j implies t[i] != t[j] by {
        if i < s.len() && j < s.len() { assert(s[i] != s[j]); }
        else if i < s.len() { assert(s.contains(s[i])); }
        else if j < s.len() { assert(s.contains(s[j])); }
    }
}
pub proof fn lemma_push_to_set<T>(s: Seq<T>, x: T)
    ensures s.push(x).to_set() =~= s.to_set().insert(x)
{
    let t = s.push(x);
    assert forall|y: T| t.to_set().contains(y) <==> s.to_set().insert(x).contains(y) by {
        if t.contains(y) {
            let i = choose|i: int| 0 <= i < t.len() && t[i] == y;
            if i < s.len() { assert(s[i] == y); assert(s.contains(y)); }
        }
        if s.contains(y) {
            let i = choose|i: int| 0 <= i < s.len() && s[i] == y;
            assert(t[i] == y);
        }
        if y == x { assert(t[s.len() as int] == x); }
    }
}
pub open spec fn inv_raw<T>(stack: Seq<T>, seen: Set<T>, pending: Set<T>, deps: spec_fn(T) -> Set<T>) -> bool {
    &&& stack.no_duplicates()
    &&& seen == stack.to_set()
    &&& seen.disjoint(pending)
    &&& forall|i: int| 0 <= i < stack.len() ==> (#[trigger] deps(stack[i])).subset_of(stack.take(i).to_set())
}
pub trait DepOrder: Sized {
    type Item: Clone + Eq + std::hash::Hash;
    type Error;
    spec fn deps(item: Self::Item) -> Set<Self::Item>;
    proof fn clone_faithful(a: Self::Item, b: Self::Item)
        requires cloned(a, b) ensures a == b;
    fn process(item: &Self::Item, orderer: &mut DepOrderer<Self>) -> (r: Result<(), Self::Error>)
        requires inv_raw(old(orderer).stack@, old(orderer).seen@, old(orderer).pending@, |i: Self::Item| Self::deps(i)),
            old(orderer).pending@.contains(*item), obeys_key_model::<Self::Item>(),
        ensures r is Ok ==> (inv_raw(final(orderer).stack@, final(orderer).seen@, final(orderer).pending@, |i: Self::Item| Self::deps(i))
            && old(orderer).stack@.is_prefix_of(final(orderer).stack@)
            && final(orderer).pending@ == old(orderer).pending@
            && Self::deps(*item).subset_of(final(orderer).seen@));
    fn fail() -> (r: Result<(), Self::Error>)
        ensures r is Err;
}
pub struct DepOrderer<P: DepOrder> {
    pub stack: Vec<P::Item>,
    pub seen: HashSet<P::Item>,
    pub pending: HashSet<P::Item>,
    pub p: PhantomData<P>,
}
impl<P: DepOrder> DepOrderer<P> {
    /// Dependency-order all entries in slice `items`
    pub fn order(items: &[P::Item]) -> (r: Result<Vec<P::Item>, P::Error>)
        requires obeys_key_model::<P::Item>(),
        ensures r is Ok ==> ({
            let v = r->Ok_0@;
            &&& v.no_duplicates()
            &&& forall|k: int| 0 <= k < items@.len() ==> v.contains(#[trigger] items@[k])
            &&& forall|i: int| 0 <= i < v.len() ==> (#[trigger] P::deps(v[i])).subset_of(v.take(i).to_set())
        }),
    {
        // Create an Orderer
        let len = items.len();
        let mut this = Self {
            stack: Vec::with_capacity(len),
            seen: HashSet::with_capacity(len),
            pending: HashSet::new(),
            p: PhantomData,
        };
        proof {
            assert(this.stack@.to_set() =~= Set::<P::Item>::empty());
        }
        // Push it each item in `items`
        for item in it: items.iter()
            invariant
                obeys_key_model::<P::Item>(),
                inv_raw(this.stack@, this.seen@, this.pending@, |i: P::Item| P::deps(i)),
                this.pending@ =~= Set::<P::Item>::empty(),
                forall|k: int| 0 <= k < it.index@ ==> this.seen@.contains(#[trigger] items@[k]),
        {
            let ghost before = this.stack@;
            let ghost before_seen = this.seen@;
            this.push(item)?;
            proof {
                assert forall|k: int| 0 <= k < it.index@ implies this.seen@.contains(#[trigger] items@[k]) by {
                    assert(before_seen.contains(items@[k]));
                    assert(before.contains(items@[k]));
                    let idx = choose|q: int| 0 <= q < before.len() && before[q] == items@[k];
                    assert(this.stack@[idx] == items@[k]);
                    assert(this.stack@.contains(items@[k]));
                }
            }
        }
        proof {
            let d = |x: P::Item| P::deps(x);
            assert forall|i: int| 0 <= i < this.stack@.len() implies (#[trigger] P::deps(this.stack@[i])).subset_of(this.stack@.take(i).to_set()) by {
                assert(d(this.stack@[i]).subset_of(this.stack@.take(i).to_set()));
            }
            assert forall|k: int| 0 <= k < items@.len() implies this.stack@.contains(#[trigger] items@[k]) by {
                assert(this.seen@.contains(items@[k]));
            }
        }
        // And return its ordered stack
        Ok(this.stack)
    }
    pub fn push(&mut self, item: &P::Item) -> (r: Result<(), P::Error>)
        requires inv_raw(old(self).stack@, old(self).seen@, old(self).pending@, |i: P::Item| P::deps(i)), obeys_key_model::<P::Item>(),
        ensures r is Ok ==> (inv_raw(final(self).stack@, final(self).seen@, final(self).pending@, |i: P::Item| P::deps(i))
            && old(self).stack@.is_prefix_of(final(self).stack@)
            && final(self).pending@ == old(self).pending@
            && final(self).seen@.contains(*item)),
    {
        proof {
            assert forall|a: &P::Item, b: P::Item| #[trigger] call_ensures(<P::Item as Clone>::clone, (a,), b) implies *a == b by { P::clone_faithful(*a, b); }
        }
        if !self.seen.contains(item) {
            // Check for cycles, indicated if `item` is in the pending-set, i.e. an open recursive stack-frame.
            if self.pending.contains(item) {
                return P::fail();
            }
            self.pending.insert(item.clone());
            proof { assert(self.pending@ == old(self).pending@.insert(*item)); }
            // Process the Item, dependencies first
            P::process(item, self)?;
            let ghost after = *self;
            // Check that `item` hasn't (somehow) been removed from the pending-set
            if !self.pending.remove(item) {
                return P::fail();
            }
            proof {
                assert(self.pending@ =~= old(self).pending@);
                assert(!after.seen@.contains(*item));
            }
            // And insert the Item itself
            self.seen.insert(item.clone());
            self.stack.push(item.clone());
            proof {
                let s2 = after.stack@;
                let s3 = self.stack@;
                assert(s3 == s2.push(*item));
                assert(!s2.contains(*item)) by { if s2.contains(*item) { assert(s2.to_set().contains(*item)); } }
                lemma_push_no_dup(s2, *item);
                lemma_push_to_set(s2, *item);
                assert(self.seen@ =~= s3.to_set());
                let d = |x: P::Item| P::deps(x);
                assert(inv_raw(s2, after.seen@, after.pending@, d));
                assert forall|i: int| 0 <= i < s3.len() implies (#[trigger] d(s3[i])).subset_of(s3.take(i).to_set()) by {
                    if i < s2.len() {
                        assert(s3.take(i) =~= s2.take(i));
                        assert(s3[i] == s2[i]);
                        assert(d(s2[i]).subset_of(s2.take(i).to_set()));
                    } else {
                        assert(s3.take(i) =~= s2);
                        assert(s3[i] == *item);
                        assert(d(*item) == P::deps(*item));
                    }
                }
                assert(old(self).stack@.is_prefix_of(s3)) by { assert(old(self).stack@.is_prefix_of(s2)); }
            }
        }
        Ok(())
    }
}
}
fn main() {}
