use vstd::prelude::*;
use vstd::std_specs::cmp::*;
use core::cmp::Ordering;
verus! {
#[derive(Clone, Copy)]
pub struct DbUnits(pub isize);
impl PartialEqSpecImpl for DbUnits {
    open spec fn obeys_eq_spec() -> bool { true }
    open spec fn eq_spec(&self, other: &Self) -> bool { self.0 == other.0 }
}
impl PartialEq for DbUnits { fn eq(&self, other: &Self) -> bool { self.0 == other.0 } }
impl Eq for DbUnits {}
impl PartialOrdSpecImpl for DbUnits {
    open spec fn obeys_partial_cmp_spec() -> bool { true }
    open spec fn partial_cmp_spec(&self, other: &Self) -> Option<Ordering> {
        if self.0 < other.0 { Some(Ordering::Less) } else if self.0 > other.0 { Some(Ordering::Greater) } else { Some(Ordering::Equal) }
    }
}
impl PartialOrd for DbUnits {
    fn partial_cmp(&self, other: &Self) -> Option<Ordering> {
        if self.0 < other.0 { Some(Ordering::Less) } else if self.0 > other.0 { Some(Ordering::Greater) } else { Some(Ordering::Equal) }
    }
}
fn t(a: DbUnits, b: DbUnits) -> (r: bool) ensures r == (a.0 > b.0) { a > b }
fn e(a: DbUnits, b: DbUnits) -> (r: bool) ensures r == (a.0 != b.0) { a != b }
}
fn main() {}
