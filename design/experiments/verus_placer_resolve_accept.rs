use vstd::prelude::*;
verus! {
global size_of usize == 8;
pub type Int = isize;
#[derive(Clone, Copy, PartialEq, Eq)]
pub enum Dir { Horiz, Vert }
impl Dir { pub fn other(self) -> (r: Self) ensures r == (match self { Dir::Horiz => Dir::Vert, Dir::Vert => Dir::Horiz }) { match self { Self::Horiz => Self::Vert, Self::Vert => Self::Horiz } } }
#[derive(Clone, Copy, PartialEq, Eq)]
pub struct PrimPitches { pub dir: Dir, pub num: Int }
impl PrimPitches {
    pub fn new(dir: Dir, num: Int) -> (r: Self) ensures r.dir == dir, r.num == num { Self { dir, num } }
    pub fn negate(&self) -> (r: Self) requires self.num > isize::MIN ensures r.dir == self.dir, r.num == -self.num { Self::new(self.dir, -self.num) }
}
impl vstd::std_specs::ops::AddSpecImpl<PrimPitches> for PrimPitches {
    open spec fn obeys_add_spec() -> bool { true }
    open spec fn add_req(self, rhs: PrimPitches) -> bool { self.dir == rhs.dir && isize::MIN <= self.num + rhs.num <= isize::MAX }
    open spec fn add_spec(self, rhs: PrimPitches) -> PrimPitches { PrimPitches { dir: self.dir, num: (self.num + rhs.num) as isize } }
}
impl std::ops::Add<PrimPitches> for PrimPitches {
    type Output = PrimPitches;
    fn add(self, rhs: Self) -> Self::Output {
        if self.dir != rhs.dir { panic!("Invalid attempt to add opposite-direction"); }
        Self { dir: self.dir, num: self.num + rhs.num }
    }
}
impl vstd::std_specs::ops::SubSpecImpl<PrimPitches> for PrimPitches {
    open spec fn obeys_sub_spec() -> bool { true }
    open spec fn sub_req(self, rhs: PrimPitches) -> bool { self.dir == rhs.dir && isize::MIN <= self.num - rhs.num <= isize::MAX }
    open spec fn sub_spec(self, rhs: PrimPitches) -> PrimPitches { PrimPitches { dir: self.dir, num: (self.num - rhs.num) as isize } }
}
impl std::ops::Sub<PrimPitches> for PrimPitches {
    type Output = PrimPitches;
    fn sub(self, rhs: Self) -> Self::Output {
        if self.dir != rhs.dir { panic!("Invalid attempt to add opposite-direction"); }
        Self { dir: self.dir, num: self.num - rhs.num }
    }
}
#[derive(Clone, Copy)]
pub struct Xy<T> { pub x: T, pub y: T }
impl<T> Xy<T> { pub fn new(x: T, y: T) -> (r: Xy<T>) ensures r.x == x, r.y == y { Self { x, y } } }
impl std::ops::Index<Dir> for Xy<PrimPitches> {
    type Output = PrimPitches;
    fn index(&self, dir: Dir) -> (r: &Self::Output) ensures *r == (match dir { Dir::Horiz => self.x, Dir::Vert => self.y }) { match dir { Dir::Horiz => &self.x, Dir::Vert => &self.y } }
}
#[derive(Clone, Copy, PartialEq, Eq)]
pub enum Side { Top, Bottom, Left, Right }
pub enum Align { Side(Side), Center, Ports(String, String) }
pub struct BoundBox { pub p0: Xy<PrimPitches>, pub p1: Xy<PrimPitches> }
impl BoundBox {
    pub fn side(&self, side: Side) -> PrimPitches {
        match side { Side::Left => self.p0.x, Side::Right => self.p1.x, Side::Bottom => self.p0.y, Side::Top => self.p1.y }
    }
}
pub struct PoisonErr;
pub enum LayoutError { Export, PtrLock }
impl vstd::std_specs::convert::FromSpecImpl<PoisonErr> for LayoutError { open spec fn obeys_from_spec() -> bool { true } open spec fn from_spec(e: PoisonErr) -> LayoutError { LayoutError::PtrLock } }
impl From<PoisonErr> for LayoutError { fn from(e: PoisonErr) -> Self { LayoutError::PtrLock } }
pub type LayoutResult<T> = Result<T, LayoutError>;
pub struct Ptr<T> { pub v: T }
impl<T> Ptr<T> { #[verifier::external_body] pub fn read(&self) -> (r: Result<&T, PoisonErr>) ensures r is Ok ==> *r->Ok_0 == self.v { unimplemented!() } }
pub struct Cell { pub size: Xy<PrimPitches> }
impl Cell { pub fn boundbox_size(&self) -> LayoutResult<Xy<PrimPitches>> { Ok(self.size) } }
pub enum UnitSpeced { DbUnits(Int), PrimPitches(PrimPitches), LayerPitches(Int) }
pub enum SepBy { UnitSpeced(UnitSpeced), SizeOf(Ptr<Cell>) }
pub struct Separation { pub x: Option<SepBy>, pub y: Option<SepBy>, pub z: Option<isize> }
impl Separation { pub fn dir(&self, dir: Dir) -> &Option<SepBy> { match dir { Dir::Horiz => &self.x, Dir::Vert => &self.y } } }
pub struct Instance { pub inst_name: String, pub cell: Ptr<Cell>, pub loc: Xy<PrimPitches>, pub reflect_horiz: bool, pub reflect_vert: bool }
impl Instance {
    pub fn reflected(&self, dir: Dir) -> bool { match dir { Dir::Horiz => self.reflect_horiz, Dir::Vert => self.reflect_vert } }
    pub fn boundbox_size(&self) -> LayoutResult<Xy<PrimPitches>> { let cell = self.cell.read()?; cell.boundbox_size() }
    #[verifier::external_body]
    pub fn boundbox(&self) -> LayoutResult<BoundBox> { unimplemented!() }
}
pub struct ArrayInstance { pub name: String }
impl ArrayInstance { #[verifier::external_body] pub fn boundbox(&self) -> LayoutResult<BoundBox> { unimplemented!() } }
pub enum Placeable { Instance(Ptr<Instance>), Array(Ptr<ArrayInstance>), Group(u8), Port { inst: Ptr<Instance>, port: String }, Assign(u8) }
pub struct RelativePlace { pub to: Placeable, pub side: Side, pub align: Align, pub sep: Separation }
pub enum ErrorContext { Instance(String) }
pub struct Placer { ctx: Vec<ErrorContext> }
impl Placer {
    #[verifier::external_body]
    fn fail<T>(&self, msg: String) -> (r: LayoutResult<T>) ensures r is Err { unimplemented!() }
    fn resolve_instance_place(
        &mut self,
        inst: &Instance,
        rel: &RelativePlace,
    ) -> LayoutResult<Xy<PrimPitches>> {
        self.ctx
            .push(ErrorContext::Instance(inst.inst_name.clone()));

        // Get the relative-to instance's bounding box
        let bbox = match rel.to {
            Placeable::Instance(ref ptr) => ptr.read()?.boundbox()?,
            Placeable::Array(ref ptr) => ptr.read()?.boundbox()?,
            Placeable::Group(_) => unimplemented!(),
            Placeable::Assign(_) => unimplemented!(),
            Placeable::Port { .. } => unimplemented!(),
        };
        let mut side_coord = bbox.side(rel.side);
        let align_side = match rel.align {
            Align::Side(s) => s,
            _ => unimplemented!(),
        };
        let mut align_coord = bbox.side(align_side);
        let side_axis = match rel.side {
            Side::Left | Side::Right => Dir::Horiz,
            Side::Top | Side::Bottom => Dir::Vert,
        };
        let align_axis = side_axis.other();
        let offset_side = match rel.side {
            Side::Left | Side::Bottom => !inst.reflected(side_axis),
            Side::Top | Side::Right => inst.reflected(side_axis),
        };
        let offset_align = match align_side {
            Side::Left | Side::Bottom => inst.reflected(align_axis),
            Side::Top | Side::Right => !inst.reflected(align_axis),
        };
        if offset_side || offset_align {
            let inst_size = inst.boundbox_size()?;
            if offset_side {
                if inst.reflected(side_axis) {
                    side_coord = side_coord + inst_size[side_axis];
                } else {
                    side_coord = side_coord - inst_size[side_axis];
                }
            }
            if offset_align {
                if inst.reflected(align_axis) {
                    align_coord = align_coord + inst_size[align_axis];
                } else {
                    align_coord = align_coord - inst_size[align_axis];
                }
            }
        }
        if rel.sep.z.is_some() {
            self.fail(String::new())?;
        }
        if rel.sep.dir(align_axis).is_some() {
            self.fail(String::new())?;
        }
        let sep_side_axis = match &rel.sep.dir(side_axis) {
            None => PrimPitches::new(side_axis, 0),
            Some(SepBy::SizeOf(cellptr)) => {
                let cell = cellptr.read()?;
                cell.boundbox_size()?[side_axis]
            }
            Some(SepBy::UnitSpeced(ref u)) => {
                match u {
                    UnitSpeced::DbUnits(_) => self.fail(String::new())?,
                    UnitSpeced::LayerPitches(_) => {
                        todo!()
                    }
                    UnitSpeced::PrimPitches(ref p) => {
                        if p.dir != side_axis {
                            self.fail(String::new())?;
                        }
                        p.clone()
                    }
                }
            }
        };
        let sep_side_axis = match &rel.side {
            Side::Top | Side::Right => sep_side_axis,
            Side::Left | Side::Bottom => sep_side_axis.negate(),
        };
        side_coord = side_coord + sep_side_axis;
        let res = match rel.side {
            Side::Left | Side::Right => Xy::new(side_coord, align_coord),
            Side::Top | Side::Bottom => Xy::new(align_coord, side_coord),
        };
        self.ctx.pop();
        Ok(res)
    }
}
}
fn main() {}
