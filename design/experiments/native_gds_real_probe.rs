fn decode(val: u64) -> f64 {
    let neg = (val & 0x8000_0000_0000_0000) != 0;
    let exp: i32 = ((val & 0x7F00_0000_0000_0000) >> 8 * 7) as i32 - 64;
    let mantissa: u64 = val & 0x00FF_FFFF_FFFF_FFFF;
    let mantissa: f64 = mantissa as f64 / 2f64.powi(8 * 7);
    if neg { -1.0 * mantissa * 16f64.powi(exp) } else { mantissa * 16f64.powi(exp) }
}
fn encode(mut val: f64) -> u64 {
    if val == 0.0 { return 0; };
    let mut top: u8 = 0;
    if val < 0.0 { top = 0x80; val = -val; }
    let fexp: f64 = 0.25 * val.log2();
    let mut exponent = fexp.ceil() as i32;
    if fexp == fexp.ceil() { exponent += 1; }
    let mantissa: u64 = (val * 16_f64.powi(14 - exponent)).round() as u64;
    top += (64 + exponent) as u8;
    let result: u64 = (top as u64).wrapping_shl(56) | (mantissa & 0x00FF_FFFF_FFFF_FFFF);
    result
}
fn main() {
    let mut bad = 0; let mut n=0;
    for k in -64i32..63 {
        let p = 16f64.powi(k);
        for d in -4i64..=4 {
            let x = f64::from_bits((p.to_bits() as i64 + d) as u64);
            if !(x.abs() >= 16f64.powi(-64) && x.abs() < 16f64.powi(63)) { continue; }
            n+=1;
            let e = encode(x); let y = decode(e);
            if y != x { bad+=1; if bad < 12 { println!("k={} d={} x={:e} bits={:#x} enc={:#018x} dec={:e}", k,d,x,x.to_bits(),e,y);} }
        }
    }
    println!("bad {} of {}", bad, n);
    // powers of two
    let mut bad2=0;
    for e2 in -255i32..252 { for d in -2i64..=2 { let p=2f64.powi(e2); let x=f64::from_bits((p.to_bits() as i64 + d) as u64); let y=decode(encode(x)); if y!=x {bad2+=1; if bad2<8 {println!("e2={} d={} x={:e} enc={:#018x}",e2,d,x,encode(x));}}}}
    println!("bad2 {}", bad2);
}
