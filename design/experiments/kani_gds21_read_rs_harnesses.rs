#[cfg(kani)]
mod kani_harness {
    use super::*;
    fn rec(out: &mut Vec<u8>, rt: u8, dt: u8, payload: &[u8]) {
        let n = payload.len() + 4;
        out.push((n >> 8) as u8); out.push(n as u8); out.push(rt); out.push(dt);
        for b in payload { out.push(*b); }
    }
    #[kani::proof]
    #[kani::unwind(26)]
    fn reader_boundary_spec() {
        let (ver, layer, dt): (i16, i16, i16) = (kani::any(), kani::any(), kani::any());
        let (x, y): (i32, i32) = (kani::any(), kani::any());
        let year: i16 = kani::any();
        let mut b: Vec<u8> = Vec::new();
        rec(&mut b, 0x00, 2, &ver.to_be_bytes());
        let mut dates = [0u8; 24]; dates[0..2].copy_from_slice(&year.to_be_bytes()); dates[12..14].copy_from_slice(&year.to_be_bytes());
        rec(&mut b, 0x01, 2, &dates);
        rec(&mut b, 0x02, 6, b"ab");
        rec(&mut b, 0x03, 5, &[0u8; 16]);
        rec(&mut b, 0x05, 2, &dates);
        rec(&mut b, 0x06, 6, b"c\0");
        rec(&mut b, 0x08, 0, &[]);
        rec(&mut b, 0x0d, 2, &layer.to_be_bytes());
        rec(&mut b, 0x0e, 2, &dt.to_be_bytes());
        let mut xy = [0u8; 8]; xy[0..4].copy_from_slice(&x.to_be_bytes()); xy[4..8].copy_from_slice(&y.to_be_bytes());
        rec(&mut b, 0x10, 3, &xy);
        rec(&mut b, 0x11, 0, &[]);
        rec(&mut b, 0x07, 0, &[]);
        rec(&mut b, 0x04, 0, &[]);
        match GdsLibrary::from_bytes(&b) {
            Ok(lib) => {
                assert!(lib.version == ver);
                assert!(lib.structs.len() == 1);
                assert!(lib.structs[0].elems.len() == 1);
                match &lib.structs[0].elems[0] { GdsElement::GdsBoundary(e) => { assert!(e.layer == layer && e.datatype == dt && e.xy.len()==1 && e.xy[0].x == x && e.xy[0].y == y); }, _ => assert!(false) }
                std::mem::forget(lib);
            }
            Err(e) => { std::mem::forget(e); assert!(false); }
        }
        std::mem::forget(b);
    }
}
