use vstd::prelude::*;
verus! {
global size_of usize == 8;
pub struct BigEndian;
pub struct IoError;
pub struct Source { pub data: Vec<u8>, pub pos: usize }
impl Source {
    #[verifier::external_body]
    pub fn read_u16<E>(&mut self) -> (r: Result<u16, IoError>) { unimplemented!() }
    #[verifier::external_body]
    pub fn read_u8(&mut self) -> (r: Result<u8, IoError>) { unimplemented!() }
}
#[derive(Clone, Copy, PartialEq, Eq)]
pub enum GdsRecordType { Header = 0x00, BgnLib, LibName, Units, EndLib, TextNode, Spacing }
#[derive(Clone, Copy, PartialEq, Eq)]
pub enum GdsDataType { NoData = 0, BitArray = 1, I16 = 2 }
pub trait FromPrimitive: Sized { fn from_u8(n: u8) -> Option<Self>; }
impl FromPrimitive for GdsRecordType {
    fn from_u8(n: u8) -> (r: Option<Self>)
        ensures r == (match n { 0 => Some(GdsRecordType::Header), 1 => Some(GdsRecordType::BgnLib), 2 => Some(GdsRecordType::LibName), 3 => Some(GdsRecordType::Units), 4 => Some(GdsRecordType::EndLib), 5 => Some(GdsRecordType::TextNode), 6 => Some(GdsRecordType::Spacing), _ => None::<GdsRecordType> })
    { match n { 0 => Some(GdsRecordType::Header), 1 => Some(GdsRecordType::BgnLib), 2 => Some(GdsRecordType::LibName), 3 => Some(GdsRecordType::Units), 4 => Some(GdsRecordType::EndLib), 5 => Some(GdsRecordType::TextNode), 6 => Some(GdsRecordType::Spacing), _ => None } }
}
impl FromPrimitive for GdsDataType {
    fn from_u8(n: u8) -> (r: Option<Self>) { match n { 0 => Some(GdsDataType::NoData), 1 => Some(GdsDataType::BitArray), 2 => Some(GdsDataType::I16), _ => None } }
}
impl GdsRecordType {
    pub fn valid(&self) -> bool {
        match self {
            Self::TextNode | // "Not currently used"
            Self::Spacing  // "Discontinued"
              => false,
            _ => true,
        }
    }
}
pub struct GdsRecordHeader { pub rtype: GdsRecordType, pub dtype: GdsDataType, pub len: u16 }
pub enum GdsError { RecordLen(usize), InvalidDataType(u8), InvalidRecordType(u8), Boxed(Box<IoError>) }
impl vstd::std_specs::convert::FromSpecImpl<IoError> for GdsError { open spec fn obeys_from_spec() -> bool { false } open spec fn from_spec(e: IoError) -> GdsError { arbitrary() } }
impl From<IoError> for GdsError { fn from(e: IoError) -> Self { Self::Boxed(Box::new(e)) } }
pub type GdsResult<T> = Result<T, GdsError>;
pub struct GdsReader { source: Source }
impl GdsReader {
    fn read_record_header(&mut self) -> (r: GdsResult<GdsRecordHeader>)
        ensures r is Ok ==> (r->Ok_0.len % 2 == 0 && r->Ok_0.rtype != GdsRecordType::TextNode)
    {
        let len = match self.source.read_u16::<BigEndian>() {
            Err(e) => return Err(GdsError::Boxed(Box::new(e))), // Reading error; raise it.
            Ok(num) if num < 4 => return Err(GdsError::RecordLen(num.into())), // Invalid (too short) length; throw Error.
            Ok(num) if num % 2 != 0 => return Err(GdsError::RecordLen(num.into())), // Invalid (odd) length; throw Error.
            Ok(num) => num, // The normal case
        };
        let len = len - 4; // Strip out the four header-bytes
                           // Read and decode its RecordType
        let record_type = self.source.read_u8()?;
        let record_type: GdsRecordType =
            FromPrimitive::from_u8(record_type).ok_or(GdsError::InvalidRecordType(record_type))?;
        if !record_type.valid() {
            return Err(GdsError::InvalidRecordType(record_type as u8));
        }
        let data_type = self.source.read_u8()?;
        let data_type =
            FromPrimitive::from_u8(data_type).ok_or(GdsError::InvalidDataType(data_type))?;
        Ok(GdsRecordHeader {
            rtype: record_type,
            dtype: data_type,
            len,
        })
    }
}
}
fn main() {}
