use vstd::prelude::*;
verus! {
global size_of usize == 8;
pub type Int = isize;
pub struct Point { pub x: Int, pub y: Int }
impl Point { pub fn new(x: Int, y: Int) -> Self { Self { x, y } } }
pub struct GdsPoint { pub x: i32, pub y: i32 }
pub struct GdsStrans { pub reflected: bool, pub abs_mag: bool, pub abs_angle: bool, pub mag: Option<f64>, pub angle: Option<f64> }
pub struct GdsArrayRef { pub name: String, pub xy: [GdsPoint; 3], pub cols: i16, pub rows: i16, pub strans: Option<GdsStrans> }
pub enum LayoutError { Import, Boxed }
impl vstd::std_specs::convert::FromSpecImpl<std::num::TryFromIntError> for LayoutError { open spec fn obeys_from_spec() -> bool { true } open spec fn from_spec(e: std::num::TryFromIntError) -> LayoutError { LayoutError::Boxed } }
impl From<std::num::TryFromIntError> for LayoutError { fn from(e: std::num::TryFromIntError) -> Self { LayoutError::Boxed } }
pub type LayoutResult<T> = Result<T, LayoutError>;
pub struct Cell { pub name: String }
pub struct Ptr<T> { pub v: T }
impl<T> Ptr<T> { #[verifier::external_body] pub fn clone(&self) -> Self { unimplemented!() } }
pub struct Instance { pub inst_name: String, pub cell: Ptr<Cell>, pub loc: Point, pub reflect_vert: bool, pub angle: Option<f64> }
pub struct GdsImporter { pub dummy: u8 }
pub assume_specification[ f64::to_radians ](x: f64) -> f64;
pub assume_specification[ f64::sin ](x: f64) -> f64;
pub assume_specification[ f64::cos ](x: f64) -> f64;
#[verifier::external_body]
pub fn vp_f64_as_isize(x: f64) -> isize { x as isize }
impl GdsImporter {
    #[verifier::external_body]
    fn fail<T>(&self, msg: String) -> (r: LayoutResult<T>) ensures r is Err { unimplemented!() }
    #[verifier::external_body]
    fn lookup(&self, name: &String) -> LayoutResult<Ptr<Cell>> { unimplemented!() }
    fn import_point(&mut self, pt: &GdsPoint) -> LayoutResult<Point> {
        let x = pt.x.try_into()?;
        let y = pt.y.try_into()?;
        Ok(Point::new(x, y))
    }
    fn import_instance_array(&mut self, aref: &GdsArrayRef) -> LayoutResult<Option<Vec<Instance>>> {
        let cell = self.lookup(&aref.name)?;
        let p0 = self.import_point(&aref.xy[0])?;
        let p1 = self.import_point(&aref.xy[1])?;
        let p2 = self.import_point(&aref.xy[2])?;
        if p0.y != p1.y || p0.x != p2.x {
            return Ok(None);
        }
        let mut xstep = (p1.x - p0.x) / Int::from(aref.cols);
        let mut ystep = (p2.y - p0.y) / Int::from(aref.rows);
        let mut angle = None;
        let mut reflect_vert = false;
        if let Some(strans) = &aref.strans {
            if strans.abs_mag || strans.abs_angle {
                self.fail(String::new())?;
            }
            if strans.mag.is_some() {
                self.fail(String::new())?;
            }
            if let Some(a) = strans.angle {
                let prev_xy = (i32::try_from(xstep)?, i32::try_from(ystep)?);
                let prev_xy = (f64::from(prev_xy.0), f64::from(prev_xy.1));
                let a = a.to_radians(); // Rust `sin` and `cos` take radians, convert first
                xstep = vp_f64_as_isize(prev_xy.0 * a.cos() - prev_xy.1 * a.sin());
                ystep = vp_f64_as_isize(prev_xy.0 * a.sin() + prev_xy.1 * a.cos());
                angle = Some(a);
            }
            reflect_vert = strans.reflected;
        }
        let mut insts = Vec::with_capacity((aref.rows * aref.cols) as usize);
        for ix in 0..Int::from(aref.cols) {
            let x = p0.x + ix * xstep;
            for iy in 0..Int::from(aref.rows) {
                let y = p0.y + iy * ystep;
                insts.push(Instance {
                    inst_name: String::new(),
                    cell: cell.clone(),
                    loc: Point::new(x, y),
                    reflect_vert,
                    angle,
                });
            }
        }
        Ok(Some(insts))
    }
}
}
fn main() {}
