use vstd::prelude::*;
verus! {
pub struct IoError;
pub enum GdsContext { Library, Struct, Boundary, Property }
pub enum GdsError { Str(u8), Boxed(IoError), Parse { recordnum: usize, bytepos: u64 } , Builder }
pub type GdsResult<T> = Result<T, GdsError>;
pub struct GdsPoint { pub x: i32, pub y: i32 }
impl GdsPoint {
    #[verifier::external_body]
    pub fn parse_vec(from: &[i32]) -> GdsResult<Vec<GdsPoint>> { unimplemented!() }
}
pub struct GdsElemFlags(pub u8, pub u8);
pub struct GdsPlex(pub i32);
pub struct GdsProperty { pub attr: i16, pub value: String }
pub struct GdsBoundary { pub layer: i16, pub datatype: i16, pub xy: Vec<GdsPoint>, pub elflags: Option<GdsElemFlags>, pub plex: Option<GdsPlex>, pub properties: Vec<GdsProperty> }
// ---- generated builder model (derive_builder, pattern = owned, setter(into)) ----
pub struct GdsBoundaryBuilder { layer: Option<i16>, datatype: Option<i16>, xy: Option<Vec<GdsPoint>>, elflags: Option<Option<GdsElemFlags>>, plex: Option<Option<GdsPlex>>, properties: Option<Vec<GdsProperty>> }
impl GdsBoundaryBuilder {
    pub fn default() -> Self { GdsBoundaryBuilder { layer: None, datatype: None, xy: None, elflags: None, plex: None, properties: None } }
    pub fn layer(self, v: i16) -> Self { let mut s = self; s.layer = Some(v); s }
    pub fn datatype(self, v: i16) -> Self { let mut s = self; s.datatype = Some(v); s }
    pub fn xy(self, v: Vec<GdsPoint>) -> Self { let mut s = self; s.xy = Some(v); s }
    pub fn elflags(self, v: GdsElemFlags) -> Self { let mut s = self; s.elflags = Some(Some(v)); s }
    pub fn plex(self, v: GdsPlex) -> Self { let mut s = self; s.plex = Some(Some(v)); s }
    pub fn properties(self, v: Vec<GdsProperty>) -> Self { let mut s = self; s.properties = Some(v); s }
    pub fn build(self) -> Result<GdsBoundary, GdsError> {
        Ok(GdsBoundary {
            layer: match self.layer { Some(v) => v, None => return Err(GdsError::Builder) },
            datatype: match self.datatype { Some(v) => v, None => return Err(GdsError::Builder) },
            xy: match self.xy { Some(v) => v, None => return Err(GdsError::Builder) },
            elflags: match self.elflags { Some(v) => v, None => None },
            plex: match self.plex { Some(v) => v, None => None },
            properties: match self.properties { Some(v) => v, None => Vec::new() },
        })
    }
}
pub enum GdsRecord { EndLib, EndElement, Layer(i16), DataType(i16), Xy(Vec<i32>), Plex(i32), ElemFlags(u8,u8), PropAttr(i16), PropValue(String), Boundary }
pub struct GdsReader { pub recs: Vec<GdsRecord>, pub at: usize }
impl GdsReader {
    #[verifier::external_body]
    fn read_record(&mut self) -> GdsResult<GdsRecord> { unimplemented!() }
    #[verifier::external_body]
    fn pos(&mut self) -> u64 { unimplemented!() }
}
pub struct GdsParser {
    rdr: GdsReader,
    nxt: GdsRecord,
    numread: usize,
    ctx: Vec<GdsContext>,
}
#[verifier::external_body]
fn is_endlib(r: &GdsRecord) -> bool { unimplemented!() }
impl GdsParser {
    fn next(&mut self) -> GdsResult<GdsRecord> {
        if is_endlib(&self.nxt) {
            return Ok(GdsRecord::EndLib);
        }
        let mut rv = self.rdr.read_record()?;
        std::mem::swap(&mut rv, &mut self.nxt);
        self.numread += 1;
        Ok(rv)
    }
    fn parse_boundary(&mut self) -> GdsResult<GdsBoundary> {
        let mut b = GdsBoundaryBuilder::default();
        let mut props: Vec<GdsProperty> = Vec::new();

        loop {
            let r = self.next()?;
            b = match r {
                GdsRecord::EndElement => break, // End-of-element
                GdsRecord::Layer(d) => b.layer(d),
                GdsRecord::DataType(d) => b.datatype(d),
                GdsRecord::Xy(d) => b.xy(GdsPoint::parse_vec(&d)?),
                GdsRecord::Plex(d) => b.plex(GdsPlex(d)),
                GdsRecord::ElemFlags(d0, d1) => b.elflags(GdsElemFlags(d0, d1)),
                GdsRecord::PropAttr(attr) => {
                    props.push(self.parse_property(attr)?);
                    b
                }
                // Invalid
                _ => return self.invalid(r),
            };
        }
        b = b.properties(props);
        let b = b.build()?;
        self.ctx.pop();
        Ok(b)
    }
    fn parse_property(&mut self, attr: i16) -> GdsResult<GdsProperty> {
        self.ctx.push(GdsContext::Property);
        let value = if let GdsRecord::PropValue(v) = self.next()? {
            v
        } else {
            return self.fail(0u8);
        };
        self.ctx.pop();
        Ok(GdsProperty { attr, value })
    }
    fn invalid<T>(&mut self, record: GdsRecord) -> GdsResult<T> {
        Err(GdsError::Parse {
            recordnum: self.numread,
            bytepos: self.rdr.pos(),
        })
    }
    fn fail<T>(&mut self, msg: u8) -> GdsResult<T> {
        Err(GdsError::Str(msg))
    }
}
}
fn main() {}
