use vstd::prelude::*;
verus! {
// ---- prelude models (assumed contracts on byteorder / std::io) ----
pub struct BigEndian;
pub struct IoError;
pub struct Dest { pub bytes: Vec<u8> }
impl Dest {
    #[verifier::external_body]
    pub fn write_u8(&mut self, v: u8) -> (r: Result<(), IoError>)
        ensures r is Ok ==> final(self).bytes@ == old(self).bytes@.push(v),
                r is Err ==> final(self).bytes@ == old(self).bytes@,
    { self.bytes.push(v); Ok(()) }
    #[verifier::external_body]
    pub fn write_u16<E>(&mut self, v: u16) -> (r: Result<(), IoError>)
        ensures r is Ok ==> final(self).bytes@ == old(self).bytes@.push((v >> 8) as u8).push((v & 0xff) as u8),
                r is Err ==> final(self).bytes@ == old(self).bytes@,
    { unimplemented!() }
    #[verifier::external_body]
    pub fn write_i16<E>(&mut self, v: i16) -> (r: Result<(), IoError>)
        ensures r is Ok ==> final(self).bytes@ == old(self).bytes@.push(((v as u16) >> 8) as u8).push(((v as u16) & 0xff) as u8),
                r is Err ==> final(self).bytes@ == old(self).bytes@,
    { unimplemented!() }
}
pub uninterp spec fn string_bytes(s: &String) -> Seq<u8>;
pub assume_specification [std::string::String::as_bytes] (s: &std::string::String) -> (r: &[u8])
    ensures r@ == string_bytes(s);
pub assume_specification [std::string::String::len] (s: &std::string::String) -> (r: usize)
    ensures r == string_bytes(s).len();
pub enum GdsError { RecordLen(usize), Boxed(IoError) }
impl From<IoError> for GdsError { fn from(e: IoError) -> Self { GdsError::Boxed(e) } }
pub type GdsResult<T> = Result<T, GdsError>;
#[derive(Clone, Copy)]
pub enum GdsRecordType { Header = 0x00, BgnLib, LibName, Units, EndLib, Layer = 0x0d, DataType, Width, Xy }
#[derive(Clone, Copy)]
pub enum GdsDataType { NoData = 0, BitArray = 1, I16 = 2, I32 = 3, F32 = 4, F64 = 5, Str = 6 }
pub enum GdsRecord { Header { version: i16 }, EndLib, Layer(i16), DataType(i16), Xy(Vec<i32>), LibName(String) }
pub struct GdsWriter { pub dest: Dest }
impl GdsWriter {
    fn write_record_header(&mut self, record: &GdsRecord) -> (r: GdsResult<()>)
    {
        let gds_strlen = |s: &str| -> usize { s.len() + s.len() % 2 };
        use GdsDataType::{BitArray, NoData, Str, F64, I16, I32};
        let (rtype, dtype, len) = match record {
            GdsRecord::Header { .. } => (GdsRecordType::Header, I16, 2),
            GdsRecord::LibName(s) => (GdsRecordType::LibName, Str, gds_strlen(s)),
            GdsRecord::EndLib => (GdsRecordType::EndLib, NoData, 0),
            GdsRecord::Layer(_) => (GdsRecordType::Layer, I16, 2),
            GdsRecord::DataType(_) => (GdsRecordType::DataType, I16, 2),
            GdsRecord::Xy(d) => (GdsRecordType::Xy, I32, 4 * d.len()),
        };
        match u16::try_from(len + 4) {
            Ok(val) => self.dest.write_u16::<BigEndian>(val)?,
            Err(_) => return Err(GdsError::RecordLen(len)),
        };
        self.dest.write_u8(rtype as u8)?;
        self.dest.write_u8(dtype as u8)?;
        Ok(())
    }
    fn write_record_content(&mut self, record: &GdsRecord) -> GdsResult<()> {
        match record {
            GdsRecord::EndLib => (),
            GdsRecord::Header { version: d }
            | GdsRecord::Layer(d)
            | GdsRecord::DataType(d) => self.dest.write_i16::<BigEndian>(*d)?,
            GdsRecord::Xy(d) => { }
            GdsRecord::LibName(s) => {
                for b in s.as_bytes() {
                    self.dest.write_u8(*b)?;
                }
                if s.len() % 2 != 0 {
                    self.dest.write_u8(0x00)?;
                }
            }
        };
        Ok(())
    }
}
}
fn main() {}
