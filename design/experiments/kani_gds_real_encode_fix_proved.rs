// Applied to a scratch copy whose GdsFloat64::encode carries the candidate fix F2 (renormalise after scaling).
// cargo kani -p gds21 --harness encode_exact -Z stubbing  ->  VERIFICATION SUCCESSFUL, 0 of 43 failed, ~6 s
#[cfg(kani)]
mod verif_harness {
    use crate::data::*;
    fn powi_exact(b: f64, n: i32) -> f64 {
        let k: i32 = if b == 16.0 { 4 } else { 1 };
        assert!(b == 16.0 || b == 2.0);
        let e = k * n;
        assert!(e > -1022 && e < 1023);
        f64::from_bits(((1023 + e) as u64) << 52)
    }
    fn log2_contract(x: f64) -> f64 {
        // any faithful libm: for normal x = f * 2^e, 1 <= f < 2:  e <= log2(x) <= e+1
        assert!(x.is_finite() && x > 0.0);
        let e = ((x.to_bits() >> 52) & 0x7ff) as i32 - 1023;
        let r: f64 = kani::any();
        kani::assume(r >= e as f64 && r <= (e + 1) as f64);
        r
    }
    #[kani::proof]
    #[kani::stub(f64::powi, powi_exact)]
    #[kani::stub(f64::log2, log2_contract)]
    fn encode_exact() {
        let x: f64 = kani::any();
        let bits = x.to_bits();
        let e2 = ((bits >> 52) & 0x7ff) as i64;
        kani::assume(e2 >= 763 && e2 <= 1274); // 16^-65 <= |x| < 16^63
        let sig = (bits & ((1u64 << 52) - 1)) | (1u64 << 52);
        let r = GdsFloat64::encode(x);
        // exact characterisation from the format definition
        let s = (e2 - 763) % 4;
        let big_e = (e2 - 763 - s) / 4;
        assert!(r >> 63 == bits >> 63);
        assert!(((r >> 56) & 0x7f) as i64 == big_e);
        assert!(r & 0x00FF_FFFF_FFFF_FFFF == sig << s);
    }
}
