use vstd::prelude::*;
verus! {
#[derive(Clone, Copy, PartialEq, Eq, PartialOrd, Ord)]
pub struct DbUnits(pub isize);
pub struct TrackRef { pub layer: usize, pub track: usize }
pub struct TrackCross { pub track: TrackRef, pub cross: TrackRef }
pub struct Assign { pub net: String, pub at: TrackCross }
pub struct Instance { pub name: String }
pub struct Ptr<T> { pub v: T }
impl<T> Ptr<T> { #[verifier::external_body] pub fn clone(&self) -> Self { unimplemented!() } }
#[derive(Clone, Copy)]
pub enum RailKind { Pwr, Gnd }
pub enum TrackSegmentType<'lib> {
    Cut { src: &'lib TrackCross },
    Blockage { src: Ptr<Instance> },
    Wire { src: Option<&'lib Assign> },
    Rail(RailKind),
}
impl<'lib> TrackSegmentType<'lib> { #[verifier::external_body] pub fn clone(&self) -> Self { unimplemented!() } }
pub struct TrackSegment<'lib> { pub tp: TrackSegmentType<'lib>, pub start: DbUnits, pub stop: DbUnits }
pub enum TrackError { OutOfBounds(DbUnits), Overlap(DbUnits, DbUnits), BlockageConflict, CutConflict }
pub type TrackResult<T> = Result<T, TrackError>;
pub struct Track<'lib> { pub segments: Vec<TrackSegment<'lib>> }
impl<'lib> Track<'lib> {
    pub fn cut_or_block(&mut self, start: DbUnits, stop: DbUnits, tp: TrackSegmentType<'lib>) -> TrackResult<()> 
      requires old(self).segments.len() > 0
    {
        if stop > self.segments.last().unwrap().stop {
            return Err(TrackError::OutOfBounds(stop));
        }
        let segidx = 0usize;
        let seg = &mut self.segments[segidx];
        let tpcopy = match seg.tp {
            TrackSegmentType::Blockage { ref src } => {
                return Err(TrackError::BlockageConflict);
            }
            TrackSegmentType::Cut { src } => {
                return Err(TrackError::CutConflict);
            }
            TrackSegmentType::Wire { .. } => seg.tp.clone(),
            TrackSegmentType::Rail(_) => seg.tp.clone(),
        };
        if seg.stop < stop {
            return Err(TrackError::Overlap(seg.stop, stop));
        }
        let mut to_be_inserted: Vec<(usize, TrackSegment)> = Vec::new();
        to_be_inserted.push((segidx + 1, TrackSegment { start, stop, tp }));
        if seg.stop != stop {
            let newseg = TrackSegment {
                tp: tpcopy,
                start: stop,
                stop: seg.stop,
            };
            to_be_inserted.push((segidx + 2, newseg));
        }
        seg.stop = start;
        for (idx, seg) in to_be_inserted {
            self.segments.insert(idx, seg);
        }
        Ok(())
    }
}
}
fn main() {}
