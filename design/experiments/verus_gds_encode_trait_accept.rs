use vstd::prelude::*;
verus! {
pub assume_specification<T: Clone>[ <[T]>::to_vec ](s: &[T]) -> (r: Vec<T>)
    ensures r@.len() == s@.len();
pub assume_specification<T>[ <Vec<T> as core::iter::Extend<T>>::extend::<Vec<T>> ](v: &mut Vec<T>, it: Vec<T>)
    ensures final(v)@ == old(v)@ + it@;
pub enum GdsError { Str(u8) }
pub type GdsResult<T> = Result<T, GdsError>;
#[derive(Clone)]
pub struct GdsPoint { pub x: i32, pub y: i32 }
impl GdsPoint {
    pub fn flatten(&self) -> Vec<i32> { vec![self.x, self.y] }
    #[verifier::external_body]
    pub fn flatten_vec(src: &Vec<GdsPoint>) -> (rv: Vec<i32>) { unimplemented!() }
}
pub struct GdsElemFlags(pub u8, pub u8);
pub struct GdsPlex(pub i32);
pub struct GdsProperty { pub attr: i16, pub value: String }
pub struct GdsStrans { pub reflected: bool, pub abs_mag: bool, pub abs_angle: bool, pub mag: Option<f64>, pub angle: Option<f64> }
pub struct GdsArrayRef { pub name: String, pub xy: [GdsPoint; 3], pub cols: i16, pub rows: i16, pub strans: Option<GdsStrans>, pub elflags: Option<GdsElemFlags>, pub plex: Option<GdsPlex>, pub properties: Vec<GdsProperty> }
pub struct GdsBox { pub layer: i16, pub boxtype: i16, pub xy: [GdsPoint; 5], pub properties: Vec<GdsProperty> }
pub enum GdsRecord { ArrayRef, ElemFlags(u8,u8), Plex(i32), StructRefName(String), Strans(u8,u8), Mag(f64), Angle(f64), ColRow{cols:i16, rows:i16}, Xy(Vec<i32>), PropAttr(i16), PropValue(String), EndElement, Box, Layer(i16), BoxType(i16) }

trait Encode {
    fn encode_record(&mut self, record: GdsRecord) -> GdsResult<()>;
    fn encode_array_ref(&mut self, aref: &GdsArrayRef) -> GdsResult<()> {
        self.encode_record(GdsRecord::ArrayRef)?;
        if let Some(ref e) = aref.elflags {
            self.encode_record(GdsRecord::ElemFlags(e.0, e.1))?;
        }
        if let Some(ref e) = aref.plex {
            self.encode_record(GdsRecord::Plex(e.0))?;
        }
        self.encode_record(GdsRecord::StructRefName(aref.name.clone()))?;
        if let Some(ref e) = aref.strans {
            self.encode_strans(e)?;
        }
        self.encode_record(GdsRecord::ColRow {
            cols: aref.cols,
            rows: aref.rows,
        })?;
        let mut xy = GdsPoint::flatten(&aref.xy[0]);
        xy.extend(GdsPoint::flatten(&aref.xy[1]));
        xy.extend(GdsPoint::flatten(&aref.xy[2]));
        self.encode_record(GdsRecord::Xy(xy))?;
        for prop in aref.properties.iter() {
            self.encode_record(GdsRecord::PropAttr(prop.attr))?;
            self.encode_record(GdsRecord::PropValue(prop.value.clone()))?;
        }
        self.encode_record(GdsRecord::EndElement)?;
        Ok(())
    }
    fn encode_box(&mut self, box_: &GdsBox) -> GdsResult<()> {
        self.encode_record(GdsRecord::Box)?;
        self.encode_record(GdsRecord::Layer(box_.layer))?;
        self.encode_record(GdsRecord::BoxType(box_.boxtype))?;
        self.encode_record(GdsRecord::Xy(GdsPoint::flatten_vec(&box_.xy.to_vec())))?;
        self.encode_record(GdsRecord::EndElement)?;
        Ok(())
    }
    fn encode_strans(&mut self, strans: &GdsStrans) -> GdsResult<()> {
        self.encode_record(GdsRecord::Strans(
            (strans.reflected as u8) << 7,
            (strans.abs_mag as u8) << 2 | (strans.abs_angle as u8) << 1,
        ))?;
        if let Some(ref e) = strans.mag {
            self.encode_record(GdsRecord::Mag(*e))?;
        }
        if let Some(ref e) = strans.angle {
            self.encode_record(GdsRecord::Angle(*e))?;
        }
        Ok(())
    }
}
}
fn main() {}
