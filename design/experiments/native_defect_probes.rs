use layout21raw::*;
use layout21raw::lef::LefImporter;
#[test]
fn probe_lef_import() {
    let src = r#"
VERSION 5.8 ;
MACRO m1
  SIZE 1.5 BY 2.25 ;
  PIN a
    PORT
      LAYER met1 ;
        RECT 0.100 0.2 3 4.0 ;
    END
  END a
END m1
END LIBRARY
"#;
    std::fs::write("/tmp/exp/k2/probe.lef", src).unwrap(); let lib = lef21::LefLibrary::open("/tmp/exp/k2/probe.lef").unwrap();
    let raw = LefImporter::import(&lib, None);
    match raw {
        Ok(l) => { let c = l.cells[0].read().unwrap(); let a = c.abs.as_ref().unwrap(); println!("OUTLINE {:?}", a.outline); println!("PORTS {:?}", a.ports); }
        Err(e) => println!("ERR {:?}", e),
    }
}
#[test]
fn probe_geom() {
    let p = Polygon { points: vec![Point::new(0,0),Point::new(2,2),Point::new(0,4),Point::new(6,4),Point::new(6,0)] };
    println!("NOTCH (1,2) -> {}", p.contains(&Point::new(1,2)));
    let t = Polygon { points: vec![Point::new(3,0),Point::new(4,2),Point::new(10,0)] };
    println!("TRI (3,1) -> {}", t.contains(&Point::new(3,1)));
    let t2 = Polygon { points: vec![Point::new(10,0),Point::new(4,2),Point::new(3,0)] };
    println!("TRI rev (3,1) -> {}", t2.contains(&Point::new(3,1)));
    let tr = Transform::from_instance(&Point::new(0,0), true, Some(90.0));
    println!("REFL+ROT90 (1,2) -> {:?}", Point::new(1,2).transform(&tr));
    let c = Transform::cascade(&Transform::rotate(90.0), &Transform::reflect_vert());
    println!("cascade(rot90, refl) (1,2) -> {:?}", Point::new(1,2).transform(&c));
}
