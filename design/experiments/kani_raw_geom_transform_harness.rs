#[cfg(kani)]
mod kani_harness {
    use super::*;
    const H: f64 = 1.5707963267948966; // 90f64.to_radians()
    fn quadrant(x: f64) -> u8 {
        if x == 0.0 { 0 } else if x == H { 1 } else if x == 2.0 * H { 2 } else if x == 3.0 * H { 3 } else { kani::assume(false); 0 }
    }
    fn near(exact: f64) -> f64 { let r: f64 = kani::any(); kani::assume(r >= exact - 2.5e-16 && r <= exact + 2.5e-16); r }
    fn sin_stub(x: f64) -> f64 { match quadrant(x) { 0 => near(0.0), 1 => near(1.0), 2 => near(0.0), _ => near(-1.0) } }
    fn cos_stub(x: f64) -> f64 { match quadrant(x) { 0 => near(1.0), 1 => near(0.0), 2 => near(-1.0), _ => near(0.0) } }

    #[kani::proof]
    #[kani::stub(f64::sin, sin_stub)]
    #[kani::stub(f64::cos, cos_stub)]
    fn from_instance_exact_depth1() {
        let (lx, ly, px, py): (i32, i32, i32, i32) = (kani::any(), kani::any(), kani::any(), kani::any());
        let refl: bool = kani::any();
        let k: u8 = kani::any(); kani::assume(k < 4);
        let angle = if k == 0 && kani::any() { None } else { Some(90.0 * (k as f64)) };
        let t = Transform::from_instance(&Point::new(lx as isize, ly as isize), refl, angle);
        let p = Point::new(px as isize, py as isize).transform(&t);
        // exact: reflect about x-axis, rotate ccw k*90, translate
        let (x0, y0) = (px as isize, if refl { -(py as isize) } else { py as isize });
        let (x1, y1) = match k { 0 => (x0, y0), 1 => (-y0, x0), 2 => (-x0, -y0), _ => (y0, -x0) };
        assert!(p.x == x1 + lx as isize && p.y == y1 + ly as isize);
    }
}
