use vstd::prelude::*;
verus! {
pub type Int = isize;
#[derive(Clone, Copy, PartialEq, Eq)]
pub enum Dir { Horiz, Vert }
impl Dir { pub fn other(self) -> Self { match self { Self::Horiz => Self::Vert, Self::Vert => Self::Horiz } } }
#[derive(Clone, Copy, PartialEq, Eq)]
pub struct PrimPitches { pub dir: Dir, pub num: Int }
impl PrimPitches {
    pub fn new(dir: Dir, num: Int) -> Self { Self { dir, num } }
    pub fn negate(&self) -> Self requires self.num > isize::MIN { Self::new(self.dir, -self.num) }
}
impl vstd::std_specs::ops::AddSpecImpl<PrimPitches> for PrimPitches {
    open spec fn obeys_add_spec() -> bool { true }
    open spec fn add_req(self, rhs: PrimPitches) -> bool { self.dir == rhs.dir && isize::MIN <= self.num + rhs.num <= isize::MAX }
    open spec fn add_spec(self, rhs: PrimPitches) -> PrimPitches { PrimPitches { dir: self.dir, num: (self.num + rhs.num) as isize } }
}
impl std::ops::Add<PrimPitches> for PrimPitches {
    type Output = PrimPitches;
    fn add(self, rhs: Self) -> Self::Output {
        if self.dir != rhs.dir {
            panic!(
                "Invalid attempt to add opposite-direction"
            );
        }
        Self {
            dir: self.dir,
            num: self.num + rhs.num,
        }
    }
}
#[derive(Clone, Copy)]
pub struct Xy<T> { pub x: T, pub y: T }
impl<T> Xy<T> { pub fn new(x: T, y: T) -> Xy<T> { Self { x, y } } }
impl std::ops::Index<Dir> for Xy<PrimPitches> {
    type Output = PrimPitches;
    fn index(&self, dir: Dir) -> &Self::Output {
        match dir {
            Dir::Horiz => &self.x,
            Dir::Vert => &self.y,
        }
    }
}
#[derive(Clone, Copy, PartialEq, Eq)]
pub enum Side { Top, Bottom, Left, Right }
pub struct BoundBox { pub p0: Xy<PrimPitches>, pub p1: Xy<PrimPitches> }
impl BoundBox {
    pub fn side(&self, side: Side) -> PrimPitches {
        match side {
            Side::Left => self.p0.x,
            Side::Right => self.p1.x,
            Side::Bottom => self.p0.y,
            Side::Top => self.p1.y,
        }
    }
}
fn demo(bbox: &BoundBox, side: Side, inst_size: Xy<PrimPitches>, refl: bool) -> PrimPitches 
   requires bbox.p0.x.dir == Dir::Horiz, bbox.p1.x.dir == Dir::Horiz, bbox.p0.y.dir == Dir::Vert, bbox.p1.y.dir == Dir::Vert,
     inst_size.x.dir == Dir::Horiz, inst_size.y.dir == Dir::Vert,
     -1000 < bbox.p0.x.num < 1000, -1000 < bbox.p1.x.num < 1000, -1000 < bbox.p0.y.num < 1000, -1000 < bbox.p1.y.num < 1000, -1000 < inst_size.x.num < 1000, -1000 < inst_size.y.num < 1000
{
    let mut side_coord = bbox.side(side);
    let side_axis = match side {
        Side::Left | Side::Right => Dir::Horiz,
        Side::Top | Side::Bottom => Dir::Vert,
    };
    if refl {
        side_coord = side_coord + inst_size[side_axis];
    }
    side_coord
}
}
fn main() {}
