#[cfg(kani)]
mod kani_harness {
    use super::*;
    fn cross(a: &Point, b: &Point, q: &Point) -> isize { (b.x - a.x) * (q.y - a.y) - (q.x - a.x) * (b.y - a.y) }
    fn spec_inside(p: &[Point], q: &Point) -> bool {
        let n = p.len();
        let mut w = 0isize; let mut i = 0;
        while i < n {
            let a = &p[i]; let b = &p[(i + 1) % n];
            let c = cross(a, b, q);
            if c == 0 && a.x.min(b.x) <= q.x && q.x <= a.x.max(b.x) && a.y.min(b.y) <= q.y && q.y <= a.y.max(b.y) { return true; }
            if a.y <= q.y && q.y < b.y && c > 0 { w += 1; } else if b.y <= q.y && q.y < a.y && c < 0 { w -= 1; }
            i += 1;
        }
        w != 0
    }
    fn any_pt() -> Point { let x: u8 = kani::any(); let y: u8 = kani::any(); kani::assume(x < 8 && y < 8); Point::new(x as isize, y as isize) }
    #[kani::proof]
    #[kani::unwind(5)]
    fn polygon_contains_matches_spec_3() {
        let poly = Polygon { points: vec![any_pt(), any_pt(), any_pt()] };
        let q = any_pt();
        assert!(poly.contains(&q) == spec_inside(&poly.points, &q));
    }
}
