use vstd::prelude::*;
verus! {
global size_of usize == 8;
pub type Int = isize;
// ---- model of rust_decimal::Decimal: value = m / 10^s ----
#[derive(Clone, Copy)]
pub struct LefDecimal { pub m: i128, pub s: u32 }
pub open spec fn pow10(n: nat) -> int decreases n { if n == 0 { 1 } else { 10 * pow10((n - 1) as nat) } }
impl LefDecimal {
    pub open spec fn num(self) -> int { self.m as int }   // value * 10^s
    #[verifier::external_body]
    pub fn from(v: u32) -> (r: LefDecimal) ensures r.m == v, r.s == 0 { unimplemented!() }
    #[verifier::external_body]
    pub fn fract(&self) -> (r: LefDecimal) ensures r.s == self.s, r.m as int == (self.m as int) % pow10(self.s as nat) || r.m as int == -((-(self.m as int)) % pow10(self.s as nat)) { unimplemented!() }
    #[verifier::external_body]
    pub fn is_zero(&self) -> (r: bool) ensures r == (self.m == 0) { unimplemented!() }
    #[verifier::external_body]
    pub fn mantissa(&self) -> (r: i128) ensures r == self.m { unimplemented!() }
}
impl vstd::std_specs::ops::MulSpecImpl<LefDecimal> for &LefDecimal {
    open spec fn obeys_mul_spec() -> bool { true }
    open spec fn mul_req(self, rhs: LefDecimal) -> bool { true }
    open spec fn mul_spec(self, rhs: LefDecimal) -> LefDecimal { LefDecimal { m: (self.m * rhs.m) as i128, s: (self.s + rhs.s) as u32 } }
}
impl std::ops::Mul<LefDecimal> for &LefDecimal {
    type Output = LefDecimal;
    #[verifier::external_body]
    fn mul(self, rhs: LefDecimal) -> LefDecimal { unimplemented!() }
}

pub enum LayoutError { Import, Boxed }
impl From<std::num::TryFromIntError> for LayoutError { fn from(e: std::num::TryFromIntError) -> Self { LayoutError::Boxed } }
pub type LayoutResult<T> = Result<T, LayoutError>;
pub struct LefImporter { dist_scale: u32 }
pub struct Point { pub x: Int, pub y: Int }
pub struct LefPoint { pub x: LefDecimal, pub y: LefDecimal }
impl Point { pub fn new(x: Int, y: Int) -> Self { Self { x, y } } }
impl LefImporter {
    #[verifier::external_body]
    fn fail<T>(&self, msg: String) -> (r: LayoutResult<T>) ensures r is Err { unimplemented!() }
    fn import_point(&mut self, pt: &LefPoint) -> (r: LayoutResult<Point>) {
        Ok(Point::new(
            self.import_dist(&pt.x)?,
            self.import_dist(&pt.x)?,
        ))
    }
    fn import_dist(&mut self, lefdec: &LefDecimal) -> LayoutResult<Int> {
        let scaled = std::ops::Mul::mul(lefdec, LefDecimal::from(self.dist_scale));
        if !scaled.fract().is_zero() {
            self.fail(String::new())?;
        }
        Ok(scaled.mantissa().try_into()?)
    }
}
}
fn main() {}
