use vstd::prelude::*;
verus! {
pub struct GdsPoint { pub x: i32, pub y: i32 }
pub enum GdsError { Str(u8) }
pub type GdsResult<T> = Result<T, GdsError>;

pub open spec fn flat(s: Seq<GdsPoint>) -> Seq<i32>
  decreases s.len()
{ if s.len() == 0 { seq![] } else { flat(s.drop_last()).push(s.last().x).push(s.last().y) } }

impl GdsPoint {
    pub(crate) fn parse_vec(from: &[i32]) -> (r: GdsResult<Vec<GdsPoint>>)
      ensures from.len() % 2 != 0 ==> r is Err,
              from.len() % 2 == 0 ==> (r is Ok && r->Ok_0@.len() == from.len()/2 &&
                 forall|k:int| 0<=k<from.len()/2 ==> (#[trigger] r->Ok_0@[k]).x == from@[2*k] && r->Ok_0@[k].y == from@[2*k+1]),
    {
        if from.len() % 2 != 0 {
            return Err(GdsError::Str(
                0
            ));
        }
        let mut rv: Vec<GdsPoint> = Vec::with_capacity(from.len() / 2);
        for i in 0..from.len() / 2 
          invariant rv@.len() == i, from.len() % 2 == 0,
             forall|k:int| 0<=k<i ==> (#[trigger] rv@[k]).x == from@[2*k] && rv@[k].y == from@[2*k+1],
        {
            rv.push(GdsPoint {
                x: from[i * 2],
                y: from[i * 2 + 1],
            });
        }
        Ok(rv)
    }
    pub(crate) fn flatten_vec(src: &Vec<GdsPoint>) -> (rv: Vec<i32>)
       requires src.len() < 0x3fff_ffff
       ensures rv@.len() == 2*src@.len(),
          forall|k:int| 0<=k<src@.len() ==> rv@[2*k] == (#[trigger] src@[k]).x && rv@[2*k+1] == src@[k].y,
    {
        let mut rv = Vec::with_capacity(src.len() * 2);
        for pt in it: src.iter() 
           invariant rv@.len() == 2*it.index@,
             forall|k:int| 0<=k<it.index@ ==> rv@[2*k] == (#[trigger] src@[k]).x && rv@[2*k+1] == src@[k].y,
        {
            rv.push(pt.x);
            rv.push(pt.y);
        }
        rv
    }
}
}
fn main() {}
