// unit raw_layers (C06 / C14 / C16: "on its layer/datatype", "layer/purpose numbers", "on the layer named in the LEF"): the REAL shared layer table
// layout21raw::data::{Layers, Layer} — get_or_insert, add, keynum, Layer::from_num, add_purpose, purpose, num — over a model of slotmap::SlotMap.
// The contracts proved here are the ones the converter units assume for their pinned models of import_element_layer / get_or_insert / add.
use vstd::prelude::*;
use std::collections::HashMap;
verus! {
#[derive(Debug)]
pub struct LayoutError { }
pub type LayoutResult<T> = Result<T, LayoutError>;
impl LayoutError {
    /// model of LayoutError::msg / LayoutError::fail (error constructors: messages are not part of any property, R7)
    #[verifier::external_body]
    pub fn msg(s: &str) -> (r: Self) { LayoutError { } }
    #[verifier::external_body]
    pub fn fail<T>(s: &str) -> (r: LayoutResult<T>) ensures r is Err { Err(LayoutError { }) }
}
/// model of slotmap's LayerKey: an opaque copyable key
#[derive(Debug, Copy)]
pub struct LayerKey { pub id: u64 }
impl Clone for LayerKey { fn clone(&self) -> (r: Self) ensures r == *self { LayerKey { id: self.id } } }
/// model of slotmap::SlotMap<LayerKey, V>: a finite map from keys to values; `insert` returns a key that was not in use (ASSUMPTION: slotmap
/// never hands out a live key twice), `get_mut` lends the stored value
#[verifier::external_body]
#[verifier::reject_recursive_types(V)]
pub struct SlotMap<V> { v: Vec<V> }
impl<V> SlotMap<V> {
    pub uninterp spec fn view(&self) -> Map<LayerKey, V>;
    #[verifier::external_body]
    pub fn insert(&mut self, value: V) -> (k: LayerKey)
        ensures !old(self)@.dom().contains(k), final(self)@ == old(self)@.insert(k, value),
    { unimplemented!() }
    #[verifier::external_body]
    pub fn get(&self, k: LayerKey) -> (r: Option<&V>)
        ensures r == (if self@.dom().contains(k) { Some(&self@[k]) } else { None::<&V> }),
    { unimplemented!() }
    #[verifier::external_body]
    pub fn get_mut(&mut self, k: LayerKey) -> (r: Option<&mut V>)
        ensures !old(self)@.dom().contains(k) ==> r is None && final(self)@ == old(self)@,
            old(self)@.dom().contains(k) ==> r is Some && *r->0 == old(self)@[k] && final(self)@ == old(self)@.insert(k, *final(r->0)),
    { unimplemented!() }
}
//@ item layout21raw/src/data.rs :: enum LayerPurpose
//@   derive Debug, PartialEq, Eq, Hash
//@ end
/// model of #[derive(Clone)] on LayerPurpose: a clone equals its original
impl Clone for LayerPurpose { #[verifier::external_body] fn clone(&self) -> (r: Self) ensures r == *self { unimplemented!() } }
//@ item layout21raw/src/data.rs :: struct Layer
//@   pubfields
//@ end
/// model of #[derive(Default)] on Layer: number 0, no name, no purposes
impl Default for Layer {
    #[verifier::external_body]
    fn default() -> (r: Self) ensures r.layernum == 0, r.name is None, r.purps@ == Map::<i16, LayerPurpose>::empty(), r.nums@ == Map::<LayerPurpose, i16>::empty() { unimplemented!() }
}
//@ item layout21raw/src/data.rs :: struct Layers
//@   sub R5 /SlotMap<LayerKey, Layer>/ => SlotMap<Layer>
//@ end
/// R6: `opt.map(|x| x.clone())` on an Option<&LayerKey> — the copy of the key, if any
pub fn vp_opt_cloned(o: Option<&LayerKey>) -> (r: Option<LayerKey>) ensures r == (match o { Some(k) => Some(*k), None => None::<LayerKey> }) { match o { Some(x) => Some(x.clone()), None => None } }
/// std Option<&i16>::copied by its documented meaning
pub assume_specification<'a, T: Copy> [ Option::<&'a T>::copied ] (o: Option<&'a T>) -> (r: Option<T>) ensures r == (match o { Some(k) => Some(*k), None => None::<T> });
pub open spec fn keys_ok() -> bool { vstd::std_specs::hash::obeys_key_model::<i16>() && vstd::std_specs::hash::obeys_key_model::<String>() && vstd::std_specs::hash::obeys_key_model::<LayerPurpose>() }
/// a numbered purpose carries its own number
pub open spec fn purp_num_ok(num: i16, p: LayerPurpose) -> bool { match p { LayerPurpose::Named(_, k) => k == num, LayerPurpose::Other(k) => k == num, _ => true } }
/// layer-table invariant: the key filed under number n is live and its layer has number n
pub open spec fn table_wf(l: Layers) -> bool { forall|n: i16| #[trigger] l.nums@.dom().contains(n) ==> l.slots@.dom().contains(l.nums@[n]) && l.slots@[l.nums@[n]].layernum == n }
impl Layer {
//@ fn layout21raw/src/data.rs :: impl Layer :: fn from_num
//@   ret r
//@   spec
//|     ensures r.layernum == layernum, r.name is None, r.purps@ == Map::<i16, LayerPurpose>::empty(), r.nums@ == Map::<LayerPurpose, i16>::empty(),
//@ end
//@ fn layout21raw/src/data.rs :: impl Layer :: fn add_purpose
//@   ret r
//@   spec
//|     requires keys_ok(),
//|     ensures final(self).layernum == old(self).layernum, final(self).name == old(self).name,
//|         r is Ok <==> purp_num_ok(num, purp),
//|         r is Ok ==> final(self).purps@ == old(self).purps@.insert(num, purp) && final(self).nums@ == old(self).nums@.insert(purp, num),
//|         r is Err ==> final(self).purps@ == old(self).purps@ && final(self).nums@ == old(self).nums@,
//@ end
//@ fn layout21raw/src/data.rs :: impl Layer :: fn purpose
//@   ret r
//@   spec
//|     requires keys_ok(),
//|     ensures r == (if self.purps@.dom().contains(num) { Some(&self.purps@[num]) } else { None::<&LayerPurpose> }),
//@ end
//@ fn layout21raw/src/data.rs :: impl Layer :: fn num
//@   ret r
//@   spec
//|     requires keys_ok(),
//|     ensures r == (if self.nums@.dom().contains(*purpose) { Some(self.nums@[*purpose]) } else { None::<i16> }),
//@ end
}
impl Layers {
//@ fn layout21raw/src/data.rs :: impl Layers :: fn add
//@   ret r
//@   spec
//|     requires keys_ok(),
//|     // a fresh key; the layer is stored under it, filed under its number and (if it has one) its name — an existing entry for that number / name is overwritten
//|     ensures !old(self).slots@.dom().contains(r), final(self).slots@ == old(self).slots@.insert(r, layer),
//|         final(self).nums@ == old(self).nums@.insert(layer.layernum, r),
//|         final(self).names@ == (if layer.name is Some { old(self).names@.insert(layer.name->Some_0, r) } else { old(self).names@ }),
//@ end
//@ fn layout21raw/src/data.rs :: impl Layers :: fn nextnum
//@   ret r
//@   spec
//|     requires keys_ok(),
//|     // the lowest layer number not filed yet (numbers 0 .. i16::MAX - 1 are tried), an error when all of them are taken
//|     ensures r is Ok ==> 0 <= r->Ok_0 < i16::MAX && !self.nums@.dom().contains(r->Ok_0) && forall|j: i16| 0 <= j < r->Ok_0 ==> #[trigger] self.nums@.dom().contains(j),
//|         r is Err ==> forall|j: i16| 0 <= j < i16::MAX ==> #[trigger] self.nums@.dom().contains(j),
//@   loop 1
//|             invariant keys_ok(), forall|j: i16| 0 <= j < k ==> #[trigger] self.nums@.dom().contains(j),
//@ end
//@ fn layout21raw/src/data.rs :: impl Layers :: fn keyname
//@   ret r
//@   sub R5 /name: impl Into<String>/ => name: String
//@   sub R5 /self\.names\.get\(&name\.into\(\)\)\.map\(\|x\| x\.clone\(\)\)/ => vp_opt_cloned(self.names.get(&name))
//@   spec
//|     requires keys_ok(),
//|     ensures r == (if self.names@.dom().contains(name) { Some(self.names@[name]) } else { None::<LayerKey> }),
//@ end
//@ fn layout21raw/src/data.rs :: impl Layers :: fn get
//@   ret r
//@   spec
//|     ensures r == (if self.slots@.dom().contains(key) { Some(&self.slots@[key]) } else { None::<&Layer> }),
//@ end
//@ fn layout21raw/src/data.rs :: impl Layers :: fn keynum
//@   ret r
//@   sub R6 /self\.nums\.get\(&num\)\.map\(\|x\| x\.clone\(\)\)/ => vp_opt_cloned(self.nums.get(&num))
//@   spec
//|     requires keys_ok(),
//|     ensures r == (if self.nums@.dom().contains(num) { Some(self.nums@[num]) } else { None::<LayerKey> }),
//@ end
//@ fn layout21raw/src/data.rs :: impl Layers :: fn get_or_insert
//@   ret r
//@   spec
//|     requires keys_ok(), table_wf(*old(self)),
//|     // on a well-formed table the lookup never fails
//|     ensures r is Ok, table_wf(*final(self)), final(self).names@ == old(self).names@,
//|         r is Ok ==> ({ let key = r->Ok_0.0; let p = r->Ok_0.1;
//|             // the key stands for the layer NUMBER: looked up if the number is filed, a fresh layer of that number otherwise; no other number is re-filed
//|             &&& final(self).nums@ == old(self).nums@.insert(layernum, key)
//|             &&& (old(self).nums@.dom().contains(layernum) ==> key == old(self).nums@[layernum])
//|             &&& (!old(self).nums@.dom().contains(layernum) ==> !old(self).slots@.dom().contains(key))
//|             &&& final(self).slots@.dom().contains(key) && final(self).slots@[key].layernum == layernum
//|             // the purpose stands for the purpose NUMBER on that layer: the one filed, or Other(purposenum) filed now
//|             &&& final(self).slots@[key].purps@.dom().contains(purposenum) && final(self).slots@[key].purps@[purposenum] == p
//|             &&& (old(self).slots@.dom().contains(key) && old(self).slots@[key].purps@.dom().contains(purposenum) ==> p == old(self).slots@[key].purps@[purposenum] && final(self).slots@[key] == old(self).slots@[key])
//|             &&& (!(old(self).slots@.dom().contains(key) && old(self).slots@[key].purps@.dom().contains(purposenum)) ==> p == LayerPurpose::Other(purposenum))
//|             // every other layer is untouched, no purpose number of this layer is re-filed
//|             &&& forall|k: LayerKey| k != key ==> (#[trigger] final(self).slots@.dom().contains(k) <==> old(self).slots@.dom().contains(k)) && (old(self).slots@.dom().contains(k) ==> final(self).slots@[k] == old(self).slots@[k])
//|             &&& forall|q: i16| q != purposenum && old(self).slots@.dom().contains(key) && #[trigger] old(self).slots@[key].purps@.dom().contains(q) ==> final(self).slots@[key].purps@.dom().contains(q) && final(self).slots@[key].purps@[q] == old(self).slots@[key].purps@[q]
//|         }),
//@ end
}
// =====================================================================================================
// the two importers' layer lookups (REAL bodies), each reduced to its layer table
// =====================================================================================================
/// what a successful lookup of (layernum, purposenum) guarantees about the table afterwards (get_or_insert's contract, restated over the pair)
pub open spec fn looked_up(before: Layers, after: Layers, layernum: i16, purposenum: i16, key: LayerKey, p: LayerPurpose) -> bool {
    &&& table_wf(after) &&& after.nums@ == before.nums@.insert(layernum, key) &&& (before.nums@.dom().contains(layernum) ==> key == before.nums@[layernum])
    &&& after.slots@.dom().contains(key) && after.slots@[key].layernum == layernum
    &&& after.slots@[key].purps@.dom().contains(purposenum) && after.slots@[key].purps@[purposenum] == p
    &&& (before.slots@.dom().contains(key) && before.slots@[key].purps@.dom().contains(purposenum) ==> p == before.slots@[key].purps@[purposenum])
}
pub mod gds21 {
    use super::*;
//@ item gds21/src/data.rs :: struct GdsLayerSpec
//@ end
//@ item gds21/src/data.rs :: trait HasLayer
//@   sub R8 /fn layerspec\(&self\) -> GdsLayerSpec;/ => spec fn layerspec_spec(&self) -> GdsLayerSpec; fn layerspec(&self) -> (r: GdsLayerSpec) ensures r == self.layerspec_spec();
//@ end
}
pub mod proto { pub struct Layer { pub number: i64, pub purpose: i64 } }
/// model of `i16::try_from(i64)?` (std TryFrom; the error converted into LayoutError by `?`)
#[verifier::external_body]
pub fn vp_i16_try_from(w: i64) -> (r: Result<i16, LayoutError>)
    ensures i16::MIN <= w <= i16::MAX ==> r == Ok::<i16, LayoutError>(w as i16), !(i16::MIN <= w <= i16::MAX) ==> r is Err,
{ match i16::try_from(w) { Ok(v) => Ok(v), Err(_) => Err(LayoutError { }) } }
// R5: each importer reduced to its layer table; `layers: Ptr<Layers>` (Arc<RwLock<..>>) as the table itself, `write()?` as the exclusive borrow
// (lock-poison error path dropped: ASSUMPTION, uncontended lock)
pub struct GdsImporter { pub layers: Layers }
pub struct ProtoImporter { pub layers: Layers }
impl GdsImporter {
//@ fn layout21raw/src/gds.rs :: impl GdsImporter :: fn import_element_layer
//@   ret r
//@   sub R5 /let mut layers = self\.layers\.write\(\)\?;/ => let layers = &mut self.layers;
//@   spec
//|     requires keys_ok(), table_wf(old(self).layers),
//|     // the key stands for the element's GDSII layer number, the purpose for its data type (box type, ..)
//|     ensures r is Ok, table_wf(final(self).layers), r is Ok ==> looked_up(old(self).layers, final(self).layers, elem.layerspec_spec().layer, elem.layerspec_spec().xtype, r->Ok_0.0, r->Ok_0.1),
//@ end
}
impl ProtoImporter {
//@ fn layout21raw/src/proto.rs :: impl ProtoImporter :: fn import_layer
//@   ret r
//@   sub R5 /i16::try_from\(player\.number\)\?/ => vp_i16_try_from(player.number)?
//@   sub R5 /i16::try_from\(player\.purpose\)\?/ => vp_i16_try_from(player.purpose)?
//@   sub R5 /let mut layers = self\.layers\.write\(\)\?;/ => let layers = &mut self.layers;
//@   spec
//|     requires keys_ok(), table_wf(old(self).layers),
//|     // numbers outside the 16-bit range are errors (never truncated); otherwise the pair is looked up as such
//|     ensures table_wf(final(self).layers), (i16::MIN <= player.number <= i16::MAX && i16::MIN <= player.purpose <= i16::MAX) <==> r is Ok,
//|         r is Ok ==> looked_up(old(self).layers, final(self).layers, player.number as i16, player.purpose as i16, r->Ok_0.0, r->Ok_0.1),
//@ end
}
// =====================================================================================================
// the GDSII exporter's layer lookup (REAL body), the exporter reduced to its library's layer table
// =====================================================================================================
/// model of layout21utils Unwrapper for Option: Some(t) => Ok(t), None => the helper's error
pub trait Unwrapper<T> { fn unwrapper<H, M>(self, helper: &H, msg: M) -> (r: Result<T, LayoutError>); }
impl<T> Unwrapper<T> for Option<T> {
    fn unwrapper<H, M>(self, helper: &H, msg: M) -> (r: Result<T, LayoutError>)
        ensures self is Some ==> r == Ok::<T, LayoutError>(self->0), self is None ==> r is Err,
    { match self { Some(t) => Ok(t), None => Err(LayoutError { }) } }
}
// R5: `lib.layers: Ptr<Layers>` as the table itself, `read()?` as the shared borrow (lock-poison path dropped: ASSUMPTION)
pub struct Library { pub name: String, pub layers: Layers }
pub struct GdsExporter<'lib> { pub lib: &'lib Library }
impl<'lib> GdsExporter<'lib> {
//@ fn layout21raw/src/gds.rs :: impl<'lib> GdsExporter<'lib> :: fn export_layerspec
//@   ret r
//@   sub R5 /let layers = self\.lib\.layers\.read\(\)\?;/ => let layers = &self.lib.layers;
//@   spec
//|     requires keys_ok(),
//|     // the layer's own number and the number filed for the purpose on that layer; an undefined key or purpose is an error
//|     ensures final(self).lib == old(self).lib,
//|         r is Ok <==> old(self).lib.layers.slots@.dom().contains(*layer) && old(self).lib.layers.slots@[*layer].nums@.dom().contains(*purpose),
//|         r is Ok ==> r->Ok_0.layer == old(self).lib.layers.slots@[*layer].layernum && r->Ok_0.xtype == old(self).lib.layers.slots@[*layer].nums@[*purpose],
//@ end
}
proof fn canary_table(l: Layers) requires table_wf(l), l.nums@.dom().contains(3i16) ensures false {}
}
fn main() {}
