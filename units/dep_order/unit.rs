// Unit U10 dep_order: layout21utils::dep_order — the generic depth-first orderer (C17; used by C09's PlaceOrder, C19's CellOrder).
use vstd::prelude::*;
use vstd::std_specs::hash::*;
use std::collections::HashSet;
use std::marker::PhantomData;
verus! {
//@ include units/common/float.inc.rs
//@ include units/dep_order/spec.inc.rs
//@ include units/dep_order/code.inc.rs
// vacuity canaries
proof fn canary_inv<T>(stack: Seq<T>, seen: Set<T>, pending: Set<T>, deps: spec_fn(T) -> Set<T>, x: T)
    requires inv_raw(stack, seen, pending, deps), pending.contains(x), stack.len() >= 2,
    ensures false {}
proof fn canary_ordering<T>(v: Seq<T>, items: Seq<T>, deps: spec_fn(T) -> Set<T>)
    requires is_dep_ordering(v, items, deps), items.len() >= 2, v.len() >= 3,
    ensures false {}
}
fn main() {}
