// shared by units dep_order and order_impls: trait DepOrder and DepOrderer under contract
// =====================================================================================================
// CODE UNDER CONTRACT (extracted from /repo/layout21utils/src/dep_order.rs on every run)
// =====================================================================================================
pub trait DepOrder: Sized {
//@ item layout21utils/src/dep_order.rs :: trait DepOrder :: type Item
//@   sub R4 / \+ std::fmt::Debug/ =>
//@ end
//@ item layout21utils/src/dep_order.rs :: trait DepOrder :: type Error
//@ end
    // R8: ghost members — the dependency relation the implementor's `process` walks, and faithfulness of `clone`
    spec fn deps(item: Self::Item) -> Set<Self::Item>;
    proof fn clone_faithful(a: Self::Item, b: Self::Item)
        requires cloned(a, b) ensures a == b;
    // NOT extracted: the default method `DepOrder::order` (one line: `DepOrderer::<Self>::order(items)`); Verus rejects a trait
    // default body that instantiates DepOrderer<Self> as a cyclic self-reference.  Its callee is proved below.
//@ fn layout21utils/src/dep_order.rs :: trait DepOrder :: fn process
//@   ret r
//@   spec
//|         requires inv_raw(old(orderer).stack@, old(orderer).seen@, old(orderer).pending@, |i: Self::Item| Self::deps(i)),
//|             old(orderer).pending@.contains(*item), obeys_key_model::<Self::Item>(),
//|         ensures r is Ok ==> (inv_raw(final(orderer).stack@, final(orderer).seen@, final(orderer).pending@, |i: Self::Item| Self::deps(i))
//|             && old(orderer).stack@.is_prefix_of(final(orderer).stack@)
//|             && final(orderer).pending@ == old(orderer).pending@
//|             && Self::deps(*item).subset_of(final(orderer).seen@))
//@ end
//@ fn layout21utils/src/dep_order.rs :: trait DepOrder :: fn fail
//@   ret r
//@   spec
//|         ensures r is Err
//@ end
}
//@ item layout21utils/src/dep_order.rs :: struct DepOrderer
//@   pubfields
//@ end
impl<P: DepOrder> DepOrderer<P> {
//@ fn layout21utils/src/dep_order.rs :: impl<P: DepOrder> DepOrderer<P> :: fn order
//@   ret r
//@   spec
//|         requires obeys_key_model::<P::Item>(),
//|         ensures r is Ok ==> is_dep_ordering(r->Ok_0@, items@, |i: P::Item| P::deps(i)),
//@   before1 /Push it each item in|for item in items\.iter\(\)/
//|         proof {
//|             assert(this.stack@.to_set() =~= Set::<P::Item>::empty());
//|         }
//@   loop 1 iter it
//|             invariant
//|                 obeys_key_model::<P::Item>(),
//|                 inv_raw(this.stack@, this.seen@, this.pending@, |i: P::Item| P::deps(i)),
//|                 this.pending@ =~= Set::<P::Item>::empty(),
//|                 forall|k: int| 0 <= k < it.index@ ==> this.seen@.contains(#[trigger] items@[k]),
//@   before /this\.push\(item\)\?;/
//|             let ghost before = this.stack@;
//|             let ghost before_seen = this.seen@;
//@   loopend 1
//|             proof {
//|                 assert forall|k: int| 0 <= k < it.index@ implies this.seen@.contains(#[trigger] items@[k]) by {
//|                     assert(before_seen.contains(items@[k]));
//|                     assert(before.contains(items@[k]));
//|                     let idx = choose|q: int| 0 <= q < before.len() && before[q] == items@[k];
//|                     assert(this.stack@[idx] == items@[k]);
//|                     assert(this.stack@.contains(items@[k]));
//|                 }
//|             }
//@   before1 /And return its ordered stack|^        Ok\(this\.stack\)$/
//|         proof {
//|             let d = |x: P::Item| P::deps(x);
//|             assert forall|i: int| 0 <= i < this.stack@.len() implies (#[trigger] d(this.stack@[i])).subset_of(this.stack@.take(i).to_set()) by {
//|                 assert(d(this.stack@[i]).subset_of(this.stack@.take(i).to_set()));
//|             }
//|             assert forall|k: int| 0 <= k < items@.len() implies this.stack@.contains(#[trigger] items@[k]) by {
//|                 assert(this.seen@.contains(items@[k]));
//|             }
//|         }
//@ end
//@ fn layout21utils/src/dep_order.rs :: impl<P: DepOrder> DepOrderer<P> :: fn push
//@   ret r
//@   spec
//|         requires inv_raw(old(self).stack@, old(self).seen@, old(self).pending@, |i: P::Item| P::deps(i)), obeys_key_model::<P::Item>(),
//|         ensures r is Ok ==> (inv_raw(final(self).stack@, final(self).seen@, final(self).pending@, |i: P::Item| P::deps(i))
//|             && old(self).stack@.is_prefix_of(final(self).stack@)
//|             && final(self).pending@ == old(self).pending@
//|             && final(self).seen@.contains(*item)),
//|             // the cycle detector: re-entering an item whose dependencies are still being visited is an error
//|             (old(self).pending@.contains(*item) && !old(self).seen@.contains(*item)) ==> r is Err,
//@   atstart
//|         // the state after the dependencies were processed (set there); the closing argument sits at the end of the function so that it does not
//|         // depend on the order of the last statements
//|         let ghost mut after = *self;
//|         proof {
//|             assert forall|a: &P::Item, b: P::Item| #[trigger] call_ensures(<P::Item as Clone>::clone, (a,), b) implies *a == b by { P::clone_faithful(*a, b); }
//|         }
//@   after /self\.pending\.insert\(item\.clone\(\)\);/
//|             proof { assert(self.pending@ == old(self).pending@.insert(*item)); }
//@   after /P::process\(item, self\)\?;/
//|             proof { after = *self; }
//@   before1 /And insert the Item itself|self\.seen\.insert\(item\.clone\(\)\);/
//|             proof {
//|                 assert(self.pending@ =~= old(self).pending@);
//|                 assert(!after.seen@.contains(*item));
//|             }
//@   before /^        Ok\(\(\)\)$/
//|             proof { if !old(self).seen@.contains(*item) {
//|                 let s2 = after.stack@;
//|                 let s3 = self.stack@;
//|                 assert(s3 == s2.push(*item));
//|                 assert(!s2.contains(*item)) by { if s2.contains(*item) { assert(s2.to_set().contains(*item)); } }
//|                 lemma_push_no_dup(s2, *item);
//|                 lemma_push_to_set(s2, *item);
//|                 assert(self.seen@ =~= s3.to_set());
//|                 let d = |x: P::Item| P::deps(x);
//|                 assert(inv_raw(s2, after.seen@, after.pending@, d));
//|                 assert forall|i: int| 0 <= i < s3.len() implies (#[trigger] d(s3[i])).subset_of(s3.take(i).to_set()) by {
//|                     if i < s2.len() {
//|                         assert(s3.take(i) =~= s2.take(i));
//|                         assert(s3[i] == s2[i]);
//|                         assert(d(s2[i]).subset_of(s2.take(i).to_set()));
//|                     } else {
//|                         assert(s3.take(i) =~= s2);
//|                         assert(s3[i] == *item);
//|                         assert(d(*item) == P::deps(*item));
//|                     }
//|                 }
//|                 assert(old(self).stack@.is_prefix_of(s3)) by { assert(old(self).stack@.is_prefix_of(s2)); }
//|             } }
//@ end
}

