// shared by units dep_order and cell_order: what a dependency ordering is, the orderer invariant, sequence lemmas
// =====================================================================================================
// SPEC: what an ordering must satisfy (from the property statement)
// =====================================================================================================
/// `v` is duplicate-free, contains every listed item, and lists an item only after everything it depends on
pub open spec fn is_dep_ordering<T>(v: Seq<T>, items: Seq<T>, deps: spec_fn(T) -> Set<T>) -> bool {
    &&& v.no_duplicates()
    &&& forall|k: int| 0 <= k < items.len() ==> v.contains(#[trigger] items[k])
    &&& forall|i: int| 0 <= i < v.len() ==> (#[trigger] deps(v[i])).subset_of(v.take(i).to_set())
}
/// `s` holds, with every member, everything the member depends on
pub open spec fn closed_under<T>(s: Set<T>, deps: spec_fn(T) -> Set<T>) -> bool { forall|x: T| s.contains(x) ==> (#[trigger] deps(x)).subset_of(s) }
pub open spec fn covers<T>(s: Set<T>, items: Seq<T>) -> bool { forall|k: int| 0 <= k < items.len() ==> s.contains(#[trigger] items[k]) }
/// `v` lists nothing but the listed items and what they (transitively) depend on: it lies inside every dependency-closed set holding the items
pub open spec fn only_reachable<T>(v: Seq<T>, items: Seq<T>, deps: spec_fn(T) -> Set<T>) -> bool {
    forall|s: Set<T>, i: int| #[trigger] closed_under(s, deps) && covers(s, items) && 0 <= i < v.len() ==> s.contains(#[trigger] v[i])
}
/// data-structure invariant of the orderer (a free function: a member of DepOrderer<P> would be a cyclic trait reference)
pub open spec fn inv_raw<T>(stack: Seq<T>, seen: Set<T>, pending: Set<T>, deps: spec_fn(T) -> Set<T>) -> bool {
    &&& stack.no_duplicates()
    &&& seen == stack.to_set()
    &&& seen.disjoint(pending)
    &&& forall|i: int| 0 <= i < stack.len() ==> (#[trigger] deps(stack[i])).subset_of(stack.take(i).to_set())
}
pub proof fn lemma_push_no_dup<T>(s: Seq<T>, x: T)
    requires s.no_duplicates(), !s.contains(x)
    ensures s.push(x).no_duplicates()
{
    let t = s.push(x);
    assert forall|i: int, j: int| 0 <= i < t.len() && 0 <= j < t.len() && i != j implies t[i] != t[j] by {
        if i < s.len() && j < s.len() { assert(s[i] != s[j]); }
        else if i < s.len() { assert(s.contains(s[i])); }
        else if j < s.len() { assert(s.contains(s[j])); }
    }
}
pub proof fn lemma_push_to_set<T>(s: Seq<T>, x: T)
    ensures s.push(x).to_set() =~= s.to_set().insert(x)
{
    let t = s.push(x);
    assert forall|y: T| t.to_set().contains(y) <==> s.to_set().insert(x).contains(y) by {
        if t.contains(y) {
            let i = choose|i: int| 0 <= i < t.len() && t[i] == y;
            if i < s.len() { assert(s[i] == y); assert(s.contains(y)); }
        }
        if s.contains(y) {
            let i = choose|i: int| 0 <= i < s.len() && s[i] == y;
            assert(t[i] == y);
        }
        if y == x { assert(t[s.len() as int] == x); }
    }
}
/// consequence of the ordering postcondition: a graph in which some listed item depends (directly) on itself, or two
/// ordered items depend on each other, can never be ordered — `Ok` is impossible, so `Err` is what callers get
pub proof fn lemma_no_ordering_of_a_cycle<T>(v: Seq<T>, items: Seq<T>, deps: spec_fn(T) -> Set<T>, a: T, b: T)
    requires is_dep_ordering(v, items, deps), v.contains(a), v.contains(b), deps(a).contains(b), deps(b).contains(a),
    ensures false,
{
    let i = choose|i: int| 0 <= i < v.len() && v[i] == a;
    let j = choose|j: int| 0 <= j < v.len() && v[j] == b;
    assert(deps(v[i]).subset_of(v.take(i).to_set()));
    assert(deps(v[j]).subset_of(v.take(j).to_set()));
    assert(v.take(i).to_set().contains(b));
    assert(v.take(j).to_set().contains(a));
    let jj = choose|k: int| 0 <= k < v.take(i).len() && v.take(i)[k] == b;
    let ii = choose|k: int| 0 <= k < v.take(j).len() && v.take(j)[k] == a;
    assert(v[jj] == b && v[ii] == a);
    // no_duplicates: jj == j and ii == i, but jj < i and ii < j
    if jj != j { assert(v[jj] != v[j]); }
    if ii != i { assert(v[ii] != v[i]); }
}

