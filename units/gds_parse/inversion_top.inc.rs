// =====================================================================================================
// INVERSION, structure level (C01 / C03 composition step): if the contents parse_struct consumed are the canonical contents of a structure
// (the writer's oracle `struct_c` of unit gds_tree, after its BGNSTR record), the structure it returns has the same name (byte for byte) and the
// same elements, one for one, field for field.  The element segments are recovered from their concatenation because every segment ends with
// ENDEL and contains no other ENDEL.
// =====================================================================================================
/// a well-delimited element segment: at least opener + ENDEL, ends with ENDEL, no ENDEL / ENDSTR / BGNSTR before that
pub open spec fn seg_ok(s: Seq<Content>) -> bool { s.len() >= 2 && s.last().0 == 0x11u8 && inner_all(s.drop_last()) }
pub open spec fn segs_ok(a: Seq<Seq<Content>>) -> bool { forall|i: int| 0 <= i < a.len() ==> seg_ok(#[trigger] a[i]) }
pub proof fn lemma_flat_last(a: Seq<Seq<Content>>)
    requires a.len() > 0, segs_ok(a),
    ensures flat(a).len() >= 2, flat(a).last() == a.last().last(), flat(a) == flat(a.drop_last()) + a.last(),
{ assert(seg_ok(a[a.len() - 1])); }
/// every content of a concatenation of well-delimited segments is an inner content or an ENDEL
pub proof fn lemma_flat_nums(a: Seq<Seq<Content>>)
    requires segs_ok(a),
    ensures forall|i: int| 0 <= i < flat(a).len() ==> inner((#[trigger] flat(a)[i]).0) || flat(a)[i].0 == 0x11u8,
    decreases a.len()
{
    if a.len() > 0 {
        assert(segs_ok(a.drop_last())) by { assert forall|i: int| 0 <= i < a.drop_last().len() implies seg_ok(#[trigger] a.drop_last()[i]) by { assert(a.drop_last()[i] == a[i]); } }
        lemma_flat_nums(a.drop_last());
        let f = flat(a.drop_last()); let l = a.last();
        assert(seg_ok(a[a.len() - 1]));
        assert forall|i: int| 0 <= i < flat(a).len() implies inner((#[trigger] flat(a)[i]).0) || flat(a)[i].0 == 0x11u8 by {
            if i < f.len() { assert(flat(a)[i] == f[i]); } else { let j = i - f.len(); assert(flat(a)[i] == l[j]); if j < l.len() - 1 { assert(l.drop_last()[j] == l[j]); } }
        }
    }
}
/// UNIQUE SPLIT: two lists of well-delimited segments with the same concatenation are the same list
pub proof fn lemma_flat_split(a: Seq<Seq<Content>>, b: Seq<Seq<Content>>)
    requires segs_ok(a), segs_ok(b), flat(a) == flat(b),
    ensures a =~= b,
    decreases a.len()
{
    if a.len() == 0 {
        if b.len() > 0 { lemma_flat_last(b); }
    } else if b.len() == 0 {
        lemma_flat_last(a);
    } else {
        lemma_flat_last(a); lemma_flat_last(b);
        let a0 = a.drop_last(); let b0 = b.drop_last();
        assert(segs_ok(a0)) by { assert forall|i: int| 0 <= i < a0.len() implies seg_ok(#[trigger] a0[i]) by { assert(a0[i] == a[i]); } }
        assert(segs_ok(b0)) by { assert forall|i: int| 0 <= i < b0.len() implies seg_ok(#[trigger] b0[i]) by { assert(b0[i] == b[i]); } }
        let la = a.last(); let lb = b.last(); let fa = flat(a0); let fb = flat(b0);
        let w = flat(a);
        assert(w == fa + la && w == fb + lb);
        assert(seg_ok(a[a.len() - 1]) && seg_ok(b[b.len() - 1]));
        if la.len() < lb.len() {
            // the content just before `la` in `w` is the last of the previous segment of `a` (an ENDEL), but lies inside `lb` (no ENDEL there)
            let pos = w.len() - la.len() - 1;
            if fa.len() == 0 { assert(w.len() == la.len()); assert(w.len() == fb.len() + lb.len()); assert(false); }
            assert(a0.len() > 0) by { if a0.len() == 0 { assert(fa.len() == 0); } }
            lemma_flat_last(a0);
            assert((fa + la)[pos] == fa.last());
            let j = pos - fb.len();
            assert(0 <= j < lb.len() - 1);
            assert((fb + lb)[pos] == lb[j]);
            assert(lb.drop_last()[j] == lb[j]);
            assert(false);
        }
        if lb.len() < la.len() {
            let pos = w.len() - lb.len() - 1;
            if fb.len() == 0 { assert(w.len() == lb.len()); assert(w.len() == fa.len() + la.len()); assert(false); }
            assert(b0.len() > 0) by { if b0.len() == 0 { assert(fb.len() == 0); } }
            lemma_flat_last(b0);
            assert((fb + lb)[pos] == fb.last());
            let j = pos - fa.len();
            assert(0 <= j < la.len() - 1);
            assert((fa + la)[pos] == la[j]);
            assert(la.drop_last()[j] == la[j]);
            assert(false);
        }
        assert(fa.len() == fb.len());
        assert(la =~= lb) by { assert forall|i: int| 0 <= i < la.len() implies la[i] == lb[i] by { assert((fa + la)[fa.len() + i] == la[i]); assert((fb + lb)[fb.len() + i] == lb[i]); } }
        assert(fa =~= fb) by { assert forall|i: int| 0 <= i < fa.len() implies fa[i] == fb[i] by { assert((fa + la)[i] == fa[i]); assert((fb + lb)[i] == fb[i]); } }
        lemma_flat_split(a0, b0);
        assert(a =~= a0.push(la)); assert(b =~= b0.push(lb));
    }
}
/// element `x` is element `e0`: same kind, and the same element field for field
pub open spec fn elem_same(x: GdsElement, e0: GdsElement) -> bool {
    match (x, e0) {
        (GdsElement::GdsBoundary(a), GdsElement::GdsBoundary(b)) => parse_boundary_same(a, b),
        (GdsElement::GdsPath(a), GdsElement::GdsPath(b)) => parse_path_same(a, b),
        (GdsElement::GdsStructRef(a), GdsElement::GdsStructRef(b)) => parse_struct_ref_same(a, b),
        (GdsElement::GdsArrayRef(a), GdsElement::GdsArrayRef(b)) => parse_array_ref_same(a, b),
        (GdsElement::GdsTextElem(a), GdsElement::GdsTextElem(b)) => parse_text_elem_same(a, b),
        (GdsElement::GdsNode(a), GdsElement::GdsNode(b)) => parse_node_same(a, b),
        (GdsElement::GdsBox(a), GdsElement::GdsBox(b)) => parse_box_same(a, b),
        _ => false,
    }
}
/// the segment an element parser consumed is well delimited
pub proof fn lemma_elem_seg_ok(e: GdsElement, seg: Seq<Content>)
    requires elem_seg(e, seg),
    ensures seg_ok(seg), seg[0] == c0(opener_num(e)),
{
    let op = c0(opener_num(e));
    let cc: Seq<Content> = match e {
        GdsElement::GdsBoundary(x) => { let cc = choose|cc: Seq<Content>| #[trigger] parse_boundary_from(x, cc) && seg == seq![c0(0x08)] + cc.push(c0(0x11));
            let (tr, bb, pp) = choose|tr: Seq<GdsRecord>, bb: GdsBoundaryBuilder, pp: Seq<GdsProperty>| #[trigger] parse_boundary_fold(tr, cc, bb, pp) && parse_boundary_built(x, bb, pp); lemma_parse_boundary_inner(tr, cc, bb, pp); cc }
        GdsElement::GdsPath(x) => { let cc = choose|cc: Seq<Content>| #[trigger] parse_path_from(x, cc) && seg == seq![c0(0x09)] + cc.push(c0(0x11));
            let (tr, bb, pp) = choose|tr: Seq<GdsRecord>, bb: GdsPathBuilder, pp: Seq<GdsProperty>| #[trigger] parse_path_fold(tr, cc, bb, pp) && parse_path_built(x, bb, pp); lemma_parse_path_inner(tr, cc, bb, pp); cc }
        GdsElement::GdsStructRef(x) => { let cc = choose|cc: Seq<Content>| #[trigger] parse_struct_ref_from(x, cc) && seg == seq![c0(0x0A)] + cc.push(c0(0x11));
            let (tr, bb, pp) = choose|tr: Seq<GdsRecord>, bb: GdsStructRefBuilder, pp: Seq<GdsProperty>| #[trigger] parse_struct_ref_fold(tr, cc, bb, pp) && parse_struct_ref_built(x, bb, pp); lemma_parse_struct_ref_inner(tr, cc, bb, pp); cc }
        GdsElement::GdsArrayRef(x) => { let cc = choose|cc: Seq<Content>| #[trigger] parse_array_ref_from(x, cc) && seg == seq![c0(0x0B)] + cc.push(c0(0x11));
            let (tr, bb, pp) = choose|tr: Seq<GdsRecord>, bb: GdsArrayRefBuilder, pp: Seq<GdsProperty>| #[trigger] parse_array_ref_fold(tr, cc, bb, pp) && parse_array_ref_built(x, bb, pp); lemma_parse_array_ref_inner(tr, cc, bb, pp); cc }
        GdsElement::GdsTextElem(x) => { let cc = choose|cc: Seq<Content>| #[trigger] parse_text_elem_from(x, cc) && seg == seq![c0(0x0C)] + cc.push(c0(0x11));
            let (tr, bb, pp) = choose|tr: Seq<GdsRecord>, bb: GdsTextElemBuilder, pp: Seq<GdsProperty>| #[trigger] parse_text_elem_fold(tr, cc, bb, pp) && parse_text_elem_built(x, bb, pp); lemma_parse_text_elem_inner(tr, cc, bb, pp); cc }
        GdsElement::GdsNode(x) => { let cc = choose|cc: Seq<Content>| #[trigger] parse_node_from(x, cc) && seg == seq![c0(0x15)] + cc.push(c0(0x11));
            let (tr, bb, pp) = choose|tr: Seq<GdsRecord>, bb: GdsNodeBuilder, pp: Seq<GdsProperty>| #[trigger] parse_node_fold(tr, cc, bb, pp) && parse_node_built(x, bb, pp); lemma_parse_node_inner(tr, cc, bb, pp); cc }
        GdsElement::GdsBox(x) => { let cc = choose|cc: Seq<Content>| #[trigger] parse_box_from(x, cc) && seg == seq![c0(0x2D)] + cc.push(c0(0x11));
            let (tr, bb, pp) = choose|tr: Seq<GdsRecord>, bb: GdsBoxBuilder, pp: Seq<GdsProperty>| #[trigger] parse_box_fold(tr, cc, bb, pp) && parse_box_built(x, bb, pp); lemma_parse_box_inner(tr, cc, bb, pp); cc }
    };
    assert(seg == seq![op] + cc.push(c0(0x11)));
    assert(inner_all(cc));
    assert(seg.drop_last() =~= seq![op] + cc);
    assert forall|i: int| 0 <= i < seg.drop_last().len() implies inner((#[trigger] seg.drop_last()[i]).0) by { if i > 0 { assert(seg.drop_last()[i] == cc[i - 1]); } }
}
/// and so are the canonical contents of an element
pub proof fn lemma_elem_c_ok(e0: GdsElement)
    ensures seg_ok(elem_c(e0)), elem_c(e0)[0] == c0(opener_num(e0)),
{
    match e0 {
        GdsElement::GdsBoundary(x) => { lemma_boundary_pre_inner(x); assert(elem_c(e0).drop_last() =~= boundary_pre(x) + props_c(x.properties@)); }
        GdsElement::GdsPath(x) => { lemma_path_pre_inner(x); assert(elem_c(e0).drop_last() =~= path_pre(x) + props_c(x.properties@)); }
        GdsElement::GdsStructRef(x) => { lemma_sref_pre_inner(x); assert(elem_c(e0).drop_last() =~= sref_pre(x) + props_c(x.properties@)); }
        GdsElement::GdsArrayRef(x) => { lemma_aref_pre_inner(x); assert(elem_c(e0).drop_last() =~= aref_pre(x) + props_c(x.properties@)); }
        GdsElement::GdsTextElem(x) => { lemma_text_pre_inner(x); assert(elem_c(e0).drop_last() =~= text_pre(x) + props_c(x.properties@)); }
        GdsElement::GdsNode(x) => { lemma_node_pre_inner(x); assert(elem_c(e0).drop_last() =~= node_pre(x) + props_c(x.properties@)); }
        GdsElement::GdsBox(x) => { lemma_box_pre_inner(x); assert(elem_c(e0).drop_last() =~= box_pre(x) + props_c(x.properties@)); }
    }
}
/// THEOREM (element level, any kind): an element whose segment is the canonical segment of `e0` is `e0`
pub proof fn theorem_elem_inversion(e: GdsElement, e0: GdsElement)
    requires elem_seg(e, elem_c(e0)),
    ensures elem_same(e, e0),
{
    let seg = elem_c(e0);
    lemma_elem_seg_ok(e, seg); lemma_elem_c_ok(e0);
    assert(opener_num(e) == opener_num(e0)) by { assert(c0(opener_num(e)).0 == c0(opener_num(e0)).0); }
    match (e, e0) {
        (GdsElement::GdsBoundary(x), GdsElement::GdsBoundary(y)) => { let cc = choose|cc: Seq<Content>| #[trigger] parse_boundary_from(x, cc) && seg == seq![c0(0x08)] + cc.push(c0(0x11));
            assert(seq![c0(0x08)] + cc =~= seg.drop_last()); assert(seg.drop_last() =~= boundary_pre(y) + props_c(y.properties@)); theorem_parse_boundary_inversion(x, cc, y); }
        (GdsElement::GdsPath(x), GdsElement::GdsPath(y)) => { let cc = choose|cc: Seq<Content>| #[trigger] parse_path_from(x, cc) && seg == seq![c0(0x09)] + cc.push(c0(0x11));
            assert(seq![c0(0x09)] + cc =~= seg.drop_last()); assert(seg.drop_last() =~= path_pre(y) + props_c(y.properties@)); theorem_parse_path_inversion(x, cc, y); }
        (GdsElement::GdsStructRef(x), GdsElement::GdsStructRef(y)) => { let cc = choose|cc: Seq<Content>| #[trigger] parse_struct_ref_from(x, cc) && seg == seq![c0(0x0A)] + cc.push(c0(0x11));
            assert(seq![c0(0x0A)] + cc =~= seg.drop_last()); assert(seg.drop_last() =~= sref_pre(y) + props_c(y.properties@)); theorem_parse_struct_ref_inversion(x, cc, y); }
        (GdsElement::GdsArrayRef(x), GdsElement::GdsArrayRef(y)) => { let cc = choose|cc: Seq<Content>| #[trigger] parse_array_ref_from(x, cc) && seg == seq![c0(0x0B)] + cc.push(c0(0x11));
            assert(seq![c0(0x0B)] + cc =~= seg.drop_last()); assert(seg.drop_last() =~= aref_pre(y) + props_c(y.properties@)); theorem_parse_array_ref_inversion(x, cc, y); }
        (GdsElement::GdsTextElem(x), GdsElement::GdsTextElem(y)) => { let cc = choose|cc: Seq<Content>| #[trigger] parse_text_elem_from(x, cc) && seg == seq![c0(0x0C)] + cc.push(c0(0x11));
            assert(seq![c0(0x0C)] + cc =~= seg.drop_last()); assert(seg.drop_last() =~= text_pre(y) + props_c(y.properties@)); theorem_parse_text_elem_inversion(x, cc, y); }
        (GdsElement::GdsNode(x), GdsElement::GdsNode(y)) => { let cc = choose|cc: Seq<Content>| #[trigger] parse_node_from(x, cc) && seg == seq![c0(0x15)] + cc.push(c0(0x11));
            assert(seq![c0(0x15)] + cc =~= seg.drop_last()); assert(seg.drop_last() =~= node_pre(y) + props_c(y.properties@)); theorem_parse_node_inversion(x, cc, y); }
        (GdsElement::GdsBox(x), GdsElement::GdsBox(y)) => { let cc = choose|cc: Seq<Content>| #[trigger] parse_box_from(x, cc) && seg == seq![c0(0x2D)] + cc.push(c0(0x11));
            assert(seq![c0(0x2D)] + cc =~= seg.drop_last()); assert(seg.drop_last() =~= box_pre(y) + props_c(y.properties@)); theorem_parse_box_inversion(x, cc, y); }
        _ => { assert(false); }
    }
}
/// the canonical contents of an element list are the concatenation of the elements' canonical segments
pub open spec fn elems_segs_c(es: Seq<GdsElement>) -> Seq<Seq<Content>> { Seq::new(es.len(), |i: int| elem_c(es[i])) }
pub proof fn lemma_elems_c_flat(es: Seq<GdsElement>)
    ensures elems_c(es) == flat(elems_segs_c(es)),
    decreases es.len()
{
    if es.len() > 0 {
        lemma_elems_c_flat(es.drop_last());
        assert(elems_segs_c(es).drop_last() =~= elems_segs_c(es.drop_last()));
        assert(elems_segs_c(es).last() == elem_c(es.last()));
    }
}
/// structure `x` is structure `s0` up to its dates: same name bytes, same elements one for one
pub open spec fn struct_body_same(x: GdsStruct, s0: GdsStruct) -> bool {
    string_bytes(&x.name) == string_bytes(&s0.name) && x.elems@.len() == s0.elems@.len() && forall|i: int| 0 <= i < x.elems@.len() ==> elem_same(#[trigger] x.elems@[i], s0.elems@[i])
}
/// THEOREM (structure level): a structure whose segment (after BGNSTR) is the canonical one of `s0` is `s0`
pub proof fn theorem_struct_inversion(x: GdsStruct, sseg: Seq<Content>, s0: GdsStruct)
    requires struct_seg(x, sseg), seq![ci(0x05, dates12(s0.dates))] + sseg == struct_c(s0),
    ensures struct_body_same(x, s0),
{
    let segs = choose|segs: Seq<Seq<Content>>| #[trigger] elems_seg(x.elems@, segs) && sseg == (seq![cs(0x06, string_bytes(&x.name))] + flat(segs)).push(c0(0x07));
    let cs0 = elems_segs_c(s0.elems@);
    lemma_elems_c_flat(s0.elems@);
    let canon = seq![cs(0x06, string_bytes(&s0.name))] + flat(cs0) + seq![c0(0x07)];
    assert(sseg =~= canon) by { assert((seq![ci(0x05, dates12(s0.dates))] + sseg).skip(1) =~= sseg); assert(struct_c(s0).skip(1) =~= canon); }
    assert(sseg[0] == cs(0x06, string_bytes(&x.name))); assert(canon[0] == cs(0x06, string_bytes(&s0.name)));
    assert(cs(0x06, string_bytes(&x.name)).2 == cs(0x06, string_bytes(&s0.name)).2);
    assert(flat(segs) =~= sseg.subrange(1, sseg.len() - 1));
    assert(flat(cs0) =~= canon.subrange(1, canon.len() - 1));
    assert(segs_ok(segs)) by { assert forall|i: int| 0 <= i < segs.len() implies seg_ok(#[trigger] segs[i]) by { assert(elem_seg(x.elems@[i], segs[i])); lemma_elem_seg_ok(x.elems@[i], segs[i]); } }
    assert(segs_ok(cs0)) by { assert forall|i: int| 0 <= i < cs0.len() implies seg_ok(#[trigger] cs0[i]) by { lemma_elem_c_ok(s0.elems@[i]); } }
    lemma_flat_split(segs, cs0);
    assert forall|i: int| 0 <= i < x.elems@.len() implies elem_same(#[trigger] x.elems@[i], s0.elems@[i]) by {
        assert(elem_seg(x.elems@[i], segs[i])); assert(segs[i] == cs0[i]); assert(cs0[i] == elem_c(s0.elems@[i]));
        theorem_elem_inversion(x.elems@[i], s0.elems@[i]);
    }
}
// =====================================================================================================
// INVERSION, library level: if the records parse_lib consumed are the canonical contents of library `l0` (the writer's oracle `lib_c`), the library
// it returns is `l0`: same version, dates, name bytes and units, and the same structures one for one (dates, name bytes, elements).
// =====================================================================================================
pub open spec fn struct_same(x: GdsStruct, s0: GdsStruct) -> bool { x.dates == s0.dates && struct_body_same(x, s0) }
pub open spec fn structs_same(a: Seq<GdsStruct>, b: Seq<GdsStruct>) -> bool { a.len() == b.len() && forall|i: int| 0 <= i < a.len() ==> struct_same(#[trigger] a[i], b[i]) }
pub open spec fn lib_same(x: GdsLibrary, l0: GdsLibrary) -> bool {
    x.version == l0.version && x.dates == l0.dates && string_bytes(&x.name) == string_bytes(&l0.name) && units_c(x.units) == units_c(l0.units) && structs_same(x.structs@, l0.structs@)
}
/// the two reals of a UNITS record, as the record content carries them (sequence equality = both reals equal; stated on the sequence because Verus gives the
/// f64 fields of a struct no typing invariant, so the elementwise form cannot be derived from it)
pub open spec fn units_c(u: GdsUnits) -> Seq<f64> { seq![u.0, u.1] }
/// no BGNSTR / ENDLIB inside: neither in ...
pub open spec fn no_bgn(cc: Seq<Content>) -> bool { forall|i: int| 0 <= i < cc.len() ==> (#[trigger] cc[i]).0 != 0x05u8 && cc[i].0 != 0x04u8 }
/// ... the segment parse_struct consumed after a BGNSTR ...
pub proof fn lemma_struct_seg_no_bgn(x: GdsStruct, sseg: Seq<Content>)
    requires struct_seg(x, sseg),
    ensures no_bgn(sseg), sseg.len() >= 2, sseg.last() == c0(0x07),
{
    let segs = choose|segs: Seq<Seq<Content>>| #[trigger] elems_seg(x.elems@, segs) && sseg == (seq![cs(0x06, string_bytes(&x.name))] + flat(segs)).push(c0(0x07));
    assert(segs_ok(segs)) by { assert forall|i: int| 0 <= i < segs.len() implies seg_ok(#[trigger] segs[i]) by { assert(elem_seg(x.elems@[i], segs[i])); lemma_elem_seg_ok(x.elems@[i], segs[i]); } }
    lemma_flat_nums(segs);
    let f = flat(segs);
    assert forall|i: int| 0 <= i < sseg.len() implies (#[trigger] sseg[i]).0 != 0x05u8 && sseg[i].0 != 0x04u8 by { if 1 <= i < 1 + f.len() { assert(sseg[i] == f[i - 1]); } }
}
/// ... nor in the canonical contents of a structure after its BGNSTR
pub proof fn lemma_struct_c_no_bgn(s0: GdsStruct)
    ensures no_bgn(struct_c(s0).skip(1)), struct_c(s0).len() >= 3, struct_c(s0)[0] == ci(0x05, dates12(s0.dates)),
{
    let cs0 = elems_segs_c(s0.elems@);
    lemma_elems_c_flat(s0.elems@);
    assert(segs_ok(cs0)) by { assert forall|i: int| 0 <= i < cs0.len() implies seg_ok(#[trigger] cs0[i]) by { lemma_elem_c_ok(s0.elems@[i]); } }
    lemma_flat_nums(cs0);
    let f = flat(cs0); let w = struct_c(s0).skip(1);
    assert(w =~= seq![cs(0x06, string_bytes(&s0.name))] + f + seq![c0(0x07)]);
    assert forall|i: int| 0 <= i < w.len() implies (#[trigger] w[i]).0 != 0x05u8 && w[i].0 != 0x04u8 by { if 1 <= i < 1 + f.len() { assert(w[i] == f[i - 1]); } }
}
/// peel the last structure off a library fold whose consumed contents end with the canonical contents of structure `sl`
pub proof fn lemma_lib_peel_struct(tr: Seq<GdsRecord>, head: Seq<Content>, sl: GdsStruct, l: GdsLibraryBuilder, ss: Seq<GdsStruct>)
    requires libb_fold(tr, head + struct_c(sl), l, ss),
    ensures tr.len() > 0, ss.len() > 0, struct_same(ss.last(), sl), libb_fold(tr.drop_last(), head, l, ss.drop_last()),
{
    let cc = head + struct_c(sl);
    lemma_struct_c_no_bgn(sl);
    assert(cc.len() > 0);
    let (l0, s0, cx, sub) = choose|l0: GdsLibraryBuilder, s0: Seq<GdsStruct>, cx: Seq<Content>, sub: Seq<Content>| libb_fold(tr.drop_last(), cx, l0, s0) && #[trigger] libb_link(l0, s0, cx, sub, tr.last(), l, ss, cc);
    let r = tr.last();
    let full = cx.push(content(r)) + sub;
    assert(cc.last() == c0(0x07)) by { assert(cc.last() == struct_c(sl).last()); }
    if !(r is BgnStruct) {
        assert(sub.len() == 0); assert(full =~= cx.push(content(r))); assert(content(r) == cc.last());
        assert(false);
    }
    lemma_struct_seg_no_bgn(ss.last(), sub);
    let n1 = head.len() as int; let i = cx.len() as int;
    let w = struct_c(sl).skip(1);
    assert(cc[n1] == struct_c(sl)[0]);
    assert forall|j: int| n1 < j < cc.len() implies cc[j].0 != 0x05u8 by { assert(cc[j] == struct_c(sl)[j - n1]); assert(w[j - n1 - 1] == struct_c(sl)[j - n1]); }
    assert(full[i] == content(r));
    assert forall|j: int| i < j < full.len() implies full[j].0 != 0x05u8 by { assert(full[j] == sub[j - i - 1]); }
    if i < n1 { assert(full[n1].0 == 0x05u8); assert(false); }
    if i > n1 { assert(cc[i].0 == 0x05u8); assert(false); }
    assert(cx =~= head) by { assert forall|j: int| 0 <= j < i implies cx[j] == head[j] by { assert(full[j] == cx[j]); assert(cc[j] == head[j]); } }
    assert(content(r) == ci(0x05, dates12(sl.dates)));
    assert(sub =~= w) by { assert(sub.len() == w.len()); assert forall|j: int| 0 <= j < sub.len() implies sub[j] == w[j] by { assert(full[i + 1 + j] == sub[j]); assert(cc[n1 + 1 + j] == struct_c(sl)[1 + j]); } }
    assert(seq![ci(0x05, dates12(sl.dates))] + sub =~= struct_c(sl));
    theorem_struct_inversion(ss.last(), sub, sl);
    // the dates: BGNSTR's twelve words are the structure's, and the canonical BGNSTR carries those of `sl`
    let x = ss.last(); let d = r->BgnStruct_dates;
    assert(content(r).1 =~= dates12(sl.dates));
    assert forall|k: int| 0 <= k < 12 implies dates12(x.dates)[k] == dates12(sl.dates)[k] by { assert(content(r).1[k] == d@[k] as int); }
    assert(dates12(x.dates)[0] == dates12(sl.dates)[0] && dates12(x.dates)[1] == dates12(sl.dates)[1] && dates12(x.dates)[2] == dates12(sl.dates)[2] && dates12(x.dates)[3] == dates12(sl.dates)[3]
        && dates12(x.dates)[4] == dates12(sl.dates)[4] && dates12(x.dates)[5] == dates12(sl.dates)[5] && dates12(x.dates)[6] == dates12(sl.dates)[6] && dates12(x.dates)[7] == dates12(sl.dates)[7]
        && dates12(x.dates)[8] == dates12(sl.dates)[8] && dates12(x.dates)[9] == dates12(sl.dates)[9] && dates12(x.dates)[10] == dates12(sl.dates)[10] && dates12(x.dates)[11] == dates12(sl.dates)[11]);
    assert(x.dates.modified == sl.dates.modified && x.dates.accessed == sl.dates.accessed);
    assert(x.dates == sl.dates);
    assert(l0 == l && s0 == ss.drop_last());
    assert(cx == head);
}
/// all the structures of the canonical tail: the collected list ends with exactly those, the builder is untouched
pub proof fn lemma_lib_structs(tr: Seq<GdsRecord>, head: Seq<Content>, s0: Seq<GdsStruct>, l: GdsLibraryBuilder, ss: Seq<GdsStruct>)
    requires libb_fold(tr, head + structs_c(s0), l, ss),
    ensures exists|tr0: Seq<GdsRecord>, ss0: Seq<GdsStruct>| #[trigger] libb_fold(tr0, head, l, ss0) && ss.len() == ss0.len() + s0.len() && ss.take(ss0.len() as int) == ss0
        && structs_same(ss.skip(ss0.len() as int), s0),
    decreases s0.len()
{
    if s0.len() == 0 {
        assert(head + structs_c(s0) =~= head);
        assert(ss.take(ss.len() as int) =~= ss); assert(ss.skip(ss.len() as int) =~= Seq::<GdsStruct>::empty());
    } else {
        let sl = s0.last();
        let cc0 = head + structs_c(s0.drop_last());
        assert(head + structs_c(s0) =~= cc0 + struct_c(sl));
        lemma_lib_peel_struct(tr, cc0, sl, l, ss);
        lemma_lib_structs(tr.drop_last(), head, s0.drop_last(), l, ss.drop_last());
        let (tr0, ss0) = choose|tr0: Seq<GdsRecord>, ss0: Seq<GdsStruct>| #[trigger] libb_fold(tr0, head, l, ss0) && ss.drop_last().len() == ss0.len() + s0.drop_last().len()
            && ss.drop_last().take(ss0.len() as int) == ss0 && structs_same(ss.drop_last().skip(ss0.len() as int), s0.drop_last());
        assert(ss.take(ss0.len() as int) =~= ss.drop_last().take(ss0.len() as int));
        let a = ss.skip(ss0.len() as int); let a0 = ss.drop_last().skip(ss0.len() as int);
        assert(a.len() == s0.len());
        assert forall|i: int| 0 <= i < a.len() implies struct_same(#[trigger] a[i], s0[i]) by {
            if i < a0.len() { assert(a[i] == a0[i]); assert(s0[i] == s0.drop_last()[i]); } else { assert(a[i] == ss.last()); }
        }
    }
}
/// peel a plain library-level record (LIBNAME / UNITS) off the end of a fold
pub proof fn lemma_lib_peel_plain(tr: Seq<GdsRecord>, cc0: Seq<Content>, c: Content, l: GdsLibraryBuilder, ss: Seq<GdsStruct>)
    requires libb_fold(tr, cc0.push(c), l, ss), c.0 != 0x07u8,
    ensures tr.len() > 0, content(tr.last()) == c, !(tr.last() is BgnStruct),
        exists|l0: GdsLibraryBuilder| libb_fold(tr.drop_last(), cc0, l0, ss) && #[trigger] libb_step(l0, ss, tr.last(), l, ss),
{
    let cc = cc0.push(c);
    assert(cc.len() > 0);
    let (l0, s0, cx, sub) = choose|l0: GdsLibraryBuilder, s0: Seq<GdsStruct>, cx: Seq<Content>, sub: Seq<Content>| libb_fold(tr.drop_last(), cx, l0, s0) && #[trigger] libb_link(l0, s0, cx, sub, tr.last(), l, ss, cc);
    let r = tr.last();
    if r is BgnStruct { lemma_struct_seg_no_bgn(ss.last(), sub); assert(cc.last() == sub.last()); assert(false); }
    assert(sub.len() == 0);
    assert(cx.push(content(r)) + sub =~= cx.push(content(r)));
    assert(cc.last() == content(r)); assert(cc.drop_last() =~= cc0); assert(cc.drop_last() =~= cx);
    assert(cx == cc0 && s0 == ss);
    assert(libb_step(l0, ss, r, l, ss));
}
/// THEOREM (library level): if the records parse_lib consumed, followed by ENDLIB, are the canonical contents of `l0`, the library returned is `l0`
/// (`u0`, `u1` name the two unit reals of `l0`: parameters of type f64 are typed for the solver, struct fields of type f64 are not)
pub proof fn theorem_lib_inversion(x: GdsLibrary, tr: Seq<GdsRecord>, cc: Seq<Content>, ss: Seq<GdsStruct>, l0: GdsLibrary, u0: f64, u1: f64)
    requires lib_fold(tr, cc, ss, x), (seq![ci(0x00, seq![x.version as int]), ci(0x01, dates12(x.dates))] + cc).push(c0(0x04)) == lib_c(l0), l0.units.0 == u0, l0.units.1 == u1,
    ensures lib_same(x, l0),
{
    let l = choose|l: GdsLibraryBuilder| #[trigger] libb_fold(tr, cc, l, ss) && l.name is Some && x.name == l.name->0 && l.units is Some && x.units == l.units->0 && x.structs@ == ss;
    let hdr = seq![ci(0x00, seq![x.version as int]), ci(0x01, dates12(x.dates))];
    let whole = (hdr + cc).push(c0(0x04));
    let lc = lib_c(l0);
    let cn = cs(0x02, string_bytes(&l0.name)); let uv = seq![l0.units.0, l0.units.1]; let cu = cr(0x03, uv);
    let head = Seq::<Content>::empty().push(cn).push(cu);
    let four = seq![ci(0x00, seq![l0.version as int]), ci(0x01, dates12(l0.dates)), cn, cu];
    let two = seq![ci(0x00, seq![l0.version as int]), ci(0x01, dates12(l0.dates))];
    assert(head.len() == 2);
    assert(head[1] == cu);
    assert(head[0] == cn);
    assert(four.len() == 4 && two.len() == 2);
    assert((two + head)[2] == head[0] && (two + head)[3] == head[1]);
    assert(four =~= two + head);
    assert(lc == four + structs_c(l0.structs@) + seq![c0(0x04)]);
    assert(lc =~= seq![ci(0x00, seq![l0.version as int]), ci(0x01, dates12(l0.dates))] + head + structs_c(l0.structs@) + seq![c0(0x04)]);
    assert(whole[0] == hdr[0] && whole[1] == hdr[1]);
    assert(lc[0] == ci(0x00, seq![l0.version as int]) && lc[1] == ci(0x01, dates12(l0.dates)));
    // version and dates
    assert(hdr[0].1[0] == x.version as int); assert(lc[0].1[0] == l0.version as int);
    let dx = dates12(x.dates); let d0 = dates12(l0.dates);
    assert(dx == d0) by { assert(hdr[1].1 == dx); assert(lc[1].1 == d0); }
    assert(dx[0] == d0[0] && dx[1] == d0[1] && dx[2] == d0[2] && dx[3] == d0[3] && dx[4] == d0[4] && dx[5] == d0[5] && dx[6] == d0[6] && dx[7] == d0[7] && dx[8] == d0[8] && dx[9] == d0[9] && dx[10] == d0[10] && dx[11] == d0[11]);
    assert(x.dates.modified == l0.dates.modified && x.dates.accessed == l0.dates.accessed);
    assert(x.dates == l0.dates);
    // the body
    assert(cc =~= head + structs_c(l0.structs@)) by { assert(cc =~= whole.subrange(2, whole.len() - 1)); assert(head + structs_c(l0.structs@) =~= lc.subrange(2, lc.len() - 1)); }
    lemma_lib_structs(tr, head, l0.structs@, l, ss);
    let (tr0, ss0) = choose|tr0: Seq<GdsRecord>, ss0: Seq<GdsStruct>| #[trigger] libb_fold(tr0, head, l, ss0) && ss.len() == ss0.len() + l0.structs@.len() && ss.take(ss0.len() as int) == ss0
        && structs_same(ss.skip(ss0.len() as int), l0.structs@);
    // UNITS
    lemma_lib_peel_plain(tr0, Seq::<Content>::empty().push(cn), cu, l, ss0);
    let l1 = choose|l1: GdsLibraryBuilder| libb_fold(tr0.drop_last(), Seq::<Content>::empty().push(cn), l1, ss0) && #[trigger] libb_step(l1, ss0, tr0.last(), l, ss0);
    assert(tr0.last() is Units) by { lemma_num_units(tr0.last()); }
    assert(content(tr0.last()).3 == uv);
    assert(units_c(x.units) == content(tr0.last()).3);
    // LIBNAME
    let t1 = tr0.drop_last();
    lemma_lib_peel_plain(t1, Seq::<Content>::empty(), cn, l1, ss0);
    let l2 = choose|l2: GdsLibraryBuilder| libb_fold(t1.drop_last(), Seq::<Content>::empty(), l2, ss0) && #[trigger] libb_step(l2, ss0, t1.last(), l1, ss0);
    assert(t1.last() is LibName) by { lemma_num_libname(t1.last()); }
    assert(content(t1.last()).2 == string_bytes(&l0.name));
    // nothing left: no structure before LIBNAME
    let t2 = t1.drop_last();
    if t2.len() > 0 {
        let (la, sa, cx, sub) = choose|la: GdsLibraryBuilder, sa: Seq<GdsStruct>, cx: Seq<Content>, sub: Seq<Content>| libb_fold(t2.drop_last(), cx, la, sa) && #[trigger] libb_link(la, sa, cx, sub, t2.last(), l2, ss0, Seq::<Content>::empty());
        assert((cx.push(content(t2.last())) + sub).len() > 0);
    }
    assert(ss0.len() == 0);
    assert(ss.skip(0) =~= ss);
}
pub proof fn lemma_num_units(r: GdsRecord) requires content(r).0 == 0x03u8 ensures r is Units {}
pub proof fn lemma_num_libname(r: GdsRecord) requires content(r).0 == 0x02u8 ensures r is LibName {}
// ---- stream level: what parse_lib returns on a stream that starts with the canonical records of a library ----
pub open spec fn no_endlib(cc: Seq<Content>) -> bool { forall|i: int| 0 <= i < cc.len() ==> (#[trigger] cc[i]).0 != 0x04u8 }
/// the records a library fold consumed contain no ENDLIB
pub proof fn lemma_libb_no_endlib(tr: Seq<GdsRecord>, cc: Seq<Content>, l: GdsLibraryBuilder, ss: Seq<GdsStruct>)
    requires libb_fold(tr, cc, l, ss),
    ensures no_endlib(cc),
    decreases tr.len()
{
    if tr.len() > 0 {
        let (l0, s0, cx, sub) = choose|l0: GdsLibraryBuilder, s0: Seq<GdsStruct>, cx: Seq<Content>, sub: Seq<Content>| libb_fold(tr.drop_last(), cx, l0, s0) && #[trigger] libb_link(l0, s0, cx, sub, tr.last(), l, ss, cc);
        lemma_libb_no_endlib(tr.drop_last(), cx, l0, s0);
        let r = tr.last();
        if r is BgnStruct { lemma_struct_seg_no_bgn(ss.last(), sub); }
        assert(content(r).0 != 0x04u8);
        assert forall|i: int| 0 <= i < cc.len() implies (#[trigger] cc[i]).0 != 0x04u8 by {
            if i < cx.len() { assert(cc[i] == cx[i]); } else if i == cx.len() { assert(cc[i] == content(r)); } else { assert(cc[i] == sub[i - cx.len() - 1]); }
        }
    }
}
/// nor do the canonical contents of a structure list
pub proof fn lemma_structs_c_no_endlib(s0: Seq<GdsStruct>)
    ensures no_endlib(structs_c(s0)),
    decreases s0.len()
{
    if s0.len() > 0 {
        lemma_structs_c_no_endlib(s0.drop_last());
        lemma_struct_c_no_bgn(s0.last());
        let a = structs_c(s0.drop_last()); let b = struct_c(s0.last()); let w = structs_c(s0);
        assert forall|i: int| 0 <= i < w.len() implies (#[trigger] w[i]).0 != 0x04u8 by {
            if i < a.len() { assert(w[i] == a[i]); } else { let j = i - a.len(); assert(w[i] == b[j]); if j > 0 { assert(b.skip(1)[j - 1] == b[j]); } }
        }
    }
}
/// THEOREM (stream level, C01 / C03): if parse_lib starts at the first record of a stream whose record contents begin with the canonical contents of
/// library `l0` (anything may follow its ENDLIB), the library it returns is `l0`
pub proof fn theorem_parse_lib_canonical(pre: GdsParser, post: GdsParser, x: GdsLibrary, l0: GdsLibrary, u0: f64, u1: f64)
    requires parse_lib_post(pre, post, x), post.rdr.source.data@ == pre.rdr.source.data@, at(pre, 1),
        lib_c(l0).len() <= pcs(pre).len(), pcs(pre).subrange(0, lib_c(l0).len() as int) == lib_c(l0), l0.units.0 == u0, l0.units.1 == u1,
    ensures lib_same(x, l0),
{
    let (tr, cc, ss) = choose|tr: Seq<GdsRecord>, cc: Seq<Content>, ss: Seq<GdsStruct>| #[trigger] lib_fold(tr, cc, ss, x)
        && tied_c(pre, post, seq![ci(0x00, seq![x.version as int]), ci(0x01, dates12(x.dates))] + cc) && post.nxt is EndLib;
    let l = choose|l: GdsLibraryBuilder| #[trigger] libb_fold(tr, cc, l, ss) && l.name is Some && x.name == l.name->0 && l.units is Some && x.units == l.units->0 && x.structs@ == ss;
    let hdr = seq![ci(0x00, seq![x.version as int]), ci(0x01, dates12(x.dates))];
    let hc = hdr + cc; let n = hc.len() as int;
    let lc = lib_c(l0); let m = lc.len() as int; let ps = pcs(pre);
    assert(at(post, 1 + n) && hc =~= ps.subrange(0, n));
    assert(pcs(post) == ps);
    assert(ps[n].0 == 0x04u8) by { assert(content(post.nxt) == ps[n]); }
    lemma_libb_no_endlib(tr, cc, l, ss);
    assert(no_endlib(hc)) by { assert forall|i: int| 0 <= i < hc.len() implies (#[trigger] hc[i]).0 != 0x04u8 by { if i >= 2 { assert(hc[i] == cc[i - 2]); } } }
    // the canonical contents: ENDLIB is their last record and only there
    lemma_structs_c_no_endlib(l0.structs@);
    let sc = structs_c(l0.structs@);
    let uv = seq![l0.units.0, l0.units.1];
    let four = seq![ci(0x00, seq![l0.version as int]), ci(0x01, dates12(l0.dates)), cs(0x02, string_bytes(&l0.name)), cr(0x03, uv)];
    assert(lc == four + sc + seq![c0(0x04)]);
    assert(m == 5 + sc.len());
    assert(lc[m - 1] == c0(0x04));
    assert forall|j: int| 0 <= j < m - 1 implies lc[j].0 != 0x04u8 by { if j >= 4 { assert(lc[j] == sc[j - 4]); } else { assert(lc[j] == four[j]); } }
    if n < m - 1 { assert(ps.subrange(0, m)[n] == ps[n]); assert(false); }
    if n > m - 1 { assert(hc[m - 1] == ps.subrange(0, n)[m - 1]); assert(ps.subrange(0, m)[m - 1] == ps[m - 1]); assert(false); }
    assert(hc.push(c0(0x04)) =~= lc) by {
        assert forall|j: int| 0 <= j < m implies hc.push(c0(0x04))[j] == lc[j] by { if j < n { assert(hc[j] == ps.subrange(0, n)[j]); assert(lc[j] == ps.subrange(0, m)[j]); } }
    }
    theorem_lib_inversion(x, tr, cc, ss, l0, u0, u1);
}
/// THEOREM (C01, write-then-read, partial correctness): if the independent decoder `cstream` reads exactly the canonical records of `lib` from the
/// parser's bytes — what `GdsWriter::write_lib` guarantees for the bytes it produced (unit gds_tree: `cstream(bytes) == lib_c(lib)`) — then a parser
/// created on those bytes by `GdsParser::new` (stream position 1) that returns a library from `parse_lib` returns `lib`
pub proof fn theorem_write_then_read(pre: GdsParser, post: GdsParser, x: GdsLibrary, lib: GdsLibrary, u0: f64, u1: f64)
    requires cstream(pre.rdr.source.data@) == lib_c(lib), at(pre, 1), parse_lib_post(pre, post, x), post.rdr.source.data@ == pre.rdr.source.data@,
        lib.units.0 == u0, lib.units.1 == u1,
    ensures lib_same(x, lib),
{
    assert(pcs(pre).subrange(0, lib_c(lib).len() as int) =~= lib_c(lib));
    theorem_parse_lib_canonical(pre, post, x, lib, u0, u1);
}
