
// model of #[derive(PartialEq)] on GdsRecord, as far as the parser uses it: comparison against the field-less ENDLIB record
impl PartialEq for GdsRecord {
    #[verifier::external_body]
    fn eq(&self, other: &Self) -> (r: bool) ensures *other is EndLib ==> r == (*self is EndLib) { unimplemented!() }
}
impl Clone for GdsContext { #[verifier::external_body] fn clone(&self) -> (r: Self) ensures r == *self { unimplemented!() } }
impl Default for GdsDateTime { fn default() -> Self { GdsDateTime { year: 0, month: 0, day: 0, hour: 0, minute: 0, second: 0 } } }

// =====================================================================================================
// PARSER (gds21/src/read.rs), extracted
// =====================================================================================================
//@ item gds21/src/read.rs :: struct GdsParser
//@   sub R5 /GdsParser<R>/ => GdsParser
//@   sub R5 /rdr: GdsReader<R>,/ => pub rdr: GdsReader,
//@   sub R4 /\n    (nxt|numread|ctx):/ => \n    pub \1:
//@ end
/// parser well-formedness: the source is positioned inside its data, and at most one record per four bytes has been counted
pub open spec fn pwf(p: GdsParser) -> bool { p.rdr.source.wf() && p.numread <= p.rdr.source.pos / 4 + 1 }
/// termination measure: unread bytes, plus one while the look-ahead record is not ENDLIB
pub open spec fn pm(p: GdsParser) -> int { p.rdr.source.rest().len() + (if p.nxt is EndLib { 0int } else { 1int }) }
/// the record contents of the parser's data, read front to back by the independent decoder of C02
pub open spec fn pcs(p: GdsParser) -> Seq<Content> { cstream(p.rdr.source.data@) }
/// STREAM POSITION: `k` records have been decoded — the look-ahead is record k-1 of the stream, the unread bytes hold records k, k+1, ...
pub open spec fn at(p: GdsParser, k: int) -> bool {
    1 <= k <= pcs(p).len() && content(p.nxt) == pcs(p)[k - 1] && cstream(p.rdr.source.rest()) == pcs(p).skip(k)
}
/// the position is determined by the state: the number of records of the stream minus the number still unread
pub open spec fn kof(p: GdsParser) -> int { pcs(p).len() - cstream(p.rdr.source.rest()).len() }
pub proof fn lemma_at_kof(p: GdsParser, k: int) requires at(p, k) ensures k == kof(p) { assert(pcs(p).skip(k).len() == pcs(p).len() - k); }
/// trace `ts` is what was consumed between parser states `pre` and `post`: the position moved by its length and its contents are the stream's
pub open spec fn tied(pre: GdsParser, post: GdsParser, ts: Seq<GdsRecord>) -> bool {
    forall|k: int| #[trigger] at(pre, k) ==> at(post, k + ts.len()) && contents(ts) =~= pcs(pre).subrange(k - 1, k - 1 + ts.len())
}
/// contents `cs` are what was consumed between parser states `pre` and `post`: the position moved by their number and they are the stream's next records
pub open spec fn tied_c(pre: GdsParser, post: GdsParser, cs: Seq<Content>) -> bool {
    forall|k: int| #[trigger] at(pre, k) ==> at(post, k + cs.len()) && cs =~= pcs(pre).subrange(k - 1, k - 1 + cs.len())
}
pub proof fn lemma_tied_compose(p0: GdsParser, p1: GdsParser, p2: GdsParser, a: Seq<Content>, b: Seq<Content>)
    requires tied_c(p0, p1, a), tied_c(p1, p2, b), p1.rdr.source.data@ == p0.rdr.source.data@, p2.rdr.source.data@ == p0.rdr.source.data@,
    ensures tied_c(p0, p2, a + b),
{
    assert forall|k: int| #[trigger] at(p0, k) implies at(p2, k + (a + b).len()) && (a + b) =~= pcs(p0).subrange(k - 1, k - 1 + (a + b).len()) by {
        assert(at(p1, k + a.len())); assert(at(p2, k + a.len() + b.len()));
        let c = pcs(p0);
        assert(b =~= c.subrange(k + a.len() - 1, k + a.len() - 1 + b.len()));
        assert(c.subrange(k - 1, k - 1 + a.len() + b.len()) =~= c.subrange(k - 1, k - 1 + a.len()) + c.subrange(k - 1 + a.len(), k - 1 + a.len() + b.len()));
    }
}
/// the MAG / ANGLE records parse_strans consumed between `pre` and `post` to read transform `s` (its postcondition says there are such)
pub open spec fn strans_ts(pre: GdsParser, post: GdsParser, s: GdsStrans) -> Seq<GdsRecord> { choose|ts: Seq<GdsRecord>| #[trigger] strans_fold(ts, s) && tied(pre, post, ts) }
/// `sub` are the contents of the MAG / ANGLE records transform `s` was read from
pub open spec fn strans_read(sub: Seq<Content>, s: GdsStrans) -> bool { exists|ts: Seq<GdsRecord>| strans_fold(ts, s) && #[trigger] contents(ts) == sub }
/// decoding one more record (what read_record guarantees, `rec_at`) moves the position by one
pub proof fn lemma_at_step(p0: GdsParser, p1: GdsParser, k: int)
    requires at(p0, k), p1.rdr.source.data@ == p0.rdr.source.data@, p0.rdr.source.wf(), p1.rdr.source.wf(), p1.rdr.source.pos >= p0.rdr.source.pos + 4,
        rec_at(p0.rdr.source.rest(), p1.nxt, p1.rdr.source.pos - p0.rdr.source.pos),
    ensures at(p1, k + 1),
{
    let b = p0.rdr.source.rest(); let n = p1.rdr.source.pos - p0.rdr.source.pos;
    lemma_decode_determined(p1.nxt, b.subrange(4, n));
    assert(rec_total(b) == n);
    assert(content_of_bytes(b) == content(p1.nxt));
    assert(cstream(b) == seq![content_of_bytes(b)] + cstream(b.skip(n)));
    assert(p1.rdr.source.rest() =~= b.skip(n));
    let cs = pcs(p0);
    assert(cstream(b)[0] == cs.skip(k)[0]);
    assert(cstream(b.skip(n)) =~= cstream(b).skip(1));
    assert(cs.skip(k).skip(1) =~= cs.skip(k + 1));
}
/// decoding the first record of the data puts the parser at position 1
pub proof fn lemma_at_first(p1: GdsParser)
    requires p1.rdr.source.wf(), p1.rdr.source.pos >= 4, rec_at(p1.rdr.source.data@, p1.nxt, p1.rdr.source.pos as int),
    ensures at(p1, 1),
{
    let b = p1.rdr.source.data@; let n = p1.rdr.source.pos as int;
    lemma_decode_determined(p1.nxt, b.subrange(4, n));
    assert(rec_total(b) == n);
    assert(content_of_bytes(b) == content(p1.nxt));
    assert(cstream(b) == seq![content_of_bytes(b)] + cstream(b.skip(n)));
    assert(p1.rdr.source.rest() =~= b.skip(n));
    assert(cstream(b.skip(n)) =~= cstream(b).skip(1));
}
/// `rec` decodes the record of `n` bytes at the head of `b` (what read_record guarantees)
pub open spec fn rec_at(b: Seq<u8>, rec: GdsRecord, n: int) -> bool {
    header_ok(b) && n == de16(b[0], b[1]) && b.len() >= n && rec_num(rec) == b[2] && rec_dtype(rec) == b[3] && payload_matches(rec, b.subrange(4, n))
}
/// STRANS flag bits per the manual: bit 0 (0x80 of byte 0) reflection, bit 13 (0x04 of byte 1) absolute magnification, bit 14 (0x02 of byte 1) absolute angle
pub open spec fn strans_flags_ok(s: GdsStrans, d0: u8, d1: u8) -> bool {
    s.reflected == (d0 & 0x80 != 0) && s.abs_mag == (d1 & 0x04 != 0) && s.abs_angle == (d1 & 0x02 != 0)
}
impl GdsReader {
    /// Cursor::stream_position().unwrap(): the current offset (never fails on a Cursor)
    #[verifier::external_body]
    fn pos(&mut self) -> (r: u64) ensures *final(self) == *old(self) { self.source.pos as u64 }
}
impl GdsParser {
    /// error constructors (message/context only): models, always an error, parser state untouched
    #[verifier::external_body]
    fn invalid<T>(&mut self, record: GdsRecord) -> (r: GdsResult<T>) ensures r is Err, *final(self) == *old(self) { unimplemented!() }
    #[verifier::external_body]
    fn fail<T, M>(&mut self, msg: M) -> (r: GdsResult<T>) ensures r is Err, *final(self) == *old(self) { unimplemented!() }
//@ fn gds21/src/read.rs :: impl<R> GdsParser<R> :: fn new
//@   ret r
//@   sub R5 /mut rdr: GdsReader<R>/ => rdr0: GdsReader
//@   sub R3 @4eff1433 /Ok\(GdsParser \{([\s\S]*?)\}\)/ => let vp_p = GdsParser {\1}; proof { assert(rdr0.source.rest() =~= rdr0.source.data@); assert(rec_at(vp_p.rdr.source.data@, vp_p.nxt, vp_p.rdr.source.pos as int)); lemma_at_first(vp_p); } Ok(vp_p)
//@   spec
//|     requires rdr0.source.wf(), rdr0.source.pos == 0,
//|     // the parser starts with the FIRST record of the data as its look-ahead: stream position 1
//|     ensures r is Ok ==> pwf(r->Ok_0) && r->Ok_0.rdr.source.data@ == rdr0.source.data@ && at(r->Ok_0, 1),
//@   atstart
//|         let mut rdr = rdr0; // R5: `mut rdr` parameter as a local (Verus: a `mut` parameter cannot be named in the postcondition)
//@ end
//@ fn gds21/src/read.rs :: impl<R> GdsParser<R> :: fn next
//@   ret r
//@   spec
//|     requires pwf(*old(self)),
//|     ensures pwf(*final(self)), final(self).ctx == old(self).ctx, final(self).rdr.source.data@ == old(self).rdr.source.data@,
//|         // once the look-ahead is ENDLIB nothing more is read: ENDLIB is returned forever and bytes after it are ignored
//|         old(self).nxt is EndLib ==> r is Ok && r->Ok_0 is EndLib && final(self).nxt == old(self).nxt && final(self).rdr.source.pos == old(self).rdr.source.pos,
//|         // otherwise the look-ahead is returned and exactly one more record is decoded from the source (at least four bytes are consumed)
//|         (!(old(self).nxt is EndLib) && r is Ok) ==> r->Ok_0 == old(self).nxt && final(self).rdr.source.pos >= old(self).rdr.source.pos + 4
//|             && rec_at(old(self).rdr.source.rest(), final(self).nxt, final(self).rdr.source.pos - old(self).rdr.source.pos),
//|         r is Ok ==> pm(*final(self)) <= pm(*old(self)) && (!(old(self).nxt is EndLib) ==> pm(*final(self)) < pm(*old(self))),
//|         r is Err ==> pm(*final(self)) <= pm(*old(self)),
//|         // stream position: the record returned is record k-1 of the stream, and the position moves on by exactly one
//|         forall|k: int| #[trigger] at(*old(self), k) && r is Ok ==> r->Ok_0 == old(self).nxt && (if old(self).nxt is EndLib { at(*final(self), k) } else { at(*final(self), k + 1) }),
//@   before /^        Ok\(rv\)$/
//|         proof { assert forall|k: int| #[trigger] at(*old(self), k) implies at(*self, k + 1) by { lemma_at_step(*old(self), *self, k); } }
//@ end
//@ fn gds21/src/read.rs :: impl<R> GdsParser<R> :: fn peek
//@   ret r
//@   spec
//|     ensures *r == self.nxt,
//@ end
//@ fn gds21/src/read.rs :: impl<R> GdsParser<R> :: fn parse_property
//@   ret r
//@   spec
//|     requires pwf(*old(self)),
//|     ensures pwf(*final(self)), pm(*final(self)) <= pm(*old(self)), final(self).rdr.source.data@ == old(self).rdr.source.data@,
//|         // PROPATTR must be followed immediately by PROPVALUE, whose string becomes the value
//|         r is Ok ==> r->Ok_0.attr == attr && old(self).nxt is PropValue && r->Ok_0.value == old(self).nxt->PropValue_0,
//|         !(old(self).nxt is PropValue) ==> r is Err,
//|         // stream position: exactly the PROPVALUE record is consumed
//|         forall|k: int| #[trigger] at(*old(self), k) && r is Ok ==> at(*final(self), k + 1) && pcs(*old(self))[k - 1] == cs(0x2C, string_bytes(&r->Ok_0.value)),
//@   before1 /let value = if let GdsRecord::PropValue\(v\) = self\.next\(\)\?/
//|         let ghost pre = *self;
//@   before /^        Ok\(GdsProperty \{ attr, value \}\)$/
//|         proof {
//|             assert(content(old(self).nxt) == cs(0x2C, string_bytes(&value)));
//|             assert forall|k: int| #[trigger] at(*old(self), k) implies at(*self, k + 1) && pcs(*old(self))[k - 1] == cs(0x2C, string_bytes(&value)) by { assert(at(pre, k)); }
//|         }
//@ end
//@ fn gds21/src/read.rs :: impl<R> GdsParser<R> :: fn parse_strans
//@   ret r
//@   spec
//|     requires pwf(*old(self)),
//|     ensures pwf(*final(self)), pm(*final(self)) <= pm(*old(self)), final(self).rdr.source.data@ == old(self).rdr.source.data@,
//|         r is Ok ==> strans_flags_ok(r->Ok_0, d0, d1),
//|         // <strans> ::= STRANS [MAG] [ANGLE]: without a following MAG/ANGLE record both stay unset and nothing is consumed
//|         (r is Ok && !(old(self).nxt is Mag) && !(old(self).nxt is Angle)) ==> r->Ok_0.mag is None && r->Ok_0.angle is None && *final(self) == *old(self),
//|         (r is Ok && old(self).nxt is Mag) ==> r->Ok_0.mag is Some,
//|         (r is Ok && old(self).nxt is Angle) ==> r->Ok_0.angle is Some,
//|         // the magnification / angle are those of the MAG / ANGLE records consumed (the last of each)
//|         // stream position: exactly the MAG / ANGLE records of `tr` are consumed, and they are the next records of the stream
//|         r is Ok ==> exists|tr: Seq<GdsRecord>| #[trigger] strans_fold(tr, r->Ok_0) && tied(*old(self), *final(self), tr),
//@   before /^        loop \{$/
//|         let ghost mut tr: Seq<GdsRecord> = Seq::empty();
//@   loop 1
//|             invariant pwf(*self), pm(*self) <= pm(*old(self)), self.rdr.source.data@ == old(self).rdr.source.data@,
//|                 strans_flags_ok(s, d0, d1), strans_fold(tr, s),
//|                 forall|k: int| #[trigger] at(*old(self), k) ==> at(*self, k + tr.len()) && contents(tr) =~= pcs(*old(self)).subrange(k - 1, k - 1 + tr.len()),
//|                 (!(old(self).nxt is Mag) && !(old(self).nxt is Angle)) ==> (s.mag is None && s.angle is None && *self == *old(self)),
//|                 old(self).nxt is Mag ==> (s.mag is Some || *self == *old(self)),
//|                 old(self).nxt is Angle ==> (s.angle is Some || *self == *old(self)),
//|             ensures !(self.nxt is Mag), !(self.nxt is Angle), strans_fold(tr, s),
//|                 forall|k: int| #[trigger] at(*old(self), k) ==> at(*self, k + tr.len()) && contents(tr) =~= pcs(*old(self)).subrange(k - 1, k - 1 + tr.len()),
//|             decreases pm(*self),
//@   before /match self\.peek\(\) \{/
//|             let ghost s0 = s; let ghost r0 = self.nxt; let ghost pre0 = *self;
//@   loopend 1
//|             proof {
//|                 assert forall|k: int| #[trigger] at(*old(self), k) implies at(*self, k + tr.len() + 1) && contents(tr.push(r0)) =~= pcs(*old(self)).subrange(k - 1, k + tr.len()) by {
//|                     let kk = k + tr.len(); assert(at(pre0, kk)); assert(content(r0) == pcs(pre0)[kk - 1]);
//|                     let cs_ = pcs(*old(self));
//|                     assert(cs_.subrange(k - 1, kk) =~= cs_.subrange(k - 1, kk - 1).push(cs_[kk - 1]));
//|                     assert(contents(tr.push(r0)) =~= contents(tr).push(content(r0)));
//|                 }
//|                 let tr1 = tr.push(r0);
//|                 assert(tr1.drop_last() =~= tr); assert(tr1.last() == r0);
//|                 assert(strans_step(s0, r0, s));
//|                 assert(strans_fold(tr1, s));
//|                 tr = tr1;
//|             }
//@ end
//@ fn gds21/src/read.rs :: impl<R> GdsParser<R> :: fn parse_datetime
//@   ret r
//@   sub R5 /GdsDateTime::from\(d\)/ => vp_datetime_from(d)
//@   spec
//|     ensures *final(self) == *old(self), r.year == d@[0], r.month == d@[1], r.day == d@[2], r.hour == d@[3], r.minute == d@[4], r.second == d@[5],
//@ end
//@ fn gds21/src/read.rs :: impl<R> GdsParser<R> :: fn parse_datetimes
//@   ret r
//@   sub R5 /&d\[0\.\.6\]\.try_into\(\)\.unwrap\(\)/ => &vp_sub6(d, 0)
//@   sub R5 /&d\[6\.\.12\]\.try_into\(\)\.unwrap\(\)/ => &vp_sub6(d, 6)
//@   spec
//|     ensures *final(self) == *old(self), forall|i: int| 0 <= i < 12 ==> dates12(r)[i] == #[trigger] d@[i] as int,
//@ end
}
/// the body of `impl From<&[i16; 6]> for GdsDateTime` (gds21/src/data.rs), extracted as a free function (R9)
//@ fn gds21/src/data.rs :: impl From<&[i16; 6]> for GdsDateTime :: fn from
//@   nopub
//@   ret r
//@   sub R9 /fn from\(bytes: &\[i16; 6\]\) -> Self/ => fn vp_datetime_from(bytes: &[i16; 6]) -> GdsDateTime
//@   sub R9 /Self \{/ => GdsDateTime {
//@   spec
//|     ensures r.year == bytes@[0], r.month == bytes@[1], r.day == bytes@[2], r.hour == bytes@[3], r.minute == bytes@[4], r.second == bytes@[5],
//@ end
/// model of `Vec<GdsPoint>::try_into::<[GdsPoint; N]>()`: Ok with the same elements exactly when the length is N (else the vector back)
#[verifier::external_body]
pub fn vp_vec_to_array<const N: usize>(v: Vec<GdsPoint>) -> (r: Result<[GdsPoint; N], Vec<GdsPoint>>)
    ensures r is Ok <==> v@.len() == N, r is Ok ==> r->Ok_0@ == v@,
{ v.try_into() }
/// model of `d[a..a+6].try_into().unwrap()` (slice of fixed length 6 to array): the six elements from `a`; the range is an OBLIGATION
#[verifier::external_body]
pub fn vp_sub6(d: &[i16; 12], a: usize) -> (r: [i16; 6])
    requires a + 6 <= 12,
    ensures forall|i: int| 0 <= i < 6 ==> #[trigger] r@[i] == d@[a + i],
{ d[a..a + 6].try_into().unwrap() }

pub open spec fn strans_step(s0: GdsStrans, r: GdsRecord, s1: GdsStrans) -> bool {
    match r { GdsRecord::Mag(d) => s1 == (GdsStrans { mag: Some(d), ..s0 }), GdsRecord::Angle(d) => s1 == (GdsStrans { angle: Some(d), ..s0 }), _ => false }
}
pub open spec fn strans_fold(tr: Seq<GdsRecord>, s: GdsStrans) -> bool decreases tr.len() {
    if tr.len() == 0 { s.mag is None && s.angle is None }
    else { exists|s0: GdsStrans| strans_fold(tr.drop_last(), s0) && #[trigger] strans_step(s0, tr.last(), s) }
}
/// `seg` are the contents of element `e` in the stream: its opening record, the records its parser consumed building it, ENDEL
pub open spec fn elem_seg(e: GdsElement, seg: Seq<Content>) -> bool {
    match e {
        GdsElement::GdsBoundary(x) => exists|cc: Seq<Content>| #[trigger] parse_boundary_from(x, cc) && seg == seq![c0(0x08)] + cc.push(c0(0x11)),
        GdsElement::GdsPath(x) => exists|cc: Seq<Content>| #[trigger] parse_path_from(x, cc) && seg == seq![c0(0x09)] + cc.push(c0(0x11)),
        GdsElement::GdsStructRef(x) => exists|cc: Seq<Content>| #[trigger] parse_struct_ref_from(x, cc) && seg == seq![c0(0x0A)] + cc.push(c0(0x11)),
        GdsElement::GdsArrayRef(x) => exists|cc: Seq<Content>| #[trigger] parse_array_ref_from(x, cc) && seg == seq![c0(0x0B)] + cc.push(c0(0x11)),
        GdsElement::GdsTextElem(x) => exists|cc: Seq<Content>| #[trigger] parse_text_elem_from(x, cc) && seg == seq![c0(0x0C)] + cc.push(c0(0x11)),
        GdsElement::GdsNode(x) => exists|cc: Seq<Content>| #[trigger] parse_node_from(x, cc) && seg == seq![c0(0x15)] + cc.push(c0(0x11)),
        GdsElement::GdsBox(x) => exists|cc: Seq<Content>| #[trigger] parse_box_from(x, cc) && seg == seq![c0(0x2D)] + cc.push(c0(0x11)),
    }
}
/// what the element parser of `e`'s kind guarantees between states `pre` and `post`
pub open spec fn elem_post(pre: GdsParser, post: GdsParser, e: GdsElement) -> bool {
    match e {
        GdsElement::GdsBoundary(x) => parse_boundary_post(pre, post, x),
        GdsElement::GdsPath(x) => parse_path_post(pre, post, x),
        GdsElement::GdsStructRef(x) => parse_struct_ref_post(pre, post, x),
        GdsElement::GdsArrayRef(x) => parse_array_ref_post(pre, post, x),
        GdsElement::GdsTextElem(x) => parse_text_elem_post(pre, post, x),
        GdsElement::GdsNode(x) => parse_node_post(pre, post, x),
        GdsElement::GdsBox(x) => parse_box_post(pre, post, x),
    }
}
/// the contents the element parser consumed for `e` (before ENDEL): a witness of its postcondition
pub open spec fn elem_cc(pre: GdsParser, post: GdsParser, e: GdsElement) -> Seq<Content> {
    match e {
        GdsElement::GdsBoundary(x) => choose|cc: Seq<Content>| #[trigger] parse_boundary_from(x, cc) && tied_c(pre, post, cc.push(c0(0x11))),
        GdsElement::GdsPath(x) => choose|cc: Seq<Content>| #[trigger] parse_path_from(x, cc) && tied_c(pre, post, cc.push(c0(0x11))),
        GdsElement::GdsStructRef(x) => choose|cc: Seq<Content>| #[trigger] parse_struct_ref_from(x, cc) && tied_c(pre, post, cc.push(c0(0x11))),
        GdsElement::GdsArrayRef(x) => choose|cc: Seq<Content>| #[trigger] parse_array_ref_from(x, cc) && tied_c(pre, post, cc.push(c0(0x11))),
        GdsElement::GdsTextElem(x) => choose|cc: Seq<Content>| #[trigger] parse_text_elem_from(x, cc) && tied_c(pre, post, cc.push(c0(0x11))),
        GdsElement::GdsNode(x) => choose|cc: Seq<Content>| #[trigger] parse_node_from(x, cc) && tied_c(pre, post, cc.push(c0(0x11))),
        GdsElement::GdsBox(x) => choose|cc: Seq<Content>| #[trigger] parse_box_from(x, cc) && tied_c(pre, post, cc.push(c0(0x11))),
    }
}
pub open spec fn opener_num(e: GdsElement) -> u8 {
    match e { GdsElement::GdsBoundary(_) => 0x08u8, GdsElement::GdsPath(_) => 0x09u8, GdsElement::GdsStructRef(_) => 0x0Au8, GdsElement::GdsArrayRef(_) => 0x0Bu8, GdsElement::GdsTextElem(_) => 0x0Cu8, GdsElement::GdsNode(_) => 0x15u8, GdsElement::GdsBox(_) => 0x2Du8, }
}
pub proof fn lemma_elem_seg(pre: GdsParser, post: GdsParser, e: GdsElement)
    requires elem_post(pre, post, e),
    ensures elem_seg(e, seq![c0(opener_num(e))] + elem_cc(pre, post, e).push(c0(0x11))), tied_c(pre, post, elem_cc(pre, post, e).push(c0(0x11))),
{
    match e {
        GdsElement::GdsBoundary(x) => { assert(parse_boundary_post(pre, post, x)); }
        GdsElement::GdsPath(x) => { assert(parse_path_post(pre, post, x)); }
        GdsElement::GdsStructRef(x) => { assert(parse_struct_ref_post(pre, post, x)); }
        GdsElement::GdsArrayRef(x) => { assert(parse_array_ref_post(pre, post, x)); }
        GdsElement::GdsTextElem(x) => { assert(parse_text_elem_post(pre, post, x)); }
        GdsElement::GdsNode(x) => { assert(parse_node_post(pre, post, x)); }
        GdsElement::GdsBox(x) => { assert(parse_box_post(pre, post, x)); }
    }
}
pub open spec fn flat(segs: Seq<Seq<Content>>) -> Seq<Content> decreases segs.len() { if segs.len() == 0 { Seq::empty() } else { flat(segs.drop_last()) + segs.last() } }
pub open spec fn elems_seg(es: Seq<GdsElement>, segs: Seq<Seq<Content>>) -> bool { es.len() == segs.len() && forall|i: int| 0 <= i < es.len() ==> elem_seg(#[trigger] es[i], segs[i]) }
/// what parse_struct guarantees about the stream: STRNAME, the elements' segments in order, ENDSTR are exactly the records consumed
pub open spec fn parse_struct_post(pre: GdsParser, post: GdsParser, s: GdsStruct) -> bool {
    exists|segs: Seq<Seq<Content>>| #[trigger] elems_seg(s.elems@, segs) && tied_c(pre, post, (seq![cs(0x06, string_bytes(&s.name))] + flat(segs)).push(c0(0x07)))
}
// ---- what parse_struct and parse_lib return (trace-based functional postconditions) ----
/// element `e` is of the kind its opening record announces
pub open spec fn kind_ok(e: GdsElement, open: GdsRecord) -> bool {
    match open {
        GdsRecord::Boundary => e is GdsBoundary, GdsRecord::Text => e is GdsTextElem, GdsRecord::Path => e is GdsPath, GdsRecord::Box => e is GdsBox,
        GdsRecord::StructRef => e is GdsStructRef, GdsRecord::ArrayRef => e is GdsArrayRef, GdsRecord::Node => e is GdsNode, _ => false }
}
pub open spec fn kinds_ok(es: Seq<GdsElement>, opens: Seq<GdsRecord>) -> bool { es.len() == opens.len() && forall|i: int| 0 <= i < es.len() ==> kind_ok(#[trigger] es[i], opens[i]) }
/// the elements are the ones some sequence of element-opening records announced, one per record, in order, each of the announced kind
pub open spec fn kinds_from(es: Seq<GdsElement>) -> bool { exists|opens: Seq<GdsRecord>| #[trigger] kinds_ok(es, opens) }
/// GRAMMAR STEP of <library> after BGNLIB: LIBNAME sets the name, UNITS the units, BGNSTR appends one structure (which carries BGNSTR's dates)
pub open spec fn libb_step(l0: GdsLibraryBuilder, s0: Seq<GdsStruct>, r: GdsRecord, l1: GdsLibraryBuilder, s1: Seq<GdsStruct>) -> bool {
    match r {
        GdsRecord::LibName(d) => l1 == (GdsLibraryBuilder { name: Some(d), ..l0 }) && s1 == s0,
        GdsRecord::Units(d0, d1) => l1.units is Some && (l1.units->0).0 == d0 && (l1.units->0).1 == d1 && l1.name == l0.name && l1.version == l0.version && l1.dates == l0.dates && l1.structs == l0.structs && s1 == s0,
        GdsRecord::BgnStruct { dates } => l1 == l0 && s1.len() == s0.len() + 1 && s1.drop_last() == s0 && (forall|i: int| 0 <= i < 12 ==> dates12(s1.last().dates)[i] == #[trigger] dates@[i] as int),
        _ => false,
    }
}
/// `sseg` are the contents of structure `s` after its BGNSTR record: STRNAME, its elements' segments, ENDSTR
pub open spec fn struct_seg(s: GdsStruct, sseg: Seq<Content>) -> bool {
    exists|segs: Seq<Seq<Content>>| #[trigger] elems_seg(s.elems@, segs) && sseg == (seq![cs(0x06, string_bytes(&s.name))] + flat(segs)).push(c0(0x07))
}
/// the segment parse_struct consumed for `x` between `pre` and `post` (a witness of its postcondition)
pub open spec fn struct_sub(pre: GdsParser, post: GdsParser, x: GdsStruct) -> Seq<Content> {
    let segs = choose|segs: Seq<Seq<Content>>| #[trigger] elems_seg(x.elems@, segs) && tied_c(pre, post, (seq![cs(0x06, string_bytes(&x.name))] + flat(segs)).push(c0(0x07)));
    (seq![cs(0x06, string_bytes(&x.name))] + flat(segs)).push(c0(0x07))
}
pub proof fn lemma_struct_sub(pre: GdsParser, post: GdsParser, x: GdsStruct)
    requires parse_struct_post(pre, post, x),
    ensures struct_seg(x, struct_sub(pre, post, x)), tied_c(pre, post, struct_sub(pre, post, x)),
{}
/// what follows a library-level record in the stream: a BGNSTR is followed by the segment of the structure just appended; nothing else
pub open spec fn libb_sub(r: GdsRecord, sub: Seq<Content>, ss: Seq<GdsStruct>) -> bool {
    match r { GdsRecord::BgnStruct { dates } => ss.len() >= 1 && struct_seg(ss.last(), sub), _ => sub.len() == 0 }
}
pub open spec fn libb_link(l0: GdsLibraryBuilder, s0: Seq<GdsStruct>, cc0: Seq<Content>, sub: Seq<Content>, r: GdsRecord, l: GdsLibraryBuilder, ss: Seq<GdsStruct>, cc: Seq<Content>) -> bool {
    libb_step(l0, s0, r, l, ss) && libb_sub(r, sub, ss) && cc == cc0.push(content(r)) + sub
}
pub open spec fn libb_fold(tr: Seq<GdsRecord>, cc: Seq<Content>, l: GdsLibraryBuilder, ss: Seq<GdsStruct>) -> bool decreases tr.len() {
    if tr.len() == 0 { cc.len() == 0 && l.name is None && l.units is None && l.structs is None && ss.len() == 0 }
    else { exists|l0: GdsLibraryBuilder, s0: Seq<GdsStruct>, cc0: Seq<Content>, sub: Seq<Content>| libb_fold(tr.drop_last(), cc0, l0, s0) && #[trigger] libb_link(l0, s0, cc0, sub, tr.last(), l, ss, cc) }
}
/// library `x` is what the collected fields build
pub open spec fn lib_fold(tr: Seq<GdsRecord>, cc: Seq<Content>, ss: Seq<GdsStruct>, x: GdsLibrary) -> bool {
    exists|l: GdsLibraryBuilder| #[trigger] libb_fold(tr, cc, l, ss) && l.name is Some && x.name == l.name->0 && l.units is Some && x.units == l.units->0 && x.structs@ == ss
}
/// what parse_lib guarantees about the stream: HEADER, BGNLIB, the library-level records (each BGNSTR followed by its structure's segment), ENDLIB
/// are exactly the records consumed, from the first record of the stream; the look-ahead is then the ENDLIB record
pub open spec fn parse_lib_post(pre: GdsParser, post: GdsParser, x: GdsLibrary) -> bool {
    exists|tr: Seq<GdsRecord>, cc: Seq<Content>, ss: Seq<GdsStruct>| #[trigger] lib_fold(tr, cc, ss, x)
        && tied_c(pre, post, seq![ci(0x00, seq![x.version as int]), ci(0x01, dates12(x.dates))] + cc) && post.nxt is EndLib
}
