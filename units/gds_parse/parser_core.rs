
// model of #[derive(PartialEq)] on GdsRecord, as far as the parser uses it: comparison against the field-less ENDLIB record
impl PartialEq for GdsRecord {
    #[verifier::external_body]
    fn eq(&self, other: &Self) -> (r: bool) ensures *other is EndLib ==> r == (*self is EndLib) { unimplemented!() }
}
impl Clone for GdsContext { #[verifier::external_body] fn clone(&self) -> (r: Self) ensures r == *self { unimplemented!() } }
impl Default for GdsDateTime { fn default() -> Self { GdsDateTime { year: 0, month: 0, day: 0, hour: 0, minute: 0, second: 0 } } }

// =====================================================================================================
// PARSER (gds21/src/read.rs), extracted
// =====================================================================================================
//@ item gds21/src/read.rs :: struct GdsParser
//@   sub R5 /GdsParser<R>/ => GdsParser
//@   sub R5 /rdr: GdsReader<R>,/ => pub rdr: GdsReader,
//@   sub R4 /\n    (nxt|numread|ctx):/ => \n    pub \1:
//@ end
/// parser well-formedness: the source is positioned inside its data, and at most one record per four bytes has been counted
pub open spec fn pwf(p: GdsParser) -> bool { p.rdr.source.wf() && p.numread <= p.rdr.source.pos / 4 + 1 }
/// termination measure: unread bytes, plus one while the look-ahead record is not ENDLIB
pub open spec fn pm(p: GdsParser) -> int { p.rdr.source.rest().len() + (if p.nxt is EndLib { 0int } else { 1int }) }
/// `rec` decodes the record of `n` bytes at the head of `b` (what read_record guarantees)
pub open spec fn rec_at(b: Seq<u8>, rec: GdsRecord, n: int) -> bool {
    header_ok(b) && n == de16(b[0], b[1]) && b.len() >= n && rec_num(rec) == b[2] && rec_dtype(rec) == b[3] && payload_matches(rec, b.subrange(4, n))
}
/// STRANS flag bits per the manual: bit 0 (0x80 of byte 0) reflection, bit 13 (0x04 of byte 1) absolute magnification, bit 14 (0x02 of byte 1) absolute angle
pub open spec fn strans_flags_ok(s: GdsStrans, d0: u8, d1: u8) -> bool {
    s.reflected == (d0 & 0x80 != 0) && s.abs_mag == (d1 & 0x04 != 0) && s.abs_angle == (d1 & 0x02 != 0)
}
impl GdsReader {
    /// Cursor::stream_position().unwrap(): the current offset (never fails on a Cursor)
    #[verifier::external_body]
    fn pos(&mut self) -> (r: u64) ensures *final(self) == *old(self) { self.source.pos as u64 }
}
impl GdsParser {
    /// error constructors (message/context only): models, always an error, parser state untouched
    #[verifier::external_body]
    fn invalid<T>(&mut self, record: GdsRecord) -> (r: GdsResult<T>) ensures r is Err, *final(self) == *old(self) { unimplemented!() }
    #[verifier::external_body]
    fn fail<T, M>(&mut self, msg: M) -> (r: GdsResult<T>) ensures r is Err, *final(self) == *old(self) { unimplemented!() }
//@ fn gds21/src/read.rs :: impl<R> GdsParser<R> :: fn next
//@   ret r
//@   spec
//|     requires pwf(*old(self)),
//|     ensures pwf(*final(self)), final(self).ctx == old(self).ctx, final(self).rdr.source.data@ == old(self).rdr.source.data@,
//|         // once the look-ahead is ENDLIB nothing more is read: ENDLIB is returned forever and bytes after it are ignored
//|         old(self).nxt is EndLib ==> r is Ok && r->Ok_0 is EndLib && final(self).nxt == old(self).nxt && final(self).rdr.source.pos == old(self).rdr.source.pos,
//|         // otherwise the look-ahead is returned and exactly one more record is decoded from the source (at least four bytes are consumed)
//|         (!(old(self).nxt is EndLib) && r is Ok) ==> r->Ok_0 == old(self).nxt && final(self).rdr.source.pos >= old(self).rdr.source.pos + 4
//|             && rec_at(old(self).rdr.source.rest(), final(self).nxt, final(self).rdr.source.pos - old(self).rdr.source.pos),
//|         r is Ok ==> pm(*final(self)) <= pm(*old(self)) && (!(old(self).nxt is EndLib) ==> pm(*final(self)) < pm(*old(self))),
//|         r is Err ==> pm(*final(self)) <= pm(*old(self)),
//@ end
//@ fn gds21/src/read.rs :: impl<R> GdsParser<R> :: fn peek
//@   ret r
//@   spec
//|     ensures *r == self.nxt,
//@ end
//@ fn gds21/src/read.rs :: impl<R> GdsParser<R> :: fn parse_property
//@   ret r
//@   spec
//|     requires pwf(*old(self)),
//|     ensures pwf(*final(self)), pm(*final(self)) <= pm(*old(self)), final(self).rdr.source.data@ == old(self).rdr.source.data@,
//|         // PROPATTR must be followed immediately by PROPVALUE, whose string becomes the value
//|         r is Ok ==> r->Ok_0.attr == attr && old(self).nxt is PropValue && r->Ok_0.value == old(self).nxt->PropValue_0,
//|         !(old(self).nxt is PropValue) ==> r is Err,
//@ end
//@ fn gds21/src/read.rs :: impl<R> GdsParser<R> :: fn parse_strans
//@   ret r
//@   spec
//|     requires pwf(*old(self)),
//|     ensures pwf(*final(self)), pm(*final(self)) <= pm(*old(self)), final(self).rdr.source.data@ == old(self).rdr.source.data@,
//|         r is Ok ==> strans_flags_ok(r->Ok_0, d0, d1),
//|         // <strans> ::= STRANS [MAG] [ANGLE]: without a following MAG/ANGLE record both stay unset and nothing is consumed
//|         (r is Ok && !(old(self).nxt is Mag) && !(old(self).nxt is Angle)) ==> r->Ok_0.mag is None && r->Ok_0.angle is None && *final(self) == *old(self),
//|         (r is Ok && old(self).nxt is Mag) ==> r->Ok_0.mag is Some,
//|         (r is Ok && old(self).nxt is Angle) ==> r->Ok_0.angle is Some,
//|         // the magnification / angle are those of the MAG / ANGLE records consumed (the last of each)
//|         r is Ok ==> exists|tr: Seq<GdsRecord>| #[trigger] strans_fold(tr, r->Ok_0),
//@   before /^        loop \{$/
//|         let ghost mut tr: Seq<GdsRecord> = Seq::empty();
//@   loop 1
//|             invariant pwf(*self), pm(*self) <= pm(*old(self)), self.rdr.source.data@ == old(self).rdr.source.data@,
//|                 strans_flags_ok(s, d0, d1), strans_fold(tr, s),
//|                 (!(old(self).nxt is Mag) && !(old(self).nxt is Angle)) ==> (s.mag is None && s.angle is None && *self == *old(self)),
//|                 old(self).nxt is Mag ==> (s.mag is Some || *self == *old(self)),
//|                 old(self).nxt is Angle ==> (s.angle is Some || *self == *old(self)),
//|             ensures !(self.nxt is Mag), !(self.nxt is Angle), strans_fold(tr, s),
//|             decreases pm(*self),
//@   before /match self\.peek\(\) \{/
//|             let ghost s0 = s; let ghost r0 = self.nxt;
//@   loopend 1
//|             proof {
//|                 let tr1 = tr.push(r0);
//|                 assert(tr1.drop_last() =~= tr); assert(tr1.last() == r0);
//|                 assert(strans_step(s0, r0, s));
//|                 assert(strans_fold(tr1, s));
//|                 tr = tr1;
//|             }
//@ end
//@ fn gds21/src/read.rs :: impl<R> GdsParser<R> :: fn parse_datetime
//@   ret r
//@   sub R5 /GdsDateTime::from\(d\)/ => vp_datetime_from(d)
//@   spec
//|     ensures *final(self) == *old(self), r.year == d@[0], r.month == d@[1], r.day == d@[2], r.hour == d@[3], r.minute == d@[4], r.second == d@[5],
//@ end
//@ fn gds21/src/read.rs :: impl<R> GdsParser<R> :: fn parse_datetimes
//@   ret r
//@   sub R5 /&d\[0\.\.6\]\.try_into\(\)\.unwrap\(\)/ => &vp_sub6(d, 0)
//@   sub R5 /&d\[6\.\.12\]\.try_into\(\)\.unwrap\(\)/ => &vp_sub6(d, 6)
//@   spec
//|     ensures *final(self) == *old(self), forall|i: int| 0 <= i < 12 ==> dates12(r)[i] == #[trigger] d@[i] as int,
//@ end
}
/// the body of `impl From<&[i16; 6]> for GdsDateTime` (gds21/src/data.rs), extracted as a free function (R9)
//@ fn gds21/src/data.rs :: impl From<&[i16; 6]> for GdsDateTime :: fn from
//@   nopub
//@   ret r
//@   sub R9 /fn from\(bytes: &\[i16; 6\]\) -> Self/ => fn vp_datetime_from(bytes: &[i16; 6]) -> GdsDateTime
//@   sub R9 /Self \{/ => GdsDateTime {
//@   spec
//|     ensures r.year == bytes@[0], r.month == bytes@[1], r.day == bytes@[2], r.hour == bytes@[3], r.minute == bytes@[4], r.second == bytes@[5],
//@ end
/// model of `Vec<GdsPoint>::try_into::<[GdsPoint; N]>()`: Ok with the same elements exactly when the length is N (else the vector back)
#[verifier::external_body]
pub fn vp_vec_to_array<const N: usize>(v: Vec<GdsPoint>) -> (r: Result<[GdsPoint; N], Vec<GdsPoint>>)
    ensures r is Ok <==> v@.len() == N, r is Ok ==> r->Ok_0@ == v@,
{ v.try_into() }
/// model of `d[a..a+6].try_into().unwrap()` (slice of fixed length 6 to array): the six elements from `a`; the range is an OBLIGATION
#[verifier::external_body]
pub fn vp_sub6(d: &[i16; 12], a: usize) -> (r: [i16; 6])
    requires a + 6 <= 12,
    ensures forall|i: int| 0 <= i < 6 ==> #[trigger] r@[i] == d@[a + i],
{ d[a..a + 6].try_into().unwrap() }

pub open spec fn strans_step(s0: GdsStrans, r: GdsRecord, s1: GdsStrans) -> bool {
    match r { GdsRecord::Mag(d) => s1 == (GdsStrans { mag: Some(d), ..s0 }), GdsRecord::Angle(d) => s1 == (GdsStrans { angle: Some(d), ..s0 }), _ => false }
}
pub open spec fn strans_fold(tr: Seq<GdsRecord>, s: GdsStrans) -> bool decreases tr.len() {
    if tr.len() == 0 { s.mag is None && s.angle is None }
    else { exists|s0: GdsStrans| strans_fold(tr.drop_last(), s0) && #[trigger] strans_step(s0, tr.last(), s) }
}
// ---- what parse_struct and parse_lib return (trace-based functional postconditions) ----
/// element `e` is of the kind its opening record announces
pub open spec fn kind_ok(e: GdsElement, open: GdsRecord) -> bool {
    match open {
        GdsRecord::Boundary => e is GdsBoundary, GdsRecord::Text => e is GdsTextElem, GdsRecord::Path => e is GdsPath, GdsRecord::Box => e is GdsBox,
        GdsRecord::StructRef => e is GdsStructRef, GdsRecord::ArrayRef => e is GdsArrayRef, GdsRecord::Node => e is GdsNode, _ => false }
}
pub open spec fn kinds_ok(es: Seq<GdsElement>, opens: Seq<GdsRecord>) -> bool { es.len() == opens.len() && forall|i: int| 0 <= i < es.len() ==> kind_ok(#[trigger] es[i], opens[i]) }
/// GRAMMAR STEP of <library> after BGNLIB: LIBNAME sets the name, UNITS the units, BGNSTR appends one structure
pub open spec fn libb_step(l0: GdsLibraryBuilder, s0: Seq<GdsStruct>, r: GdsRecord, l1: GdsLibraryBuilder, s1: Seq<GdsStruct>) -> bool {
    match r {
        GdsRecord::LibName(d) => l1 == (GdsLibraryBuilder { name: Some(d), ..l0 }) && s1 == s0,
        GdsRecord::Units(d0, d1) => l1.units is Some && (l1.units->0).0 == d0 && (l1.units->0).1 == d1 && l1.name == l0.name && l1.version == l0.version && l1.dates == l0.dates && l1.structs == l0.structs && s1 == s0,
        GdsRecord::BgnStruct { dates } => l1 == l0 && s1.len() == s0.len() + 1 && s1.drop_last() == s0,
        _ => false,
    }
}
pub open spec fn libb_fold(tr: Seq<GdsRecord>, l: GdsLibraryBuilder, ss: Seq<GdsStruct>) -> bool decreases tr.len() {
    if tr.len() == 0 { l.name is None && l.units is None && l.structs is None && ss.len() == 0 }
    else { exists|l0: GdsLibraryBuilder, s0: Seq<GdsStruct>| libb_fold(tr.drop_last(), l0, s0) && #[trigger] libb_step(l0, s0, tr.last(), l, ss) }
}
/// library `x` is what the collected fields build
pub open spec fn lib_fold(tr: Seq<GdsRecord>, ss: Seq<GdsStruct>, x: GdsLibrary) -> bool {
    exists|l: GdsLibraryBuilder| #[trigger] libb_fold(tr, l, ss) && l.name is Some && x.name == l.name->0 && l.units is Some && x.units == l.units->0 && x.structs@ == ss
}
