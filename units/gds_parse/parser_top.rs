//@ fn gds21/src/read.rs :: impl<R> GdsParser<R> :: fn parse_struct
//@   attr #[verifier::spinoff_prover] #[verifier::rlimit(120)]
//@   ret r
//@   spec
//|     requires pwf(*old(self)),
//|     ensures pwf(*final(self)), pm(*final(self)) <= pm(*old(self)), final(self).rdr.source.data@ == old(self).rdr.source.data@,
//|         // <structure> ::= BGNSTR STRNAME {<element>}* ENDSTR : the name is the STRNAME record that follows BGNSTR, the dates are BGNSTR's
//|         r is Ok ==> old(self).nxt is StructName && r->Ok_0.name == old(self).nxt->StructName_0
//|             && (forall|i: int| 0 <= i < 12 ==> dates12(r->Ok_0.dates)[i] == #[trigger] dates@[i] as int),
//|         !(old(self).nxt is StructName) ==> r is Err,
//|         // the elements are the ones the element-opening records announced, one per record, in order, each of the announced kind
//|         r is Ok ==> kinds_from(r->Ok_0.elems@),
//|         // stream tie: STRNAME, then for each element its opening record + what its parser consumed + ENDEL, then ENDSTR are exactly the records consumed
//|         r is Ok ==> parse_struct_post(*old(self), *final(self), r->Ok_0),
//@   before1 /strukt = match self\.next\(\)\? \{/
//|         let ghost pre_name = *self;
//@   before /^        loop \{$/
//|         let ghost mut opens: Seq<GdsRecord> = Seq::empty(); let ghost mut segs: Seq<Seq<Content>> = Seq::empty(); let ghost mut ended = false;
//|         let ghost namec = cs(0x06, string_bytes(&old(self).nxt->StructName_0));
//|         proof {
//|             assert(content(old(self).nxt) == namec);
//|             assert(tied_c(*old(self), *self, seq![namec] + flat(segs))) by {
//|                 assert(flat(segs) =~= Seq::<Content>::empty());
//|                 assert forall|k: int| #[trigger] at(*old(self), k) implies at(*self, k + 1) && (seq![namec] + flat(segs)) =~= pcs(*old(self)).subrange(k - 1, k) by { assert(at(pre_name, k)); }
//|             }
//|         }
//@   loop 1
//|             invariant_except_break !ended,
//|             invariant pwf(*self), pm(*self) <= pm(*old(self)), self.rdr.source.data@ == old(self).rdr.source.data@, kinds_ok(elems@, opens),
//|                 elems_seg(elems@, segs), namec == cs(0x06, string_bytes(&old(self).nxt->StructName_0)),
//|                 tied_c(*old(self), *self, if ended { (seq![namec] + flat(segs)).push(c0(0x07)) } else { seq![namec] + flat(segs) }),
//|                 old(self).nxt is StructName, strukt.name == Some(old(self).nxt->StructName_0), strukt.dates is Some,
//|                 (forall|i: int| 0 <= i < 12 ==> dates12(strukt.dates->0)[i] == #[trigger] dates@[i] as int), strukt.elems is None,
//|             ensures ended,
//|             decreases pm(*self),
//@   before /let r = self\.next\(\)\?;/
//|             let ghost e0 = elems@; let ghost m0 = pm(*self); let ghost pre0 = *self;
//@   after /let r = self\.next\(\)\?;/
//|             let ghost r0 = r; let ghost pre = *self;
//|             proof {
//|                 if !(r0 is EndLib) {
//|                     assert(tied_c(pre0, pre, seq![content(r0)])) by {
//|                         assert forall|k: int| #[trigger] at(pre0, k) implies at(pre, k + 1) && seq![content(r0)] =~= pcs(pre0).subrange(k - 1, k) by { assert(content(r0) == pcs(pre0)[k - 1]); }
//|                     }
//|                 }
//|                 if r0 is EndStruct {
//|                     ended = true;
//|                     lemma_tied_compose(*old(self), pre0, pre, seq![namec] + flat(segs), seq![content(r0)]);
//|                     assert((seq![namec] + flat(segs)) + seq![content(r0)] =~= (seq![namec] + flat(segs)).push(c0(0x07)));
//|                 }
//|             }
//@   loopend 1
//|             proof {
//|                 assert(pm(*self) < m0);
//|                 // each element-opening record dispatches to the parser of that element kind, and the element is appended
//|                 assert(elems@.len() == e0.len() + 1 && elems@.drop_last() == e0);
//|                 assert(match r0 {
//|                     GdsRecord::Boundary => elems@.last() is GdsBoundary, GdsRecord::Text => elems@.last() is GdsTextElem, GdsRecord::Path => elems@.last() is GdsPath,
//|                     GdsRecord::Box => elems@.last() is GdsBox, GdsRecord::StructRef => elems@.last() is GdsStructRef, GdsRecord::ArrayRef => elems@.last() is GdsArrayRef,
//|                     GdsRecord::Node => elems@.last() is GdsNode, _ => false });
//|                 let e = elems@.last();
//|                 assert(elem_post(pre, *self, e));
//|                 lemma_elem_seg(pre, *self, e);
//|                 assert(content(r0) == c0(opener_num(e)));
//|                 let seg: Seq<Content> = seq![c0(opener_num(e))] + elem_cc(pre, *self, e).push(c0(0x11));
//|                 assert(elem_seg(elems@.last(), seg));
//|                 let segs1 = segs.push(seg);
//|                 assert(elems_seg(elems@, segs1)) by { assert forall|i: int| 0 <= i < elems@.len() implies elem_seg(#[trigger] elems@[i], segs1[i]) by { if i < e0.len() { assert(elems@[i] == e0[i]); assert(segs1[i] == segs[i]); } } }
//|                 assert(segs1.drop_last() =~= segs); assert(flat(segs1) == flat(segs) + seg);
//|                 // position: the opening record, then what the element parser consumed
//|                 let tail = seg.subrange(1, seg.len() as int);
//|                 assert(seg =~= seq![content(r0)] + tail);
//|                 assert(tied_c(pre, *self, tail));
//|                 lemma_tied_compose(pre0, pre, *self, seq![content(r0)], tail);
//|                 lemma_tied_compose(*old(self), pre0, *self, seq![namec] + flat(segs), seg);
//|                 assert((seq![namec] + flat(segs)) + seg =~= seq![namec] + flat(segs1));
//|                 segs = segs1;
//|                 opens = opens.push(r0);
//|                 assert(kinds_ok(elems@, opens)) by { assert forall|i: int| 0 <= i < elems@.len() implies kind_ok(#[trigger] elems@[i], opens[i]) by { if i < e0.len() { assert(elems@[i] == e0[i]); } } }
//|             }
//@   before1 /strukt = strukt\.elems\(elems\);|let strukt = strukt\.build\(\)\?;/
//|         let ghost ef = elems@;
//@   before /^        Ok\(strukt\)$/
//|         proof { assert(strukt.elems@ == ef); assert(kinds_ok(strukt.elems@, opens)); assert(kinds_from(strukt.elems@)); assert(elems_seg(strukt.elems@, segs));
//|             assert(tied_c(*old(self), *self, (seq![cs(0x06, string_bytes(&strukt.name))] + flat(segs)).push(c0(0x07))));
//|             assert(parse_struct_post(*old(self), *self, strukt)); }
//@ end
//@ fn gds21/src/read.rs :: impl<R> GdsParser<R> :: fn parse_lib
//@   attr #[verifier::spinoff_prover] #[verifier::rlimit(60)]
//@   ret r
//@   sub R5 /Vec::<GdsStruct>::with_capacity\(1024\)/ => Vec::<GdsStruct>::new()
//@   sub R3 /(\/\/ Read the Header[^\n]*\n\s*)lib = match self\.next\(\)\? \{/ => \1let ghost vp_s0 = *self; lib = match self.next()? {
//@   sub R3 /(\/\/ Read the begin-lib[^\n]*\n\s*)lib = match self\.next\(\)\? \{/ => \1let ghost vp_s1 = *self; lib = match self.next()? {
//@   sub R3 /Ok\(lib\.build\(\)\?\)/ => let vp_lib = lib.build()?; proof { assert(libb_fold(tr, cc, lf, sf)); assert(vp_lib.structs@ == sf); assert(lib_fold(tr, cc, sf, vp_lib)); assert(hdr == seq![ci(0x00, seq![vp_lib.version as int]), ci(0x01, dates12(vp_lib.dates))]); assert(parse_lib_post(*old(self), *self, vp_lib)); } Ok(vp_lib)
//@   spec
//|     requires pwf(*old(self)),
//|     ensures pwf(*final(self)), final(self).rdr.source.data@ == old(self).rdr.source.data@,
//|         // a library is returned only after the ENDLIB record has been decoded from the source: a stream that ends earlier is never accepted
//|         r is Ok ==> final(self).nxt is EndLib,
//|         // <library> ::= HEADER BGNLIB ... : the first record must be HEADER and carries the version
//|         r is Ok ==> old(self).nxt is Header && r->Ok_0.version == old(self).nxt->Header_version,
//|         !(old(self).nxt is Header) ==> r is Err,
//|         // name and units are the LIBNAME / UNITS records' (the last of each), the structures are the parsed ones, in order
//|         r is Ok ==> exists|tr: Seq<GdsRecord>, cc: Seq<Content>, ss: Seq<GdsStruct>| #[trigger] lib_fold(tr, cc, ss, r->Ok_0),
//|         // stream tie (C03: "yields exactly the encoded library"): the records consumed are exactly the stream's, from its first record to ENDLIB
//|         r is Ok ==> parse_lib_post(*old(self), *final(self), r->Ok_0),
//@   before /^        loop \{$/
//|         let ghost mut tr: Seq<GdsRecord> = Seq::empty(); let ghost mut cc: Seq<Content> = Seq::empty();
//|         let ghost hdr = seq![ci(0x00, seq![old(self).nxt->Header_version as int]), ci(0x01, dates12(lib.dates->0))];
//|         proof {
//|             assert(content(old(self).nxt) == hdr[0]);
//|             assert(tied_c(*old(self), *self, hdr + cc)) by {
//|                 assert(hdr + cc =~= hdr);
//|                 assert forall|k: int| #[trigger] at(*old(self), k) implies at(*self, k + 2) && hdr =~= pcs(*old(self)).subrange(k - 1, k + 1) by {
//|                     assert(at(vp_s0, k)); assert(at(vp_s1, k + 1)); assert(content(vp_s1.nxt) == pcs(*old(self))[k]);
//|                     assert(content(vp_s1.nxt).1 =~= dates12(lib.dates->0));
//|                 }
//|             }
//|         }
//@   loop 1
//|             invariant pwf(*self), self.rdr.source.data@ == old(self).rdr.source.data@, libb_fold(tr, cc, lib, structs@),
//|                 old(self).nxt is Header, lib.version == Some(old(self).nxt->Header_version), lib.structs is None,
//|                 hdr.len() == 2, hdr[0] == ci(0x00, seq![old(self).nxt->Header_version as int]), lib.dates is Some, hdr[1] == ci(0x01, dates12(lib.dates->0)),
//|                 tied_c(*old(self), *self, hdr + cc),
//|             ensures self.nxt is EndLib,
//|             decreases pm(*self),
//@   before /let r = self\.next\(\)\?;/
//|             let ghost m0 = pm(*self); let ghost s0 = structs@; let ghost l0 = lib; let ghost pre0 = *self;
//@   after /let r = self\.next\(\)\?;/
//|             let ghost r0 = r; let ghost pre = *self;
//|             proof {
//|                 if !(pre0.nxt is EndLib) {
//|                     assert(tied_c(pre0, pre, seq![content(r0)])) by { assert forall|k: int| #[trigger] at(pre0, k) implies at(pre, k + 1) && seq![content(r0)] =~= pcs(pre0).subrange(k - 1, k) by { assert(content(r0) == pcs(pre0)[k - 1]); } }
//|                 }
//|             }
//@   loopend 1
//|             proof {
//|                 assert(pm(*self) < m0);
//|                 // only LIBNAME, UNITS and structures continue the loop; the documented-unsupported library records and anything else return an error
//|                 assert(match r0 {
//|                     GdsRecord::LibName(d) => lib == (GdsLibraryBuilder { name: Some(d), ..l0 }) && structs@ == s0,
//|                     GdsRecord::Units(d0, d1) => lib.units is Some && (lib.units->0).0 == d0 && (lib.units->0).1 == d1 && lib.name == l0.name && lib.version == l0.version && lib.dates == l0.dates && structs@ == s0,
//|                     GdsRecord::BgnStruct { dates } => lib == l0 && structs@.len() == s0.len() + 1 && structs@.drop_last() == s0 && (forall|i: int| 0 <= i < 12 ==> dates12(structs@.last().dates)[i] == #[trigger] dates@[i] as int),
//|                     _ => false });
//|                 let tr1 = tr.push(r0);
//|                 assert(tr1.drop_last() =~= tr); assert(tr1.last() == r0);
//|                 assert(libb_step(l0, s0, r0, lib, structs@));
//|                 let sub: Seq<Content> = if r0 is BgnStruct { struct_sub(pre, *self, structs@.last()) } else { Seq::<Content>::empty() };
//|                 if r0 is BgnStruct { lemma_struct_sub(pre, *self, structs@.last()); } else { assert(tied_c(pre, *self, sub)) by { assert forall|k: int| #[trigger] at(pre, k) implies at(*self, k + sub.len()) && sub =~= pcs(pre).subrange(k - 1, k - 1 + sub.len()) by { } } }
//|                 let cc1 = cc.push(content(r0)) + sub;
//|                 assert(libb_link(l0, s0, cc, sub, tr1.last(), lib, structs@, cc1));
//|                 assert(libb_fold(tr1, cc1, lib, structs@));
//|                 lemma_tied_compose(pre0, pre, *self, seq![content(r0)], sub);
//|                 lemma_tied_compose(*old(self), pre0, *self, hdr + cc, seq![content(r0)] + sub);
//|                 assert((hdr + cc) + (seq![content(r0)] + sub) =~= hdr + cc1);
//|                 tr = tr1; cc = cc1;
//|             }
//@   before1 /lib = lib\.structs\(structs\);|let vp_lib = lib\.build\(\)\?;/
//|         let ghost lf = lib; let ghost sf = structs@;
//@ end
}
impl GdsReader {
    //@ pin gds21/src/read.rs :: impl<'a> GdsReader<Cursor<&'a [u8]>> :: fn from_bytes @d309c0ee
    /// model of GdsReader::from_bytes (`GdsReader::new(Cursor::new(bytes))`): a reader over exactly these bytes, positioned at their start
    #[verifier::external_body]
    pub fn from_bytes(bytes: &[u8]) -> (r: Self) ensures r.source.data@ == bytes@, r.source.pos == 0 { unimplemented!() }
}
impl GdsParser {
//@ fn gds21/src/read.rs :: impl<'a> GdsParser<Cursor<&'a [u8]>> :: fn from_bytes
//@   ret r
//@   sub R5 /bytes: &'a \[u8\]/ => bytes: &[u8]
//@   spec
//|     ensures r is Ok ==> pwf(r->Ok_0) && r->Ok_0.rdr.source.data@ == bytes@ && at(r->Ok_0, 1),
//@ end
}
impl GdsLibrary {
//@ fn gds21/src/data.rs :: impl GdsLibrary :: fn from_bytes
//@   ret r
//@   sub R3 /GdsParser::from_bytes\(bytes\)\?\.parse_lib\(\)/ => { let mut vp_p = GdsParser::from_bytes(bytes)?; let ghost vp_pre = vp_p; let vp_r = vp_p.parse_lib(); proof { if vp_r is Ok { assert forall|lib: GdsLibrary| cstream(bytes@) == lib_c(lib) implies lib_same(vp_r->Ok_0, lib) by { theorem_write_then_read(vp_pre, vp_p, vp_r->Ok_0, lib, lib.units.0, lib.units.1); } } } vp_r }
//@   spec
//|     // THE PUBLIC READER (C01 / C03): if the independent decoder reads the canonical records of a library `lib` from `bytes` - which is what
//|     // GdsWriter::write_lib is proved to produce for `lib` (unit gds_tree) - then whatever library from_bytes returns is `lib`
//|     ensures r is Ok ==> forall|lib: GdsLibrary| cstream(bytes@) == lib_c(lib) ==> lib_same(r->Ok_0, lib),
//@ end
