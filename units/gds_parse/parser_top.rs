//@ fn gds21/src/read.rs :: impl<R> GdsParser<R> :: fn parse_struct
//@   attr #[verifier::spinoff_prover] #[verifier::rlimit(60)]
//@   ret r
//@   spec
//|     requires pwf(*old(self)),
//|     ensures pwf(*final(self)), pm(*final(self)) <= pm(*old(self)), final(self).rdr.source.data@ == old(self).rdr.source.data@,
//|         // <structure> ::= BGNSTR STRNAME {<element>}* ENDSTR : the name is the STRNAME record that follows BGNSTR, the dates are BGNSTR's
//|         r is Ok ==> old(self).nxt is StructName && r->Ok_0.name == old(self).nxt->StructName_0
//|             && (forall|i: int| 0 <= i < 12 ==> dates12(r->Ok_0.dates)[i] == #[trigger] dates@[i] as int),
//|         !(old(self).nxt is StructName) ==> r is Err,
//|         // the elements are the ones the element-opening records announced, one per record, in order, each of the announced kind
//|         r is Ok ==> exists|opens: Seq<GdsRecord>| #[trigger] kinds_ok(r->Ok_0.elems@, opens),
//@   before /^        loop \{$/
//|         let ghost mut opens: Seq<GdsRecord> = Seq::empty();
//@   loop 1
//|             invariant pwf(*self), pm(*self) <= pm(*old(self)), self.rdr.source.data@ == old(self).rdr.source.data@, kinds_ok(elems@, opens),
//|                 old(self).nxt is StructName, strukt.name == Some(old(self).nxt->StructName_0), strukt.dates is Some,
//|                 (forall|i: int| 0 <= i < 12 ==> dates12(strukt.dates->0)[i] == #[trigger] dates@[i] as int), strukt.elems is None,
//|             decreases pm(*self),
//@   before /let r = self\.next\(\)\?;/
//|             let ghost e0 = elems@; let ghost m0 = pm(*self);
//@   after /let r = self\.next\(\)\?;/
//|             let ghost r0 = r;
//@   loopend 1
//|             proof {
//|                 assert(pm(*self) < m0);
//|                 // each element-opening record dispatches to the parser of that element kind, and the element is appended
//|                 assert(elems@.len() == e0.len() + 1 && elems@.drop_last() == e0);
//|                 assert(match r0 {
//|                     GdsRecord::Boundary => elems@.last() is GdsBoundary, GdsRecord::Text => elems@.last() is GdsTextElem, GdsRecord::Path => elems@.last() is GdsPath,
//|                     GdsRecord::Box => elems@.last() is GdsBox, GdsRecord::StructRef => elems@.last() is GdsStructRef, GdsRecord::ArrayRef => elems@.last() is GdsArrayRef,
//|                     GdsRecord::Node => elems@.last() is GdsNode, _ => false });
//|                 opens = opens.push(r0);
//|                 assert(kinds_ok(elems@, opens)) by { assert forall|i: int| 0 <= i < elems@.len() implies kind_ok(#[trigger] elems@[i], opens[i]) by { if i < e0.len() { assert(elems@[i] == e0[i]); } } }
//|             }
//@   before1 /strukt = strukt\.elems\(elems\);|let strukt = strukt\.build\(\)\?;/
//|         let ghost ef = elems@;
//@   before /^        Ok\(strukt\)$/
//|         proof { assert(strukt.elems@ == ef); assert(kinds_ok(strukt.elems@, opens)); }
//@ end
//@ fn gds21/src/read.rs :: impl<R> GdsParser<R> :: fn parse_lib
//@   attr #[verifier::spinoff_prover] #[verifier::rlimit(60)]
//@   ret r
//@   sub R5 /Vec::<GdsStruct>::with_capacity\(1024\)/ => Vec::<GdsStruct>::new()
//@   sub R3 /Ok\(lib\.build\(\)\?\)/ => let vp_lib = lib.build()?; proof { assert(libb_fold(tr, lf, sf)); assert(vp_lib.structs@ == sf); assert(lib_fold(tr, sf, vp_lib)); } Ok(vp_lib)
//@   spec
//|     requires pwf(*old(self)),
//|     ensures pwf(*final(self)), final(self).rdr.source.data@ == old(self).rdr.source.data@,
//|         // a library is returned only after the ENDLIB record has been decoded from the source: a stream that ends earlier is never accepted
//|         r is Ok ==> final(self).nxt is EndLib,
//|         // <library> ::= HEADER BGNLIB ... : the first record must be HEADER and carries the version
//|         r is Ok ==> old(self).nxt is Header && r->Ok_0.version == old(self).nxt->Header_version,
//|         !(old(self).nxt is Header) ==> r is Err,
//|         // name and units are the LIBNAME / UNITS records' (the last of each), the structures are the parsed ones, in order
//|         r is Ok ==> exists|tr: Seq<GdsRecord>, ss: Seq<GdsStruct>| #[trigger] lib_fold(tr, ss, r->Ok_0),
//@   before /^        loop \{$/
//|         let ghost mut tr: Seq<GdsRecord> = Seq::empty();
//@   loop 1
//|             invariant pwf(*self), self.rdr.source.data@ == old(self).rdr.source.data@, libb_fold(tr, lib, structs@),
//|                 old(self).nxt is Header, lib.version == Some(old(self).nxt->Header_version), lib.structs is None,
//|             ensures self.nxt is EndLib,
//|             decreases pm(*self),
//@   before /let r = self\.next\(\)\?;/
//|             let ghost m0 = pm(*self); let ghost s0 = structs@; let ghost l0 = lib;
//@   after /let r = self\.next\(\)\?;/
//|             let ghost r0 = r;
//@   loopend 1
//|             proof {
//|                 assert(pm(*self) < m0);
//|                 // only LIBNAME, UNITS and structures continue the loop; the documented-unsupported library records and anything else return an error
//|                 assert(match r0 {
//|                     GdsRecord::LibName(d) => lib == (GdsLibraryBuilder { name: Some(d), ..l0 }) && structs@ == s0,
//|                     GdsRecord::Units(d0, d1) => lib.units is Some && (lib.units->0).0 == d0 && (lib.units->0).1 == d1 && lib.name == l0.name && lib.version == l0.version && lib.dates == l0.dates && structs@ == s0,
//|                     GdsRecord::BgnStruct { dates } => lib == l0 && structs@.len() == s0.len() + 1 && structs@.drop_last() == s0,
//|                     _ => false });
//|                 let tr1 = tr.push(r0);
//|                 assert(tr1.drop_last() =~= tr); assert(tr1.last() == r0);
//|                 assert(libb_step(l0, s0, r0, lib, structs@));
//|                 assert(libb_fold(tr1, lib, structs@));
//|                 tr = tr1;
//|             }
//@   before1 /lib = lib\.structs\(structs\);|let vp_lib = lib\.build\(\)\?;/
//|         let ghost lf = lib; let ghost sf = structs@;
//@ end
