// Unit U9b tetris_array: the placer's array flattening — flatten_array / flatten_array_inst (C09).
use vstd::prelude::*;
use std::convert::{TryFrom, TryInto};
verus! {
global size_of usize == 8;
//@ include units/common/float.inc.rs
//@ item layout21tetris/src/coords.rs :: type Int
//@ end
//@ include units/tetris_place/coords.inc.rs

// =====================================================================================================
// MODELS (rule R5) and extracted data types
// =====================================================================================================
impl<T> Clone for Ptr<T> { #[verifier::external_body] fn clone(&self) -> (r: Self) ensures r == *self { unimplemented!() } }
/// cells are opaque to array flattening
pub struct Cell { pub name: String }
pub struct Group { pub name: String }
pub struct GroupInstance { pub name: String }
pub struct RelAssign { pub net: String }
//@ item layout21tetris/src/placement.rs :: enum Align
//@ end
//@ item layout21tetris/src/placement.rs :: enum SepBy
//@ end
//@ item layout21tetris/src/placement.rs :: struct Separation
//@ end
//@ item layout21tetris/src/placement.rs :: enum Placeable
//@ end
//@ item layout21tetris/src/placement.rs :: struct RelativePlace
//@ end
//@ item layout21tetris/src/placement.rs :: enum Place
//@ end
//@ item layout21tetris/src/instance.rs :: struct Instance
//@ end
//@ item layout21tetris/src/array.rs :: struct Array
//@ end
//@ item layout21tetris/src/array.rs :: enum Arrayable
//@ end
//@ item layout21tetris/src/array.rs :: struct ArrayInstance
//@ end
impl PrimPitches {
//@ fn layout21tetris/src/coords.rs :: impl PrimPitches :: fn x
//@   ret r
//@   spec
//|     ensures r.dir == Dir::Horiz, r.num == num,
//@ end
//@ fn layout21tetris/src/coords.rs :: impl PrimPitches :: fn y
//@   ret r
//@   spec
//|     ensures r.dir == Dir::Vert, r.num == num,
//@ end
}
impl<T> Place<T> {
//@ fn layout21tetris/src/placement.rs :: impl<T> Place<T> :: fn abs_mut
//@   ret r
//@   spec
//|     ensures r is Ok <==> *old(self) is Abs, r is Ok ==> *r->Ok_0 == old(self)->Abs_0 && *final(self) == Place::<T>::Abs(*final(r->Ok_0)),
//|         r is Err ==> *final(self) == *old(self),
//@ end
//@ fn layout21tetris/src/placement.rs :: impl<T> Place<T> :: fn abs
//@   ret r
//@   spec
//|     ensures r is Ok <==> *self is Abs, r is Ok ==> *r->Ok_0 == self->Abs_0,
//@ end
}
pub open spec fn pp_add_ok(a: PrimPitches, b: PrimPitches) -> bool { a.dir == b.dir && isize::MIN <= a.num + b.num <= isize::MAX }
pub open spec fn pp_add(a: PrimPitches, b: PrimPitches) -> PrimPitches { PrimPitches { dir: a.dir, num: (a.num + b.num) as isize } }
/// model of #[derive(derive_more::Add)] on Xy<T> at T = PrimPitches: component-wise
impl vstd::std_specs::ops::AddSpecImpl<Xy<PrimPitches>> for Xy<PrimPitches> {
    open spec fn obeys_add_spec() -> bool { true }
    open spec fn add_req(self, rhs: Xy<PrimPitches>) -> bool { pp_add_ok(self.x, rhs.x) && pp_add_ok(self.y, rhs.y) }
    open spec fn add_spec(self, rhs: Xy<PrimPitches>) -> Xy<PrimPitches> { Xy { x: pp_add(self.x, rhs.x), y: pp_add(self.y, rhs.y) } }
}
impl std::ops::Add<Xy<PrimPitches>> for Xy<PrimPitches> {
    type Output = Xy<PrimPitches>;
    fn add(self, rhs: Xy<PrimPitches>) -> Xy<PrimPitches> { Xy { x: self.x + rhs.x, y: self.y + rhs.y } }
}
impl vstd::std_specs::ops::MulSpecImpl<Int> for PrimPitches {
    open spec fn obeys_mul_spec() -> bool { true }
    open spec fn mul_req(self, rhs: Int) -> bool { isize::MIN <= self.num * rhs <= isize::MAX }
    open spec fn mul_spec(self, rhs: Int) -> PrimPitches { PrimPitches { dir: self.dir, num: (self.num * rhs) as isize } }
}
impl std::ops::Mul<Int> for PrimPitches {
    type Output = PrimPitches;
//@ fn layout21tetris/src/coords.rs :: impl std::ops::Mul<Int> for PrimPitches :: fn mul
//@ end
}
impl vstd::std_specs::ops::MulAssignSpecImpl<Int> for PrimPitches {
    open spec fn obeys_mul_assign_spec() -> bool { true }
    open spec fn mul_assign_req(&self, rhs: Int) -> bool { isize::MIN <= self.num * rhs <= isize::MAX }
    open spec fn mul_assign_spec(&self, rhs: Int) -> &PrimPitches { &PrimPitches { dir: self.dir, num: (self.num * rhs) as isize } }
}
impl std::ops::MulAssign<Int> for PrimPitches {
//@ fn layout21tetris/src/coords.rs :: impl std::ops::MulAssign<Int> for PrimPitches :: fn mul_assign
//@ end
}
/// model of #[derive(derive_more::AddAssign)] on Xy<T> at T = PrimPitches
impl vstd::std_specs::ops::AddAssignSpecImpl<Xy<PrimPitches>> for Xy<PrimPitches> {
    open spec fn obeys_add_assign_spec() -> bool { true }
    open spec fn add_assign_req(&self, rhs: Xy<PrimPitches>) -> bool { pp_add_ok(self.x, rhs.x) && pp_add_ok(self.y, rhs.y) }
    open spec fn add_assign_spec(&self, rhs: Xy<PrimPitches>) -> &Xy<PrimPitches> { &Xy { x: pp_add(self.x, rhs.x), y: pp_add(self.y, rhs.y) } }
}
impl std::ops::AddAssign<Xy<PrimPitches>> for Xy<PrimPitches> {
    fn add_assign(&mut self, rhs: Xy<PrimPitches>) { self.x = self.x + rhs.x; self.y = self.y + rhs.y; }
}
/// model of `(0, 0).into()`: impl From<(Int, Int)> for Xy<PrimPitches> (x horizontal, y vertical)
pub fn vp_xy_from(tup: (Int, Int)) -> (r: Xy<PrimPitches>) ensures r.x == (PrimPitches { dir: Dir::Horiz, num: tup.0 }), r.y == (PrimPitches { dir: Dir::Vert, num: tup.1 }) {
    Xy::new(PrimPitches { dir: Dir::Horiz, num: tup.0 }, PrimPitches { dir: Dir::Vert, num: tup.1 })
}
//@ item layout21utils/src/context.rs :: enum ErrorContext
//@ end
// R5: the placer reduced to its error-context stack
//@ item layout21tetris/src/placer.rs :: struct Placer
//@   sub R5 /lib: Library,/ =>
//@   sub R5 /stack: ValidStack,/ =>
//@   sub R4 /\n    ctx:/ => \n    pub ctx:
//@ end
/// model of Vec::extend(Vec)
#[verifier::external_body]
pub fn vp_extend_insts(v: &mut Vec<Instance>, w: Vec<Instance>) ensures final(v)@ == old(v)@ + w@ { v.extend(w) }
/// model of Vec::with_capacity (capacity is not observable)
#[verifier::external_body]
pub fn vp_with_capacity(n: usize) -> (r: Vec<Instance>) ensures r@.len() == 0 { Vec::new() }

// =====================================================================================================
// SPEC (C09: "array instances expand to count copies at successive multiples of the array pitch mirrored according to the array's reflection")
// =====================================================================================================
/// one flattened element: target cell, location, reflections
pub struct Placed { pub cell: Ptr<Cell>, pub x: int, pub y: int, pub rh: bool, pub rv: bool }
/// the pitch of a separation, when it is one the placer supports (none, or primitive pitches in the right direction)
pub open spec fn pitch(s: Option<SepBy>, d: Dir) -> Option<int> {
    match s { None => Some(0int), Some(SepBy::UnitSpeced(UnitSpeced::PrimPitches(p))) => if p.dir == d { Some(p.num as int) } else { None }, _ => None }
}
pub open spec fn sx(a: Array) -> int { pitch(a.sep.x, Dir::Horiz)->0 }
pub open spec fn sy(a: Array) -> int { pitch(a.sep.y, Dir::Vert)->0 }
/// mirror about the origin according to (rh, rv), then translate by (dx, dy)
pub open spec fn shift1(p: Placed, dx: int, dy: int, rh: bool, rv: bool) -> Placed {
    Placed { cell: p.cell, x: (if rh { -p.x } else { p.x }) + dx, y: (if rv { -p.y } else { p.y }) + dy, rh: p.rh != rh, rv: p.rv != rv }
}
pub open spec fn shift(s: Seq<Placed>, dx: int, dy: int, rh: bool, rv: bool) -> Seq<Placed> { Seq::new(s.len(), |i: int| shift1(s[i], dx, dy, rh, rv)) }
/// ORACLE: the flattening of an array: `count` copies of its unit at 0, pitch, 2*pitch, ...; a unit that is itself an array is flattened first
pub open spec fn flat(a: Array) -> Seq<Placed> decreases a, 1int, 0nat { flat_n(a, a.count as nat) }
pub open spec fn flat_n(a: Array, n: nat) -> Seq<Placed> decreases a, 0int, n {
    if n == 0 { Seq::empty() } else { flat_n(a, (n - 1) as nat) + unit_at(a, n - 1) }
}
pub open spec fn unit_at(a: Array, i: int) -> Seq<Placed> decreases a, 0int, 0nat {
    match a.unit {
        Arrayable::Instance(c) => seq![Placed { cell: c, x: i * sx(a), y: i * sy(a), rh: false, rv: false }],
        Arrayable::Array(arr) => shift(flat(*arr.v), i * sx(a), i * sy(a), false, false),
        Arrayable::Group(_) => Seq::empty(),
    }
}
pub open spec fn is_placed(i: Instance, p: Placed) -> bool {
    i.cell == p.cell && i.loc is Abs && i.loc->Abs_0.x.dir == Dir::Horiz && i.loc->Abs_0.y.dir == Dir::Vert && i.loc->Abs_0.x.num == p.x && i.loc->Abs_0.y.num == p.y
        && i.reflect_horiz == p.rh && i.reflect_vert == p.rv
}
pub open spec fn are_placed(v: Seq<Instance>, s: Seq<Placed>) -> bool { v.len() == s.len() && forall|k: int| 0 <= k < s.len() ==> is_placed(#[trigger] v[k], s[k]) }
pub open spec fn small_p(p: Placed) -> bool { -0x100_0000_0000 <= p.x <= 0x100_0000_0000 && -0x100_0000_0000 <= p.y <= 0x100_0000_0000 }
pub open spec fn all_small(s: Seq<Placed>) -> bool { forall|k: int| 0 <= k < s.len() ==> small_p(#[trigger] s[k]) }
/// supported arrays within machine range: supported separations, no groups, every coordinate (and the running location) within 2^40
pub open spec fn arr_ok(a: Array) -> bool decreases a {
    &&& pitch(a.sep.x, Dir::Horiz) is Some &&& pitch(a.sep.y, Dir::Vert) is Some
    &&& -0x100_0000_0000 <= a.count * sx(a) <= 0x100_0000_0000 &&& -0x100_0000_0000 <= a.count * sy(a) <= 0x100_0000_0000
    &&& a.count <= 0x100_0000_0000
    &&& match a.unit { Arrayable::Instance(c) => true, Arrayable::Array(arr) => arr_ok(*arr.v) && all_small(flat(*arr.v)), Arrayable::Group(_) => false }
}

pub proof fn lemma_mul_range(i: int, n: int, s: int)
    requires 0 <= i <= n, -0x100_0000_0000 <= n * s <= 0x100_0000_0000,
    ensures -0x100_0000_0000 <= i * s <= 0x100_0000_0000, (i + 1) * s == i * s + s,
{
    assert((i + 1) * s == i * s + s) by (nonlinear_arith);
    if s >= 0 { assert(0 <= i * s <= n * s) by (nonlinear_arith) requires 0 <= i <= n, s >= 0; }
    else { assert(n * s <= i * s <= 0) by (nonlinear_arith) requires 0 <= i <= n, s < 0; }
}
impl Placer {
//@ fn layout21tetris/src/placer.rs :: impl Placer :: fn flatten_array_inst
//@   ret r
//@   sub R6 /for child in children\.iter_mut\(\) \{/ => let mut vp_k: usize = 0; while vp_k < children.len() { let child = &mut children[vp_k]; vp_k += 1;
//@   spec
//|     requires arr_ok(*array_inst.array.v), all_small(flat(*array_inst.array.v)), array_inst.loc is Abs ==> (array_inst.loc->Abs_0.x.dir == Dir::Horiz && array_inst.loc->Abs_0.y.dir == Dir::Vert
//|             && -0x100_0000_0000 <= array_inst.loc->Abs_0.x.num <= 0x100_0000_0000 && -0x100_0000_0000 <= array_inst.loc->Abs_0.y.num <= 0x100_0000_0000),
//|     ensures r is Ok ==> array_inst.loc is Abs && are_placed(r->Ok_0@, shift(flat(*array_inst.array.v), array_inst.loc->Abs_0.x.num as int, array_inst.loc->Abs_0.y.num as int, array_inst.reflect_horiz, array_inst.reflect_vert)),
//|     decreases *array_inst.array.v, 1int,
//@   before1 /let mut vp_k: usize = 0;/
//|         let ghost fl = flat(*array_inst.array.v); let ghost lx = loc.x.num as int; let ghost ly = loc.y.num as int; let ghost ch_init = children@;
//@   loop 1
//|             invariant vp_k <= children@.len(), children@.len() == fl.len(), all_small(fl), array_inst.loc is Abs, *loc == array_inst.loc->Abs_0, lx == loc.x.num, ly == loc.y.num,
//|                 loc.x.dir == Dir::Horiz, loc.y.dir == Dir::Vert, -0x100_0000_0000 <= lx <= 0x100_0000_0000, -0x100_0000_0000 <= ly <= 0x100_0000_0000,
//|                 forall|k: int| 0 <= k < vp_k ==> is_placed(#[trigger] children@[k], shift1(fl[k], lx, ly, array_inst.reflect_horiz, array_inst.reflect_vert)),
//|                 are_placed(ch_init, fl), forall|k: int| vp_k <= k < fl.len() ==> #[trigger] children@[k] == ch_init[k],
//|             decreases children@.len() - vp_k,
//@   after1 /let child = &mut children\[vp_k\]; vp_k \+= 1;/
//|             proof { let k0 = vp_k as int - 1; assert(is_placed(ch_init[k0], fl[k0])); assert(small_p(fl[k0])); }
//@   after /let childloc = child\.loc\.abs_mut\(\)\?;/
//|             let ghost cx = childloc.x; let ghost cy = childloc.y;
//|             proof { assert(cx.num == fl[vp_k as int - 1].x && cy.num == fl[vp_k as int - 1].y && cx.dir == Dir::Horiz && cy.dir == Dir::Vert); }
//@   before /childloc\.x \*= -1_isize;/
//|                 proof { assert(childloc.x == cx && -0x100_0000_0000 <= cx.num <= 0x100_0000_0000); assert(cx.num * (-1_isize) == -(cx.num as int)) by (nonlinear_arith); }
//@   before /childloc\.y \*= -1_isize;/
//|                 proof { assert(childloc.y == cy && -0x100_0000_0000 <= cy.num <= 0x100_0000_0000); assert(cy.num * (-1_isize) == -(cy.num as int)) by (nonlinear_arith); }
//@   after /childloc\.x \*= -1_isize;/
//|                 proof { assert(childloc.y == cy); assert(childloc.x.num == -cx.num && childloc.x.dir == cx.dir); }
//@   after /childloc\.y \*= -1_isize;/
//|                 proof { assert(childloc.x.dir == cx.dir && childloc.x.num == (if array_inst.reflect_horiz { -cx.num } else { cx.num as int })); assert(childloc.y.num == -cy.num && childloc.y.dir == cy.dir); }
//@   before /\*childloc \+= \*loc;/
//|             proof {
//|                 assert(childloc.x.dir == cx.dir && childloc.x.num == (if array_inst.reflect_horiz { -cx.num } else { cx.num as int }));
//|                 assert(childloc.y.dir == cy.dir && childloc.y.num == (if array_inst.reflect_vert { -cy.num } else { cy.num as int }));
//|             }
//@   loopend 1
//|             proof {
//|                 let k0 = vp_k as int - 1;
//|                 assert(is_placed(ch_init[k0], fl[k0])); assert(small_p(fl[k0]));
//|                 assert(is_placed(children@[k0], shift1(fl[k0], lx, ly, array_inst.reflect_horiz, array_inst.reflect_vert)));
//|             }
//@ end
//@ fn layout21tetris/src/placer.rs :: impl Placer :: fn flatten_array
//@   ret r
//@   sub R5 /prefix: &str/ => prefix: &String
//@   sub R5 /Vec::with_capacity\(array\.count\)/ => vp_with_capacity(array.count)
//@   sub R5 /let mut loc = \(0, 0\)\.into\(\);/ => let mut loc = vp_xy_from((0, 0));
//@   sub R6 /insts\.extend\(children\);/ => vp_extend_insts(&mut insts, children);
//@   spec
//|     requires arr_ok(*array),
//|     ensures r is Ok ==> are_placed(r->Ok_0@, flat(*array)),
//|     decreases *array, 0int,
//@   before /for i in 0\.\.array\.count \{/
//|         proof { assert(0 * sx(*array) == 0 && 0 * sy(*array) == 0) by (nonlinear_arith); }
//@   loop 1
//|             invariant arr_ok(*array), 0 <= i <= array.count, are_placed(insts@, flat_n(*array, i as nat)),
//|                 sep.x == (PrimPitches { dir: Dir::Horiz, num: sx(*array) as isize }), sep.y == (PrimPitches { dir: Dir::Vert, num: sy(*array) as isize }),
//|                 loc.x == (PrimPitches { dir: Dir::Horiz, num: (i * sx(*array)) as isize }), loc.y == (PrimPitches { dir: Dir::Vert, num: (i * sy(*array)) as isize }),
//|                 -0x100_0000_0000 <= i * sx(*array) <= 0x100_0000_0000, -0x100_0000_0000 <= i * sy(*array) <= 0x100_0000_0000,
//@   before /match &array\.unit \{/
//|             let ghost ix = i as int; let ghost in0 = insts@;
//|             proof { lemma_mul_range(ix, array.count as int, sx(*array)); lemma_mul_range(ix, array.count as int, sy(*array)); lemma_mul_range(ix + 1, array.count as int, sx(*array)); lemma_mul_range(ix + 1, array.count as int, sy(*array)); }
//@   loopend 1
//|             proof {
//|                 let f0 = flat_n(*array, ix as nat); let u = unit_at(*array, ix);
//|                 assert(flat_n(*array, (ix + 1) as nat) == f0 + u);
//|                 assert(insts@.len() == f0.len() + u.len());
//|                 assert forall|k: int| 0 <= k < (f0 + u).len() implies is_placed(#[trigger] insts@[k], (f0 + u)[k]) by {
//|                     if k < f0.len() { assert(insts@[k] == in0[k]); } else { assert((f0 + u)[k] == u[k - f0.len()]); }
//|                 }
//|                 if ix + 1 <= array.count { lemma_mul_range(ix + 1, array.count as int, sx(*array)); lemma_mul_range(ix + 1, array.count as int, sy(*array)); }
//|             }
//@ end
}
/// reading of the oracle for the plain case: an array of `count` instances of one cell is `count` placements, the k-th at k times the pitch, unreflected
pub proof fn lemma_flat_plain(a: Array, n: nat, k: int)
    requires a.unit is Instance, 0 <= k < n,
    ensures flat_n(a, n).len() == n, flat_n(a, n)[k] == (Placed { cell: a.unit->Instance_0, x: k * sx(a), y: k * sy(a), rh: false, rv: false }),
    decreases n
{
    lemma_flat_len(a, n);
    lemma_flat_len(a, (n - 1) as nat);
    assert(flat_n(a, n) == flat_n(a, (n - 1) as nat) + unit_at(a, n - 1)); assert(unit_at(a, n - 1).len() == 1);
    if k < n - 1 { lemma_flat_plain(a, (n - 1) as nat, k); }
    else { assert(flat_n(a, n)[k] == unit_at(a, n - 1)[0]); }
}
pub proof fn lemma_flat_len(a: Array, n: nat)
    requires a.unit is Instance,
    ensures flat_n(a, n).len() == n,
    decreases n
{
    if n > 0 { lemma_flat_len(a, (n - 1) as nat); assert(unit_at(a, n - 1).len() == 1); assert(flat_n(a, n) == flat_n(a, (n - 1) as nat) + unit_at(a, n - 1)); }
}
// vacuity canaries
proof fn canary_arr_ok(a: Array) requires arr_ok(a), a.unit is Array, a.count == 2, (*a.unit->Array_0.v).count == 3, sx(a) == 5 ensures false {}
proof fn canary_placed(v: Seq<Instance>, a: Array) requires arr_ok(a), are_placed(v, flat(a)), a.unit is Instance, a.count == 3, sx(a) == 7 ensures false {}
}
fn main() {}
