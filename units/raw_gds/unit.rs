// Unit U6 raw_gds: layout21raw <-> gds21 element converters (C06, C07).
use vstd::prelude::*;
use std::convert::{TryFrom, TryInto};
verus! {
global size_of usize == 8;
//@ include units/common/float.inc.rs
//@ include units/raw_gds/gds.inc.rs
proof fn canary_structs(gs: Seq<gds21::GdsStruct>, cells: Seq<Ptr<Cell>>) requires structs_are(gs, cells), cells_pre(cells), cells.len() == 3, gs.len() == 2, pointee(cells[0]).layout is Some ensures false {}
proof fn canary_shape_ok(s: Shape) requires shape_ok(s), s is Path ensures false {}
}
fn main() {}
