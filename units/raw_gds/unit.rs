// Unit U6 raw_gds: layout21raw <-> gds21 element converters (C06, C07).
use vstd::prelude::*;
use std::convert::{TryFrom, TryInto};
verus! {
global size_of usize == 8;
//@ include units/common/float.inc.rs
//@ include units/raw_gds/gds.inc.rs
proof fn canary_shape_ok(s: Shape) requires shape_ok(s), s is Path ensures false {}
}
fn main() {}
