// shared by units raw_gds and raw_gds_layout: raw <-> GDSII element / layout / library converters under contract
pub type Int = isize;
//@ include units/raw_geom/geom.inc.rs

// =====================================================================================================
// more of layout21raw's data model (extracted)
// =====================================================================================================
//@ item layout21raw/src/geom.rs :: enum Dir
//@   derive Debug, Clone, Copy
//@ end
// R9: the `#[enum_dispatch(ShapeTrait)]` attribute is dropped; the dispatch it generates is modelled below
//@ item layout21raw/src/geom.rs :: enum Shape
//@ end
//@ item layout21raw/src/data.rs :: enum LayerPurpose
//@ end
/// R5: slotmap key (opaque)
#[derive(Debug, Clone, Copy)]
pub struct LayerKey { pub k: u64 }
//@ item layout21raw/src/data.rs :: struct Element
//@ end
pub assume_specification [isize::abs] (x: isize) -> (r: isize) requires x > isize::MIN ensures r == (if x >= 0 { x as int } else { -x });
impl Rect {
//@ fn layout21raw/src/geom.rs :: impl ShapeTrait for Rect :: fn orientation
//@   spec
//|     requires small(self.p0), small(self.p1),
//@ end
}
impl Polygon {
//@ fn layout21raw/src/geom.rs :: impl ShapeTrait for Polygon :: fn orientation
//@ end
}
impl Path {
//@ fn layout21raw/src/geom.rs :: impl ShapeTrait for Path :: fn orientation
//@ end
}
/// well-formedness under which the shape operations are defined (machine-integer ranges, Manhattan paths, non-empty point lists)
pub open spec fn shape_ok(s: Shape) -> bool {
    match s {
        Shape::Rect(r) => small(r.p0) && small(r.p1),
        Shape::Polygon(p) => p.points.len() >= 1 && p.points.len() < 0x7fff_ffff_ffff_ffff && all_small(p.points@)
            && -0x2000_0000_0000_0000 < p.points@[0].x < 0x2000_0000_0000_0000 && -0x2000_0000_0000_0000 < p.points@[0].y < 0x2000_0000_0000_0000,
        Shape::Path(p) => p.points.len() >= 2 && manhattan(p.points@) && all_small(p.points@) && p.width <= 0x2000_0000_0000_0000,
    }
}
/// ORACLE: the closed region a shape covers (C13's definitions)
pub open spec fn shape_holds(s: Shape, q: Point) -> bool {
    match s {
        Shape::Rect(r) => in_closed_box(r.p0, r.p1, q),
        Shape::Polygon(p) => inside(p.points@, q),
        Shape::Path(p) => path_flush(p.points@, (p.width / 2) as int, q, p.points.len() - 1),
    }
}
impl Shape {
    // model of the enum_dispatch-generated forwarding (assumption: the macro forwards each method to the variant)
    pub fn label_location(&self) -> (r: LayoutResult<Point>)
        requires shape_ok(*self),
        ensures r is Ok ==> shape_holds(*self, r->Ok_0),
    { match self { Shape::Rect(x) => x.label_location(), Shape::Polygon(x) => x.label_location(), Shape::Path(x) => x.label_location() } }
    pub fn orientation(&self) -> Dir
        requires shape_ok(*self),
    { match self { Shape::Rect(x) => x.orientation(), Shape::Polygon(x) => x.orientation(), Shape::Path(x) => x.orientation() } }
}
impl vstd::std_specs::convert::FromSpecImpl<std::num::TryFromIntError> for LayoutError {
    open spec fn obeys_from_spec() -> bool { true }
    open spec fn from_spec(e: std::num::TryFromIntError) -> LayoutError { LayoutError { } }
}
impl From<std::num::TryFromIntError> for LayoutError { fn from(e: std::num::TryFromIntError) -> Self { LayoutError { } } }

// =====================================================================================================
// gds21's element structs (extracted from gds21/src/data.rs; derives and serde/builder attributes dropped, R4)
// =====================================================================================================
pub mod gds21 {
    use super::*;
//@ item gds21/src/data.rs :: struct GdsPoint
//@   derive Debug, Clone, Copy
//@ end
//@ item gds21/src/data.rs :: struct GdsStrans
//@ end
//@ item gds21/src/data.rs :: struct GdsPresentation
//@ end
//@ item gds21/src/data.rs :: struct GdsElemFlags
//@ end
//@ item gds21/src/data.rs :: struct GdsPlex
//@ end
//@ item gds21/src/data.rs :: struct GdsProperty
//@ end
//@ item gds21/src/data.rs :: struct GdsPath
//@ end
//@ item gds21/src/data.rs :: struct GdsBoundary
//@ end
//@ item gds21/src/data.rs :: struct GdsStructRef
//@ end
//@ item gds21/src/data.rs :: struct GdsArrayRef
//@ end
//@ item gds21/src/data.rs :: struct GdsTextElem
//@ end
//@ item gds21/src/data.rs :: struct GdsNode
//@ end
//@ item gds21/src/data.rs :: struct GdsBox
//@ end
//@ item gds21/src/data.rs :: enum GdsElement
//@ end
//@ item gds21/src/data.rs :: struct GdsLayerSpec
//@ end
    impl GdsPoint {
//@ fn gds21/src/data.rs :: impl GdsPoint :: fn new
//@   ret r
//@   spec
//|         ensures r.x == x, r.y == y,
//@ end
        /// ASSUMED element-wise contract of `pts.iter().map(|pt| Self::new(pt.0, pt.1)).collect()` (iterator idiom, rule R6)
        #[verifier::external_body]
        pub fn vec(pts: &[(i32, i32)]) -> (r: Vec<Self>)
            ensures r@.len() == pts@.len(), forall|i: int| 0 <= i < pts@.len() ==> (#[trigger] r@[i]).x == pts@[i].0 && r@[i].y == pts@[i].1,
        { pts.iter().map(|pt| Self::new(pt.0, pt.1)).collect() }
    }
    // ---- model of #[derive(Default)] (every field its type's default) — assumption ----
    impl Default for GdsStrans { fn default() -> (r: Self) ensures !r.reflected, !r.abs_mag, !r.abs_angle, r.mag is None, r.angle is None { GdsStrans { reflected: false, abs_mag: false, abs_angle: false, mag: None, angle: None } } }
    impl Default for GdsBoundary { fn default() -> (r: Self) ensures r.layer == 0, r.datatype == 0, r.xy@.len() == 0, r.elflags is None, r.plex is None, r.properties@.len() == 0 { GdsBoundary { layer: 0, datatype: 0, xy: Vec::new(), elflags: None, plex: None, properties: Vec::new() } } }
    impl Default for GdsPath { fn default() -> (r: Self) ensures r.layer == 0, r.datatype == 0, r.xy@.len() == 0, r.width is None, r.path_type is None, r.begin_extn is None, r.end_extn is None, r.elflags is None, r.plex is None, r.properties@.len() == 0 { GdsPath { layer: 0, datatype: 0, xy: Vec::new(), width: None, path_type: None, begin_extn: None, end_extn: None, elflags: None, plex: None, properties: Vec::new() } } }
    impl Default for GdsTextElem { fn default() -> (r: Self) ensures r.layer == 0, r.texttype == 0, r.xy.x == 0, r.xy.y == 0, r.presentation is None, r.path_type is None, r.width is None, r.strans is None, r.elflags is None, r.plex is None, r.properties@.len() == 0 { GdsTextElem { string: String::new(), layer: 0, texttype: 0, xy: GdsPoint { x: 0, y: 0 }, presentation: None, path_type: None, width: None, strans: None, elflags: None, plex: None, properties: Vec::new() } } }
    impl Default for GdsStructRef { fn default() -> (r: Self) ensures r.xy.x == 0, r.xy.y == 0, r.strans is None, r.elflags is None, r.plex is None, r.properties@.len() == 0 { GdsStructRef { name: String::new(), xy: GdsPoint { x: 0, y: 0 }, strans: None, elflags: None, plex: None, properties: Vec::new() } } }
//@ item gds21/src/data.rs :: struct GdsUnits
//@ end
    impl GdsUnits {
//@ fn gds21/src/data.rs :: impl GdsUnits :: fn new
//@   ret r
//@   spec
//|         ensures r.0 == num1, r.1 == num2,
//@ end
    }
    /// R5: GdsLibrary reduced to name, units and structures (version, dates and the unsupported fields are not touched by the raw exporter)
    pub struct GdsLibrary { pub name: String, pub units: GdsUnits, pub structs: Vec<GdsStruct> }
    impl GdsLibrary {
        #[verifier::external_body]
        pub fn new(name: &String) -> (r: Self) ensures r.name@ == name@, r.structs@.len() == 0 { unimplemented!() }
    }
    /// R5: GdsStruct without its dates (not read by the raw exporter); `new(name)` = that name, no elements
    pub struct GdsStruct { pub name: String, pub elems: Vec<GdsElement> }
    impl GdsStruct {
        #[verifier::external_body]
        pub fn new(name: &String) -> (r: Self) ensures r.name@ == name@, r.elems@.len() == 0 { unimplemented!() }
    }
    // ---- model of #[derive(derive_more::From)] on GdsElement — assumption ----
    impl vstd::std_specs::convert::FromSpecImpl<GdsStructRef> for GdsElement { open spec fn obeys_from_spec() -> bool { true } open spec fn from_spec(b: GdsStructRef) -> GdsElement { GdsElement::GdsStructRef(b) } }
    impl From<GdsStructRef> for GdsElement { fn from(b: GdsStructRef) -> GdsElement { GdsElement::GdsStructRef(b) } }
    impl vstd::std_specs::convert::FromSpecImpl<GdsBoundary> for GdsElement { open spec fn obeys_from_spec() -> bool { true } open spec fn from_spec(b: GdsBoundary) -> GdsElement { GdsElement::GdsBoundary(b) } }
    impl From<GdsBoundary> for GdsElement { fn from(b: GdsBoundary) -> GdsElement { GdsElement::GdsBoundary(b) } }
    impl vstd::std_specs::convert::FromSpecImpl<GdsPath> for GdsElement { open spec fn obeys_from_spec() -> bool { true } open spec fn from_spec(b: GdsPath) -> GdsElement { GdsElement::GdsPath(b) } }
    impl From<GdsPath> for GdsElement { fn from(b: GdsPath) -> GdsElement { GdsElement::GdsPath(b) } }
    impl vstd::std_specs::convert::FromSpecImpl<GdsTextElem> for GdsElement { open spec fn obeys_from_spec() -> bool { true } open spec fn from_spec(b: GdsTextElem) -> GdsElement { GdsElement::GdsTextElem(b) } }
    impl From<GdsTextElem> for GdsElement { fn from(b: GdsTextElem) -> GdsElement { GdsElement::GdsTextElem(b) } }
}

// =====================================================================================================
// SPEC
// =====================================================================================================
pub open spec fn fits32(p: Point) -> bool { i32::MIN <= p.x <= i32::MAX && i32::MIN <= p.y <= i32::MAX }
pub open spec fn same_pt(g: gds21::GdsPoint, p: Point) -> bool { g.x == p.x && g.y == p.y }
pub open spec fn same_pts(g: Seq<gds21::GdsPoint>, p: Seq<Point>) -> bool { g.len() == p.len() && forall|i: int| 0 <= i < p.len() ==> same_pt(#[trigger] g[i], p[i]) }
pub open spec fn all_fit32(p: Seq<Point>) -> bool { forall|i: int| 0 <= i < p.len() ==> fits32(#[trigger] p[i]) }

/// GDSII element `g` is the export of `shape` on layer/datatype `ls`
pub open spec fn shape_gds(shape: Shape, g: gds21::GdsElement, ls: gds21::GdsLayerSpec) -> bool {
    match (shape, g) {
        // rectangle: five points, the four corners starting at p0, closed back at p0
        (Shape::Rect(rc), gds21::GdsElement::GdsBoundary(b)) => b.layer == ls.layer && b.datatype == ls.xtype && b.xy@.len() == 5
            && same_pt(b.xy@[0], rc.p0) && b.xy@[1].x == rc.p1.x && b.xy@[1].y == rc.p0.y && same_pt(b.xy@[2], rc.p1)
            && b.xy@[3].x == rc.p0.x && b.xy@[3].y == rc.p1.y && same_pt(b.xy@[4], rc.p0),
        // polygon: its n points, then the first again
        (Shape::Polygon(p), gds21::GdsElement::GdsBoundary(b)) => b.layer == ls.layer && b.datatype == ls.xtype
            && b.xy@.len() == p.points@.len() + 1 && same_pts(b.xy@.take(p.points@.len() as int), p.points@) && same_pt(b.xy@.last(), p.points@[0]),
        // path: exactly its own points (an open path stays open), and its width
        (Shape::Path(p), gds21::GdsElement::GdsPath(b)) => b.layer == ls.layer && b.datatype == ls.xtype
            && same_pts(b.xy@, p.points@) && b.width == Some(p.width as i32) && p.width <= i32::MAX,
        _ => false,
    }
}
/// GDSII element `g` is the net label of `shape`: a text with the net name on layer/texttype `ls`, placed inside the shape (C07), so that re-import finds it
pub open spec fn label_gds(g: gds21::GdsElement, net: Seq<char>, shape: Shape, ls: gds21::GdsLayerSpec) -> bool {
    match g {
        gds21::GdsElement::GdsTextElem(t) => t.layer == ls.layer && t.texttype == ls.xtype && t.string@ == net
            && exists|q: Point| same_pt(t.xy, q) && shape_holds(shape, q),
        _ => false,
    }
}
/// the (layer number, data/text type) the library's layer table assigns to a (layer key, purpose) pair — assumption (export_layerspec is modelled)
pub uninterp spec fn nums_of(k: LayerKey, p: LayerPurpose) -> Option<gds21::GdsLayerSpec>;
pub open spec fn shape_pre(s: Shape) -> bool { shape_ok(s) && match s { Shape::Polygon(p) => p.points.len() >= 1, Shape::Path(p) => p.points.len() >= 1, _ => true } }
/// the GDSII elements one raw element exports to: its shape, then (only if it has a net) its label on the layer's Label purpose
pub open spec fn elem_gds(gs: Seq<gds21::GdsElement>, e: Element) -> bool {
    &&& nums_of(e.layer, e.purpose) is Some &&& gs.len() == (if e.net is Some { 2int } else { 1int })
    &&& shape_gds(e.inner, gs[0], nums_of(e.layer, e.purpose)->0)
    &&& e.net is Some ==> nums_of(e.layer, LayerPurpose::Label) is Some && label_gds(gs[1], e.net->0@, e.inner, nums_of(e.layer, LayerPurpose::Label)->0)
}
pub open spec fn gds_count(e: Element) -> int { if e.net is Some { 2 } else { 1 } }
/// `gs` is the concatenation of the exports of `es`, in order
pub open spec fn elems_gds(gs: Seq<gds21::GdsElement>, es: Seq<Element>) -> bool decreases es.len() {
    if es.len() == 0 { gs.len() == 0 } else {
        let n = gds_count(es.last());
        gs.len() >= n && elems_gds(gs.take(gs.len() - n), es.drop_last()) && elem_gds(gs.skip(gs.len() - n), es.last())
    }
}
pub open spec fn sref_gds(g: gds21::GdsStructRef, inst: Instance) -> bool {
    // the reference names the target cell
    &&& g.name@ == pointee(inst.cell).name@
    &&& fits32(inst.loc) &&& same_pt(g.xy, inst.loc)
    &&& (inst.reflect_vert || inst.angle is Some) == (g.strans is Some)
    &&& g.strans is Some ==> (g.strans->0.reflected == inst.reflect_vert && g.strans->0.angle == inst.angle && !g.strans->0.abs_mag && !g.strans->0.abs_angle && g.strans->0.mag is None)
}
// =====================================================================================================
// EXPORTER (layout21raw/src/gds.rs), extracted
// =====================================================================================================
//@ item layout21utils/src/context.rs :: enum ErrorContext
//@ end
// R5: the exporter without its `lib: &Library` field (only layer lookup uses it; that is outside the unit)
//@ item layout21raw/src/gds.rs :: struct GdsExporter
//@   sub R5 /lib: &'lib Library,/ => pub lib: &'lib Library,
//@   sub R4 /\n    ctx:/ => \n    pub ctx:
//@ end
//@ item layout21raw/src/data.rs :: enum Units
//@   derive Debug, Clone, Copy
//@ end
/// R5: the raw Library reduced to the fields export_lib reads; `cells: PtrList<Cell>` as Vec<Ptr<Cell>>; borrowed as in the source
pub struct Library { pub name: String, pub units: Units, pub cells: Vec<Ptr<Cell>> }
/// ORACLE (C07, "unit mapping both ways"): GDSII UNITS = (database unit in user units, database unit in metres), user unit one micron
pub open spec fn gds_units_of(u: Units) -> (f64, f64) {
    match u { Units::Micro => (1.0f64, 1e-6f64), Units::Nano => (1e-3f64, 1e-9f64), Units::Angstrom => (1e-4f64, 1e-10f64), Units::Pico => (1e-6f64, 1e-12f64) }
}
/// what export_layout needs of a layout: its element count fits, and every shape is exportable
pub open spec fn layout_pre(cell: Layout) -> bool { cell.elems@.len() + cell.insts@.len() <= usize::MAX && forall|i: int| 0 <= i < cell.elems@.len() ==> shape_pre((#[trigger] cell.elems@[i]).inner) }
/// GDSII structure `g` is the export of layout `cell`: its name; first one structure reference per instance, in order; then the exports of the elements, in order
pub open spec fn layout_gds(g: gds21::GdsStruct, cell: Layout) -> bool {
    let n = cell.insts@.len() as int;
    &&& g.name@ == cell.name@ &&& g.elems@.len() >= n
    &&& forall|i: int| 0 <= i < n ==> (#[trigger] g.elems@[i]) is GdsStructRef && sref_gds(g.elems@[i]->GdsStructRef_0, cell.insts@[i])
    &&& elems_gds(g.elems@.skip(n), cell.elems@)
}
/// the structures of an exported library: one per cell that has a layout (its export) or, failing that, an abstract; in library order; nothing for a cell with neither
pub open spec fn structs_are(gs: Seq<gds21::GdsStruct>, cells: Seq<Ptr<Cell>>) -> bool decreases cells.len() {
    if cells.len() == 0 { gs.len() == 0 } else {
        let c = pointee(cells.last());
        if c.layout is Some { gs.len() >= 1 && structs_are(gs.drop_last(), cells.drop_last()) && layout_gds(gs.last(), c.layout->0) }
        else if c.abs is Some { gs.len() >= 1 && structs_are(gs.drop_last(), cells.drop_last()) }
        else { structs_are(gs, cells.drop_last()) }
    }
}
pub open spec fn cells_pre(cells: Seq<Ptr<Cell>>) -> bool { forall|i: int| 0 <= i < cells.len() ==> (pointee(#[trigger] cells[i]).layout is Some ==> layout_pre(pointee(cells[i]).layout->0)) }
impl<'lib> GdsExporter<'lib> {
//@ fn layout21raw/src/gds.rs :: impl<'lib> GdsExporter<'lib> :: fn export_point
//@   ret r
//@   spec
//|     ensures final(self).lib == old(self).lib, final(self).ctx == old(self).ctx, r is Ok <==> fits32(*pt), r is Ok ==> same_pt(r->Ok_0, *pt),
//@ end
    /// ASSUMED element-wise contract of `points.iter().map(|p| self.export_point(p)).collect::<Result<Vec<_>, _>>()?` (rule R6)
    #[verifier::external_body]
    fn vp_export_points(&mut self, pts: &Vec<Point>) -> (r: LayoutResult<Vec<gds21::GdsPoint>>)
        ensures final(self).lib == old(self).lib, final(self).ctx == old(self).ctx, r is Ok <==> all_fit32(pts@), r is Ok ==> same_pts(r->Ok_0@, pts@),
    { unimplemented!() }
//@ fn layout21raw/src/gds.rs :: impl<'lib> GdsExporter<'lib> :: fn export_shape
//@   ret r
//@   sub R6 /poly\s*\.points\s*\.iter\(\)\s*\.map\(\|p\| self\.export_point\(p\)\)\s*\.collect::<Result<Vec<_>, _>>\(\)\?/ => self.vp_export_points(&poly.points)?
//@   sub R3 /let mut xy = Vec::new\(\);/ => let mut xy: Vec<gds21::GdsPoint> = Vec::new();
//@   spec
//|     requires match *shape { Shape::Polygon(p) => p.points.len() >= 1, Shape::Path(p) => p.points.len() >= 1, _ => true },
//|     ensures final(self).lib == old(self).lib, r is Ok ==> final(self).ctx@ == old(self).ctx@ && shape_gds(*shape, r->Ok_0, *layerspec),
//@   loop 1 iter it
//|                     invariant self.lib == old(self).lib, self.ctx == old(self).ctx, same_pts(xy@, path.points@.take(it.index@ as int)), it.index@ <= path.points@.len(),
//@   loopend 1
//|                     proof { assert(path.points@.take(it.index@ + 1) == path.points@.take(it.index@ as int).push(*p)); }
//@ end
//@ fn layout21raw/src/gds.rs :: impl<'lib> GdsExporter<'lib> :: fn export_shape_label
//@   ret r
//@   sub R5 /net: &str,/ => net: &String,
//@   sub R5 /string: net\.into\(\),/ => string: net.clone(),
//@   spec
//|     requires shape_ok(*shape),
//|     ensures final(self).lib == old(self).lib, r is Ok ==> final(self).ctx@ == old(self).ctx@ && label_gds(r->Ok_0, net@, *shape, *layerspec),
//@ end
}

// model of #[derive(PartialEq)] on Point (field-wise equality): Verus gives derived comparisons no meaning — assumption
impl vstd::std_specs::cmp::PartialEqSpecImpl for Point {
    open spec fn obeys_eq_spec() -> bool { true }
    open spec fn eq_spec(&self, other: &Self) -> bool { self.x == other.x && self.y == other.y }
}
impl PartialEq for Point { fn eq(&self, other: &Self) -> bool { self.x == other.x && self.y == other.y } }

// =====================================================================================================
// IMPORTER models (rule R5)
// =====================================================================================================
/// model of layout21utils::Ptr<T> (Arc<RwLock<T>>): an opaque shared handle; clone yields the same handle
pub struct Ptr<T> { pub id: usize, pub _p: core::marker::PhantomData<T> }
impl<T> Ptr<T> {
    #[verifier::external_body]
    pub fn clone(this: &Ptr<T>) -> (r: Ptr<T>) ensures r == *this { unimplemented!() }
}
impl<T> Clone for Ptr<T> {
    #[verifier::external_body]
    fn clone(&self) -> (r: Ptr<T>) ensures r == *self { unimplemented!() }
}
/// abstract views are opaque here (the GDSII exporter writes them through export_abstract, which is outside the units)
pub struct Abstract { pub name: String }
//@ item layout21raw/src/data.rs :: struct Cell
//@ end
/// the cell a handle points to (handles are opaque ids, so libraries with shared and even cyclic cells are representable)
pub uninterp spec fn pointee(p: Ptr<Cell>) -> Cell;
impl Ptr<Cell> {
    /// model of Ptr::read (RwLock read): the pointee, or a lock-poison error
    #[verifier::external_body]
    pub fn read(&self) -> (r: LayoutResult<&Cell>) ensures r is Ok ==> *r->Ok_0 == pointee(*self) { unimplemented!() }
}
/// model of `HashMap<String, Ptr<Cell>>` used read-only by the element importers
pub struct CellMap { pub m: Vec<Ptr<Cell>> }
impl CellMap {
    pub uninterp spec fn lookup(&self, k: Seq<char>) -> Option<Ptr<Cell>>;
    #[verifier::external_body]
    pub fn get(&self, k: &String) -> (r: Option<&Ptr<Cell>>)
        ensures (r is Some) == (self.lookup(k@) is Some), r is Some ==> *r->0 == self.lookup(k@)->0,
    { unimplemented!() }
}
/// model of layout21utils::Unwrapper for Option (Some(t) => Ok(t), None => helper.fail(msg))
pub trait Unwrapper: Sized {
    type Ok;
    spec fn some_spec(&self) -> Option<Self::Ok>;
    fn unwrapper<M>(self, helper: &GdsImporter, msg: M) -> (r: Result<Self::Ok, LayoutError>)
        ensures self.some_spec() is Some ==> r == Ok::<Self::Ok, LayoutError>(self.some_spec()->0), self.some_spec() is None ==> r is Err;
}
impl<T> Unwrapper for Option<T> {
    type Ok = T;
    open spec fn some_spec(&self) -> Option<T> { *self }
    #[verifier::external_body]
    fn unwrapper<M>(self, helper: &GdsImporter, msg: M) -> (r: Result<T, LayoutError>) { match self { Some(t) => Ok(t), None => Err(LayoutError { }) } }
}
//@ item layout21raw/src/data.rs :: struct Instance
//@ end
/// model of the shared layer table `Ptr<Layers>` as far as the importer reads it: `read()` (lock) and `get(key)` -> the layer's GDSII number
pub struct Layer { pub layernum: i16 }
pub struct LayerTable { pub t: Vec<Layer> }
impl LayerTable {
    pub uninterp spec fn lookup(&self, k: LayerKey) -> Option<Layer>;
    #[verifier::external_body]
    pub fn read(&self) -> (r: LayoutResult<&LayerTable>) ensures r is Ok ==> *r->Ok_0 == *self { unimplemented!() }
    #[verifier::external_body]
    pub fn get(&self, k: LayerKey) -> (r: Option<&Layer>) ensures (r is Some) == (self.lookup(k) is Some), r is Some ==> *r->0 == self.lookup(k)->0 { unimplemented!() }
}
// R5: the importer reduced to the fields the element converters touch
//@ item layout21raw/src/gds.rs :: struct GdsImporter
//@   sub R5 /pub layers: Ptr<Layers>,/ => pub layers: LayerTable,
//@   sub R4 /\n    unsupported:/ => \n    pub unsupported:
//@   sub R5 /cell_map: HashMap<String, Ptr<Cell>>,/ => pub cell_map: CellMap,
//@   sub R4 /\n    lib: Library,/ => \n    pub lib: Library,
//@   sub R4 /\n    ctx:/ => \n    pub ctx:
//@ end
/// R11: the floating-point expressions of the rotated-array branch, each wrapped verbatim (Verus has no f64 arithmetic or f64->int cast).
/// ASSUMED: |x cos a -/+ y sin a| <= |x| + |y| + 1, so for 32-bit x, y the saturating cast lands within +-2^33.
#[verifier::external_body]
pub fn vp_rot_x(x: f64, y: f64, a: f64) -> (r: isize) ensures -0x2_0000_0000 <= r <= 0x2_0000_0000 { (x * a.cos() - y * a.sin()) as isize }
#[verifier::external_body]
pub fn vp_rot_y(x: f64, y: f64, a: f64) -> (r: isize) ensures -0x2_0000_0000 <= r <= 0x2_0000_0000 { (x * a.sin() + y * a.cos()) as isize }
#[verifier::external_body]
pub fn vp_i32_as_f64(x: i32) -> f64 { f64::from(x) }
pub assume_specification [f64::to_radians] (x: f64) -> f64;
pub open spec fn idx(jx: int, w: int, jy: int) -> int { jx * w + jy }
proof fn lemma_idx(jx: int, jy: int, ix: int, w: int)
    requires 0 <= jx < ix, 0 <= jy < w,
    ensures 0 <= jx * w + jy < ix * w,
{
    assert(jx * w + jy < ix * w) by (nonlinear_arith) requires 0 <= jx < ix, 0 <= jy < w;
    assert(0 <= jx * w + jy) by (nonlinear_arith) requires 0 <= jx, 0 <= jy, 0 < w;
}
proof fn lemma_step_bound(d: int, c: int, k: int)
    requires -0x1_0000_0000 <= d <= 0x1_0000_0000, 0 < c <= 0x7fff, 0 <= k < c,
    ensures -0x1_0000_0000 <= k * tdiv(d, c) <= 0x1_0000_0000, -0x1_0000_0000 <= tdiv(d, c) <= 0x1_0000_0000,
{
    let q = tdiv(d, c);
    if d >= 0 {
        assert(0 <= q <= d) by (nonlinear_arith) requires q == d / c, d >= 0, c > 0;
        assert(k * q <= c * q) by (nonlinear_arith) requires 0 <= k < c, q >= 0;
        assert(c * q <= d) by (nonlinear_arith) requires q == d / c, d >= 0, c > 0;
        assert(0 <= k * q) by (nonlinear_arith) requires 0 <= k, q >= 0;
    } else {
        let e = -d; let p = e / c;
        assert(0 <= p <= e) by (nonlinear_arith) requires p == e / c, e >= 0, c > 0;
        assert(k * p <= c * p) by (nonlinear_arith) requires 0 <= k < c, p >= 0;
        assert(c * p <= e) by (nonlinear_arith) requires p == e / c, e >= 0, c > 0;
        assert(0 <= k * p) by (nonlinear_arith) requires 0 <= k, p >= 0;
        assert(k * q == -(k * p)) by (nonlinear_arith) requires q == -p;
    }
}

// ---- SPEC for import ----
/// the four corners of an axis-aligned rectangle walked in either direction (what import_boundary recognises)
pub open spec fn rect_walk(p: Seq<Point>) -> bool {
    p.len() == 4 && ((p[0].x == p[1].x && p[1].y == p[2].y && p[2].x == p[3].x && p[3].y == p[0].y)
        || (p[0].y == p[1].y && p[1].x == p[2].x && p[2].y == p[3].y && p[3].x == p[0].x))
}
pub open spec fn rect_walk_g(p: Seq<gds21::GdsPoint>) -> bool {
    (p[0].x == p[1].x && p[1].y == p[2].y && p[2].x == p[3].x && p[3].y == p[0].y)
        || (p[0].y == p[1].y && p[1].x == p[2].x && p[2].y == p[3].y && p[3].x == p[0].x)
}
/// truncating division, as Rust's `/` on signed integers
pub open spec fn tdiv(a: int, b: int) -> int { if a >= 0 { a / b } else { -((-a) / b) } }

/// the GDSII layer number a layer key stands for
pub uninterp spec fn knum(k: LayerKey) -> i16;
/// R8: spec view of gds21::HasLayer (the element's GDSII layer number)
pub trait VpHasLayer { spec fn gds_layer(&self) -> i16; spec fn gds_xtype(&self) -> i16; }
impl VpHasLayer for gds21::GdsBoundary { open spec fn gds_layer(&self) -> i16 { self.layer } open spec fn gds_xtype(&self) -> i16 { self.datatype } }
impl VpHasLayer for gds21::GdsPath { open spec fn gds_layer(&self) -> i16 { self.layer } open spec fn gds_xtype(&self) -> i16 { self.datatype } }
impl VpHasLayer for gds21::GdsBox { open spec fn gds_layer(&self) -> i16 { self.layer } open spec fn gds_xtype(&self) -> i16 { self.boxtype } }
/// the GDSII data type a (layer key, purpose) pair stands for in the layer table
pub uninterp spec fn pnum(k: LayerKey, p: LayerPurpose) -> i16;
/// raw instance `i` is the import of structure reference `sref`: the named cell, the location, reflection about the x-axis and the angle
pub open spec fn sref_imp(i: Instance, sref: gds21::GdsStructRef, m: CellMap) -> bool {
    &&& m.lookup(sref.name@) == Some(i.cell)
    &&& same_pt(sref.xy, i.loc)
    &&& match sref.strans { None => !i.reflect_vert && i.angle is None, Some(st) => !st.abs_mag && !st.abs_angle && i.reflect_vert == st.reflected && i.angle == st.angle }
}
/// the placements of an un-rotated array reference: cols x rows instances on the lattice spanned by the three points, column-major,
/// all of the referenced cell, none rotated, all reflected as the array is (rotated arrays: unspecified — floats, rule R11)
pub open spec fn aref_imp(v: Seq<Instance>, aref: gds21::GdsArrayRef, m: CellMap) -> bool {
    (aref.strans is None || aref.strans->0.angle is None) ==> ({
        let c = aref.cols as int; let w = aref.rows as int;
        let xs = tdiv(aref.xy@[1].x - aref.xy@[0].x, c); let ys = tdiv(aref.xy@[2].y - aref.xy@[0].y, w);
        &&& c > 0 && w > 0 &&& v.len() == c * w
        &&& forall|ix: int, iy: int| 0 <= ix < c && 0 <= iy < w ==> ({
                let i = v[#[trigger] idx(ix, w, iy)];
                &&& i.loc.x == aref.xy@[0].x + ix * xs &&& i.loc.y == aref.xy@[0].y + iy * ys
                &&& Some(i.cell) == m.lookup(aref.name@) &&& i.angle is None
                &&& i.reflect_vert == (aref.strans is Some && aref.strans->0.reflected)
            })
    })
}
/// raw element `e` is the import of GDSII boundary `x`: a Rect exactly for the two axis-aligned closed 4-corner walks, else the polygon without its closing point; no net yet; on x's layer
pub open spec fn boundary_imp(e: Element, x: gds21::GdsBoundary) -> bool {
    let n = x.xy@.len() as int;
    &&& n >= 1 &&& x.xy@[0] == x.xy@[n - 1] &&& e.net is None &&& knum(e.layer) == x.layer &&& pnum(e.layer, e.purpose) == x.datatype
    &&& match e.inner {
        Shape::Rect(rc) => n == 5 && same_pt(x.xy@[0], rc.p0) && same_pt(x.xy@[2], rc.p1) && rect_walk_g(x.xy@),
        Shape::Polygon(pg) => same_pts(x.xy@.take(n - 1), pg.points@) && !(n == 5 && rect_walk_g(x.xy@)),
        Shape::Path(_) => false,
    }
}
pub open spec fn box_imp(e: Element, x: gds21::GdsBox) -> bool {
    e.net is None && knum(e.layer) == x.layer && pnum(e.layer, e.purpose) == x.boxtype && match e.inner { Shape::Rect(rc) => same_pt(x.xy@[0], rc.p0) && same_pt(x.xy@[2], rc.p1), _ => false }
}
pub open spec fn path_imp(e: Element, x: gds21::GdsPath) -> bool {
    e.net is None && knum(e.layer) == x.layer && pnum(e.layer, e.purpose) == x.datatype && x.width is Some && match e.inner {
        Shape::Path(p) => same_pts(x.xy@, p.points@) && (x.width->0 >= 0 ==> p.width == x.width->0),
        _ => false }
}
impl GdsImporter {
    /// model of ErrorHelper::fail: always an error
    #[verifier::external_body]
    fn fail<T, M>(&self, msg: M) -> (r: LayoutResult<T>) ensures r is Err { Err(LayoutError { }) }
    //@ pin layout21raw/src/gds.rs :: impl GdsImporter :: fn import_element_layer @47b523f6
    //@ pin layout21raw/src/data.rs :: impl Layers :: fn get_or_insert @8ccc5028
    /// model of import_element_layer (`layers.write()?.get_or_insert(spec.layer, spec.xtype)`): the key it returns stands for the element's
    /// GDSII layer number (`knum`; keys are never renumbered) — assumption, the shared layer table is outside the unit
    #[verifier::external_body]
    fn import_element_layer<E: VpHasLayer>(&mut self, elem: &E) -> (r: LayoutResult<(LayerKey, LayerPurpose)>)
        ensures final(self).cell_map == old(self).cell_map, final(self).lib == old(self).lib, final(self).unsupported == old(self).unsupported, final(self).ctx == old(self).ctx, r is Ok ==> knum(r->Ok_0.0) == elem.gds_layer() && pnum(r->Ok_0.0, r->Ok_0.1) == elem.gds_xtype(),
    { unimplemented!() }
//@ fn layout21raw/src/gds.rs :: impl GdsImporter :: fn import_point
//@   ret r
//@   spec
//|     ensures r is Ok, same_pt(*pt, r->Ok_0), final(self).cell_map == old(self).cell_map, final(self).lib == old(self).lib, final(self).unsupported == old(self).unsupported, final(self).ctx == old(self).ctx,
//@ end
    /// ASSUMED element-wise contract of `pts.iter().map(|p| self.import_point(p)).collect::<Result<Vec<_>, _>>()` (rule R6)
    #[verifier::external_body]
    fn import_point_vec(&mut self, pts: &Vec<gds21::GdsPoint>) -> (r: LayoutResult<Vec<Point>>)
        ensures r is Ok, same_pts(pts@, r->Ok_0@), final(self).cell_map == old(self).cell_map, final(self).lib == old(self).lib, final(self).unsupported == old(self).unsupported, final(self).ctx == old(self).ctx,
    { unimplemented!() }
//@ fn layout21raw/src/gds.rs :: impl GdsImporter :: fn import_boundary
//@   ret r
//@   spec
//|     ensures final(self).cell_map == old(self).cell_map, final(self).lib == old(self).lib, final(self).unsupported == old(self).unsupported, r is Ok ==> final(self).ctx@ == old(self).ctx@ && boundary_imp(r->Ok_0, *x),
//@   before /^        Ok\(e\)$/
//|         proof { assert(self.ctx@ =~= old(self).ctx@); }
//@ end
//@ fn layout21raw/src/gds.rs :: impl GdsImporter :: fn import_box
//@   ret r
//@   spec
//|     ensures final(self).cell_map == old(self).cell_map, final(self).lib == old(self).lib, final(self).unsupported == old(self).unsupported, r is Ok ==> final(self).ctx@ == old(self).ctx@ && box_imp(r->Ok_0, *x),
//@   before /^        Ok\(e\)$/
//|         proof { assert(self.ctx@ =~= old(self).ctx@); }
//@ end
//@ fn layout21raw/src/gds.rs :: impl GdsImporter :: fn import_path
//@   ret r
//@   spec
//|     ensures final(self).cell_map == old(self).cell_map, final(self).lib == old(self).lib, final(self).unsupported == old(self).unsupported, r is Ok ==> final(self).ctx@ == old(self).ctx@ && path_imp(r->Ok_0, *x),
//|         x.width is None ==> r is Err,
//@   before /^        Ok\(e\)$/
//|         proof { assert(self.ctx@ =~= old(self).ctx@); }
//@ end
}


impl GdsImporter {
//@ fn layout21raw/src/gds.rs :: impl GdsImporter :: fn import_instance
//@   ret r
//@   sub R7 /let inst_name = ""\.into\(\);/ => let inst_name = String::new();
//@   spec
//|     ensures final(self).cell_map == old(self).cell_map, final(self).lib == old(self).lib, final(self).unsupported == old(self).unsupported,
//|         r is Ok ==> final(self).ctx@ == old(self).ctx@ && sref_imp(r->Ok_0, *sref, old(self).cell_map),
//|         old(self).cell_map.lookup(sref.name@) is None ==> r is Err,
//|         (sref.strans is Some && (sref.strans->0.abs_mag || sref.strans->0.abs_angle)) ==> r is Err,
//@   before /^        Ok\(inst\)$/
//|         proof { assert(self.ctx@ =~= old(self).ctx@); }
//@ end
//@ fn layout21raw/src/gds.rs :: impl GdsImporter :: fn import_instance_array
//@   ret r
//@   sub R11 /\(prev_xy\.0 \* a\.cos\(\) - prev_xy\.1 \* a\.sin\(\)\) as Int/ => vp_rot_x(prev_xy.0, prev_xy.1, a)
//@   sub R11 /\(prev_xy\.0 \* a\.sin\(\) \+ prev_xy\.1 \* a\.cos\(\)\) as Int/ => vp_rot_y(prev_xy.0, prev_xy.1, a)
//@   sub R11 /let prev_xy = \(f64::from\(prev_xy\.0\), f64::from\(prev_xy\.1\)\);/ => let prev_xy = (vp_i32_as_f64(prev_xy.0), vp_i32_as_f64(prev_xy.1));
//@   let insts : Vec<Instance>
//@   spec
//|     ensures final(self).cell_map == old(self).cell_map, final(self).lib == old(self).lib, final(self).unsupported == old(self).unsupported,
//|         (r is Ok && r->Ok_0 is Some) ==> final(self).ctx@ == old(self).ctx@,
//|         // no array placement is silently dropped: either an error or the placements
//|         r is Ok ==> r->Ok_0 is Some,
//|         // non-positive counts are an error, never a division by zero
//|         (aref.cols <= 0 || aref.rows <= 0) ==> !(r is Ok && r->Ok_0 is Some),
//|         old(self).cell_map.lookup(aref.name@) is None ==> r is Err,
//|         // un-rotated arrays: cols x rows placements on the lattice spanned by the three points
//|         (r is Ok && r->Ok_0 is Some) ==> aref_imp(r->Ok_0->0@, *aref, old(self).cell_map),
//@   before1 /Create the Instances|let mut insts\b/
//|         let ghost rotated = aref.strans is Some && aref.strans->0.angle is Some;
//|         let ghost c = aref.cols as int; let ghost w = aref.rows as int;
//|         let ghost xs = tdiv(aref.xy@[1].x - aref.xy@[0].x, c); let ghost ys = tdiv(aref.xy@[2].y - aref.xy@[0].y, w);
//|         proof {
//|             lemma_step_bound(aref.xy@[1].x - aref.xy@[0].x, c, 0); lemma_step_bound(aref.xy@[2].y - aref.xy@[0].y, w, 0);
//|             assert(!rotated ==> xstep == xs && ystep == ys);
//|             assert(c * w <= 0x7fff * 0x7fff) by (nonlinear_arith) requires 0 < c <= 0x7fff, 0 < w <= 0x7fff;
//|             assert(0 * w == 0) by (nonlinear_arith);
//|             assert((aref.rows as usize) as int == w && (aref.cols as usize) as int == c);
//|             assert(w * c <= 0x7fff * 0x7fff) by (nonlinear_arith) requires 0 < c <= 0x7fff, 0 < w <= 0x7fff;
//|         }
//@   loop 1
//|             invariant c == aref.cols as int, w == aref.rows as int, 0 < c <= 0x7fff, 0 < w <= 0x7fff,
//|                 -0x2_0000_0000 <= xstep <= 0x2_0000_0000, -0x2_0000_0000 <= ystep <= 0x2_0000_0000,
//|                 same_pt(aref.xy@[0], p0), !rotated ==> (xstep == xs && ystep == ys && angle is None),
//|                 xs == tdiv(aref.xy@[1].x - aref.xy@[0].x, c), ys == tdiv(aref.xy@[2].y - aref.xy@[0].y, w),
//|                 reflect_vert == (aref.strans is Some && aref.strans->0.reflected),
//|                 Some(cell) == old(self).cell_map.lookup(aref.name@),
//|                 insts@.len() == ix * w,
//|                 forall|jx: int, jy: int| 0 <= jx < ix && 0 <= jy < w ==> ({
//|                     let i = insts@[#[trigger] idx(jx, w, jy)];
//|                     &&& (!rotated ==> i.loc.x == p0.x + jx * xs && i.loc.y == p0.y + jy * ys && i.angle is None)
//|                     &&& i.cell == cell &&& i.reflect_vert == reflect_vert
//|                 }),
//@   before /let x = p0\.x \+ ix \* xstep;/
//|             proof {
//|                 assert(-0x2_0000_0000 * 0x8000 <= ix * xstep <= 0x2_0000_0000 * 0x8000) by (nonlinear_arith) requires 0 <= ix < 0x8000, -0x2_0000_0000 <= xstep <= 0x2_0000_0000;
//|             }
//@   loop 2
//|                 invariant c == aref.cols as int, w == aref.rows as int, 0 < c <= 0x7fff, 0 < w <= 0x7fff, 0 <= ix < c,
//|                     -0x2_0000_0000 <= xstep <= 0x2_0000_0000, -0x2_0000_0000 <= ystep <= 0x2_0000_0000,
//|                     same_pt(aref.xy@[0], p0), !rotated ==> (xstep == xs && ystep == ys && angle is None),
//|                     x == p0.x + ix * xstep,
//|                     reflect_vert == (aref.strans is Some && aref.strans->0.reflected),
//|                     Some(cell) == old(self).cell_map.lookup(aref.name@),
//|                     insts@.len() == ix * w + iy,
//|                     forall|jx: int, jy: int| 0 <= jx < ix && 0 <= jy < w ==> ({
//|                         let i = insts@[#[trigger] idx(jx, w, jy)];
//|                         &&& (!rotated ==> i.loc.x == p0.x + jx * xs && i.loc.y == p0.y + jy * ys && i.angle is None)
//|                         &&& i.cell == cell &&& i.reflect_vert == reflect_vert
//|                     }),
//|                     forall|jy: int| 0 <= jy < iy ==> ({
//|                         let i = insts@[#[trigger] idx(ix as int, w, jy)];
//|                         &&& (!rotated ==> i.loc.x == p0.x + ix * xs && i.loc.y == p0.y + jy * ys && i.angle is None)
//|                         &&& i.cell == cell &&& i.reflect_vert == reflect_vert
//|                     }),
//@   before /let y = p0\.y \+ iy \* ystep;/
//|                 let ghost before = insts@;
//|                 proof {
//|                     assert(-0x2_0000_0000 * 0x8000 <= iy * ystep <= 0x2_0000_0000 * 0x8000) by (nonlinear_arith) requires 0 <= iy < 0x8000, -0x2_0000_0000 <= ystep <= 0x2_0000_0000;
//|                 }
//@   loopend 2
//|                 proof {
//|                     assert(insts@ == before.push(insts@.last()));
//|                     assert forall|jx: int, jy: int| 0 <= jx < ix && 0 <= jy < w implies insts@[#[trigger] idx(jx, w, jy)] == before[idx(jx, w, jy)] by { lemma_idx(jx, jy, ix as int, w); }
//|                     assert forall|jy: int| 0 <= jy < iy implies insts@[#[trigger] idx(ix as int, w, jy)] == before[idx(ix as int, w, jy)] by {}
//|                 }
//@   loopend 1
//|             proof {
//|                 assert((ix + 1) * w == ix * w + w) by (nonlinear_arith);
//|                 assert forall|jx: int, jy: int| 0 <= jx < ix + 1 && 0 <= jy < w implies ({
//|                     let i = insts@[#[trigger] idx(jx, w, jy)];
//|                     &&& (!rotated ==> i.loc.x == p0.x + jx * xs && i.loc.y == p0.y + jy * ys && i.angle is None)
//|                     &&& i.cell == cell &&& i.reflect_vert == reflect_vert
//|                 }) by { if jx < ix { } else { assert(jx == ix); } }
//|             }
//@   before /^        Ok\(Some\(insts\)\)$/
//|         proof { assert(self.ctx@ =~= old(self).ctx@); }
//@ end
}
/// model of the plumbing `Option<f64>::map(f)` (rule R6) for a closure that must be the identity on angles: the closure itself is the REAL
/// closure of the source, verified against `ensures r == a` (raw and GDSII angles are both counter-clockwise degrees)
#[verifier::external_body]
pub fn vp_opt_map_f64<F: Fn(f64) -> f64>(o: Option<f64>, f: F) -> (r: Option<f64>)
    requires forall|a: f64| #[trigger] f.requires((a,)), forall|a: f64, b: f64| #[trigger] f.ensures((a,), b) ==> b == a,
    ensures r == o,
{ o.map(f) }
/// `f64::from(f64)`: the reflexive conversion
#[verifier::external_body]
pub fn vp_f64_from(a: f64) -> (r: f64) ensures r == a { f64::from(a) }
impl<'lib> GdsExporter<'lib> {
//@ fn layout21raw/src/gds.rs :: impl<'lib> GdsExporter<'lib> :: fn export_instance
//@   ret r
//@   sub R6 /inst\.angle\.map\(\|a\| ([^;\n]*)\);/ => vp_opt_map_f64(inst.angle, |a: f64| -> (r: f64) ensures r == a { \1 });
//@   sub R6? /f64::from\(a\)/ => vp_f64_from(a)
//@   spec
//|     ensures final(self).lib == old(self).lib, r is Ok ==> final(self).ctx@ == old(self).ctx@ && sref_gds(r->Ok_0, *inst),
//@   before /^        Ok\(gdsinst\)$/
//|         proof { assert(self.ctx@ =~= old(self).ctx@); }
//@ end
    //@ pin layout21raw/src/gds.rs :: impl<'lib> GdsExporter<'lib> :: fn export_abstract @e86abe18
    /// abstract views are outside the units: ASSUMED frame only (the error-context stack is restored, the library untouched)
    #[verifier::external_body]
    fn export_abstract(&mut self, abs: &Abstract) -> (r: LayoutResult<gds21::GdsStruct>)
        ensures final(self).lib == old(self).lib, r is Ok ==> final(self).ctx@ == old(self).ctx@,
    { unimplemented!() }
//@ fn layout21raw/src/gds.rs :: impl<'lib> GdsExporter<'lib> :: fn export_cell
//@   ret r
//@   spec
//|     requires cell.layout is Some ==> layout_pre(cell.layout->0),
//|     ensures final(self).lib == old(self).lib, r is Ok ==> final(self).ctx@ == old(self).ctx@
//|         // the layout if there is one, else the abstract, else nothing
//|         && (cell.layout is Some ==> r->Ok_0 is Some && layout_gds(r->Ok_0->0, cell.layout->0))
//|         && (cell.layout is None && cell.abs is Some ==> r->Ok_0 is Some) && (cell.layout is None && cell.abs is None ==> r->Ok_0 is None),
//@   before /^        Ok\(strukt_option\)$/
//|         proof { assert(self.ctx@ =~= old(self).ctx@); }
//@ end
//@ fn layout21raw/src/gds.rs :: impl<'lib> GdsExporter<'lib> :: fn export
//@   ret r
//@   spec
//|     requires cells_pre(lib.cells@),
//|     // the public entry: what export_lib produces for this library
//|     ensures r is Ok ==> r->Ok_0.name@ == lib.name@ && r->Ok_0.units.0 == gds_units_of(lib.units).0 && r->Ok_0.units.1 == gds_units_of(lib.units).1
//|         && structs_are(r->Ok_0.structs@, lib.cells@),
//@ end
//@ fn layout21raw/src/gds.rs :: impl<'lib> GdsExporter<'lib> :: fn export_lib
//@   ret r
//@   spec
//|     requires cells_pre(old(self).lib.cells@),
//|     ensures final(self).lib == old(self).lib, r is Ok ==> final(self).ctx@ == old(self).ctx@ && r->Ok_0.name@ == old(self).lib.name@
//|         // the database unit of each raw length unit, with a one-micron user unit
//|         && r->Ok_0.units.0 == gds_units_of(old(self).lib.units).0 && r->Ok_0.units.1 == gds_units_of(old(self).lib.units).1
//|         // one structure per cell that has a view, in library order, none dropped
//|         && structs_are(r->Ok_0.structs@, old(self).lib.cells@),
//@   after /self\.ctx\.push\(ErrorContext::Library\(self\.lib\.name\.clone\(\)\)\);/
//|         let ghost c0 = self.ctx@;
//|         proof { assert(c0.drop_last() =~= old(self).ctx@); }
//@   loop 1 iter it
//|             invariant self.lib == old(self).lib, self.ctx@ == c0, c0.len() > 0, c0.drop_last() == old(self).ctx@,
//|                 gdslib.name@ == self.lib.name@, gdslib.units.0 == gds_units_of(self.lib.units).0, gdslib.units.1 == gds_units_of(self.lib.units).1,
//|                 it.index@ <= self.lib.cells@.len(), cells_pre(self.lib.cells@), structs_are(gdslib.structs@, self.lib.cells@.take(it.index@ as int)),
//@   before /let cell = cell\.read\(\)\?;/
//|             let ghost g0 = gdslib.structs@;
//|             proof { let t1 = self.lib.cells@.take(it.index@ + 1); assert(*cell == self.lib.cells@[it.index@ as int]); assert(t1.drop_last() == self.lib.cells@.take(it.index@ as int)); assert(t1.last() == *cell); }
//@   loopend 1
//|             proof { let c = pointee(self.lib.cells@[it.index@ as int]); if c.layout is Some || c.abs is Some { assert(gdslib.structs@.drop_last() =~= g0); } }
//@   before /^        self\.ctx\.pop\(\);\n        Ok\(gdslib\)|^        Ok\(gdslib\)$/
//|         proof { assert(self.lib.cells@.take(self.lib.cells@.len() as int) == self.lib.cells@); }
//@ end
    //@ pin layout21raw/src/gds.rs :: impl<'lib> GdsExporter<'lib> :: fn export_layerspec @01a7607d
    /// model of GdsExporter::export_layerspec (reads the library's layer table): the pair's numbers, or an error if the layer or the purpose is not defined
    #[verifier::external_body]
    pub fn export_layerspec(&mut self, layer: &LayerKey, purpose: &LayerPurpose) -> (r: LayoutResult<gds21::GdsLayerSpec>)
        ensures final(self).lib == old(self).lib, final(self).ctx == old(self).ctx, r is Ok <==> nums_of(*layer, *purpose) is Some, r is Ok ==> r->Ok_0 == nums_of(*layer, *purpose)->0,
    { unimplemented!() }
//@ fn layout21raw/src/gds.rs :: impl<'lib> GdsExporter<'lib> :: fn export_element
//@   ret r
//@   spec
//|     requires shape_pre(elem.inner),
//|     ensures final(self).lib == old(self).lib, r is Ok ==> final(self).ctx@ == old(self).ctx@ && elem_gds(r->Ok_0@, *elem),
//@ end
//@ fn layout21raw/src/gds.rs :: impl<'lib> GdsExporter<'lib> :: fn export_layout
//@   ret r
//@   sub R6 /for gdselem in self\.export_element\(elem\)\?\.into_iter\(\) \{\s*elems\.push\(gdselem\);\s*\}/ => vp_extend_gds(&mut elems, self.export_element(elem)?);
//@   sub R3 /let mut elems = Vec::with_capacity/ => let mut elems: Vec<gds21::GdsElement> = Vec::with_capacity
//@   spec
//|     requires layout_pre(*cell),
//|     ensures final(self).lib == old(self).lib, r is Ok ==> final(self).ctx@ == old(self).ctx@ && layout_gds(r->Ok_0, *cell),
//@   loop 1 iter it
//|             invariant self.lib == old(self).lib, self.ctx@ == old(self).ctx@.push(ErrorContext::Impl), elems@.len() == it.index@, it.index@ <= cell.insts@.len(),
//|                 forall|i: int| 0 <= i < cell.elems@.len() ==> shape_pre((#[trigger] cell.elems@[i]).inner),
//|                 forall|i: int| 0 <= i < it.index@ ==> (#[trigger] elems@[i]) is GdsStructRef && sref_gds(elems@[i]->GdsStructRef_0, cell.insts@[i]),
//@   loop 2 iter it
//|             invariant self.lib == old(self).lib, self.ctx@ == old(self).ctx@.push(ErrorContext::Impl).push(ErrorContext::Geometry), elems@.len() >= cell.insts@.len(), it.index@ <= cell.elems@.len(),
//|                 forall|i: int| 0 <= i < cell.elems@.len() ==> shape_pre((#[trigger] cell.elems@[i]).inner),
//|                 forall|i: int| 0 <= i < cell.insts@.len() ==> (#[trigger] elems@[i]) is GdsStructRef && sref_gds(elems@[i]->GdsStructRef_0, cell.insts@[i]),
//|                 elems_gds(elems@.skip(cell.insts@.len() as int), cell.elems@.take(it.index@ as int)),
//@   before /vp_extend_gds\(&mut elems/
//|             let ghost e0 = elems@;
//@   loopend 2
//|             proof {
//|                 let n = cell.insts@.len() as int; let t1 = cell.elems@.take(it.index@ + 1); let c = gds_count(*elem);
//|                 assert(t1.drop_last() == cell.elems@.take(it.index@ as int)); assert(t1.last() == *elem);
//|                 let a = elems@.skip(n); let a0 = e0.skip(n);
//|                 assert(elems@.len() == e0.len() + c);
//|                 assert(a.take(a.len() - c) =~= a0);
//|                 assert(a.skip(a.len() - c) =~= elems@.skip(e0.len() as int));
//|                 assert forall|i: int| 0 <= i < n implies (#[trigger] elems@[i]) is GdsStructRef && sref_gds(elems@[i]->GdsStructRef_0, cell.insts@[i]) by { assert(elems@[i] == e0[i]); }
//|             }
//@   before /let mut strukt = gds21::GdsStruct::new\(&cell\.name\);/
//|         proof { assert(cell.elems@.take(cell.elems@.len() as int) == cell.elems@); }
//@   before /^        Ok\(strukt\)$/
//|         proof { assert(self.ctx@ =~= old(self).ctx@); }
//@ end
}
/// model of pushing every element of a Vec in order (`for x in v.into_iter() { w.push(x) }`, rule R6)
#[verifier::external_body]
pub fn vp_extend_gds(v: &mut Vec<gds21::GdsElement>, w: Vec<gds21::GdsElement>) ensures final(v)@ == old(v)@ + w@ { v.extend(w) }
//@ item layout21raw/src/data.rs :: struct Layout
//@ end
//@ item layout21raw/src/data.rs :: struct TextElement
//@ end

