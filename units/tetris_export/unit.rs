// Unit U8b tetris_export: layout21tetris tracks -> raw rectangles, track crossings, vias (C08).
use vstd::prelude::*;
use vstd::std_specs::cmp::*;
use core::cmp::Ordering;
verus! {
global size_of usize == 8;
//@ include units/common/float.inc.rs
//@ include units/tetris_track/track.inc.rs

//@ include units/tetris_export/export.inc.rs
proof fn canary_stack(s: ValidStack) requires s.metals@.len() == 2 ensures false {}
}
fn main() {}
