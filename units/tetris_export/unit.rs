// Unit U8b tetris_export: layout21tetris tracks -> raw rectangles, track crossings, vias (C08).
use vstd::prelude::*;
use vstd::std_specs::cmp::*;
use core::cmp::Ordering;
verus! {
global size_of usize == 8;
//@ include units/common/float.inc.rs
//@ include units/tetris_track/track.inc.rs

//@ include units/tetris_export/export.inc.rs
//@ include units/tetris_track/index.inc.rs
// ---- Placer::convert_track_layer (layout21tetris/src/placer.rs): closest track on another same-direction layer ----
/// R5: the placer reduced to the validated stack
pub struct Placer { pub stack: ValidStack }
impl Placer {
    /// model of ErrorHelper::fail: always an error
    #[verifier::external_body]
    fn fail<T, M>(&self, msg: M) -> (r: LayoutResult<T>) ensures r is Err { Err(LayoutError { }) }
//@ fn layout21tetris/src/placer.rs :: impl Placer :: fn convert_track_layer
//@   ret r
//@   spec
//|     requires forall|i: int| 0 <= i < old(self).stack.metals@.len() ==> layer_ok(#[trigger] old(self).stack.metals@[i]) && old(self).stack.metals@[i].period_data.signals@.len() <= 0x1_0000,
//|         trackref.track <= 0x100_0000,
//|         // panic-freedom minimum of track_index: the source track's centre falls on a covered offset of the target layer
//|         trackref.layer != to_layer && trackref.layer < old(self).stack.metals@.len() && to_layer < old(self).stack.metals@.len() ==> ({
//|             let c = center_spec(old(self).stack.metals@[trackref.layer as int], trackref.track); let t = old(self).stack.metals@[to_layer as int];
//|             c <= 0x1000_0000_0000 && exists|k: int| #[trigger] first_sig_after(t.period_data.signals@, trem(c, t.pitch.0 as int), k) }),
//|     ensures final(self).stack == old(self).stack,
//|         // same layer: the reference itself
//|         trackref.layer == to_layer ==> r is Ok && r->Ok_0 == *trackref,
//|         // layers of different directions (or out of range) cannot be converted
//|         trackref.layer != to_layer && (trackref.layer >= old(self).stack.metals@.len() || to_layer >= old(self).stack.metals@.len()
//|             || old(self).stack.metals@[trackref.layer as int].spec.dir != old(self).stack.metals@[to_layer as int].spec.dir) ==> r is Err,
//|         // otherwise: on the target layer, the track index of the source track's centre
//|         trackref.layer != to_layer && r is Ok ==> r->Ok_0.layer == to_layer && ({
//|             let c = center_spec(old(self).stack.metals@[trackref.layer as int], trackref.track); let t = old(self).stack.metals@[to_layer as int];
//|             first_sig_after(t.period_data.signals@, trem(c, t.pitch.0 as int), r->Ok_0.track as int - tdiv(c, t.pitch.0 as int) * (t.period_data.signals@.len() as int)) }),
//@ end
}
proof fn canary_stack(s: ValidStack) requires s.metals@.len() == 2 ensures false {}
}
fn main() {}
