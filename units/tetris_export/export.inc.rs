// shared by units tetris_export and tetris_period: stack/period/track export under contract
// =====================================================================================================
// MODELS (rule R5) and extracted data types
// =====================================================================================================
/// model of `impl From<&str> for String` on a literal
#[verifier::external_body]
pub fn vp_string(s: &'static str) -> (r: String) ensures r@ == s@ { s.to_string() }
//@ item layout21tetris/src/coords.rs :: struct Xy
//@   derive Debug, Clone, Copy
//@ end
impl<T> Xy<T> {
//@ fn layout21tetris/src/coords.rs :: impl<T> Xy<T> :: fn new
//@   ret r
//@   spec
//|     ensures r.x == x, r.y == y,
//@ end
}
impl<T: Clone> Xy<T> {
//@ fn layout21tetris/src/coords.rs :: impl<T: Clone> Xy<T> :: fn transpose
//@   ret r
//@   spec
//|     ensures cloned(self.x, r.y), cloned(self.y, r.x),
//@ end
}
impl<T: HasUnits> vstd::std_specs::core::IndexSpecImpl<Dir> for Xy<T> { open spec fn index_req(&self, index: &Dir) -> bool { true } }
impl<T: HasUnits> std::ops::Index<Dir> for Xy<T> {
    type Output = T;
//@ fn layout21tetris/src/coords.rs :: impl<T: HasUnits> std::ops::Index<Dir> for Xy<T> :: fn index
//@   ret r
//@   spec
//|     ensures *r == (match dir { Dir::Horiz => self.x, Dir::Vert => self.y }),
//@ end
}
//@ item layout21tetris/src/stack.rs :: struct PrimitiveLayer
//@ end
//@ item layout21tetris/src/stack.rs :: enum ViaTarget
//@ end
//@ item layout21tetris/src/stack.rs :: struct ViaLayer
//@   sub R5 /raw::LayerKey/ => LayerKey
//@ end
//@ item layout21tetris/src/validate.rs :: struct ValidStack
//@   pubfields
//@   sub R5 /\/\/\/ Measurement units\s*pub units: Units,/ => 
//@   sub R5 /\/\/\/ \[raw::Layer\] Mappings\s*pub rawlayers: Option<Ptr<raw::Layers>>,/ => 
//@   sub R5 /\/\/\/ Layer used for cell outlines\/ boundaries\s*pub boundary_layer: Option<raw::LayerKey>,/ => 
//@ end
// layout21raw geometry and elements
//@ item layout21raw/src/geom.rs :: struct Point
//@   derive Debug, Copy, Clone
//@ end
impl Point {
//@ fn layout21raw/src/geom.rs :: impl Point :: fn new
//@   ret r
//@   spec
//|     ensures r.x == x, r.y == y,
//@ end
}
//@ item layout21raw/src/geom.rs :: struct Rect
//@ end
//@ item layout21raw/src/geom.rs :: struct Polygon
//@ end
//@ item layout21raw/src/geom.rs :: struct Path
//@ end
//@ item layout21raw/src/geom.rs :: enum Shape
//@ end
//@ item layout21raw/src/data.rs :: enum LayerPurpose
//@ end
//@ item layout21raw/src/data.rs :: struct Element
//@ end
pub mod raw { pub use super::{Point, Rect, Polygon, Path, Shape, LayerPurpose, Element, LayerKey}; }
pub mod validate { pub use super::{ValidMetalLayer, ValidStack, ValidAssign}; }
/// model of layout21utils::Unwrapper (Some(t)/Ok(t) => Ok(t); None/Err(_) => the helper's error)
pub trait Unwrapper: Sized {
    type Ok;
    spec fn some_spec(&self) -> Option<Self::Ok>;
    fn unwrapper<M>(self, helper: &RawExporter, msg: M) -> (r: Result<Self::Ok, LayoutError>)
        ensures self.some_spec() is Some ==> r == Ok::<Self::Ok, LayoutError>(self.some_spec()->0), self.some_spec() is None ==> r is Err;
}
impl<T> Unwrapper for Option<T> {
    type Ok = T;
    open spec fn some_spec(&self) -> Option<T> { *self }
    #[verifier::external_body]
    fn unwrapper<M>(self, helper: &RawExporter, msg: M) -> (r: Result<T, LayoutError>) { match self { Some(t) => Ok(t), None => Err(LayoutError { }) } }
}
impl<T, E> Unwrapper for Result<T, E> {
    type Ok = T;
    open spec fn some_spec(&self) -> Option<T> { match *self { Ok(t) => Some(t), Err(_) => None } }
    #[verifier::external_body]
    fn unwrapper<M>(self, helper: &RawExporter, msg: M) -> (r: Result<T, LayoutError>) { match self { Ok(t) => Ok(t), Err(_) => Err(LayoutError { }) } }
}
//@ item layout21tetris/src/coords.rs :: struct PrimPitches
//@   derive Debug, Clone, Copy
//@ end
//@ item layout21tetris/src/coords.rs :: struct LayerPitches
//@   derive Debug, Clone, Copy
//@ end
//@ item layout21tetris/src/coords.rs :: enum UnitSpeced
//@   derive Debug, Clone, Copy
//@ end
//@ item layout21tetris/src/validate.rs :: struct ValidAssign
//@ end
/// R5: RawExporter reduced to the validated stack (the library, the cell map and the error context are not read by the functions below)
pub struct RawExporter { pub stack: ValidStack }

impl ValidStack {
//@ fn layout21tetris/src/validate.rs :: impl ValidStack :: fn metal
//@   ret r
//@   spec
//|     ensures r is Ok <==> idx < self.metals@.len(), r is Ok ==> *r->Ok_0 == self.metals@[idx as int],
//@ end
}
pub open spec fn xy_dir(xy: Xy<DbUnits>, dir: Dir) -> DbUnits { match dir { Dir::Horiz => xy.x, Dir::Vert => xy.y } }
/// via layer `j` is the first one whose bottom target is metal `idx`
pub open spec fn first_via(vias: Seq<ViaLayer>, idx: usize, j: int) -> bool {
    0 <= j < vias.len() && vias[j].bot == ViaTarget::Metal(idx) && forall|i: int| 0 <= i < j ==> (#[trigger] vias[i]).bot != ViaTarget::Metal(idx)
}
impl ValidStack {
//@ fn layout21tetris/src/validate.rs :: impl ValidStack :: fn via_from
//@   ret r
//@   spec
//|     ensures r is Ok ==> exists|j: int| #[trigger] first_via(self.vias@, idx, j) && *r->Ok_0 == self.vias@[j],
//|         r is Err ==> forall|i: int| 0 <= i < self.vias@.len() ==> (#[trigger] self.vias@[i]).bot != ViaTarget::Metal(idx),
//@   loop 1 iter it
//|             invariant forall|i: int| 0 <= i < it.index@ ==> (#[trigger] self.vias@[i]).bot != ViaTarget::Metal(idx),
//@   before /return Ok\(via_layer\);/
//|                     proof { assert(first_via(self.vias@, idx, it.index@ as int)); }
//@ end
}
impl RailKind {
//@ fn layout21tetris/src/tracks.rs :: impl RailKind :: fn to_string
//@   ret r
//@   sub R5 /"(\w+)"\.into\(\)/ => vp_string("\1")
//@   spec
//|     ensures r@ == (match self { RailKind::Pwr => "VDD"@, RailKind::Gnd => "VSS"@ }),
//@ end
}

// =====================================================================================================
// SPEC (C08): what a track exports to
// =====================================================================================================
pub open spec fn stack_ok(s: ValidStack) -> bool {
    forall|i: int| 0 <= i < s.metals@.len() ==> layer_ok(#[trigger] s.metals@[i]) && s.metals@[i].raw is Some
}
/// the pieces of a track that become metal: wires and rails, in order (cuts and blockages leave gaps)
pub open spec fn kept<'a>(segs: Seq<TrackSegment<'a>>) -> Seq<TrackSegment<'a>> decreases segs.len() {
    if segs.len() == 0 { Seq::empty() } else if segs.last().tp is Wire || segs.last().tp is Rail { kept(segs.drop_last()).push(segs.last()) } else { kept(segs.drop_last()) }
}
/// the net a piece carries: a rail its rail name, a wire the net assigned to it (if any)
pub open spec fn seg_net(seg: TrackSegment) -> Option<Seq<char>> {
    match seg.tp {
        TrackSegmentType::Rail(rk) => Some(match rk { RailKind::Pwr => "VDD"@, RailKind::Gnd => "VSS"@ }),
        TrackSegmentType::Wire { src } => match src { Some(a) => Some(a.net@), None => None },
        _ => None,
    }
}
/// element `e` is exactly the rectangle of piece `seg` of a track with data `d`: along the track from seg.start to seg.stop,
/// across it from the track's start to start + width; drawing purpose, the layer's raw key, the piece's net
pub open spec fn elem_of(e: Element, seg: TrackSegment, d: TrackData, key: LayerKey) -> bool {
    &&& e.layer == key &&& e.purpose == LayerPurpose::Drawing
    &&& match (e.net, seg_net(seg)) { (Some(a), Some(b)) => a@ == b, (None, None) => true, _ => false }
    &&& e.inner == (match d.dir {
        Dir::Horiz => Shape::Rect(Rect { p0: Point { x: seg.start.0, y: d.start.0 }, p1: Point { x: seg.stop.0, y: (d.start.0 + d.width.0) as isize } }),
        Dir::Vert => Shape::Rect(Rect { p0: Point { x: d.start.0, y: seg.start.0 }, p1: Point { x: (d.start.0 + d.width.0) as isize, y: seg.stop.0 } }),
    })
}
proof fn lemma_kept_step<'a>(segs: Seq<TrackSegment<'a>>, k: int)
    requires 0 <= k < segs.len(),
    ensures kept(segs.take(k + 1)) == (if segs[k].tp is Wire || segs[k].tp is Rail { kept(segs.take(k)).push(segs[k]) } else { kept(segs.take(k)) }),
{ assert(segs.take(k + 1).drop_last() == segs.take(k)); }

/// index (within one period) of the signal track an assignment touches on its top / bottom layer
pub open spec fn assn_track(assn: ValidAssign, top: bool, n: int) -> int { (if top { assn.top.track } else { assn.bot.track }) as int % n }
pub open spec fn cross_in_stack(s: ValidStack, at: TrackCross) -> bool { at.track.layer < s.metals@.len() && at.cross.layer < s.metals@.len() }
/// the (x, y) of a track crossing: a track on a vertical layer has a fixed x (its centre) and the crossing track gives y; transposed on a horizontal layer
pub open spec fn cross_xy(s: ValidStack, at: TrackCross) -> (int, int) {
    let tl = s.metals@[at.track.layer as int]; let cl = s.metals@[at.cross.layer as int];
    let a = center_spec(tl, at.track.track); let b = center_spec(cl, at.cross.track);
    if tl.spec.dir == Dir::Horiz { (b, a) } else { (a, b) }
}
/// the crossing's coordinate along direction `dir`
pub open spec fn cross_along(s: ValidStack, at: TrackCross, dir: Dir) -> int { match dir { Dir::Horiz => cross_xy(s, at).0, Dir::Vert => cross_xy(s, at).1 } }
/// `f` is `o` with net `a` set on the first piece containing `at` if that piece is a wire; unchanged if it is a blockage
pub open spec fn net_set<'a>(o: Seq<TrackSegment<'a>>, f: Seq<TrackSegment<'a>>, at: DbUnits, a: &'a Assign) -> bool {
    exists|k: int| #[trigger] first_hit(o, at, k) && (
           (o[k].tp is Wire && f == o.update(k, TrackSegment { tp: TrackSegmentType::Wire { src: Some(a) }, start: o[k].start, stop: o[k].stop }))
        || (o[k].tp is Blockage && f == o))
}
impl<'lib> RawExporter {
//@ fn layout21tetris/src/conv/raw.rs :: impl<'lib> RawExporter :: fn db_units
//@   ret r
//@   sub R5 /pt: impl Into<UnitSpeced>/ => pt: UnitSpeced
//@   sub R5 /let pt: UnitSpeced = pt\.into\(\);/ => 
//@   sub R5 /\(p\.num \* pitch\.raw\(\)\)\.into\(\)/ => DbUnits(p.num * pitch.raw())
//@   spec
//|     requires !(pt is LayerPitches), pt is PrimPitches ==> isize::MIN <= pt->PrimPitches_0.num * xy_dir(self.stack.prim.pitches, pt->PrimPitches_0.dir).0 <= isize::MAX,
//|     ensures r.0 == (match pt { UnitSpeced::DbUnits(u) => u.0 as int, UnitSpeced::PrimPitches(p) => p.num * xy_dir(self.stack.prim.pitches, p.dir).0, _ => 0 }),
//@ end
//@ fn layout21tetris/src/conv/raw.rs :: impl<'lib> RawExporter :: fn assign_track
//@   ret r
//@   spec
//|     requires stack_ok(self.stack), assn.src.at.track.track <= 0x1000_0000, assn.src.at.cross.track <= 0x1000_0000, old(layer_period).signals@.len() > 0,
//|         forall|t: int, i: int| 0 <= t < old(layer_period).signals@.len() && 0 <= i < old(layer_period).signals@[t].segments@.len() ==> !((#[trigger] old(layer_period).signals@[t].segments@[i]).tp is Rail),
//|     ensures final(layer_period).rails@ == old(layer_period).rails@, final(layer_period).index == old(layer_period).index,
//|         final(layer_period).signals@.len() == old(layer_period).signals@.len(),
//|         ({
//|             let tr = assn_track(*assn, top, old(layer_period).signals@.len() as int);
//|             // only the assigned track (modulo the period) is touched
//|             (forall|t: int| 0 <= t < old(layer_period).signals@.len() && t != tr ==> #[trigger] final(layer_period).signals@[t] == old(layer_period).signals@[t])
//|             && final(layer_period).signals@[tr].data == old(layer_period).signals@[tr].data
//|             && (r is Ok ==> cross_in_stack(self.stack, assn.src.at)
//|                 // the net lands on the piece at the crossing's coordinate along this layer's direction
//|                 && net_set(old(layer_period).signals@[tr].segments@, final(layer_period).signals@[tr].segments@, DbUnits(cross_along(self.stack, assn.src.at, layer.spec.dir) as isize), &assn.src))
//|         }),
//@ end
//@ fn layout21tetris/src/conv/raw.rs :: impl<'lib> RawExporter :: fn export_point
//@   ret r
//@   spec
//|     ensures r.x == x.0, r.y == y.0,
//@ end
//@ fn layout21tetris/src/conv/raw.rs :: impl<'lib> RawExporter :: fn track_span
//@   ret r
//@   spec
//|     requires stack_ok(self.stack), track_index <= 0x1000_0000,
//|     ensures r is Ok <==> layer_index < self.stack.metals@.len(),
//|         r is Ok ==> r->Ok_0.0.0 == span_start_spec(self.stack.metals@[layer_index as int], track_index),
//@ end
//@ fn layout21tetris/src/conv/raw.rs :: impl<'lib> RawExporter :: fn track_cross_xy
//@   ret r
//@   spec
//|     requires stack_ok(self.stack), i.track.track <= 0x1000_0000, i.cross.track <= 0x1000_0000,
//|     ensures r is Ok <==> cross_in_stack(self.stack, *i),
//|         r is Ok ==> r->Ok_0.x.0 == cross_xy(self.stack, *i).0 && r->Ok_0.y.0 == cross_xy(self.stack, *i).1,
//@ end
//@ fn layout21tetris/src/conv/raw.rs :: impl<'lib> RawExporter :: fn export_track
//@   ret r
//@   sub R6 /for seg in &track\.segments \{/ => let mut vp_i: usize = 0; while vp_i < track.segments.len() { let seg = &track.segments[vp_i]; vp_i += 1;
//@   sub R6 /src\.map\(\|src\| src\.net\.clone\(\)\)/ => (match src { Some(src) => Some(src.net.clone()), None => None })
//@   spec
//|     requires stack_ok(self.stack), isize::MIN <= track.data.start.0 + track.data.width.0 <= isize::MAX,
//|     ensures layer.index < self.stack.metals@.len() ==> r is Ok,
//|         r is Ok ==> r->Ok_0@.len() == kept(track.segments@).len(),
//|         r is Ok && layer.index < self.stack.metals@.len() ==> ({
//|             let key = self.stack.metals@[layer.index as int].raw->0; let k = kept(track.segments@);
//|             forall|j: int| 0 <= j < k.len() ==> elem_of(#[trigger] r->Ok_0@[j], k[j], track.data, key)
//|         }),
//@   loop 1
//|             invariant stack_ok(self.stack), isize::MIN <= track.data.start.0 + track.data.width.0 <= isize::MAX, vp_i <= track.segments@.len(),
//|                 layer.index < self.stack.metals@.len() || elems@.len() == 0,
//|                 elems@.len() == kept(track.segments@.take(vp_i as int)).len(),
//|                 layer.index < self.stack.metals@.len() ==> forall|j: int| 0 <= j < elems@.len() ==>
//|                     elem_of(#[trigger] elems@[j], kept(track.segments@.take(vp_i as int))[j], track.data, self.stack.metals@[layer.index as int].raw->0),
//|             decreases track.segments@.len() - vp_i,
//@   before /use TrackSegmentType::\*;/
//|             proof { lemma_kept_step(track.segments@, vp_i as int - 1); }
//@   before /^        Ok\(elems\)$/
//|         proof { assert(track.segments@.take(track.segments@.len() as int) == track.segments@); }
//@ end
}

// =====================================================================================================
// SPEC (C08): a metal layer's period — flattened entries, pitch, one period of tracks
// =====================================================================================================
impl Clone for TrackEntry { #[verifier::external_body] fn clone(&self) -> (r: Self) ensures r == *self { unimplemented!() } }
pub open spec fn rep(s: Seq<TrackEntry>, n: nat) -> Seq<TrackEntry> decreases n { if n == 0 { Seq::empty() } else { rep(s, (n - 1) as nat) + s } }
/// the layer's entries with repeats written out, in order
pub open spec fn flat_entries(specs: Seq<TrackSpec>) -> Seq<TrackEntry> decreases specs.len() {
    if specs.len() == 0 { Seq::empty() } else {
        flat_entries(specs.drop_last()) + (match specs.last() { TrackSpec::Entry(e) => seq![e], TrackSpec::Repeat(p) => rep(p.entries@, p.nrep as nat) })
    }
}
pub open spec fn width_sum(es: Seq<TrackEntry>) -> int decreases es.len() { if es.len() == 0 { 0 } else { width_sum(es.drop_last()) + es.last().width.0 } }

/// every partial sum of the widths is a machine integer (the derived `Sum` adds left to right)
pub open spec fn sums_fit(es: Seq<TrackEntry>, off: int) -> bool { forall|k: int| 0 <= k <= es.len() ==> isize::MIN <= off + #[trigger] width_sum(es.take(k)) <= isize::MAX }
/// R6: `.iter().map(|e| e.width).sum::<DbUnits>()` — the left-to-right sum the derived `Sum` performs
pub fn vp_sum_widths(es: &Vec<TrackEntry>) -> (r: DbUnits)
    requires sums_fit(es@, 0),
    ensures r.0 == width_sum(es@),
{
    let mut acc = DbUnits(0);
    let mut k: usize = 0;
    while k < es.len()
        invariant k <= es.len(), acc.0 == width_sum(es@.take(k as int)), sums_fit(es@, 0),
        decreases es.len() - k,
    {
        proof { assert(es@.take(k + 1).drop_last() == es@.take(k as int)); assert(isize::MIN <= 0 + width_sum(es@.take(k + 1)) <= isize::MAX); }
        acc = acc + es[k].width;
        k += 1;
    }
    proof { assert(es@.take(es@.len() as int) == es@); }
    acc
}
/// one period's tracks of one kind (signal / rail): for each entry of that kind, in order, a track starting at the running offset
pub open spec fn tracks_of(es: Seq<TrackEntry>, off: int, dir: Dir, sig: bool) -> Seq<TrackData> decreases es.len() {
    if es.len() == 0 { Seq::empty() } else {
        let h = tracks_of(es.drop_last(), off, dir, sig); let e = es.last();
        if (sig && e.ttype is Signal) || (!sig && e.ttype is Rail) {
            h.push(TrackData { ttype: e.ttype, index: h.len() as usize, dir, start: DbUnits((off + width_sum(es.drop_last())) as isize), width: e.width })
        } else { h }
    }
}
impl Default for LayerPeriodData { fn default() -> (r: Self) ensures r.signals@.len() == 0, r.rails@.len() == 0 { LayerPeriodData { signals: Vec::new(), rails: Vec::new() } } }

// model of #[derive(PartialEq)] on the field-less enum FlipMode
impl PartialEqSpecImpl for FlipMode {
    open spec fn obeys_eq_spec() -> bool { true }
    open spec fn eq_spec(&self, other: &Self) -> bool { *self == *other }
}
impl PartialEq for FlipMode { fn eq(&self, other: &Self) -> bool { match (self, other) { (FlipMode::EveryOther, FlipMode::EveryOther) => true, (FlipMode::None, FlipMode::None) => true, _ => false } } }
//@ item layout21tetris/src/stack.rs :: struct LayerPeriod
//@ end
impl<'lib> Default for LayerPeriod<'lib> { fn default() -> (r: Self) ensures r.index == 0, r.signals@.len() == 0, r.rails@.len() == 0 { LayerPeriod { index: 0, signals: Vec::new(), rails: Vec::new() } } }
/// R6: `if c { Box::new(v.iter().rev()) } else { Box::new(v.iter()) }` as a boxed iterator — the same elements, reversed iff `c`
pub fn vp_maybe_rev(v: &Vec<TrackEntry>, c: bool) -> (r: Vec<TrackEntry>)
    ensures r@ == (if c { v@.reverse() } else { v@ }),
{
    let mut out: Vec<TrackEntry> = Vec::new();
    let n = v.len();
    let mut k: usize = 0;
    while k < n
        invariant k <= n, n == v@.len(), out@.len() == k, forall|j: int| 0 <= j < k ==> out@[j] == (if c { v@[n - 1 - j] } else { v@[j] }),
        decreases n - k,
    {
        let e = if c { v[n - 1 - k].clone() } else { v[k].clone() };
        out.push(e);
        k += 1;
    }
    proof { if c { assert(out@ =~= v@.reverse()); } else { assert(out@ =~= v@); } }
    out
}
/// the entries of period number `index`, in the order they are laid out: reversed in every other period when the layer flips
pub open spec fn period_entries(l: MetalLayer, index: usize) -> Seq<TrackEntry> {
    let e = flat_entries(l.entries@);
    if l.flip == FlipMode::EveryOther && index % 2 == 1 { e.reverse() } else { e }
}
/// where period number `index` starts: offset + index * pitch, pitch = sum of the widths - overlap
pub open spec fn period_off(l: MetalLayer, index: usize) -> int { l.offset.0 + (width_sum(flat_entries(l.entries@)) - l.overlap.0) * index }
/// `ts` is the period's track list of one kind: data as in tracks_of, and exactly one piece from 0 to `stop` — the rail of the entry's kind / an unassigned wire
pub open spec fn ptracks_ok<'a>(ts: Seq<Track<'a>>, es: Seq<TrackEntry>, off: int, dir: Dir, stop: DbUnits, sig: bool) -> bool {
    let d = tracks_of(es, off, dir, sig);
    ts.len() == d.len() && forall|i: int| 0 <= i < d.len() ==> (#[trigger] ts[i]).data == d[i]
        && ts[i].segments@ == seq![TrackSegment { tp: (if sig { TrackSegmentType::Wire { src: None } } else { TrackSegmentType::Rail(d[i].ttype->Rail_0) }), start: DbUnits(0), stop }]
}
impl<'lib> Track<'lib> {
//@ fn layout21tetris/src/tracks.rs :: impl<'lib> Track<'lib> :: fn validate
//@   ret r
//@   sub R5 /LayoutError::from\("Negative Track Width"\)/ => LayoutError { }
//@   spec
//|     ensures r is Ok <==> self.data.width.0 >= 0, r is Ok ==> r->Ok_0 == self,
//@ end
}

impl MetalLayer {
//@ fn layout21tetris/src/stack.rs :: impl MetalLayer :: fn to_layer_period
//@   ret r
//@   sub R5 /stop: impl Into<DbUnits>,/ => stop: DbUnits,
//@   sub R5 /let stop = stop\.into\(\);/ => 
//@   sub R5 /0\.into\(\)/ => DbUnits(0)
//@   sub R6 /let iterator: Box<dyn Iterator<Item = _>> =\s*if (.*?) \{\s*Box::new\(entries\.iter\(\)\.rev\(\)\)\s*\} else \{\s*Box::new\(entries\.iter\(\)\)\s*\};/ => let vp_seq = vp_maybe_rev(&entries, \1);
//@   sub R6 /for e in iterator \{/ => for e in vp_seq.iter() {
//@   sub R10 /cursor \+= d;/ => vp_add_assign(&mut cursor, d);
//@   spec
//|     requires sums_fit(flat_entries(self.entries@), 0), isize::MIN <= width_sum(flat_entries(self.entries@)) - self.overlap.0 <= isize::MAX,
//|         index <= isize::MAX, isize::MIN <= index * (width_sum(flat_entries(self.entries@)) - self.overlap.0) <= isize::MAX,
//|         sums_fit(period_entries(*self, index), period_off(*self, index)),
//|     ensures
//|         (forall|k: int| 0 <= k < flat_entries(self.entries@).len() ==> (#[trigger] flat_entries(self.entries@)[k]).width.0 >= 0) ==> r is Ok,
//|         r is Ok ==> r->Ok_0.index == index
//|             && ptracks_ok(r->Ok_0.signals@, period_entries(*self, index), period_off(*self, index), self.dir, stop, true)
//|             && ptracks_ok(r->Ok_0.rails@, period_entries(*self, index), period_off(*self, index), self.dir, stop, false),
//@   loop 1 iter it
//|             invariant vp_seq@ == period_entries(*self, index), it.index@ <= vp_seq@.len(), sums_fit(vp_seq@, period_off(*self, index)),
//|                 cursor.0 == period_off(*self, index) + width_sum(vp_seq@.take(it.index@ as int)), period.index == index,
//|                 ptracks_ok(period.signals@, vp_seq@.take(it.index@ as int), period_off(*self, index), self.dir, stop, true),
//|                 ptracks_ok(period.rails@, vp_seq@.take(it.index@ as int), period_off(*self, index), self.dir, stop, false),
//@   before /let mut cursor = self\.offset \+ \(self\.pitch\(\) \* index\);/
//|         proof {
//|             let p = width_sum(flat_entries(self.entries@)) - self.overlap.0;
//|             assert(index * p == p * index) by (nonlinear_arith);
//|             assert(period_entries(*self, index).take(0) =~= Seq::<TrackEntry>::empty());
//|             assert(isize::MIN <= period_off(*self, index) + width_sum(period_entries(*self, index).take(0)) <= isize::MAX);
//|         }
//@   before /let d = e\.width;/
//|             let ghost s0 = period.signals@; let ghost r0 = period.rails@;
//|             proof { assert(vp_seq@.take(it.index@ + 1).drop_last() == vp_seq@.take(it.index@ as int)); assert(isize::MIN <= period_off(*self, index) + width_sum(vp_seq@.take(it.index@ + 1)) <= isize::MAX); }
//@   loopend 1
//|             proof {
//|                 let a = vp_seq@.take(it.index@ as int); let b = vp_seq@.take(it.index@ + 1); let off = period_off(*self, index);
//|                 assert(b.last() == *e);
//|                 if e.ttype is Signal {
//|                     let da = tracks_of(a, off, self.dir, true); let db = tracks_of(b, off, self.dir, true);
//|                     assert(period.signals@ == s0.push(period.signals@.last())); assert(period.rails@ == r0);
//|                     assert(db == da.push(TrackData { ttype: e.ttype, index: da.len() as usize, dir: self.dir, start: DbUnits((off + width_sum(a)) as isize), width: e.width }));
//|                     assert(period.signals@.last().data == db[da.len() as int]);
//|                     assert(period.signals@.last().segments@ =~= seq![TrackSegment { tp: TrackSegmentType::Wire { src: None }, start: DbUnits(0), stop }]);
//|                     assert(tracks_of(b, off, self.dir, false) == tracks_of(a, off, self.dir, false));
//|                     assert(ptracks_ok(period.signals@, b, off, self.dir, stop, true));
//|                 }
//|                 else if e.ttype is Rail {
//|                     let da = tracks_of(a, off, self.dir, false); let db = tracks_of(b, off, self.dir, false);
//|                     assert(period.rails@ == r0.push(period.rails@.last())); assert(period.signals@ == s0);
//|                     assert(db == da.push(TrackData { ttype: e.ttype, index: da.len() as usize, dir: self.dir, start: DbUnits((off + width_sum(a)) as isize), width: e.width }));
//|                     assert(period.rails@.last().data == db[da.len() as int]);
//|                     assert(period.rails@.last().segments@ =~= seq![TrackSegment { tp: TrackSegmentType::Rail(e.ttype->Rail_0), start: DbUnits(0), stop }]);
//|                     assert(tracks_of(b, off, self.dir, true) == tracks_of(a, off, self.dir, true));
//|                     assert(ptracks_ok(period.rails@, b, off, self.dir, stop, false));
//|                 } else {
//|                     assert(period.rails@ == r0 && period.signals@ == s0);
//|                     assert(tracks_of(b, off, self.dir, true) == tracks_of(a, off, self.dir, true));
//|                     assert(tracks_of(b, off, self.dir, false) == tracks_of(a, off, self.dir, false));
//|                 }
//|             }
//@   before /^        Ok\(period\)$/
//|         proof { assert(vp_seq@.take(vp_seq@.len() as int) == vp_seq@); }
//@ end
//@ fn layout21tetris/src/stack.rs :: impl MetalLayer :: fn pitch
//@   ret r
//@   sub R6 /self\.entries\(\)\.iter\(\)\.map\(\|e\| e\.width\)\.sum::<DbUnits>\(\)/ => vp_sum_widths(&self.entries())
//@   spec
//|     requires sums_fit(flat_entries(self.entries@), 0), isize::MIN <= width_sum(flat_entries(self.entries@)) - self.overlap.0 <= isize::MAX,
//|     ensures r.0 == width_sum(flat_entries(self.entries@)) - self.overlap.0,
//@ end
//@ fn layout21tetris/src/stack.rs :: impl MetalLayer :: fn to_layer_period_data
//@   ret r
//@   sub R3 /for e in &self\.entries\(\) \{/ => let vp_es = self.entries(); for e in vp_es.iter() {
//@   sub R10 /cursor \+= d;/ => vp_add_assign(&mut cursor, d);
//@   spec
//|     requires sums_fit(flat_entries(self.entries@), self.offset.0 as int),
//|     ensures r is Ok,
//|         r->Ok_0.signals@ == tracks_of(flat_entries(self.entries@), self.offset.0 as int, self.dir, true),
//|         r->Ok_0.rails@ == tracks_of(flat_entries(self.entries@), self.offset.0 as int, self.dir, false),
//@   loop 1 iter it
//|             invariant vp_es@ == flat_entries(self.entries@), it.index@ <= vp_es@.len(), sums_fit(vp_es@, self.offset.0 as int),
//|                 cursor.0 == self.offset.0 + width_sum(vp_es@.take(it.index@ as int)),
//|                 period.signals@ == tracks_of(vp_es@.take(it.index@ as int), self.offset.0 as int, self.dir, true),
//|                 period.rails@ == tracks_of(vp_es@.take(it.index@ as int), self.offset.0 as int, self.dir, false),
//@   before /let d = e\.width;/
//|             proof { assert(vp_es@.take(it.index@ + 1).drop_last() == vp_es@.take(it.index@ as int)); assert(isize::MIN <= self.offset.0 + width_sum(vp_es@.take(it.index@ + 1)) <= isize::MAX); }
//@   before /^        Ok\(period\)$/
//|         proof { assert(vp_es@.take(vp_es@.len() as int) == vp_es@); }
//@ end
//@ fn layout21tetris/src/stack.rs :: impl MetalLayer :: fn entries
//@   ret r
//@   spec
//|     ensures r@ == flat_entries(self.entries@),
//@   loop 1 iter it
//|             invariant v@ == flat_entries(self.entries@.take(it.index@ as int)), it.index@ <= self.entries@.len(),
//@   loop 2 iter it2
//|                         invariant v@ == flat_entries(self.entries@.take(it.index@ as int)) + rep(p.entries@, it2.index@ as nat), it2.index@ <= p.nrep,
//|                             TrackSpec::Repeat(*p) == self.entries@[it.index@ as int], it.index@ < self.entries@.len(),
//@   loop 3 iter it3
//|                             invariant v@ == flat_entries(self.entries@.take(it.index@ as int)) + rep(p.entries@, it2.index@ as nat) + p.entries@.take(it3.index@ as int), it3.index@ <= p.entries@.len(),
//|                                 TrackSpec::Repeat(*p) == self.entries@[it.index@ as int], it.index@ < self.entries@.len(), it2.index@ < p.nrep,
//@   loopend 3
//|                             proof { assert(p.entries@.take(it3.index@ + 1) == p.entries@.take(it3.index@ as int).push(*ee)); }
//@   loopend 2
//|                         proof { assert(p.entries@.take(p.entries@.len() as int) == p.entries@); assert(rep(p.entries@, (it2.index@ + 1) as nat) == rep(p.entries@, it2.index@ as nat) + p.entries@); }
//@   loopend 1
//|             proof { assert(self.entries@.take(it.index@ + 1).drop_last() == self.entries@.take(it.index@ as int)); }
//@   before /^        v$/
//|         proof { assert(self.entries@.take(self.entries@.len() as int) == self.entries@); }
//@ end
}

