// shared: Rust's float arithmetic never panics.  This Verus release gives f64 `+ - * / %` an unsatisfiable operator precondition
// (no float specs), which would turn any float arithmetic in extracted code into a spurious "precondition not satisfied".
// These axioms state the true fact (the operators are total); the *results* stay unspecified.
mod vp_float_total {
use vstd::prelude::*;
use vstd::std_specs::ops::*;
pub broadcast axiom fn ax_f64_add(a: f64, b: f64) ensures #[trigger] a.add_req(b);
pub broadcast axiom fn ax_f64_sub(a: f64, b: f64) ensures #[trigger] a.sub_req(b);
pub broadcast axiom fn ax_f64_mul(a: f64, b: f64) ensures #[trigger] a.mul_req(b);
pub broadcast axiom fn ax_f64_div(a: f64, b: f64) ensures #[trigger] a.div_req(b);
pub broadcast axiom fn ax_f64_rem(a: f64, b: f64) ensures #[trigger] a.rem_req(b);
}
broadcast use {vp_float_total::ax_f64_add, vp_float_total::ax_f64_sub, vp_float_total::ax_f64_mul, vp_float_total::ax_f64_div, vp_float_total::ax_f64_rem};
