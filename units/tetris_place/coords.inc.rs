// shared by units tetris_place and tetris_proto: error/Ptr models, Dir, PrimPitches, Xy, BoundBox, Outline under contract
// =====================================================================================================
// MODELS of external code (rule R5)
// =====================================================================================================
#[derive(Debug)]
pub struct LayoutError { }
pub type LayoutResult<T> = Result<T, LayoutError>;
impl LayoutError {
    /// model of LayoutError::fail: always an error
    #[verifier::external_body]
    pub fn fail<T, M>(msg: M) -> (r: Result<T, LayoutError>) ensures r is Err { Err(LayoutError { }) }
}
/// model of layout21utils::Ptr<T> = Arc<RwLock<T>>: `read()` yields the pointee (or a lock-poison error); uncontended
pub struct Ptr<T> { pub v: Box<T> }
impl<T> Ptr<T> {
    #[verifier::external_body]
    pub fn read(&self) -> (r: LayoutResult<&T>) ensures r is Ok ==> *r->Ok_0 == *self.v { Ok(&*self.v) }
}
// model of #[derive(PartialEq)] on the two field-less enums and on PrimPitches (Verus gives derived comparisons no meaning)
//@ item layout21raw/src/geom.rs :: enum Dir
//@   derive Debug, Clone, Copy
//@ end
impl vstd::std_specs::cmp::PartialEqSpecImpl for Dir {
    open spec fn obeys_eq_spec() -> bool { true }
    open spec fn eq_spec(&self, other: &Self) -> bool { *self == *other }
}
impl PartialEq for Dir { fn eq(&self, other: &Self) -> bool { match (self, other) { (Dir::Horiz, Dir::Horiz) => true, (Dir::Vert, Dir::Vert) => true, _ => false } } }
impl Dir {
//@ fn layout21raw/src/geom.rs :: impl Dir :: fn other
//@   ret r
//@   spec
//|     ensures r == (match self { Dir::Horiz => Dir::Vert, Dir::Vert => Dir::Horiz }),
//@ end
}

// =====================================================================================================
// layout21tetris coordinates, boxes, placements (extracted)
// =====================================================================================================
//@ item layout21tetris/src/coords.rs :: struct PrimPitches
//@   derive Debug, Clone, Copy
//@ end
//@ item layout21tetris/src/coords.rs :: struct DbUnits
//@   derive Debug, Clone, Copy
//@ end
//@ item layout21tetris/src/coords.rs :: struct LayerPitches
//@   derive Debug, Clone, Copy
//@ end
//@ item layout21tetris/src/coords.rs :: enum UnitSpeced
//@   derive Debug, Clone, Copy
//@ end
pub trait HasUnits: Clone + Copy {
    /// R8 ghost member: the raw number
    spec fn raw_spec(&self) -> Int;
//@ fn layout21tetris/src/coords.rs :: trait HasUnits :: fn raw
//@   ret r
//@   spec
//|     ensures r == self.raw_spec()
//@ end
}
impl HasUnits for PrimPitches {
    open spec fn raw_spec(&self) -> Int { self.num }
//@ fn layout21tetris/src/coords.rs :: impl HasUnits for PrimPitches :: fn raw
//@ end
}
impl PrimPitches {
//@ fn layout21tetris/src/coords.rs :: impl PrimPitches :: fn new
//@   ret r
//@   spec
//|     ensures r.dir == dir, r.num == num,
//@ end
//@ fn layout21tetris/src/coords.rs :: impl PrimPitches :: fn negate
//@   ret r
//@   spec
//|     requires self.num > isize::MIN,
//|     ensures r.dir == self.dir, r.num == -self.num,
//@ end
}
// R8: operator contracts are given through vstd's AddSpecImpl / SubSpecImpl (the trait's own `requires` cannot be edited)
impl vstd::std_specs::ops::AddSpecImpl<PrimPitches> for PrimPitches {
    open spec fn obeys_add_spec() -> bool { true }
    // adding pitches of different directions panics in the real code: same direction is a precondition
    open spec fn add_req(self, rhs: PrimPitches) -> bool { self.dir == rhs.dir && isize::MIN <= self.num + rhs.num <= isize::MAX }
    open spec fn add_spec(self, rhs: PrimPitches) -> PrimPitches { PrimPitches { dir: self.dir, num: (self.num + rhs.num) as isize } }
}
impl std::ops::Add<PrimPitches> for PrimPitches {
    type Output = PrimPitches;
//@ fn layout21tetris/src/coords.rs :: impl std::ops::Add<PrimPitches> for PrimPitches :: fn add
//@ end
}
impl vstd::std_specs::ops::SubSpecImpl<PrimPitches> for PrimPitches {
    open spec fn obeys_sub_spec() -> bool { true }
    open spec fn sub_req(self, rhs: PrimPitches) -> bool { self.dir == rhs.dir && isize::MIN <= self.num - rhs.num <= isize::MAX }
    open spec fn sub_spec(self, rhs: PrimPitches) -> PrimPitches { PrimPitches { dir: self.dir, num: (self.num - rhs.num) as isize } }
}
impl std::ops::Sub<PrimPitches> for PrimPitches {
    type Output = PrimPitches;
//@ fn layout21tetris/src/coords.rs :: impl std::ops::Sub<PrimPitches> for PrimPitches :: fn sub
//@ end
}
//@ item layout21tetris/src/coords.rs :: struct Xy
//@   derive Debug, Clone, Copy
//@ end
impl<T> Xy<T> {
//@ fn layout21tetris/src/coords.rs :: impl<T> Xy<T> :: fn new
//@   ret r
//@   spec
//|     ensures r.x == x, r.y == y,
//@ end
}
// R8: indexing by direction is total
impl<T: HasUnits> vstd::std_specs::core::IndexSpecImpl<Dir> for Xy<T> { open spec fn index_req(&self, index: &Dir) -> bool { true } }
impl<T: HasUnits> std::ops::Index<Dir> for Xy<T> {
    type Output = T;
//@ fn layout21tetris/src/coords.rs :: impl<T: HasUnits> std::ops::Index<Dir> for Xy<T> :: fn index
//@   ret r
//@   spec
//|     ensures *r == (match dir { Dir::Horiz => self.x, Dir::Vert => self.y }),
//@ end
}
//@ item layout21tetris/src/placement.rs :: enum Side
//@   derive Debug, Clone, Copy
//@ end
//@ item layout21tetris/src/bbox.rs :: struct BoundBox
//@ end
impl<T: HasUnits> BoundBox<T> {
//@ fn layout21tetris/src/bbox.rs :: impl<T: HasUnits> BoundBox<T> :: fn new
//@   ret r
//@   spec
//|     ensures r.p0 == p0, r.p1 == p1,
//@ end
//@ fn layout21tetris/src/bbox.rs :: impl<T: HasUnits> BoundBox<T> :: fn side
//@   ret r
//@   spec
//|     ensures r == (match side { Side::Left => self.p0.x, Side::Right => self.p1.x, Side::Bottom => self.p0.y, Side::Top => self.p1.y }),
//@ end
}
//@ item layout21tetris/src/outline.rs :: struct Outline
//@ end

// ---- SPEC: a valid outline (C19): same number (>= 1) of x and y steps, right directions, non-negative, x non-increasing, y non-decreasing
pub open spec fn outline_valid(x: Seq<PrimPitches>, y: Seq<PrimPitches>) -> bool {
    &&& x.len() >= 1 &&& x.len() == y.len()
    &&& forall|k: int| 0 <= k < x.len() ==> (#[trigger] x[k]).dir == Dir::Horiz && x[k].num >= 0
    &&& forall|k: int| 0 <= k < y.len() ==> (#[trigger] y[k]).dir == Dir::Vert && y[k].num >= 0
    &&& forall|k: int| 1 <= k < x.len() ==> #[trigger] step_ok(x, y, k)
}
/// step k of the staircase: x does not increase, y does not decrease
pub open spec fn step_ok(x: Seq<PrimPitches>, y: Seq<PrimPitches>, k: int) -> bool { x[k].num <= x[k - 1].num && y[k].num >= y[k - 1].num }
pub open spec fn outline_wf(o: Outline) -> bool { outline_valid(o.x@, o.y@) }
impl Outline {
//@ fn layout21tetris/src/outline.rs :: impl Outline :: fn from_prim_pitches
//@   ret r
//@   spec
//|     ensures r is Ok <==> outline_valid(x@, y@),
//|         r is Ok ==> r->Ok_0.x@ == x@ && r->Ok_0.y@ == y@,
//@   loop 1
//|             invariant x.len() >= 1, x.len() == y.len(),
//|                 forall|j: int| 0 <= j < k ==> (#[trigger] x@[j]).dir == Dir::Horiz && x@[j].num >= 0,
//|                 forall|j: int| 0 <= j < k ==> (#[trigger] y@[j]).dir == Dir::Vert && y@[j].num >= 0,
//@   loop 2
//|             invariant x.len() >= 1, x.len() == y.len(),
//|                 forall|j: int| 0 <= j < x.len() ==> (#[trigger] x@[j]).dir == Dir::Horiz && x@[j].num >= 0,
//|                 forall|j: int| 0 <= j < y.len() ==> (#[trigger] y@[j]).dir == Dir::Vert && y@[j].num >= 0,
//|                 forall|j: int| 1 <= j < k ==> #[trigger] step_ok(x@, y@, j),
//@   before /if x\[k\]\.num > x\[k - 1\]\.num/
//|             proof { if !step_ok(x@, y@, k as int) { assert(!outline_valid(x@, y@)); } }
//@   loopend 2
//|             proof { assert(step_ok(x@, y@, k as int)); }
//@ end
//@ fn layout21tetris/src/outline.rs :: impl Outline :: fn xmax
//@   ret r
//@   spec
//|     requires self.x@.len() >= 1,
//|     ensures r == self.x@[0],
//@ end
//@ fn layout21tetris/src/outline.rs :: impl Outline :: fn ymax
//@   ret r
//@   spec
//|     requires self.y@.len() >= 1,
//|     ensures r == self.y@[self.y@.len() - 1],
//@ end
}

