// Unit U9 tetris_place: layout21tetris relative-placement arithmetic (C09) and outline validation (C19).
use vstd::prelude::*;
use std::convert::{TryFrom, TryInto};
verus! {
global size_of usize == 8;
//@ include units/common/float.inc.rs
//@ item layout21tetris/src/coords.rs :: type Int
//@ end

//@ include units/tetris_place/coords.inc.rs

// =====================================================================================================
// cells, instances, relative placements (extracted; views reduced to what placement reads, rule R5)
// =====================================================================================================
/// module-path shim: cell.rs refers to `outline::Outline`
pub mod outline { pub use super::Outline; }
/// R5: each cell view (abs::Abstract, Layout, RawLayoutPtr) reduced to the one field placement reads
pub struct ViewModel { pub outline: Outline }
/// R5: `Cell` with its three views as ViewModel (field names and priority order as in cell.rs)
pub struct Cell { pub name: String, pub abs: Option<ViewModel>, pub layout: Option<ViewModel>, pub raw: Option<ViewModel> }
impl Cell {
//@ fn layout21tetris/src/cell.rs :: impl Cell :: fn outline
//@   ret r
//@   spec
//|     ensures r is Ok <==> cell_outline(*self) is Some, r is Ok ==> *r->Ok_0 == cell_outline(*self)->0,
//@ end
//@ fn layout21tetris/src/cell.rs :: impl Cell :: fn boundbox_size
//@   ret r
//@   spec
//|     requires cell_outline(*self) is Some ==> outline_wf(cell_outline(*self)->0),
//|     ensures r is Ok <==> cell_outline(*self) is Some, r is Ok ==> r->Ok_0 == cell_size(*self),
//@ end
}
/// the view that dictates the outline: abstract, else layout, else raw
pub open spec fn cell_outline(c: Cell) -> Option<Outline> {
    if c.abs is Some { Some(c.abs->0.outline) } else if c.layout is Some { Some(c.layout->0.outline) } else if c.raw is Some { Some(c.raw->0.outline) } else { None }
}
/// size of the cell's bounding rectangle: (first x step, last y step)
pub open spec fn cell_size(c: Cell) -> Xy<PrimPitches> { let o = cell_outline(c)->0; Xy { x: o.x@[0], y: o.y@[o.y@.len() - 1] } }
pub open spec fn cell_ok(c: Cell) -> bool { cell_outline(c) is Some && outline_wf(cell_outline(c)->0) && cell_size(c).x.num <= 0x1_0000_0000 && cell_size(c).y.num <= 0x1_0000_0000 }

pub struct ArrayInstance { pub name: String }
pub struct GroupInstance { pub name: String }
pub struct RelAssign { pub net: String }
//@ item layout21tetris/src/placement.rs :: enum Align
//@ end
//@ item layout21tetris/src/placement.rs :: enum SepBy
//@ end
//@ item layout21tetris/src/placement.rs :: struct Separation
//@ end
//@ item layout21tetris/src/placement.rs :: enum Placeable
//@ end
//@ item layout21tetris/src/placement.rs :: struct RelativePlace
//@ end
//@ item layout21tetris/src/placement.rs :: enum Place
//@ end
//@ item layout21tetris/src/instance.rs :: struct Instance
//@ end
impl<T> Place<T> {
//@ fn layout21tetris/src/placement.rs :: impl<T> Place<T> :: fn abs
//@   ret r
//@   spec
//|     ensures r is Ok <==> *self is Abs, r is Ok ==> *r->Ok_0 == self->Abs_0,
//@ end
}
impl Separation {
//@ fn layout21tetris/src/placement.rs :: impl Separation :: fn dir
//@   ret r
//@   spec
//|     ensures *r == (match dir { Dir::Horiz => self.x, Dir::Vert => self.y }),
//@ end
}
pub open spec fn xy_wf(p: Xy<PrimPitches>) -> bool { p.x.dir == Dir::Horiz && p.y.dir == Dir::Vert && -0x1_0000_0000 <= p.x.num <= 0x1_0000_0000 && -0x1_0000_0000 <= p.y.num <= 0x1_0000_0000 }
/// ORACLE: the bounding box of an absolutely placed instance: origin corner at `loc`, extending by the cell size away from it,
/// towards negative x (y) when reflected horizontally (vertically)
pub open spec fn box_at(loc: Xy<PrimPitches>, size: Xy<PrimPitches>, rh: bool, rv: bool) -> (int, int, int, int) {
    (if rh { loc.x.num - size.x.num } else { loc.x.num as int }, if rh { loc.x.num as int } else { loc.x.num + size.x.num },
     if rv { loc.y.num - size.y.num } else { loc.y.num as int }, if rv { loc.y.num as int } else { loc.y.num + size.y.num })
}
pub open spec fn inst_ok(i: Instance) -> bool { i.loc is Abs && xy_wf(i.loc->Abs_0) && cell_ok(*i.cell.v) }
impl Instance {
//@ fn layout21tetris/src/instance.rs :: impl Instance :: fn reflected
//@   ret r
//@   spec
//|     ensures r == (match dir { Dir::Horiz => self.reflect_horiz, Dir::Vert => self.reflect_vert }),
//@ end
//@ fn layout21tetris/src/instance.rs :: impl Instance :: fn boundbox_size
//@   ret r
//@   spec
//|     requires cell_outline(*self.cell.v) is Some ==> outline_wf(cell_outline(*self.cell.v)->0),
//|     ensures r is Ok ==> cell_outline(*self.cell.v) is Some && r->Ok_0 == cell_size(*self.cell.v),
//@ end
// R9: `impl HasBoundBox for Instance` emitted as an inherent method
//@ fn layout21tetris/src/instance.rs :: impl HasBoundBox for Instance :: fn boundbox
//@   ret r
//@   spec
//|     requires self.loc is Abs ==> xy_wf(self.loc->Abs_0), cell_outline(*self.cell.v) is Some ==> cell_ok(*self.cell.v),
//|     ensures r is Ok ==> ({
//|         let b = r->Ok_0; let e = box_at(self.loc->Abs_0, cell_size(*self.cell.v), self.reflect_horiz, self.reflect_vert);
//|         &&& self.loc is Abs &&& cell_outline(*self.cell.v) is Some
//|         &&& b.p0.x.dir == Dir::Horiz && b.p1.x.dir == Dir::Horiz && b.p0.y.dir == Dir::Vert && b.p1.y.dir == Dir::Vert
//|         &&& b.p0.x.num == e.0 &&& b.p1.x.num == e.1 &&& b.p0.y.num == e.2 &&& b.p1.y.num == e.3
//|     }),
//@ end
}


// =====================================================================================================
// PLACER (layout21tetris/src/placer.rs)
// =====================================================================================================
//@ item layout21utils/src/context.rs :: enum ErrorContext
//@ end
// R5: the placer reduced to its error-context stack (lib and stack are not read by resolve_instance_place)
//@ item layout21tetris/src/placer.rs :: struct Placer
//@   sub R5 /lib: Library,/ =>
//@   sub R5 /stack: ValidStack,/ =>
//@   sub R4 /\n    ctx:/ => \n    pub ctx:
//@ end
impl ArrayInstance {
    /// array bounding boxes (recursion through Ptr<Array>) are outside the unit: any well-formed box, or an error
    pub uninterp spec fn bbox_spec(&self) -> BoundBox<PrimPitches>;
    #[verifier::external_body]
    pub fn boundbox(&self) -> (r: LayoutResult<BoundBox<PrimPitches>>)
        ensures r is Ok ==> r->Ok_0 == self.bbox_spec() && box_wf(r->Ok_0),
    { unimplemented!() }
}
pub open spec fn box_wf(b: BoundBox<PrimPitches>) -> bool { xy_wf(b.p0) && xy_wf(b.p1) }
/// the reference's bounding box, as the oracle defines it
pub open spec fn ref_box(to: Placeable) -> (int, int, int, int) {
    match to {
        Placeable::Instance(p) => box_at((*p.v).loc->Abs_0, cell_size(*(*p.v).cell.v), (*p.v).reflect_horiz, (*p.v).reflect_vert),
        Placeable::Array(p) => { let b = (*p.v).bbox_spec(); (b.p0.x.num as int, b.p1.x.num as int, b.p0.y.num as int, b.p1.y.num as int) }
        _ => (0, 0, 0, 0),
    }
}
pub open spec fn ref_ok(to: Placeable) -> bool {
    match to { Placeable::Instance(p) => ((*p.v).loc is Abs ==> xy_wf((*p.v).loc->Abs_0)) && (cell_outline(*(*p.v).cell.v) is Some ==> cell_ok(*(*p.v).cell.v)), Placeable::Array(_) => true, _ => false }
}
pub open spec fn axis_of(s: Side) -> Dir { match s { Side::Left | Side::Right => Dir::Horiz, Side::Top | Side::Bottom => Dir::Vert } }
/// the requested separation along `axis`, in primitive pitches
pub open spec fn sep_num(sep: Separation, axis: Dir) -> int {
    match (match axis { Dir::Horiz => sep.x, Dir::Vert => sep.y }) {
        None => 0,
        Some(SepBy::SizeOf(c)) => (match axis { Dir::Horiz => cell_size(*c.v).x.num as int, Dir::Vert => cell_size(*c.v).y.num as int }),
        Some(SepBy::UnitSpeced(UnitSpeced::PrimPitches(p))) => p.num as int,
        _ => 0,
    }
}
pub open spec fn sep_ok(sep: Separation, axis: Dir) -> bool {
    match (match axis { Dir::Horiz => sep.x, Dir::Vert => sep.y }) {
        None => true,
        Some(SepBy::SizeOf(c)) => cell_outline(*c.v) is Some ==> cell_ok(*c.v),
        Some(SepBy::UnitSpeced(UnitSpeced::PrimPitches(p))) => -0x1_0000_0000 <= p.num <= 0x1_0000_0000,
        Some(SepBy::UnitSpeced(UnitSpeced::DbUnits(_))) => true,
        // LayerPitches separations hit `todo!()` in the real code
        Some(SepBy::UnitSpeced(UnitSpeced::LayerPitches(_))) => false,
    }
}
impl Placer {
    /// model of ErrorHelper::fail: always an error
    #[verifier::external_body]
    fn fail<T, M>(&self, msg: M) -> (r: LayoutResult<T>) ensures r is Err { Err(LayoutError { }) }
//@ fn layout21tetris/src/placer.rs :: impl Placer :: fn resolve_instance_place
//@   attr #[verifier::spinoff_prover] #[verifier::rlimit(60)]
//@   ret r
//@   sub R7 /inst\.inst_name\.clone\(\)/ => String::new()
//@   spec
//|     requires
//|         // the reference is an instance or an array (other placeables are `unimplemented!()`), alignment is to a side orthogonal to `side`
//|         ref_ok(rel.to), rel.align is Side, axis_of(rel.align->Side_0) != axis_of(rel.side),
//|         cell_outline(*inst.cell.v) is Some ==> cell_ok(*inst.cell.v), sep_ok(rel.sep, axis_of(rel.side)),
//|     ensures r is Ok ==> ({
//|         let xy = r->Ok_0; let b0 = ref_box(rel.to); let sep = sep_num(rel.sep, axis_of(rel.side));
//|         let b1 = box_at(xy, cell_size(*inst.cell.v), inst.reflect_horiz, inst.reflect_vert);
//|         &&& xy.x.dir == Dir::Horiz &&& xy.y.dir == Dir::Vert
//|         // touches the reference on the requested side at the requested separation ...
//|         &&& match rel.side { Side::Right => b1.0 == b0.1 + sep, Side::Left => b1.1 == b0.0 - sep, Side::Top => b1.2 == b0.3 + sep, Side::Bottom => b1.3 == b0.2 - sep }
//|         // ... and is flush with it on the requested alignment edge
//|         &&& match rel.align->Side_0 { Side::Left => b1.0 == b0.0, Side::Right => b1.1 == b0.1, Side::Bottom => b1.2 == b0.2, Side::Top => b1.3 == b0.3 }
//|     }),
//@   before1 /Get its edge-coordinates in each axis|let mut side_coord = bbox\.side\(rel\.side\);/
//|         proof {
//|             let b0 = ref_box(rel.to);
//|             assert(bbox.p0.x.dir == Dir::Horiz && bbox.p1.x.dir == Dir::Horiz && bbox.p0.y.dir == Dir::Vert && bbox.p1.y.dir == Dir::Vert);
//|             assert(bbox.p0.x.num == b0.0 && bbox.p1.x.num == b0.1 && bbox.p0.y.num == b0.2 && bbox.p1.y.num == b0.3);
//|             assert(-0x2_0000_0000 <= b0.0 <= 0x2_0000_0000 && -0x2_0000_0000 <= b0.1 <= 0x2_0000_0000 && -0x2_0000_0000 <= b0.2 <= 0x2_0000_0000 && -0x2_0000_0000 <= b0.3 <= 0x2_0000_0000);
//|         }
//@   after /let inst_size = inst\.boundbox_size\(\)\?;/
//|             proof {
//|                 assert(inst_size == cell_size(*inst.cell.v));
//|                 assert(inst_size.x.dir == Dir::Horiz && inst_size.y.dir == Dir::Vert && 0 <= inst_size.x.num <= 0x1_0000_0000 && 0 <= inst_size.y.num <= 0x1_0000_0000);
//|             }
//@ end
}

proof fn canary_resolve(inst: Instance, rel: RelativePlace)
    requires ref_ok(rel.to), rel.align is Side, axis_of(rel.align->Side_0) != axis_of(rel.side), cell_ok(*inst.cell.v), sep_ok(rel.sep, axis_of(rel.side)),
        rel.to is Instance, inst_ok(*rel.to->Instance_0.v), rel.side == Side::Left, rel.sep.x is Some, inst.reflect_horiz,
    ensures false {}
proof fn canary_outline(x: Seq<PrimPitches>, y: Seq<PrimPitches>) requires outline_valid(x, y), x.len() == 2 ensures false {}
}
fn main() {}
