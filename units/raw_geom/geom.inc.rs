// shared by units raw_geom and raw_gds: layout21raw geometry under contract

//@ item layout21raw/src/geom.rs :: struct Point
//@   derive Debug, Copy, Clone
//@ end
//@ item layout21raw/src/geom.rs :: struct Rect
//@ end
//@ item layout21raw/src/geom.rs :: struct Polygon
//@ end
//@ item layout21raw/src/geom.rs :: struct Path
//@ end
//@ item layout21raw/src/bbox.rs :: struct BoundBox
//@   derive Debug, Copy, Clone
//@ end

impl Point {
//@ fn layout21raw/src/geom.rs :: impl Point :: fn new
//@   ret r
//@   spec
//|     ensures r.x == x, r.y == y,
//@ end
}

// =====================================================================================================
// SPEC (mathematical, written from the property statement; independent of the code)
// =====================================================================================================
pub open spec fn imin(a: int, b: int) -> int { if a <= b { a } else { b } }
pub open spec fn imax(a: int, b: int) -> int { if a >= b { a } else { b } }
/// closed axis-aligned box spanned by two opposite corners, in either order
pub open spec fn in_closed_box(a: Point, b: Point, q: Point) -> bool {
    imin(a.x as int, b.x as int) <= q.x <= imax(a.x as int, b.x as int)
    && imin(a.y as int, b.y as int) <= q.y <= imax(a.y as int, b.y as int)
}
/// z-component of (b-a) x (q-a): > 0 iff q is strictly left of the directed line a->b
pub open spec fn cross(a: Point, b: Point, q: Point) -> int {
    (b.x - a.x) * (q.y - a.y) - (q.x - a.x) * (b.y - a.y)
}
/// q lies on the closed segment [a,b]
pub open spec fn on_edge(a: Point, b: Point, q: Point) -> bool {
    cross(a, b, q) == 0 && in_closed_box(a, b, q)
}
/// signed crossing of the ray from q towards +x with the edge a->b, half-open rule
pub open spec fn contrib(a: Point, b: Point, q: Point) -> int {
    if a.y <= q.y && q.y < b.y && cross(a, b, q) > 0 { 1 }
    else if b.y <= q.y && q.y < a.y && cross(a, b, q) < 0 { -1 }
    else { 0 }
}
pub open spec fn edge_a(p: Seq<Point>, i: int) -> Point { p[i] }
pub open spec fn edge_b(p: Seq<Point>, i: int) -> Point { p[(i + 1) % (p.len() as int)] }
/// winding number of the closed chain p around q, summed over the first k edges
pub open spec fn wind(p: Seq<Point>, q: Point, k: int) -> int
    decreases k
{
    if k <= 0 { 0 } else { wind(p, q, k - 1) + contrib(edge_a(p, k - 1), edge_b(p, k - 1), q) }
}
pub open spec fn on_boundary_upto(p: Seq<Point>, q: Point, k: int) -> bool {
    exists|i: int| 0 <= i < k && on_edge(edge_a(p, i), edge_b(p, i), q)
}
/// THE ORACLE for polygons: q is in the closed region of the polygon with vertex list p
/// (boundary and vertices included; non-zero winding number otherwise).
pub open spec fn inside(p: Seq<Point>, q: Point) -> bool {
    on_boundary_upto(p, q, p.len() as int) || wind(p, q, p.len() as int) != 0
}
/// machine-integer range in which the real code's arithmetic is exact (differences fit isize, products fit i128)
pub open spec fn small(p: Point) -> bool {
    -0x2000_0000_0000_0000 <= p.x <= 0x2000_0000_0000_0000 && -0x2000_0000_0000_0000 <= p.y <= 0x2000_0000_0000_0000
}
pub open spec fn all_small(p: Seq<Point>) -> bool { forall|i: int| 0 <= i < p.len() ==> small(#[trigger] p[i]) }

/// componentwise bounding box of the first k points (the fold the code performs, starting from the "empty" box)
pub open spec fn bbox_fold(p: Seq<Point>, k: int) -> BoundBox
    decreases k
{
    if k <= 0 { BoundBox { p0: Point { x: isize::MAX, y: isize::MAX }, p1: Point { x: isize::MIN, y: isize::MIN } } }
    else {
        let b = bbox_fold(p, k - 1);
        BoundBox {
            p0: Point { x: imin(b.p0.x as int, p[k - 1].x as int) as isize, y: imin(b.p0.y as int, p[k - 1].y as int) as isize },
            p1: Point { x: imax(b.p1.x as int, p[k - 1].x as int) as isize, y: imax(b.p1.y as int, p[k - 1].y as int) as isize },
        }
    }
}
pub open spec fn all_in_box(p: Seq<Point>, lo: Point, hi: Point) -> bool {
    forall|i: int| 0 <= i < p.len() ==> lo.x <= (#[trigger] p[i]).x <= hi.x && lo.y <= p[i].y <= hi.y
}

// ---- Manhattan paths ----
pub open spec fn manhattan(p: Seq<Point>) -> bool {
    forall|k: int| 0 <= k < p.len() - 1 ==> (#[trigger] p[k]).x == p[k + 1].x || p[k].y == p[k + 1].y
}
/// closed rectangle around segment [a,b] of half-width hw, ends flush with the end points
pub open spec fn seg_flush(a: Point, b: Point, hw: int, q: Point) -> bool {
    if a.x == b.x { a.x - hw <= q.x <= a.x + hw && imin(a.y as int, b.y as int) <= q.y <= imax(a.y as int, b.y as int) }
    else { a.y - hw <= q.y <= a.y + hw && imin(a.x as int, b.x as int) <= q.x <= imax(a.x as int, b.x as int) }
}
/// q is at Chebyshev distance <= hw from the segment [a,b] (square end caps): the weakest "within half the width"
pub open spec fn seg_cheb(a: Point, b: Point, hw: int, q: Point) -> bool {
    imin(a.x as int, b.x as int) - hw <= q.x <= imax(a.x as int, b.x as int) + hw
    && imin(a.y as int, b.y as int) - hw <= q.y <= imax(a.y as int, b.y as int) + hw
}
pub open spec fn path_flush(p: Seq<Point>, hw: int, q: Point, n: int) -> bool {
    exists|k: int| 0 <= k < n && seg_flush(#[trigger] p[k], p[k + 1], hw, q)
}
pub open spec fn path_cheb(p: Seq<Point>, hw: int, q: Point, n: int) -> bool {
    exists|k: int| 0 <= k < n && seg_cheb(#[trigger] p[k], p[k + 1], hw, q)
}

// =====================================================================================================
// LEMMAS about the oracle
// =====================================================================================================
proof fn lemma_cross_sign_right(a: Point, b: Point, q: Point)
    requires q.x > a.x, q.x > b.x,
    ensures (a.y <= q.y < b.y) ==> cross(a, b, q) < 0, (b.y <= q.y < a.y) ==> cross(a, b, q) > 0,
{
    let dx = b.x - a.x; let h = b.y - a.y; let t = q.y - a.y; let u = q.x - a.x;
    if a.y <= q.y < b.y {
        assert(dx * t - u * h < 0) by (nonlinear_arith) requires h > 0, 0 <= t < h, u > 0, u > dx;
    }
    if b.y <= q.y < a.y {
        assert(dx * t - u * h > 0) by (nonlinear_arith) requires h < 0, h <= t < 0, u > 0, u > dx;
    }
}
proof fn lemma_cross_sign_left(a: Point, b: Point, q: Point)
    requires q.x < a.x, q.x < b.x,
    ensures (a.y <= q.y < b.y) ==> cross(a, b, q) > 0, (b.y <= q.y < a.y) ==> cross(a, b, q) < 0,
{
    let dx = b.x - a.x; let h = b.y - a.y; let t = q.y - a.y; let u = q.x - a.x;
    if a.y <= q.y < b.y {
        assert(dx * t - u * h > 0) by (nonlinear_arith) requires h > 0, 0 <= t < h, u < 0, u < dx;
    }
    if b.y <= q.y < a.y {
        assert(dx * t - u * h < 0) by (nonlinear_arith) requires h < 0, h <= t < 0, u < 0, u < dx;
    }
}
proof fn lemma_wind_zero_when_no_contrib(p: Seq<Point>, q: Point, k: int)
    requires 0 <= k <= p.len(), p.len() > 0,
        forall|i: int| 0 <= i < p.len() ==> contrib(edge_a(p, i), edge_b(p, i), q) == 0,
    ensures wind(p, q, k) == 0,
    decreases k
{
    if k > 0 { lemma_wind_zero_when_no_contrib(p, q, k - 1); }
}
pub open spec fn above(v: Point, q: Point) -> int { if v.y > q.y { 1 } else { 0 } }
proof fn lemma_wind_telescopes(p: Seq<Point>, q: Point, k: int)
    requires 0 <= k <= p.len(), p.len() > 0,
        forall|i: int| 0 <= i < p.len() ==> contrib(edge_a(p, i), edge_b(p, i), q) == above(edge_b(p, i), q) - above(edge_a(p, i), q),
    ensures wind(p, q, k) == above(p[k % (p.len() as int)], q) - above(p[0], q),
    decreases k
{
    let n = p.len() as int;
    if k > 0 {
        lemma_wind_telescopes(p, q, k - 1);
        assert((k - 1) % n == k - 1) by (nonlinear_arith) requires 0 <= k - 1 < n;
        assert(edge_a(p, k - 1) == p[k - 1]);
        assert(edge_b(p, k - 1) == p[k % n]);
    } else {
        assert(0int % n == 0);
    }
}
/// a point outside any box that holds all vertices is not inside: justifies the bounding-box early exit
pub proof fn lemma_outside_box(p: Seq<Point>, q: Point, lo: Point, hi: Point)
    requires p.len() > 0, all_in_box(p, lo, hi),
        !(lo.x <= q.x && hi.x >= q.x && lo.y <= q.y && hi.y >= q.y),
    ensures !inside(p, q),
{
    let n = p.len() as int;
    assert forall|i: int| 0 <= i < n implies 0 <= #[trigger] ((i + 1) % n) < n by {
        assert(0 <= (i + 1) % n < n) by (nonlinear_arith) requires n > 0, i >= 0;
    }
    assert forall|i: int| 0 <= i < n implies !on_edge(edge_a(p, i), edge_b(p, i), q) by {
        let a = edge_a(p, i); let b = edge_b(p, i);
        assert(lo.x <= a.x <= hi.x && lo.y <= a.y <= hi.y);
        assert(lo.x <= b.x <= hi.x && lo.y <= b.y <= hi.y);
    }
    if q.y < lo.y || q.y > hi.y || q.x > hi.x {
        assert forall|i: int| 0 <= i < n implies contrib(edge_a(p, i), edge_b(p, i), q) == 0 by {
            let a = edge_a(p, i); let b = edge_b(p, i);
            assert(lo.x <= a.x <= hi.x && lo.y <= a.y <= hi.y);
            assert(lo.x <= b.x <= hi.x && lo.y <= b.y <= hi.y);
            if !(q.y < lo.y || q.y > hi.y) { lemma_cross_sign_right(a, b, q); }
        }
        lemma_wind_zero_when_no_contrib(p, q, n);
    } else {
        assert(q.x < lo.x);
        assert forall|i: int| 0 <= i < n implies contrib(edge_a(p, i), edge_b(p, i), q) == above(edge_b(p, i), q) - above(edge_a(p, i), q) by {
            let a = edge_a(p, i); let b = edge_b(p, i);
            assert(lo.x <= a.x <= hi.x && lo.y <= a.y <= hi.y);
            assert(lo.x <= b.x <= hi.x && lo.y <= b.y <= hi.y);
            lemma_cross_sign_left(a, b, q);
        }
        lemma_wind_telescopes(p, q, n);
        assert(n % n == 0) by (nonlinear_arith) requires n > 0;
    }
}
/// the fold is a box holding every one of the first k points
proof fn lemma_bbox_fold_holds(p: Seq<Point>, k: int)
    requires 0 <= k <= p.len(),
    ensures forall|i: int| 0 <= i < k ==> bbox_fold(p, k).p0.x <= (#[trigger] p[i]).x <= bbox_fold(p, k).p1.x
                && bbox_fold(p, k).p0.y <= p[i].y <= bbox_fold(p, k).p1.y,
    decreases k
{
    if k > 0 { lemma_bbox_fold_holds(p, k - 1); }
}
/// the closed rectangle's polygon: a point is inside the 4-gon (p0, (p1.x,p0.y), p1, (p0.x,p1.y)) iff it is in the closed box
/// (exercises the oracle itself: `inside` agrees with the elementary definition on rectangles' corner points)
proof fn lemma_inside_vertex(p: Seq<Point>, i: int)
    requires 0 <= i < p.len(),
    ensures inside(p, p[i]),
{
    let n = p.len() as int;
    let a = edge_a(p, i); let b = edge_b(p, i);
    assert(cross(a, b, a) == 0) by (nonlinear_arith) requires cross(a, b, a) == (b.x - a.x) * (a.y - a.y) - (a.x - a.x) * (b.y - a.y);
    assert(on_edge(a, b, p[i]));
}

// =====================================================================================================
// CODE UNDER CONTRACT (extracted from /repo on every run)
// =====================================================================================================
impl Rect {
//@ fn layout21raw/src/geom.rs :: impl ShapeTrait for Rect :: fn contains
//@   ret r
//@   spec
//|     ensures r == in_closed_box(self.p0, self.p1, *pt),
//@ end
//@ fn layout21raw/src/geom.rs :: impl Rect :: fn center
//@   ret r
//@   spec
//|     requires small(self.p0), small(self.p1),
//|     ensures in_closed_box(self.p0, self.p1, r),
//@ end
}

impl BoundBox {
//@ fn layout21raw/src/bbox.rs :: impl BoundBox :: fn new
//@   ret r
//@   spec
//|     ensures r.p0 == p0, r.p1 == p1,
//@ end
//@ fn layout21raw/src/bbox.rs :: impl BoundBox :: fn from_point
//@   ret r
//@   spec
//|     ensures r.p0 == *pt, r.p1 == *pt,
//@ end
//@ fn layout21raw/src/bbox.rs :: impl BoundBox :: fn from_points
//@   ret r
//@   spec
//|     ensures r.p0.x == imin(p0.x as int, p1.x as int), r.p0.y == imin(p0.y as int, p1.y as int),
//|             r.p1.x == imax(p0.x as int, p1.x as int), r.p1.y == imax(p0.y as int, p1.y as int),
//@ end
//@ fn layout21raw/src/bbox.rs :: impl BoundBox :: fn empty
//@   ret r
//@   spec
//|     ensures r == bbox_fold(Seq::<Point>::empty(), 0),
//@ end
//@ fn layout21raw/src/bbox.rs :: impl BoundBox :: fn contains
//@   ret r
//@   spec
//|     ensures r == (self.p0.x <= pt.x <= self.p1.x && self.p0.y <= pt.y <= self.p1.y),
//@ end
//@ fn layout21raw/src/bbox.rs :: impl BoundBox :: fn center
//@   ret r
//@   spec
//|     requires small(self.p0), small(self.p1),
//|     ensures self.p0.x <= self.p1.x ==> self.p0.x <= r.x <= self.p1.x,
//|             self.p0.y <= self.p1.y ==> self.p0.y <= r.y <= self.p1.y,
//@ end
}

// R8: ghost members added to the trait so that the impls can carry contracts
pub trait BoundBoxTrait {
    spec fn bbox_spec(&self) -> BoundBox;
    spec fn union_spec(&self, bbox: BoundBox) -> BoundBox;
//@ fn layout21raw/src/bbox.rs :: trait BoundBoxTrait :: fn bbox
//@   ret r
//@   spec
//|     ensures r == self.bbox_spec(),
//@ end
    fn union(&self, bbox: &BoundBox) -> (r: BoundBox)
        ensures r == self.union_spec(*bbox);
}
pub open spec fn union_of(a: BoundBox, b: BoundBox) -> BoundBox {
    BoundBox {
        p0: Point { x: imin(a.p0.x as int, b.p0.x as int) as isize, y: imin(a.p0.y as int, b.p0.y as int) as isize },
        p1: Point { x: imax(a.p1.x as int, b.p1.x as int) as isize, y: imax(a.p1.y as int, b.p1.y as int) as isize },
    }
}
impl BoundBoxTrait for BoundBox {
    open spec fn bbox_spec(&self) -> BoundBox { *self }
    open spec fn union_spec(&self, bbox: BoundBox) -> BoundBox { union_of(*self, bbox) }
//@ fn layout21raw/src/bbox.rs :: impl BoundBoxTrait for BoundBox :: fn bbox
//@ end
//@ fn layout21raw/src/bbox.rs :: impl BoundBoxTrait for BoundBox :: fn union
//@ end
}
impl BoundBoxTrait for Point {
    open spec fn bbox_spec(&self) -> BoundBox { BoundBox { p0: *self, p1: *self } }
    open spec fn union_spec(&self, bbox: BoundBox) -> BoundBox { union_of(BoundBox { p0: *self, p1: *self }, bbox) }
//@ fn layout21raw/src/bbox.rs :: impl BoundBoxTrait for Point :: fn bbox
//@ end
//@ fn layout21raw/src/bbox.rs :: impl BoundBoxTrait for Point :: fn union
//@ end
}
impl BoundBoxTrait for Vec<Point> {
    open spec fn bbox_spec(&self) -> BoundBox { bbox_fold(self@, self@.len() as int) }
    open spec fn union_spec(&self, bbox: BoundBox) -> BoundBox { union_of(self.bbox_spec(), bbox) }
//@ fn layout21raw/src/bbox.rs :: impl BoundBoxTrait for Vec<Point> :: fn bbox
//@   let bbox : BoundBox
//@   loop 1 iter it
//|         invariant bbox == bbox_fold(self@, it.index@ as int), it.index@ <= self@.len(),
//@ end
    // default method of the trait (`self.bbox().union(&bbox)`), restated for this impl: the trait's default bodies are
    // not extracted (Verus requires the contract on the declaration); Vec<Point>::union has no caller in the unit.
    fn union(&self, bbox: &BoundBox) -> (r: BoundBox) { self.bbox().union(bbox) }
}

impl Polygon {
//@ fn layout21raw/src/geom.rs :: impl ShapeTrait for Polygon :: fn contains
//@   ret r
//@   spec
//|     requires all_small(self.points@), small(*pt), self.points.len() < 0x7fff_ffff_ffff_ffff,
//|     ensures r == inside(self.points@, *pt),
//@   before /let mut winding_num/
//|         proof {
//|             // past the early exit: the point is in the bounding box, so the polygon has at least one vertex
//|             if self.points@.len() == 0 { assert(bbox_fold(self.points@, 0).p0.x == isize::MAX); }
//|         }
//@   after /if !self\.points\.bbox\(\)\.contains\(pt\)/
//|             proof {
//|                 if self.points@.len() > 0 {
//|                     lemma_bbox_fold_holds(self.points@, self.points@.len() as int);
//|                     let bb = bbox_fold(self.points@, self.points@.len() as int);
//|                     assert(all_in_box(self.points@, bb.p0, bb.p1));
//|                     lemma_outside_box(self.points@, *pt, bb.p0, bb.p1);
//|                 } else {
//|                     assert(!on_boundary_upto(self.points@, *pt, 0));
//|                 }
//|             }
//@   loop 1
//|             invariant
//|                 self.points.len() > 0, self.points.len() < 0x7fff_ffff_ffff_ffff, small(*pt), all_small(self.points@),
//|                 !on_boundary_upto(self.points@, *pt, idx as int),
//|                 winding_num == wind(self.points@, *pt, idx as int),
//|                 -(idx as int) <= winding_num <= idx as int,
//@   before /let cross = /
//|             proof {
//|                 assert(*past == edge_a(self.points@, idx as int));
//|                 assert(*next == edge_b(self.points@, idx as int));
//|                 assert(small(*past) && small(*next));
//|                 assert(-0x1000_0000_0000_0000_0000_0000_0000_0000i128 <= (next.x - past.x) * (pt.y - past.y) <= 0x1000_0000_0000_0000_0000_0000_0000_0000i128) by (nonlinear_arith)
//|                     requires -0x4000_0000_0000_0000i128 <= next.x - past.x <= 0x4000_0000_0000_0000i128, -0x4000_0000_0000_0000i128 <= pt.y - past.y <= 0x4000_0000_0000_0000i128;
//|                 assert(-0x1000_0000_0000_0000_0000_0000_0000_0000i128 <= (pt.x - past.x) * (next.y - past.y) <= 0x1000_0000_0000_0000_0000_0000_0000_0000i128) by (nonlinear_arith)
//|                     requires -0x4000_0000_0000_0000i128 <= pt.x - past.x <= 0x4000_0000_0000_0000i128, -0x4000_0000_0000_0000i128 <= next.y - past.y <= 0x4000_0000_0000_0000i128;
//|             }
//@   before /^\s*return true;/
//|                 proof { assert(on_edge(edge_a(self.points@, idx as int), edge_b(self.points@, idx as int), *pt)); }
//@   loopend 1
//|             proof {
//|                 assert(!on_edge(edge_a(self.points@, idx as int), edge_b(self.points@, idx as int), *pt));
//|                 assert forall|i: int| 0 <= i < idx + 1 implies !on_edge(edge_a(self.points@, i), edge_b(self.points@, i), *pt) by {
//|                     if i < idx { assert(!on_boundary_upto(self.points@, *pt, idx as int)); }
//|                 }
//|             }
//@ end
}


// R5: opaque model of layout21raw::LayoutError (boxed dyn errors, strings); only its constructor is called
#[derive(Debug)]
pub struct LayoutError { }
pub type LayoutResult<T> = Result<T, LayoutError>;
impl LayoutError {
    #[verifier::external_body]
    pub fn msg(s: String) -> Self { LayoutError { } }
}
// R5: `Int::try_from(usize)` (std TryFrom<usize> for isize) by its documented meaning
#[verifier::external_body]
pub fn vp_int_try_from_usize(w: usize) -> (r: Result<Int, LayoutError>)
    ensures w <= isize::MAX ==> r == Ok::<Int, LayoutError>(w as isize), w > isize::MAX ==> r is Err,
{ match Int::try_from(w) { Ok(v) => Ok(v), Err(_) => Err(LayoutError { }) } }

impl Path {
//@ fn layout21raw/src/geom.rs :: impl ShapeTrait for Path :: fn contains
//@   ret r
//@   sub R5 /Int::try_from\(width\)/ => vp_int_try_from_usize(width)
//@   spec
//|     requires self.points.len() >= 1, manhattan(self.points@), all_small(self.points@), small(*pt),
//|         self.width <= 0x2000_0000_0000_0000,
//|     ensures
//|         // true for every point within half the width of a segment (flush rectangle around it) ...
//|         path_flush(self.points@, (self.width / 2) as int, *pt, self.points.len() - 1) ==> r,
//|         // ... and false for every point farther than half the width (in the weakest, Chebyshev, sense) from all of them
//|         r ==> path_cheb(self.points@, (self.width / 2) as int, *pt, self.points.len() - 1),
//@   loop 1
//|         invariant self.points.len() >= 1, manhattan(self.points@), all_small(self.points@), small(*pt),
//|             points == &self.points, width == self.width as isize, self.width <= 0x2000_0000_0000_0000,
//|             !path_flush(self.points@, (self.width / 2) as int, *pt, k as int),
//@   loopend 1
//|             proof {
//|                 assert forall|j: int| 0 <= j < k + 1 implies !seg_flush(#[trigger] self.points@[j], self.points@[j + 1], (self.width / 2) as int, *pt) by {
//|                     if j < k { assert(!path_flush(self.points@, (self.width / 2) as int, *pt, k as int)); }
//|                 }
//|             }
//@ end
}
impl Rect {
    /// the rectangle built for a Manhattan segment is exactly the flush box of the spec
    pub open spec fn contains_spec_equiv(&self, a: Point, b: Point, hw: int, q: Point) -> bool {
        in_closed_box(self.p0, self.p1, q) == seg_flush(a, b, hw, q) && (seg_flush(a, b, hw, q) ==> seg_cheb(a, b, hw, q))
    }
}


// ---- label placement (gds.rs, trait PlaceLabels): R9 — trait-impl methods emitted as inherent methods so that each
// ---- can carry its own precondition; receivers are concrete at every extracted call site
impl Rect {
//@ fn layout21raw/src/gds.rs :: impl PlaceLabels for Rect :: fn label_location
//@   ret r
//@   spec
//|     requires small(self.p0), small(self.p1),
//|     ensures r is Ok, in_closed_box(self.p0, self.p1, r->Ok_0),
//@ end
}
impl Path {
//@ fn layout21raw/src/gds.rs :: impl PlaceLabels for Path :: fn label_location
//@   ret r
//@   spec
//|     requires self.points.len() >= 2, manhattan(self.points@), all_small(self.points@), self.width <= 0x2000_0000_0000_0000,
//|     ensures r is Ok,
//|         // the label lies on the first segment, hence inside the path whatever its width
//|         path_flush(self.points@, (self.width / 2) as int, r->Ok_0, self.points.len() - 1),
//@   atstart
//|         proof {
//|             let (a, b) = (self.points@[0], self.points@[1]);
//|             let m = Point { x: ((a.x + b.x) / 2) as isize, y: ((a.y + b.y) / 2) as isize };
//|             assert(seg_flush(a, b, (self.width / 2) as int, m));
//|         }
//@ end
}
impl Polygon {
//@ fn layout21raw/src/geom.rs :: impl ShapeTrait for Polygon :: fn point0
//@   ret r
//@   spec
//|     requires self.points.len() >= 1,
//|     ensures *r == self.points@[0],
//@ end
//@ fn layout21raw/src/gds.rs :: impl PlaceLabels for Polygon :: fn label_location
//@   ret r
//@   spec
//|     requires self.points.len() >= 1, self.points.len() < 0x7fff_ffff_ffff_ffff, all_small(self.points@),
//|         // one unit of slack for the four neighbours of the first point
//|         -0x2000_0000_0000_0000 < self.points@[0].x < 0x2000_0000_0000_0000, -0x2000_0000_0000_0000 < self.points@[0].y < 0x2000_0000_0000_0000,
//|     ensures r is Ok ==> inside(self.points@, r->Ok_0),
//@   after /let bbox_center = /
//|         proof { assert(small(bbox_center)); }
//@   before /let bbox_center = /
//|         proof {
//|             lemma_bbox_fold_holds(self.points@, self.points@.len() as int);
//|             lemma_bbox_small(self.points@, self.points@.len() as int);
//|         }
//@   loop 1 iter it
//|         invariant all_small(self.points@), self.points.len() >= 1, self.points.len() < 0x7fff_ffff_ffff_ffff,
//|             forall|j: int| 0 <= j < it.seq().len() ==> small(#[trigger] it.seq()[j]),
//@ end
}
proof fn lemma_bbox_small(p: Seq<Point>, k: int)
    requires 1 <= k <= p.len(), all_small(p),
    ensures small(bbox_fold(p, k).p0), small(bbox_fold(p, k).p1),
        bbox_fold(p, k).p0.x <= bbox_fold(p, k).p1.x, bbox_fold(p, k).p0.y <= bbox_fold(p, k).p1.y,
    decreases k
{
    if k > 1 { lemma_bbox_small(p, k - 1); }
    else { assert(bbox_fold(p, 0).p0.x == isize::MAX); assert(small(p[0])); }
}

