// Unit U5 raw_geom: layout21raw geometry — containment (C13), bounding boxes, label placement (C07).
use vstd::prelude::*;
verus! {
global size_of usize == 8;
//@ include units/common/float.inc.rs
pub type Int = isize;
//@ include units/raw_geom/geom.inc.rs
proof fn canary_polygon_pre(p: Polygon, pt: Point)
    requires all_small(p.points@), small(pt), p.points.len() < 0x7fff_ffff_ffff_ffff, p.points.len() >= 3,
    ensures false {}
}
fn main() {}
