// Unit U5 raw_geom: layout21raw geometry — containment, bounding boxes.
use vstd::prelude::*;
verus! {
global size_of usize == 8;
pub type Int = isize;

//@ item layout21raw/src/geom.rs :: struct Point
//@   derive Debug, Copy, Clone
//@ end
//@ item layout21raw/src/geom.rs :: struct Rect
//@ end
//@ item layout21raw/src/bbox.rs :: struct BoundBox
//@   derive Debug, Copy, Clone
//@ end

impl Point {
//@ fn layout21raw/src/geom.rs :: impl Point :: fn new
//@   ret r
//@   spec
//|     ensures r.x == x, r.y == y,
//@ end
}

// ---------------- spec: closed axis-aligned box ----------------
pub open spec fn imin(a: int, b: int) -> int { if a <= b { a } else { b } }
pub open spec fn imax(a: int, b: int) -> int { if a >= b { a } else { b } }
pub open spec fn in_closed_box(a: Point, b: Point, q: Point) -> bool {
    imin(a.x as int, b.x as int) <= q.x <= imax(a.x as int, b.x as int)
    && imin(a.y as int, b.y as int) <= q.y <= imax(a.y as int, b.y as int)
}

impl Rect {
//@ fn layout21raw/src/geom.rs :: impl ShapeTrait for Rect :: fn contains
//@   ret r
//@   spec
//|     ensures r == in_closed_box(self.p0, self.p1, *pt),
//@ end
}

impl BoundBox {
//@ fn layout21raw/src/bbox.rs :: impl BoundBox :: fn new
//@   ret r
//@   spec
//|     ensures r.p0 == p0, r.p1 == p1,
//@ end
//@ fn layout21raw/src/bbox.rs :: impl BoundBox :: fn from_points
//@   ret r
//@   spec
//|     ensures r.p0.x == imin(p0.x as int, p1.x as int), r.p0.y == imin(p0.y as int, p1.y as int),
//|             r.p1.x == imax(p0.x as int, p1.x as int), r.p1.y == imax(p0.y as int, p1.y as int),
//@ end
//@ fn layout21raw/src/bbox.rs :: impl BoundBox :: fn contains
//@   ret r
//@   spec
//|     ensures r == (self.p0.x <= pt.x <= self.p1.x && self.p0.y <= pt.y <= self.p1.y),
//@ end
}

proof fn canary_rect() ensures false {}
}
fn main() {}
