// Unit U8d tetris_blockage: which instances block a period of a layer, and over which span (C08).
use vstd::prelude::*;
use vstd::std_specs::cmp::*;
use core::cmp::Ordering;
use std::convert::{TryFrom, TryInto};
verus! {
global size_of usize == 8;
//@ include units/common/float.inc.rs
//@ item layout21tetris/src/coords.rs :: type Int
//@ end
//@ include units/tetris_place/coords.inc.rs

// =====================================================================================================
// MODELS (rule R5) and extracted data types
// =====================================================================================================
impl<T> Clone for Ptr<T> { #[verifier::external_body] fn clone(&self) -> (r: Self) ensures r == *self { unimplemented!() } }
impl HasUnits for DbUnits {
    open spec fn raw_spec(&self) -> Int { self.0 }
//@ fn layout21tetris/src/coords.rs :: impl HasUnits for DbUnits :: fn raw
//@ end
}
// model of #[derive(PartialEq, PartialOrd)] on DbUnits(pub Int): comparison of the wrapped integer
impl PartialEqSpecImpl for DbUnits {
    open spec fn obeys_eq_spec() -> bool { true }
    open spec fn eq_spec(&self, other: &Self) -> bool { self.0 == other.0 }
}
impl PartialEq for DbUnits { fn eq(&self, other: &Self) -> bool { self.0 == other.0 } }
impl PartialOrdSpecImpl for DbUnits {
    open spec fn obeys_partial_cmp_spec() -> bool { true }
    open spec fn partial_cmp_spec(&self, other: &Self) -> Option<Ordering> {
        if self.0 < other.0 { Some(Ordering::Less) } else if self.0 > other.0 { Some(Ordering::Greater) } else { Some(Ordering::Equal) }
    }
}
impl PartialOrd for DbUnits {
    fn partial_cmp(&self, other: &Self) -> Option<Ordering> {
        if self.0 < other.0 { Some(Ordering::Less) } else if self.0 > other.0 { Some(Ordering::Greater) } else { Some(Ordering::Equal) }
    }
}
// model of #[derive(derive_more::Add, Sub)] on DbUnits
impl vstd::std_specs::ops::AddSpecImpl<DbUnits> for DbUnits {
    open spec fn obeys_add_spec() -> bool { true }
    open spec fn add_req(self, rhs: DbUnits) -> bool { isize::MIN <= self.0 + rhs.0 <= isize::MAX }
    open spec fn add_spec(self, rhs: DbUnits) -> DbUnits { DbUnits((self.0 + rhs.0) as isize) }
}
impl std::ops::Add<DbUnits> for DbUnits { type Output = DbUnits; fn add(self, rhs: DbUnits) -> DbUnits { DbUnits(self.0 + rhs.0) } }
impl vstd::std_specs::ops::SubSpecImpl<DbUnits> for DbUnits {
    open spec fn obeys_sub_spec() -> bool { true }
    open spec fn sub_req(self, rhs: DbUnits) -> bool { isize::MIN <= self.0 - rhs.0 <= isize::MAX }
    open spec fn sub_spec(self, rhs: DbUnits) -> DbUnits { DbUnits((self.0 - rhs.0) as isize) }
}
impl std::ops::Sub<DbUnits> for DbUnits { type Output = DbUnits; fn sub(self, rhs: DbUnits) -> DbUnits { DbUnits(self.0 - rhs.0) } }
impl vstd::std_specs::ops::MulSpecImpl<usize> for DbUnits {
    open spec fn obeys_mul_spec() -> bool { true }
    open spec fn mul_req(self, rhs: usize) -> bool { rhs <= isize::MAX && isize::MIN <= rhs * self.0 <= isize::MAX }
    open spec fn mul_spec(self, rhs: usize) -> DbUnits { DbUnits((rhs * self.0) as isize) }
}
/// model of `Int::try_from(usize)` by its documented meaning
#[verifier::external_body]
pub fn vp_int_try_from_usize(w: usize) -> (r: Result<Int, LayoutError>)
    ensures w <= isize::MAX ==> r == Ok::<Int, LayoutError>(w as isize), w > isize::MAX ==> r is Err,
{ match Int::try_from(w) { Ok(v) => Ok(v), Err(_) => Err(LayoutError { }) } }
impl std::ops::Mul<usize> for DbUnits {
    type Output = Self;
//@ fn layout21tetris/src/coords.rs :: impl std::ops::Mul<usize> for DbUnits :: fn mul
//@   sub R5 /Int::try_from\(rhs\)/ => vp_int_try_from_usize(rhs)
//@ end
}
/// exec signed `/` and `%` truncate; for a non-negative dividend and a positive divisor they are floor division and its remainder
impl vstd::std_specs::ops::DivSpecImpl<DbUnits> for DbUnits {
    open spec fn obeys_div_spec() -> bool { true }
    open spec fn div_req(self, rhs: DbUnits) -> bool { self.0 >= 0 && rhs.0 > 0 }
    open spec fn div_spec(self, rhs: DbUnits) -> Int { (self.0 / rhs.0) as isize }
}
impl std::ops::Div<DbUnits> for DbUnits {
    type Output = Int;
//@ fn layout21tetris/src/coords.rs :: impl std::ops::Div<DbUnits> for DbUnits :: fn div
//@ end
}
impl vstd::std_specs::ops::RemSpecImpl<DbUnits> for DbUnits {
    open spec fn obeys_rem_spec() -> bool { true }
    open spec fn rem_req(self, rhs: DbUnits) -> bool { self.0 >= 0 && rhs.0 > 0 }
    open spec fn rem_spec(self, rhs: DbUnits) -> Int { (self.0 % rhs.0) as isize }
}
/// ASSUMED (machine arithmetic): this Verus release leaves the machine `%` on signed integers unspecified; for a non-negative dividend and a
/// positive divisor Rust's truncated remainder is the mathematical one.  Real body: `self.raw().rem(rhs.raw())`
impl std::ops::Rem<DbUnits> for DbUnits {
    type Output = Int;
    #[verifier::external_body]
    fn rem(self, rhs: DbUnits) -> Int { self.0 % rhs.0 }
}
/// model of `usize::try_from(Int).unwrap()` (panics on a negative value: precondition)
pub fn vp_usize_from_int(v: Int) -> (r: usize) requires v >= 0 ensures r == v { v as usize }
/// R5: `!dir` (impl Not for Dir) is `dir.other()`
pub fn vp_not(d: Dir) -> (r: Dir) ensures r == (match d { Dir::Horiz => Dir::Vert, Dir::Vert => Dir::Horiz }) { d.other() }
/// module-path shim
pub mod outline { pub use super::Outline; }
impl Outline {
//@ fn layout21tetris/src/outline.rs :: impl Outline :: fn max
//@   ret r
//@   spec
//|     requires self.x@.len() >= 1, self.y@.len() >= 1,
//|     ensures r == (match dir { Dir::Horiz => self.x@[0], Dir::Vert => self.y@[self.y@.len() - 1] }),
//@ end
}
/// R5: each cell view reduced to the two fields read here (outline, metals); field names and priority order as in cell.rs
pub struct ViewModel { pub outline: Outline, pub metals: usize }
pub struct Cell { pub name: String, pub abs: Option<ViewModel>, pub layout: Option<ViewModel>, pub raw: Option<ViewModel> }
pub open spec fn cell_view(c: Cell) -> Option<ViewModel> { if c.abs is Some { c.abs } else if c.layout is Some { c.layout } else if c.raw is Some { c.raw } else { None } }
impl Cell {
//@ fn layout21tetris/src/cell.rs :: impl Cell :: fn outline
//@   ret r
//@   spec
//|     ensures r is Ok <==> cell_view(*self) is Some, r is Ok ==> *r->Ok_0 == cell_view(*self)->0.outline,
//@ end
//@ fn layout21tetris/src/cell.rs :: impl Cell :: fn metals
//@   ret r
//@   spec
//|     ensures r is Ok <==> cell_view(*self) is Some, r is Ok ==> r->Ok_0 == cell_view(*self)->0.metals,
//@ end
}
pub struct ArrayInstance { pub name: String }
pub struct GroupInstance { pub name: String }
pub struct RelAssign { pub net: String }
//@ item layout21tetris/src/placement.rs :: enum Align
//@ end
//@ item layout21tetris/src/placement.rs :: enum SepBy
//@ end
//@ item layout21tetris/src/placement.rs :: struct Separation
//@ end
//@ item layout21tetris/src/placement.rs :: enum Placeable
//@ end
//@ item layout21tetris/src/placement.rs :: struct RelativePlace
//@ end
//@ item layout21tetris/src/placement.rs :: enum Place
//@ end
//@ item layout21tetris/src/instance.rs :: struct Instance
//@ end
impl<T> Place<T> {
//@ fn layout21tetris/src/placement.rs :: impl<T> Place<T> :: fn abs
//@   ret r
//@   spec
//|     ensures r is Ok <==> *self is Abs, r is Ok ==> *r->Ok_0 == self->Abs_0,
//@ end
}
impl Instance {
//@ fn layout21tetris/src/instance.rs :: impl Instance :: fn reflected
//@   ret r
//@   spec
//|     ensures r == (match dir { Dir::Horiz => self.reflect_horiz, Dir::Vert => self.reflect_vert }),
//@ end
}
/// R5: the layer stack reduced to what is read here
pub struct PrimitiveLayer { pub pitches: Xy<DbUnits> }
pub struct ValidStack { pub prim: PrimitiveLayer }
pub struct MetalLayer { pub dir: Dir }
pub struct LayerPeriodData { pub signals: Vec<usize> }
pub mod validate { pub use super::{ValidMetalLayer, LibValidator, ValidAssign}; }
pub struct ValidMetalLayer { pub spec: MetalLayer, pub index: usize, pub period_data: LayerPeriodData, pub pitch: DbUnits }
/// the gridded library is only handed on (by reference) into the temporary cell record
pub struct Library { pub name: String }
pub struct RawExporter { pub lib: Library, pub stack: ValidStack }
//@ item layout21tetris/src/tracks.rs :: struct TrackRef
//@   derive Debug, Clone, Copy
//@ end
//@ item layout21tetris/src/tracks.rs :: struct TrackCross
//@   derive Debug, Clone, Copy
//@ end
/// model of slotmap's AssignKey and of the validated assignments table (read-only here)
#[derive(Debug, Clone, Copy)]
pub struct AssignKey { pub k: u64 }
pub struct ValidAssign { pub src: Assign, pub top: TrackRef, pub bot: TrackRef }
pub struct AssignMap { pub v: Vec<ValidAssign> }
impl AssignMap {
    /// the keys handed out so far, in order (model of SlotMap<AssignKey, ValidAssign>: insert-only here)
    pub uninterp spec fn keys(&self) -> Seq<AssignKey>;
    #[verifier::external_body]
    pub fn with_key() -> (r: Self) ensures r.keys().len() == 0 { unimplemented!() }
    /// model of SlotMap::insert: a NEW key for the value; earlier keys keep their values
    #[verifier::external_body]
    pub fn insert(&mut self, v: ValidAssign) -> (k: AssignKey)
        ensures final(self).keys() == old(self).keys().push(k), !old(self).keys().contains(k), final(self).lookup(k) == Some(v),
            forall|j: AssignKey| old(self).keys().contains(j) ==> #[trigger] final(self).lookup(j) == old(self).lookup(j),
    { unimplemented!() }
}
/// ASSUMED copies of the contracts proved in unit tetris_validate (the stack here is reduced differently: only how many metal layers it has matters)
pub uninterp spec fn stack_metals(s: ValidStack) -> int;
pub uninterp spec fn cross_ok(s: ValidStack, c: TrackCross) -> bool;
pub struct LibValidator<'stk> { pub stack: &'stk ValidStack }
impl<'stk> LibValidator<'stk> {
    pub fn new(stack: &'stk ValidStack) -> (r: Self) ensures r.stack == stack { Self { stack } }
    #[verifier::external_body]
    pub fn validate_track_cross(&mut self, i: &TrackCross) -> (r: LayoutResult<()>) ensures final(self).stack == old(self).stack, (r is Ok) == cross_ok(*old(self).stack, *i) { unimplemented!() }
    #[verifier::external_body]
    pub fn validate_assign(&mut self, assn: &Assign) -> (r: LayoutResult<ValidAssign>)
        ensures final(self).stack == old(self).stack,
            r is Ok ==> cross_ok(*old(self).stack, assn.at) && r->Ok_0.src == *assn && r->Ok_0.top.layer == r->Ok_0.bot.layer + 1
                && ((r->Ok_0.top == assn.at.track && r->Ok_0.bot == assn.at.cross) || (r->Ok_0.top == assn.at.cross && r->Ok_0.bot == assn.at.track)),
    { unimplemented!() }
}
impl ValidStack {
    /// model of ValidStack::metal (the layer itself is not used by temp_cell): Ok exactly for an index inside the stack
    #[verifier::external_body]
    pub fn metal(&self, idx: usize) -> (r: LayoutResult<&ValidMetalLayer>) ensures (r is Ok) == (idx < stack_metals(*self)) { unimplemented!() }
}
/// model of `vec![vec![]; n]`: n empty lists
#[verifier::external_body]
pub fn vp_vec_of_empty<T>(n: usize) -> (r: Vec<Vec<T>>) ensures r@.len() == n, forall|i: int| 0 <= i < n ==> (#[trigger] r@[i])@.len() == 0 { let mut v = Vec::new(); for _ in 0..n { v.push(Vec::new()); } v }
impl AssignMap {
    pub uninterp spec fn lookup(&self, k: AssignKey) -> Option<ValidAssign>;
    /// model of SlotMap::get
    #[verifier::external_body]
    pub fn get(&self, k: AssignKey) -> (r: Option<&ValidAssign>) ensures (r is Some) == (self.lookup(k) is Some), r is Some ==> *r->0 == self.lookup(k)->0 { unimplemented!() }
}
/// R5: the temporary per-cell / per-layer records reduced to the fields temp_cell_layer_period reads; PtrList<T> as Vec<Ptr<T>>
/// R5: the gridded layout reduced to what temp_cell_layer reads
//@ item layout21tetris/src/stack.rs :: struct Assign
//@ end
impl Clone for Assign { #[verifier::external_body] fn clone(&self) -> (r: Self) ensures r == *self { unimplemented!() } }
pub struct Layout { pub name: String, pub outline: Outline, pub metals: usize, pub instances: Vec<Ptr<Instance>>, pub cuts: Vec<TrackCross>, pub assignments: Vec<Assign> }
pub struct TempCell<'lib> { pub cell: &'lib Layout, pub lib: &'lib Library, pub instances: Vec<Ptr<Instance>>, pub cuts: Vec<Vec<&'lib TrackCross>>, pub assignments: AssignMap, pub top_assns: Vec<Vec<AssignKey>>, pub bot_assns: Vec<Vec<AssignKey>> }
pub struct TempCellLayer<'lib> { pub layer: &'lib ValidMetalLayer, pub cell: &'lib TempCell<'lib>, pub instances: Vec<Ptr<Instance>>, pub pitch: DbUnits, pub nperiods: usize, pub span: DbUnits }
//@ item layout21tetris/src/conv/raw.rs :: struct TempPeriod
//@   pubfields
//@   sub R4 /struct TempPeriod/ => pub struct TempPeriod
//@ end
/// model of Vec::with_capacity (capacity is not observable)
#[verifier::external_body]
pub fn vp_with_capacity<T>(n: usize) -> (r: Vec<T>) ensures r@.len() == 0 { Vec::new() }
/// the cuts of one layer whose track index lies in [lo, hi), in order (spec of the filter/map/collect idiom)
pub open spec fn cuts_in(v: Seq<&TrackCross>, lo: int, hi: int) -> Seq<&TrackCross> { v.filter(|c: &TrackCross| lo <= c.track.track < hi) }
pub open spec fn keys_ok(m: AssignMap, v: Seq<AssignKey>) -> bool { forall|i: int| 0 <= i < v.len() ==> m.lookup(#[trigger] v[i]) is Some }
pub open spec fn top_in(m: AssignMap, v: Seq<AssignKey>, lo: int, hi: int) -> Seq<AssignKey> { v.filter(|k: AssignKey| lo <= m.lookup(k)->0.top.track < hi) }
pub open spec fn bot_in(m: AssignMap, v: Seq<AssignKey>, lo: int, hi: int) -> Seq<AssignKey> { v.filter(|k: AssignKey| lo <= m.lookup(k)->0.bot.track < hi) }
/// models of the iterator plumbing `v.iter().filter(f).copied().collect()` / `v.iter().filter(f).map(|r| *r).collect()` (rule R6): the elements
/// for which the predicate answers true, in order.  The predicate itself is the REAL closure of the source, verified against `pred`.
#[verifier::external_body]
pub fn vp_filter_copied<F: Fn(&&AssignKey) -> bool>(v: &Vec<AssignKey>, f: F, Ghost(pred): Ghost<spec_fn(AssignKey) -> bool>) -> (out: Vec<AssignKey>)
    requires forall|i: int| 0 <= i < v@.len() ==> #[trigger] f.requires((&&v@[i],)), forall|i: int, b: bool| 0 <= i < v@.len() && #[trigger] f.ensures((&&v@[i],), b) ==> b == pred(v@[i]),
    ensures out@ == v@.filter(pred),
{ v.iter().filter(f).copied().collect() }
#[verifier::external_body]
pub fn vp_filter_refs<'a, F: Fn(&&&'a TrackCross) -> bool>(v: &Vec<&'a TrackCross>, f: F, Ghost(pred): Ghost<spec_fn(&TrackCross) -> bool>) -> (out: Vec<&'a TrackCross>)
    requires forall|i: int| 0 <= i < v@.len() ==> #[trigger] f.requires((&&v@[i],)), forall|i: int, b: bool| 0 <= i < v@.len() && #[trigger] f.ensures((&&v@[i],), b) ==> b == pred(v@[i]),
    ensures out@ == v@.filter(pred),
{ v.iter().filter(f).map(|r| *r).collect() }

// =====================================================================================================
// SPEC (C08: "the spans blocked by instances"; instances "placed on the grid in any reflection")
// =====================================================================================================
pub open spec fn xy_dir<T>(p: Xy<T>, d: Dir) -> T { match d { Dir::Horiz => p.x, Dir::Vert => p.y } }
pub open spec fn refl(i: Instance, d: Dir) -> bool { match d { Dir::Horiz => i.reflect_horiz, Dir::Vert => i.reflect_vert } }
pub open spec fn cell_max(c: Cell, d: Dir) -> int { let o = cell_view(c)->0.outline; (match d { Dir::Horiz => o.x@[0], Dir::Vert => o.y@[o.y@.len() - 1] }).num as int }
/// ORACLE (the instance bounding box of C09, one axis): an instance placed at `loc` extends by its cell's size away from `loc`,
/// towards negative coordinates when reflected in that direction.  In primitive pitches.
pub open spec fn inst_lo(i: Instance, d: Dir) -> int { let l = xy_dir(i.loc->Abs_0, d).num as int; if refl(i, d) { l - cell_max(*i.cell.v, d) } else { l } }
pub open spec fn inst_hi(i: Instance, d: Dir) -> int { let l = xy_dir(i.loc->Abs_0, d).num as int; if refl(i, d) { l } else { l + cell_max(*i.cell.v, d) } }
pub open spec fn ppitch(s: ValidStack, d: Dir) -> int { xy_dir(s.prim.pitches, d).0 as int }
pub open spec fn other(d: Dir) -> Dir { match d { Dir::Horiz => Dir::Vert, Dir::Vert => Dir::Horiz } }
/// the instance overlaps period `n` of the layer (open intervals: touching edge to edge is not an intersection), across the track direction, in db units
pub open spec fn intersects(s: ValidStack, i: Instance, l: ValidMetalLayer, n: int) -> bool {
    let d = other(l.spec.dir);
    inst_hi(i, d) * ppitch(s, d) > l.pitch.0 * n && inst_lo(i, d) * ppitch(s, d) < l.pitch.0 * (n + 1)
}
/// machine-range side conditions: an absolute location is within 2^32 pitches with the right directions; a cell with a view has a well-formed outline within 2^32
pub open spec fn loc_ok(i: Instance) -> bool { forall|d: Dir| -0x1_0000_0000 <= xy_dir(i.loc->Abs_0, d).num <= 0x1_0000_0000 && (#[trigger] xy_dir(i.loc->Abs_0, d)).dir == d }
pub open spec fn size_ok(c: Cell) -> bool { outline_wf(cell_view(c)->0.outline) && forall|d: Dir| 0 <= #[trigger] cell_max(c, d) <= 0x1_0000_0000 }
pub open spec fn inst_ok(i: Instance) -> bool { (i.loc is Abs ==> loc_ok(i)) && (cell_view(*i.cell.v) is Some ==> size_ok(*i.cell.v)) }
/// the cuts of a layout filed by the layer of their track: list `l` holds exactly the cuts with track layer `l`, in order
pub open spec fn cuts_of_layer(cs: Seq<TrackCross>, l: int) -> Seq<TrackCross> { cs.filter(|c: TrackCross| c.track.layer == l) }
pub open spec fn derefs_c(v: Seq<&TrackCross>) -> Seq<TrackCross> { Seq::new(v.len(), |i: int| *v[i]) }
/// machine-range / domain condition of temp_cell: every cut and assignment lies on layers the CELL uses (the lists are indexed by layer: the
/// real code panics otherwise — the validator only checks the stack's layer count)
pub open spec fn layout_in_range(l: Layout) -> bool {
    &&& forall|i: int| 0 <= i < l.cuts@.len() ==> (#[trigger] l.cuts@[i]).track.layer < l.metals
    &&& forall|i: int| 0 <= i < l.assignments@.len() ==> (#[trigger] l.assignments@[i]).at.track.layer < l.metals && l.assignments@[i].at.cross.layer < l.metals
}
/// the instances whose cell comes up to layer `ix` (has more metal layers than `ix`), in order: the ones that can block that layer
pub open spec fn reaching(v: Seq<Ptr<Instance>>, ix: int) -> Seq<Ptr<Instance>> decreases v.len() {
    if v.len() == 0 { Seq::empty() } else if cell_view(*v.last().v.cell.v)->0.metals > ix { reaching(v.drop_last(), ix).push(v.last()) } else { reaching(v.drop_last(), ix) }
}
/// the instances (of the layer's list) that intersect period `n`, in order
pub open spec fn blockers(s: ValidStack, v: Seq<Ptr<Instance>>, l: ValidMetalLayer, n: int) -> Seq<Ptr<Instance>> decreases v.len() {
    if v.len() == 0 { Seq::empty() } else if intersects(s, *v.last().v, l, n) { blockers(s, v.drop_last(), l, n).push(v.last()) } else { blockers(s, v.drop_last(), l, n) }
}
/// a blockage entry is its instance's extent along the track direction (in primitive pitches), reflection included
pub open spec fn blockage_is(b: (PrimPitches, PrimPitches, Ptr<Instance>), p: Ptr<Instance>, d: Dir) -> bool {
    b.2 == p && b.0.dir == d && b.1.dir == d && b.0.num == inst_lo(*p.v, d) && b.1.num == inst_hi(*p.v, d)
}
pub open spec fn blockages_are(bs: Seq<(PrimPitches, PrimPitches, Ptr<Instance>)>, ps: Seq<Ptr<Instance>>, d: Dir) -> bool {
    bs.len() == ps.len() && forall|k: int| 0 <= k < ps.len() ==> blockage_is(#[trigger] bs[k], ps[k], d)
}
pub open spec fn insts_ok(v: Seq<Ptr<Instance>>) -> bool { forall|k: int| 0 <= k < v.len() ==> inst_ok(*(#[trigger] v[k]).v) }
pub open spec fn stack_ok(s: ValidStack) -> bool { 0 < s.prim.pitches.x.0 <= 0x100_0000 && 0 < s.prim.pitches.y.0 <= 0x100_0000 }

pub proof fn lemma_filter_push(s: Seq<TrackCross>, c: TrackCross, l: int)
    ensures cuts_of_layer(s.push(c), l) == (if c.track.layer == l { cuts_of_layer(s, l).push(c) } else { cuts_of_layer(s, l) }),
{
    reveal(Seq::filter);
    assert(s.push(c).drop_last() == s);
}
pub proof fn lemma_prod_bound(a: int, b: int, ba: int, bb: int)
    requires -ba <= a <= ba, 0 <= b <= bb, ba >= 0,
    ensures -(ba * bb) <= a * b <= ba * bb,
{
    assert(a * b <= ba * bb) by (nonlinear_arith) requires a <= ba, 0 <= b <= bb, ba >= 0;
    assert(a * b >= -(ba * bb)) by (nonlinear_arith) requires a >= -ba, 0 <= b <= bb, ba >= 0;
}
pub proof fn lemma_distrib(l: int, m: int, p: int) ensures (l - m) * p == l * p - m * p, (l + m) * p == l * p + m * p { assert((l - m) * p == l * p - m * p) by (nonlinear_arith); assert((l + m) * p == l * p + m * p) by (nonlinear_arith); }
impl RawExporter {
    /// model of ErrorHelper::fail: always an error
    #[verifier::external_body]
    fn fail<T, M>(&self, msg: M) -> (r: LayoutResult<T>) ensures r is Err { Err(LayoutError { }) }
//@ fn layout21tetris/src/conv/raw.rs :: impl<'lib> RawExporter :: fn db_units
//@   ret r
//@   sub R5 /pt: impl Into<UnitSpeced>/ => pt: UnitSpeced
//@   sub R5 /let pt: UnitSpeced = pt\.into\(\);/ => 
//@   sub R5 /\(p\.num \* pitch\.raw\(\)\)\.into\(\)/ => DbUnits(p.num * pitch.raw())
//@   spec
//|     requires !(pt is LayerPitches), pt is PrimPitches ==> isize::MIN <= pt->PrimPitches_0.num * xy_dir(self.stack.prim.pitches, pt->PrimPitches_0.dir).0 <= isize::MAX,
//|     ensures r.0 == (match pt { UnitSpeced::DbUnits(u) => u.0 as int, UnitSpeced::PrimPitches(p) => p.num * xy_dir(self.stack.prim.pitches, p.dir).0, _ => 0 }),
//@ end
//@ fn layout21tetris/src/conv/raw.rs :: impl<'lib> RawExporter :: fn temp_cell
//@   ret r
//@   sub R6 /let mut cuts: Vec<Vec<&TrackCross>> = vec!\[vec!\[\]; layout\.metals\];/ => let mut cuts: Vec<Vec<&TrackCross>> = vp_vec_of_empty(layout.metals);
//@   sub R6 /let mut bot_assns = vec!\[vec!\[\]; layout\.metals\];/ => let mut bot_assns: Vec<Vec<AssignKey>> = vp_vec_of_empty(layout.metals);
//@   sub R6 /let mut top_assns = vec!\[vec!\[\]; layout\.metals\];/ => let mut top_assns: Vec<Vec<AssignKey>> = vp_vec_of_empty(layout.metals);
//@   sub R5 /let mut assignments = SlotMap::with_key\(\);/ => let mut assignments = AssignMap::with_key();
//@   sub R5 /cuts\[(cut\.\w+\.layer)\]\.push\(&cut\);/ => cuts[\1].push(cut);
//@   spec
//|     requires layout_in_range(*layout),
//|     ensures r is Ok ==> ({
//|         let t = r->Ok_0;
//|         &&& t.cell == layout &&& t.instances@ == layout.instances@
//|         // one list of cuts per metal layer of the cell; list l holds exactly the cuts on layer l, in order; every cut was validated
//|         &&& t.cuts@.len() == layout.metals &&& forall|l: int| 0 <= l < layout.metals ==> derefs_c((#[trigger] t.cuts@[l])@) == cuts_of_layer(layout.cuts@, l)
//|         &&& forall|i: int| 0 <= i < layout.cuts@.len() ==> cross_ok(self.stack, #[trigger] layout.cuts@[i])
//|         // one validated assignment per assignment, under a key of its own, filed under its top layer and under its bottom layer
//|         &&& t.assignments.keys().len() == layout.assignments@.len() &&& t.top_assns@.len() == layout.metals &&& t.bot_assns@.len() == layout.metals
//|         &&& forall|i: int| 0 <= i < layout.assignments@.len() ==> ({
//|                 let k = #[trigger] t.assignments.keys()[i]; let v = t.assignments.lookup(k);
//|                 v is Some && v->0.src == layout.assignments@[i] && v->0.top.layer == v->0.bot.layer + 1 && v->0.top.layer < layout.metals
//|                     && t.top_assns@[v->0.top.layer as int]@.contains(k) && t.bot_assns@[v->0.bot.layer as int]@.contains(k)
//|             })
//|     }),
//@   loop 1 iter it
//|             invariant layout_in_range(*layout), instances@ == layout.instances@, cuts@.len() == layout.metals, it.index@ <= layout.cuts@.len(),
//|                 forall|l: int| 0 <= l < layout.metals ==> derefs_c((#[trigger] cuts@[l])@) == cuts_of_layer(layout.cuts@.take(it.index@ as int), l),
//|                 forall|i: int| 0 <= i < it.index@ ==> cross_ok(self.stack, #[trigger] layout.cuts@[i]),
//@   before1 /validate::LibValidator::new\(&self\.stack\)\.validate_track_cross\(cut\)\?;/
//|             let ghost c0 = cuts@;
//|             proof { assert(*cut == layout.cuts@[it.index@ as int]); }
//@   loopend 1
//|             proof {
//|                 let t0 = layout.cuts@.take(it.index@ as int); let t1 = layout.cuts@.take(it.index@ + 1);
//|                 assert(t1 == t0.push(*cut));
//|                 assert forall|l: int| 0 <= l < layout.metals implies derefs_c((#[trigger] cuts@[l])@) == cuts_of_layer(t1, l) by {
//|                     lemma_filter_push(t0, *cut, l);
//|                     if l == cut.track.layer { assert(derefs_c(cuts@[l]@) =~= derefs_c(c0[l]@).push(*cut)); } else { assert(cuts@[l] == c0[l]); }
//|                 }
//|             }
//@   before1 /let mut bot_assns/
//|         proof { assert(layout.cuts@.take(layout.cuts@.len() as int) == layout.cuts@); }
//@   loop 2 iter it2
//|             invariant layout_in_range(*layout), instances@ == layout.instances@, cuts@.len() == layout.metals, top_assns@.len() == layout.metals, bot_assns@.len() == layout.metals,
//|                 forall|l: int| 0 <= l < layout.metals ==> derefs_c((#[trigger] cuts@[l])@) == cuts_of_layer(layout.cuts@, l),
//|                 forall|i: int| 0 <= i < layout.cuts@.len() ==> cross_ok(self.stack, #[trigger] layout.cuts@[i]),
//|                 it2.index@ <= layout.assignments@.len(), assignments.keys().len() == it2.index@,
//|                 forall|i: int| 0 <= i < it2.index@ ==> ({
//|                     let k = #[trigger] assignments.keys()[i]; let v = assignments.lookup(k);
//|                     v is Some && v->0.src == layout.assignments@[i] && v->0.top.layer == v->0.bot.layer + 1 && v->0.top.layer < layout.metals
//|                         && top_assns@[v->0.top.layer as int]@.contains(k) && bot_assns@[v->0.bot.layer as int]@.contains(k)
//|                 }),
//@   before1 /let v = validate::LibValidator::new\(&self\.stack\)\.validate_assign\(assn\)\?;/
//|             let ghost ks0 = assignments.keys(); let ghost am0 = assignments; let ghost ta0 = top_assns@; let ghost ba0 = bot_assns@;
//|             proof { assert(*assn == layout.assignments@[it2.index@ as int]); }
//@   loopend 2
//|             proof {
//|                 let n = it2.index@ as int;
//|                 assert(assignments.keys()[n] == k);
//|                 assert(top_assns@[top as int]@.last() == k); assert(bot_assns@[bot as int]@.last() == k);
//|                 assert forall|i: int| 0 <= i < n implies ({
//|                     let kk = #[trigger] assignments.keys()[i]; let v = assignments.lookup(kk);
//|                     v is Some && v->0.src == layout.assignments@[i] && v->0.top.layer == v->0.bot.layer + 1 && v->0.top.layer < layout.metals
//|                         && top_assns@[v->0.top.layer as int]@.contains(kk) && bot_assns@[v->0.bot.layer as int]@.contains(kk)
//|                 }) by {
//|                     let kk = ks0[i]; assert(assignments.keys()[i] == kk); assert(ks0.contains(kk)); let v = am0.lookup(kk);
//|                     let tl = v->0.top.layer as int; let bl = v->0.bot.layer as int;
//|                     let j = choose|j: int| 0 <= j < ta0[tl]@.len() && ta0[tl]@[j] == kk; assert(top_assns@[tl]@[j] == kk);
//|                     let j2 = choose|j2: int| 0 <= j2 < ba0[bl]@.len() && ba0[bl]@[j2] == kk; assert(bot_assns@[bl]@[j2] == kk);
//|                 }
//|             }
//@ end
//@ fn layout21tetris/src/conv/raw.rs :: impl<'lib> RawExporter :: fn temp_cell_layer
//@   ret r
//@   sub R5 /Vec::with_capacity\(temp_cell\.instances\.len\(\)\)/ => vp_with_capacity(temp_cell.instances.len())
//@   sub R5 /let instances = PtrList::from_ptrs\(instances\);/ => 
//@   sub R5 /self\.db_units\(cell\.outline\.x\[0\]\)/ => self.db_units(UnitSpeced::PrimPitches(cell.outline.x[0]))
//@   sub R5 /self\.db_units\(cell\.outline\.y\[0\]\)/ => self.db_units(UnitSpeced::PrimPitches(cell.outline.y[0]))
//@   sub R5 /usize::try_from\(breadth \/ layer\.pitch\)\.unwrap\(\)/ => vp_usize_from_int(breadth / layer.pitch)
//@   spec
//|     requires stack_ok(self.stack), outline_wf(temp_cell.cell.outline), temp_cell.cell.outline.x@[0].num <= 0x1_0000_0000, temp_cell.cell.outline.y@[0].num <= 0x1_0000_0000, layer.pitch.0 > 0,
//|     ensures r is Ok ==> ({
//|         let t = r->Ok_0; let o = temp_cell.cell.outline; let d = layer.spec.dir;
//|         let along = (match d { Dir::Horiz => o.x@[0], Dir::Vert => o.y@[0] }).num * ppitch(self.stack, d);
//|         let across = (match d { Dir::Horiz => o.y@[0], Dir::Vert => o.x@[0] }).num * ppitch(self.stack, other(d));
//|         &&& t.layer == layer &&& t.cell == temp_cell &&& t.pitch == layer.pitch
//|         // the instances that come up to this layer, in order
//|         &&& t.instances@ == reaching(temp_cell.instances@, layer.index as int)
//|         // the layer spans the outline along its tracks; across them the outline is a whole number of periods
//|         &&& t.span.0 == along &&& across % (layer.pitch.0 as int) == 0 &&& t.nperiods == across / (layer.pitch.0 as int)
//|     }),
//@   loop 1 iter it
//|             invariant it.index@ <= temp_cell.instances@.len(), instances@ == reaching(temp_cell.instances@.take(it.index@ as int), layer.index as int),
//@   before1 /if cell\.metals\(\)\?/
//|             proof { let t1 = temp_cell.instances@.take(it.index@ + 1); assert(*ptr == temp_cell.instances@[it.index@ as int]); assert(t1.drop_last() == temp_cell.instances@.take(it.index@ as int)); assert(t1.last() == *ptr); }
//@   before1 /let cell = temp_cell\.cell;/
//|         proof {
//|             assert(temp_cell.instances@.take(temp_cell.instances@.len() as int) == temp_cell.instances@);
//|             lemma_prod_bound(temp_cell.cell.outline.x@[0].num as int, ppitch(self.stack, Dir::Horiz), 0x1_0000_0000, 0x100_0000);
//|             lemma_prod_bound(temp_cell.cell.outline.y@[0].num as int, ppitch(self.stack, Dir::Vert), 0x1_0000_0000, 0x100_0000);
//|             assert(temp_cell.cell.outline.x@[0].num * ppitch(self.stack, Dir::Horiz) >= 0) by (nonlinear_arith) requires temp_cell.cell.outline.x@[0].num >= 0, ppitch(self.stack, Dir::Horiz) >= 0;
//|             assert(temp_cell.cell.outline.y@[0].num * ppitch(self.stack, Dir::Vert) >= 0) by (nonlinear_arith) requires temp_cell.cell.outline.y@[0].num >= 0, ppitch(self.stack, Dir::Vert) >= 0;
//|         }
//@ end
//@ fn layout21tetris/src/conv/raw.rs :: impl<'lib> RawExporter :: fn temp_cell_layer_period
//@   ret r
//@   sub R5 /Vec::with_capacity\(temp_layer\.instances\.len\(\)\)/ => vp_with_capacity(temp_layer.instances.len())
//@   sub R5 /let inst = &\*ptr\.read\(\)\?;/ => let inst = ptr.read()?;
//@   sub R6 /let cuts: Vec<&TrackCross> = cell\.cuts\[temp_layer\.layer\.index\]\s*\.iter\(\)\s*\.filter\(\|cut\| \{/ => let cuts: Vec<&TrackCross> = vp_filter_refs(&cell.cuts[temp_layer.layer.index], |cut: &&&TrackCross| -> (b: bool) ensures b == (relevant_track_nums.0 <= cut.track.track < relevant_track_nums.1) {
//@   sub R6 /(let cuts: Vec<&TrackCross> = [\s\S]*?)\}\)\s*\.map\(\|r\| \*r\)\s*\.collect\(\);/ => \1}, Ghost(|c: &TrackCross| relevant_track_nums.0 <= c.track.track < relevant_track_nums.1));
//@   sub R6 /let top_assns = cell\.top_assns\[temp_layer\.layer\.index\]\s*\.iter\(\)\s*\.filter\(\|id\| \{/ => let top_assns = vp_filter_copied(&cell.top_assns[temp_layer.layer.index], |id: &&AssignKey| -> (b: bool) requires cell.assignments.lookup(**id) is Some ensures b == (relevant_track_nums.0 <= cell.assignments.lookup(**id)->0.top.track < relevant_track_nums.1) {
//@   sub R6 /(let top_assns = [\s\S]*?)\}\)\s*\.copied\(\)\s*\.collect\(\);/ => \1}, Ghost(|k: AssignKey| relevant_track_nums.0 <= cell.assignments.lookup(k)->0.top.track < relevant_track_nums.1));
//@   sub R6 /let bot_assns = cell\.bot_assns\[temp_layer\.layer\.index\]\s*\.iter\(\)\s*\.filter\(\|id\| \{/ => let bot_assns = vp_filter_copied(&cell.bot_assns[temp_layer.layer.index], |id: &&AssignKey| -> (b: bool) requires cell.assignments.lookup(**id) is Some ensures b == (relevant_track_nums.0 <= cell.assignments.lookup(**id)->0.bot.track < relevant_track_nums.1) {
//@   sub R6 /(let bot_assns = [\s\S]*?)\}\)\s*\.copied\(\)\s*\.collect\(\);/ => \1}, Ghost(|k: AssignKey| relevant_track_nums.0 <= cell.assignments.lookup(k)->0.bot.track < relevant_track_nums.1));
//@   sub R5 /\.ok_or\(LayoutError::from\("Internal error: invalid assignment"\)\)\s*\.unwrap\(\)/ => .unwrap()
//@   spec
//|     requires stack_ok(self.stack), insts_ok(temp_layer.instances@), 0 <= temp_layer.layer.pitch.0 <= 0x1_0000_0000, periodnum <= 0x1000_0000,
//|         temp_layer.layer.period_data.signals@.len() <= 0x1000_0000,
//|         temp_layer.layer.index < temp_layer.cell.cuts@.len(), temp_layer.layer.index < temp_layer.cell.top_assns@.len(), temp_layer.layer.index < temp_layer.cell.bot_assns@.len(),
//|         // every assignment key filed under this layer is in the table (the closures `unwrap()` the lookup)
//|         keys_ok(temp_layer.cell.assignments, temp_layer.cell.top_assns@[temp_layer.layer.index as int]@), keys_ok(temp_layer.cell.assignments, temp_layer.cell.bot_assns@[temp_layer.layer.index as int]@),
//|     ensures r is Ok ==> ({
//|         let tp = r->Ok_0; let l = *temp_layer.layer; let nsig = l.period_data.signals@.len() as int; let ix = l.index as int;
//|         &&& tp.periodnum == periodnum &&& tp.cell == temp_layer.cell &&& tp.layer == temp_layer
//|         // one blockage per instance that intersects this period, in order, spanning the instance's extent along the track (reflection included)
//|         &&& blockages_are(tp.blockages@, blockers(self.stack, temp_layer.instances@, l, periodnum as int), l.spec.dir)
//|         // the cuts and assignments of this layer whose track lies in this period
//|         &&& tp.cuts@ == cuts_in(temp_layer.cell.cuts@[ix]@, periodnum * nsig, (periodnum + 1) * nsig)
//|         &&& tp.top_assns@ == top_in(temp_layer.cell.assignments, temp_layer.cell.top_assns@[ix]@, periodnum * nsig, (periodnum + 1) * nsig)
//|         &&& tp.bot_assns@ == bot_in(temp_layer.cell.assignments, temp_layer.cell.bot_assns@[ix]@, periodnum * nsig, (periodnum + 1) * nsig)
//|     }),
//@   loop 1 iter it
//|             invariant stack_ok(self.stack), insts_ok(temp_layer.instances@), 0 <= layer.pitch.0 <= 0x1_0000_0000, periodnum <= 0x1000_0000, layer == temp_layer.layer, dir == layer.spec.dir, cell == temp_layer.cell,
//|                 it.index@ <= temp_layer.instances@.len(),
//|                 blockages_are(blockages@, blockers(self.stack, temp_layer.instances@.take(it.index@ as int), *layer, periodnum as int), dir),
//@   before /if self\.instance_intersects\(inst, layer, periodnum\)\? \{/
//|             let ghost bl0 = blockages@;
//|             proof {
//|                 let t1 = temp_layer.instances@.take(it.index@ + 1);
//|                 assert(*ptr == temp_layer.instances@[it.index@ as int]); assert(t1.drop_last() == temp_layer.instances@.take(it.index@ as int)); assert(t1.last() == *ptr);
//|                 assert(inst_ok(*ptr.v));
//|                 if ptr.v.loc is Abs { assert(xy_dir(ptr.v.loc->Abs_0, dir).dir == dir); }
//|                 if cell_view(*ptr.v.cell.v) is Some { assert(0 <= cell_max(*ptr.v.cell.v, dir) <= 0x1_0000_0000); }
//|             }
//@   before1 /let nsig = temp_layer\.layer\.period_data\.signals\.len\(\);/
//|         proof { assert(temp_layer.instances@.take(temp_layer.instances@.len() as int) == temp_layer.instances@);
//|             assert(periodnum * temp_layer.layer.period_data.signals@.len() <= 0x1000_0000 * 0x1000_0000) by (nonlinear_arith) requires periodnum <= 0x1000_0000, temp_layer.layer.period_data.signals@.len() <= 0x1000_0000;
//|             assert((periodnum + 1) * temp_layer.layer.period_data.signals@.len() <= 0x1000_0001 * 0x1000_0000) by (nonlinear_arith) requires periodnum <= 0x1000_0000, temp_layer.layer.period_data.signals@.len() <= 0x1000_0000; }
//@ end
//@ fn layout21tetris/src/conv/raw.rs :: impl<'lib> RawExporter :: fn instance_intersects
//@   ret r
//@   sub R5 /let dir = !layer\.spec\.dir;/ => let dir = vp_not(layer.spec.dir);
//@   sub R5 /self\.db_units\(inst\.loc\.abs\(\)\?\[dir\]\)/ => self.db_units(UnitSpeced::PrimPitches(inst.loc.abs()?[dir]))
//@   sub R5 /self\.db_units\(cell\.outline\(\)\?\.max\(dir\)\)/ => self.db_units(UnitSpeced::PrimPitches(cell.outline()?.max(dir)))
//@   spec
//|     requires stack_ok(self.stack), inst_ok(*inst), 0 <= layer.pitch.0 <= 0x1_0000_0000, periodnum <= 0x1000_0000,
//|     ensures r is Ok ==> inst.loc is Abs && cell_view(*inst.cell.v) is Some && r->Ok_0 == intersects(self.stack, *inst, *layer, periodnum as int),
//@   atstart
//|         proof {
//|             let d = other(layer.spec.dir); let pp = ppitch(self.stack, d);
//|             if inst.loc is Abs { let l = xy_dir(inst.loc->Abs_0, d).num as int; assert(xy_dir(inst.loc->Abs_0, d).dir == d); lemma_prod_bound(l, pp, 0x1_0000_0000, 0x100_0000); }
//|             if inst.loc is Abs && cell_view(*inst.cell.v) is Some {
//|                 let l = xy_dir(inst.loc->Abs_0, d).num as int; let m = cell_max(*inst.cell.v, d);
//|                 lemma_prod_bound(m, pp, 0x1_0000_0000, 0x100_0000); lemma_distrib(l, m, pp);
//|                 lemma_prod_bound(periodnum as int, layer.pitch.0 as int, 0x1000_0001, 0x1_0000_0000); lemma_prod_bound(periodnum as int + 1, layer.pitch.0 as int, 0x1000_0001, 0x1_0000_0000);
//|                 assert(periodnum * layer.pitch.0 == layer.pitch.0 * periodnum) by (nonlinear_arith);
//|                 assert((periodnum + 1) * layer.pitch.0 == layer.pitch.0 * (periodnum + 1)) by (nonlinear_arith);
//|             }
//|         }
//@ end
}
// vacuity canaries
proof fn canary_blockers(s: ValidStack, v: Seq<Ptr<Instance>>, l: ValidMetalLayer, bs: Seq<(PrimPitches, PrimPitches, Ptr<Instance>)>)
    requires stack_ok(s), insts_ok(v), v.len() == 2, blockers(s, v, l, 3).len() == 1, blockages_are(bs, blockers(s, v, l, 3), l.spec.dir), v[0].v.reflect_horiz, v[0].v.loc is Abs, cell_view(*v[0].v.cell.v) is Some,
    ensures false {}
proof fn canary_intersects(s: ValidStack, i: Instance, l: ValidMetalLayer) requires stack_ok(s), inst_ok(i), i.loc is Abs, cell_view(*i.cell.v) is Some, intersects(s, i, l, 2), !intersects(s, i, l, 3), i.reflect_vert ensures false {}
}
fn main() {}
