// Unit U6b raw_gds_layout: GdsImporter::import_layout — elements, instances, and label -> net assignment by containment (C06, C07).
use vstd::prelude::*;
use vstd::std_specs::hash::*;
use std::convert::{TryFrom, TryInto};
use std::collections::HashMap;
verus! {
global size_of usize == 8;
//@ include units/common/float.inc.rs
//@ include units/raw_gds/gds.inc.rs

// =====================================================================================================
// MODELS (rule R5)
// =====================================================================================================
/// model of slotmap::SlotMap<ElementKey, Element> as used here (insert, look up by key, drain in insertion order; no removals):
/// a vector, the key being the slot index
#[derive(Debug, Clone, Copy)]
pub struct ElementKey { pub idx: usize }
pub struct ElemSlots { pub v: Vec<Element> }
impl ElemSlots {
    pub fn with_key() -> (r: Self) ensures r.v@.len() == 0 { ElemSlots { v: Vec::new() } }
    pub fn insert(&mut self, e: Element) -> (k: ElementKey) ensures final(self).v@ == old(self).v@.push(e), k.idx == old(self).v@.len() {
        let k = ElementKey { idx: self.v.len() };
        self.v.push(e);
        k
    }
    pub fn vp_into_vec(self) -> (r: Vec<Element>) ensures r@ == self.v@ { self.v }
}
impl Default for Layout { fn default() -> (r: Self) ensures r.name@.len() == 0, r.insts@.len() == 0, r.elems@.len() == 0, r.annotations@.len() == 0 { Layout { name: String::new(), insts: Vec::new(), elems: Vec::new(), annotations: Vec::new() } } }
/// the local helper enum of import_layout, hoisted out of the function body (R5: Verus does not take items declared inside a loop body)
pub enum AddingAnElement { Yes(Element), No(()) }
/// R6: `if let Some(ref mut bucket) = m.get_mut(&k) { bucket.push(x) } else { m.insert(k, vec![x]) }` — append to the key's list, creating it if absent
#[verifier::external_body]
pub fn vp_bucket_push(m: &mut HashMap<i16, Vec<ElementKey>>, k: i16, x: ElementKey)
    ensures final(m)@.dom() == old(m)@.dom().insert(k), final(m)@[k]@ == (if old(m)@.dom().contains(k) { old(m)@[k]@.push(x) } else { seq![x] }),
        forall|j: i16| j != k && old(m)@.dom().contains(j) ==> #[trigger] final(m)@[j] == old(m)@[j],
{ unimplemented!() }
/// model of str::to_lowercase
pub uninterp spec fn lower(s: Seq<char>) -> Seq<char>;
#[verifier::external_body]
pub fn vp_to_lowercase(s: &String) -> (r: String) ensures r@ == lower(s@) { s.to_lowercase() }
#[verifier::external_body]
pub fn vp_string_ne(a: &String, b: &String) -> (r: bool) ensures r == (a@ != b@) { a != b }
/// model of `GdsNode::clone().into()` (an unsupported element kept aside)
#[verifier::external_body]
pub fn vp_node_elem(x: &gds21::GdsNode) -> gds21::GdsElement { unimplemented!() }
/// model of Vec::extend(Vec)
#[verifier::external_body]
pub fn vp_extend_insts(v: &mut Vec<Instance>, w: Vec<Instance>) ensures final(v)@ == old(v)@ + w@ { v.extend(w) }
impl GdsImporter {
    /// R5: the layer-number lookup block of import_layout (`self.layers.read()?` + `selflayers.get(e.layer)` -> `l.layernum` or fail)
    #[verifier::external_body]
    fn vp_layernum(&self, k: LayerKey) -> (r: LayoutResult<i16>) ensures r is Ok ==> r->Ok_0 == knum(k) { unimplemented!() }
}
/// Path::contains as a function of its arguments (its proved bounds: true on every flush segment rectangle, false beyond half the width; unit raw_geom)
pub uninterp spec fn path_has(p: Path, pt: Point) -> bool;
#[verifier::external_body]
pub fn vp_path_contains(p: &Path, pt: &Point) -> (r: bool) ensures r == path_has(*p, *pt) { unimplemented!() }
/// what `Shape::contains` answers
pub open spec fn shape_has(s: Shape, pt: Point) -> bool {
    match s { Shape::Rect(rc) => in_closed_box(rc.p0, rc.p1, pt), Shape::Polygon(p) => inside(p.points@, pt), Shape::Path(p) => path_has(p, pt) }
}
/// ranges under which Polygon::contains is defined
pub open spec fn contains_ok(s: Shape, pt: Point) -> bool {
    match s { Shape::Polygon(p) => all_small(p.points@) && small(pt) && p.points.len() < 0x7fff_ffff_ffff_ffff, _ => true }
}
impl Shape {
    /// model of the enum_dispatch-generated forwarding of ShapeTrait::contains (assumption: the macro forwards to the variant)
    pub fn contains(&self, pt: &Point) -> (r: bool)
        requires contains_ok(*self, *pt),
        ensures r == shape_has(*self, *pt),
    { match self { Shape::Rect(x) => x.contains(pt), Shape::Polygon(x) => x.contains(pt), Shape::Path(x) => vp_path_contains(x, pt) } }
}

// =====================================================================================================
// SPEC (C06: "A text label lying inside a shape on the same layer names that shape's net, all other labels survive as annotations,
//             and no boundary, box, path ... is dropped")
// =====================================================================================================
pub open spec fn is_geom(g: gds21::GdsElement) -> bool { g is GdsBoundary || g is GdsPath || g is GdsBox }
pub open spec fn geom_imp(e: Element, g: gds21::GdsElement) -> bool {
    match g { gds21::GdsElement::GdsBoundary(x) => boundary_imp(e, x), gds21::GdsElement::GdsPath(x) => path_imp(e, x), gds21::GdsElement::GdsBox(x) => box_imp(e, x), _ => false }
}
/// the boundaries, paths and boxes of a structure, in order
pub open spec fn geoms(es: Seq<gds21::GdsElement>) -> Seq<gds21::GdsElement> decreases es.len() {
    if es.len() == 0 { Seq::empty() } else if is_geom(es.last()) { geoms(es.drop_last()).push(es.last()) } else { geoms(es.drop_last()) }
}
/// the text elements of a structure, in order
pub open spec fn texts_of(es: Seq<gds21::GdsElement>) -> Seq<gds21::GdsTextElem> decreases es.len() {
    if es.len() == 0 { Seq::empty() } else if es.last() is GdsTextElem { texts_of(es.drop_last()).push(es.last()->GdsTextElem_0) } else { texts_of(es.drop_last()) }
}
pub open spec fn tpt(t: gds21::GdsTextElem) -> Point { Point { x: t.xy.x as isize, y: t.xy.y as isize } }
/// label `t` lies inside shape `e` on the same layer
pub open spec fn lhit(e: Element, t: gds21::GdsTextElem) -> bool { knum(e.layer) == t.layer && shape_has(e.inner, tpt(t)) }
/// the net a shape ends up with: the (lower-cased) string of the first label that hits it
pub open spec fn net_after(e: Element, ts: Seq<gds21::GdsTextElem>) -> Option<Seq<char>> decreases ts.len() {
    if ts.len() == 0 { None } else {
        match net_after(e, ts.drop_last()) { Some(n) => Some(n), None => if lhit(e, ts.last()) { Some(lower(ts.last().string@)) } else { None } }
    }
}
pub open spec fn hits_any(es: Seq<Element>, t: gds21::GdsTextElem) -> bool { exists|i: int| 0 <= i < es.len() && lhit(#[trigger] es[i], t) }
/// the labels that hit no shape, in order: they survive as annotations
pub open spec fn annots(es: Seq<Element>, ts: Seq<gds21::GdsTextElem>) -> Seq<gds21::GdsTextElem> decreases ts.len() {
    if ts.len() == 0 { Seq::empty() } else if hits_any(es, ts.last()) { annots(es, ts.drop_last()) } else { annots(es, ts.drop_last()).push(ts.last()) }
}
pub open spec fn same_net(n: Option<String>, m: Option<Seq<char>>) -> bool { match (n, m) { (Some(a), Some(b)) => a@ == b, (None, None) => true, _ => false } }
/// element `f` is element `e` (pass 1) with its net resolved against the labels
pub open spec fn elem_done(f: Element, e: Element, ts: Seq<gds21::GdsTextElem>) -> bool {
    f.inner == e.inner && f.layer == e.layer && f.purpose == e.purpose && same_net(f.net, net_after(e, ts))
}
pub open spec fn annot_is(a: TextElement, t: gds21::GdsTextElem) -> bool { a.string@ == t.string@ && a.loc == tpt(t) }
/// every key of the per-layer index is a valid slot of a shape on that layer, and every shape is indexed under its layer
pub open spec fn buckets_ok(m: Map<i16, Vec<ElementKey>>, es: Seq<Element>) -> bool {
    &&& forall|n: i16, q: int| m.dom().contains(n) && 0 <= q < m[n]@.len() ==> (#[trigger] m[n]@[q]).idx < es.len() && knum(es[m[n]@[q].idx as int].layer) == n
    &&& forall|i: int| 0 <= i < es.len() ==> m.dom().contains(knum((#[trigger] es[i]).layer)) && exists|q: int| 0 <= q < m[knum(es[i].layer)]@.len() && (#[trigger] m[knum(es[i].layer)]@[q]).idx == i
}
/// the instance list of a structure: one instance per SREF, all the placements of each AREF, in element order, nothing else
pub open spec fn insts_are(is: Seq<Instance>, es: Seq<gds21::GdsElement>, m: CellMap) -> bool decreases es.len() {
    if es.len() == 0 { is.len() == 0 } else {
        match es.last() {
            gds21::GdsElement::GdsStructRef(x) => is.len() >= 1 && insts_are(is.drop_last(), es.drop_last(), m) && sref_imp(is.last(), x, m),
            gds21::GdsElement::GdsArrayRef(x) => exists|n: int| 0 <= n <= is.len() && insts_are(is.take(is.len() - n), es.drop_last(), m) && #[trigger] aref_imp(is.skip(is.len() - n), x, m),
            _ => insts_are(is, es.drop_last(), m),
        }
    }
}
/// pass 1: one raw element per geometry element, in order, without nets
pub open spec fn pass1(es: Seq<Element>, gs: Seq<gds21::GdsElement>) -> bool { es.len() == gs.len() && forall|i: int| 0 <= i < gs.len() ==> geom_imp(#[trigger] es[i], gs[i]) }
pub open spec fn elem_small(e: Element) -> bool { match e.inner { Shape::Polygon(p) => all_small(p.points@) && p.points.len() < 0x7fff_ffff_ffff_ffff, _ => true } }
pub open spec fn elems_small(es: Seq<Element>) -> bool { forall|i: int| 0 <= i < es.len() ==> elem_small(#[trigger] es[i]) }
pub open spec fn texts_are(v: Seq<&gds21::GdsTextElem>, ts: Seq<gds21::GdsTextElem>) -> bool { v.len() == ts.len() && forall|j: int| 0 <= j < ts.len() ==> *(#[trigger] v[j]) == ts[j] }
/// layout `l` is the import of GDSII structure `strukt` against cell map `m`
pub open spec fn layout_imp(l: Layout, strukt: gds21::GdsStruct, m: CellMap) -> bool {
    let gs = geoms(strukt.elems@); let ts = texts_of(strukt.elems@);
    &&& l.name@ == strukt.name@
    // one instance per structure reference, every placement of every array reference, in element order
    &&& insts_are(l.insts@, strukt.elems@, m)
    // no boundary, box or path is dropped: one raw element per geometry element, in order ...
    &&& l.elems@.len() == gs.len()
    &&& exists|e0: Seq<Element>| #[trigger] pass1(e0, gs) && forall|i: int| 0 <= i < gs.len() ==>
            // ... whose net is the lower-cased string of the first label inside it on its layer (none if there is no such label)
            elem_done(#[trigger] l.elems@[i], e0[i], ts)
            // all other labels survive as annotations, in order
            && l.annotations@.len() == annots(e0, ts).len()
            && forall|k: int| 0 <= k < annots(e0, ts).len() ==> annot_is(#[trigger] l.annotations@[k], annots(e0, ts)[k])
}
/// slot `i` is among the first `n` keys of bucket `l`
pub open spec fn visited(l: Seq<ElementKey>, n: int, i: int) -> bool { exists|q: int| 0 <= q < n && (#[trigger] l[q]).idx == i }

impl GdsImporter {
//@ fn layout21raw/src/gds.rs :: impl GdsImporter :: fn import_layout
//@   ret r
//@   sub R5 /let mut elems: SlotMap<ElementKey, Element> = SlotMap::with_key\(\);/ => let mut elems: ElemSlots = ElemSlots::with_key();
//@   sub R6 /for elem in &strukt\.elems \{/ => for elem in strukt.elems.iter() {
//@   sub R5 @1124382c /\/\/\/ A quick local enum[\s\S]*?enum AddingAnElement \{[\s\S]*?\n            \}\n/ => 
//@   sub R6? /layout\.insts\.extend\(insts\);/ => vp_extend_insts(&mut layout.insts, insts);
//@   sub R5 /No\(self\.unsupported\.push\(x\.clone\(\)\.into\(\)\)\)/ => No(self.unsupported.push(vp_node_elem(x)))
//@   sub R5 @accf442b /let selflayers = self\.layers\.read\(\)\?;\s*let layernum = match selflayers\.get\(e\.layer\) \{[\s\S]*?\n                \};/ => let layernum = self.vp_layernum(e.layer)?;
//@   sub R6 /if let Some\(ref mut bucket\) = layers\.get_mut\(&layernum\) \{\s*bucket\.push\(ekey\);\s*\} else \{\s*layers\.insert\(layernum, vec!\[ekey\]\);\s*\}/ => vp_bucket_push(&mut layers, layernum, ekey);
//@   sub R6 /for textelem in &texts \{/ => let mut vp_t: usize = 0; while vp_t < texts.len() { let textelem = &texts[vp_t]; vp_t += 1;
//@   sub R5 /let elem = elems\.get_mut\(\*ekey\)\.unwrap\(\);/ => let elem = &mut elems.v[ekey.idx];
//@   sub R5? /textelem\.string\.to_lowercase\(\)/ => vp_to_lowercase(&textelem.string)
//@   sub R5 /if \*pname != lower_case_name \{/ => if vp_string_ne(pname, &lower_case_name) {
//@   sub R6 /elems\.drain\(\)\.map\(\|\(_k, v\)\| v\)\.collect\(\)/ => elems.vp_into_vec()
//@   spec
//|     requires obeys_key_model::<i16>(), forall|k: int| 0 <= k < strukt.elems@.len() && (#[trigger] strukt.elems@[k]) is GdsBoundary ==> strukt.elems@[k]->GdsBoundary_0.xy@.len() < 0x7fff_ffff_ffff_ffff,
//|     ensures final(self).cell_map == old(self).cell_map, final(self).lib == old(self).lib,
//|         r is Ok ==> final(self).ctx@ == old(self).ctx@ && layout_imp(r->Ok_0, *strukt, old(self).cell_map),
//@   loop 1 iter it
//|             invariant obeys_key_model::<i16>(), self.cell_map == old(self).cell_map, self.lib == old(self).lib, self.ctx@ == old(self).ctx@.push(ErrorContext::Impl),
//|                 layout.name@ == strukt.name@, layout.elems@.len() == 0, layout.annotations@.len() == 0, it.index@ <= strukt.elems@.len(),
//|                 pass1(elems.v@, geoms(strukt.elems@.take(it.index@ as int))), elems_small(elems.v@),
//|                 insts_are(layout.insts@, strukt.elems@.take(it.index@ as int), self.cell_map),
//|                 texts_are(texts@, texts_of(strukt.elems@.take(it.index@ as int))),
//|                 buckets_ok(layers@, elems.v@),
//|                 forall|k: int| 0 <= k < strukt.elems@.len() && (#[trigger] strukt.elems@[k]) is GdsBoundary ==> strukt.elems@[k]->GdsBoundary_0.xy@.len() < 0x7fff_ffff_ffff_ffff,
//@   before /use gds21::GdsElement::\*;/
//|             let ghost ev0 = elems.v@; let ghost tx0 = texts@; let ghost lm0 = layers@; let ghost is0 = layout.insts@; let ghost mut iv: Seq<Instance> = Seq::empty();
//|             proof { assert(strukt.elems@.take(it.index@ + 1).drop_last() == strukt.elems@.take(it.index@ as int)); assert(strukt.elems@.take(it.index@ + 1).last() == *elem); }
//@   before1 /vp_extend_insts\(&mut layout\.insts, insts\);|layout\.insts = insts;/
//|                         proof { iv = insts@; assert(aref_imp(iv, elem->GdsArrayRef_0, self.cell_map)); }
//@   before /let ekey = elems\.insert\(e\);/
//|                 let ghost enew = e;
//|                 proof { assert(*elem == strukt.elems@[it.index@ as int]); assert(geom_imp(enew, *elem)); }
//@   after /vp_bucket_push\(&mut layers, layernum, ekey\);/
//|                 proof { lemma_bucket_push(lm0, layers@, ev0, enew, layernum, ekey); lemma_geom_small(enew, *elem); }
//@   loopend 1
//|             proof {
//|                 let t1 = strukt.elems@.take(it.index@ + 1); let is1 = layout.insts@;
//|                 if *elem is GdsStructRef { assert(is1.drop_last() =~= is0); }
//|                 else if *elem is GdsArrayRef { let n = is1.len() - is0.len(); assert(is1.take(is1.len() - n) =~= is0); assert(is1.skip(is1.len() - n) =~= iv); assert(aref_imp(is1.skip(is1.len() - n), elem->GdsArrayRef_0, self.cell_map)); }
//|                 else { assert(is1 == is0); }
//|                 assert(insts_are(is1, t1, self.cell_map));
//|             }
//@   before /let mut vp_t: usize = 0;/
//|         let ghost e0 = elems.v@; let ghost insts1 = layout.insts@; let ghost gs = geoms(strukt.elems@); let ghost ts = texts_of(strukt.elems@);
//|         proof {
//|             assert(strukt.elems@.take(strukt.elems@.len() as int) == strukt.elems@);
//|             assert forall|i: int| 0 <= i < e0.len() implies elem_done(#[trigger] elems.v@[i], e0[i], ts.take(0)) by { assert(ts.take(0) =~= Seq::<gds21::GdsTextElem>::empty()); lemma_pass1_no_net(e0, gs, i); }
//|             assert(annots(e0, ts.take(0)) =~= Seq::<gds21::GdsTextElem>::empty()) by { assert(ts.take(0) =~= Seq::<gds21::GdsTextElem>::empty()); }
//|         }
//@   loop 2
//|             invariant obeys_key_model::<i16>(), self.cell_map == old(self).cell_map, self.lib == old(self).lib, self.ctx@ == old(self).ctx@.push(ErrorContext::Impl), layout.name@ == strukt.name@, layout.elems@.len() == 0,
//|                 layout.insts@ == insts1, vp_t <= texts@.len(), texts_are(texts@, ts), pass1(e0, gs), elems_small(e0), buckets_ok(layers@, e0), elems.v@.len() == e0.len(), e0.len() == gs.len(),
//|                 forall|i: int| 0 <= i < e0.len() ==> elem_done(#[trigger] elems.v@[i], e0[i], ts.take(vp_t as int)),
//|                 layout.annotations@.len() == annots(e0, ts.take(vp_t as int)).len(),
//|                 forall|k: int| 0 <= k < layout.annotations@.len() ==> annot_is(#[trigger] layout.annotations@[k], annots(e0, ts.take(vp_t as int))[k]),
//|             decreases texts@.len() - vp_t,
//@   before /let loc = self\.import_point\(&textelem\.xy\)\?;/
//|             let ghost j = vp_t as int - 1; let ghost t = ts[j]; let ghost ev1 = elems.v@; let ghost an1 = layout.annotations@;
//|             proof { assert(**textelem == t); assert(ts.take(j + 1).drop_last() == ts.take(j)); assert(ts.take(j + 1).last() == t); }
//@   loop 3 iter it3
//|                 invariant elems.v@.len() == e0.len(), loc == tpt(t), **textelem == t, j == vp_t as int - 1, 0 <= j < ts.len(), elems_small(e0), it3.index@ <= layer@.len(),
//|                     layers@.dom().contains(t.layer) && *layer == layers@[t.layer], buckets_ok(layers@, e0), layout.annotations@ == an1, ts[j] == t, layout.insts@ == insts1,
//|                     self.cell_map == old(self).cell_map, self.lib == old(self).lib, self.ctx@ == old(self).ctx@.push(ErrorContext::Impl), layout.name@ == strukt.name@, layout.elems@.len() == 0,
//|                     hit == (exists|q: int| 0 <= q < it3.index@ && lhit(e0[(#[trigger] layer@[q]).idx as int], t)),
//|                     forall|i: int| 0 <= i < e0.len() ==> elem_done(#[trigger] elems.v@[i], e0[i], if visited(layer@, it3.index@ as int, i) { ts.take(j + 1) } else { ts.take(j) }),
//@   before /let elem = &mut elems\.v\[ekey\.idx\];/
//|                     let ghost ev2 = elems.v@; let ghost ix = ekey.idx as int;
//|                     proof { assert(layer@[it3.index@ as int] == *ekey); assert(ix < e0.len() && knum(e0[ix].layer) == t.layer); lemma_small_pt(t); }
//@   loopend 3
//|                     proof {
//|                         let n = it3.index@ as int; let cur = elems.v@[ix]; let prev = ev2[ix];
//|                         assert(forall|i: int| 0 <= i < e0.len() && i != ix ==> elems.v@[i] == ev2[i]);
//|                         assert(cur.inner == prev.inner && cur.layer == prev.layer && cur.purpose == prev.purpose);
//|                         assert(prev.inner == e0[ix].inner && prev.layer == e0[ix].layer);
//|                         assert(lhit(e0[ix], t) == shape_has(prev.inner, loc));
//|                         assert forall|i: int| 0 <= i < e0.len() implies elem_done(#[trigger] elems.v@[i], e0[i], if visited(layer@, n + 1, i) { ts.take(j + 1) } else { ts.take(j) }) by {
//|                             if i == ix {
//|                                 assert(visited(layer@, n + 1, i)) by { assert(layer@[n].idx == i); }
//|                                 assert(ts.take(j + 1).drop_last() =~= ts.take(j)); assert(ts.take(j + 1).last() == t);
//|                                 let na = net_after(e0[ix], ts.take(j)); let nb = net_after(e0[ix], ts.take(j + 1));
//|                                 assert(nb == (match na { Some(x) => Some(x), None => if lhit(e0[ix], t) { Some(lower(t.string@)) } else { None::<Seq<char>> } }));
//|                                 if visited(layer@, n, ix) { assert(same_net(prev.net, nb)); } else { assert(same_net(prev.net, na)); }
//|                             } else {
//|                                 assert(visited(layer@, n + 1, i) == visited(layer@, n, i)) by {
//|                                     if visited(layer@, n + 1, i) { let q = choose|q: int| 0 <= q < n + 1 && (#[trigger] layer@[q]).idx == i; assert(q < n); }
//|                                     if visited(layer@, n, i) { let q = choose|q: int| 0 <= q < n && (#[trigger] layer@[q]).idx == i; assert(layer@[q].idx == i); }
//|                                 }
//|                             }
//|                         }
//|                         assert(hit == (exists|q: int| 0 <= q < n + 1 && lhit(e0[(#[trigger] layer@[q]).idx as int], t))) by {
//|                             if lhit(e0[ix], t) { assert(lhit(e0[layer@[n].idx as int], t)); }
//|                         }
//|                     }
//@   before1 /If we've hit at least one, carry onto the next TextElement|^                if hit \{/
//|                 proof { lemma_after_bucket(e0, elems.v@, layers@, ts, j, t, hit); }
//@   before1 /No hits \(or a no-shape Layer\)\. Create an annotation instead\.|^            layout\.annotations\.push\(TextElement \{/
//|             proof { lemma_no_hit(e0, elems.v@, layers@, ts, j, t); }
//@   before1 /Pull the elements out of the local slot-map|layout\.elems = elems\./
//|         proof { assert(ts.take(ts.len() as int) == ts); assert(texts@.len() == ts.len()); }
//@   before /^        Ok\(layout\)$/
//|         proof { assert(self.ctx@ =~= old(self).ctx@); assert(pass1(e0, gs)); }
//@ end
}
proof fn lemma_small_pt(t: gds21::GdsTextElem) ensures small(tpt(t)) {}
proof fn lemma_geom_small(e: Element, g: gds21::GdsElement)
    requires geom_imp(e, g), g is GdsBoundary ==> g->GdsBoundary_0.xy@.len() < 0x7fff_ffff_ffff_ffff,
    ensures elem_small(e),
{
    match (e.inner, g) {
        (Shape::Polygon(p), gds21::GdsElement::GdsBoundary(x)) => {
            let n = x.xy@.len() as int;
            assert forall|i: int| 0 <= i < p.points@.len() implies small(#[trigger] p.points@[i]) by { assert(same_pt(x.xy@.take(n - 1)[i], p.points@[i])); }
        }
        _ => {}
    }
}
proof fn lemma_pass1_no_net(e0: Seq<Element>, gs: Seq<gds21::GdsElement>, i: int)
    requires pass1(e0, gs), 0 <= i < e0.len(),
    ensures e0[i].net is None, net_after(e0[i], Seq::<gds21::GdsTextElem>::empty()) is None,
{ assert(geom_imp(e0[i], gs[i])); }
/// appending a shape to the slots and its key to its layer's bucket keeps the index exact
proof fn lemma_bucket_push(m0: Map<i16, Vec<ElementKey>>, m1: Map<i16, Vec<ElementKey>>, es: Seq<Element>, e: Element, n: i16, key: ElementKey)
    requires buckets_ok(m0, es), key.idx == es.len(), n == knum(e.layer),
        m1.dom() == m0.dom().insert(n), m1[n]@ == (if m0.dom().contains(n) { m0[n]@.push(key) } else { seq![key] }),
        forall|j: i16| j != n && m0.dom().contains(j) ==> #[trigger] m1[j] == m0[j],
    ensures buckets_ok(m1, es.push(e)),
{
    let es1 = es.push(e);
    assert forall|k: i16, q: int| m1.dom().contains(k) && 0 <= q < m1[k]@.len() implies (#[trigger] m1[k]@[q]).idx < es1.len() && knum(es1[m1[k]@[q].idx as int].layer) == k by {
        if k == n {
            if m0.dom().contains(n) { if q < m0[n]@.len() { assert(m1[n]@[q] == m0[n]@[q]); assert(m0[n]@[q].idx < es.len()); } }
        } else { assert(m1[k] == m0[k]); assert(m0[k]@[q].idx < es.len()); }
    }
    assert forall|i: int| 0 <= i < es1.len() implies m1.dom().contains(knum((#[trigger] es1[i]).layer)) && exists|q: int| 0 <= q < m1[knum(es1[i].layer)]@.len() && (#[trigger] m1[knum(es1[i].layer)]@[q]).idx == i by {
        if i < es.len() {
            let k = knum(es[i].layer);
            let q = choose|q: int| 0 <= q < m0[k]@.len() && (#[trigger] m0[k]@[q]).idx == i;
            if k == n { assert(m1[n]@[q] == m0[n]@[q]); } else { assert(m1[k] == m0[k]); }
        } else {
            let q = m1[n]@.len() - 1;
            assert(m1[n]@[q] == key);
        }
    }
}
/// after the bucket of the label's layer has been scanned, every shape is resolved against the label, and `hit` says whether any shape was hit
proof fn lemma_after_bucket(e0: Seq<Element>, ev: Seq<Element>, m: Map<i16, Vec<ElementKey>>, ts: Seq<gds21::GdsTextElem>, j: int, t: gds21::GdsTextElem, hitf: bool)
    requires buckets_ok(m, e0), ev.len() == e0.len(), 0 <= j < ts.len(), ts[j] == t, m.dom().contains(t.layer),
        forall|i: int| 0 <= i < e0.len() ==> elem_done(#[trigger] ev[i], e0[i], if visited(m[t.layer]@, m[t.layer]@.len() as int, i) { ts.take(j + 1) } else { ts.take(j) }),
        hitf == (exists|q: int| 0 <= q < m[t.layer]@.len() && lhit(e0[(#[trigger] m[t.layer]@[q]).idx as int], t)),
    ensures forall|i: int| 0 <= i < e0.len() ==> elem_done(#[trigger] ev[i], e0[i], ts.take(j + 1)), hitf == hits_any(e0, t),
{
    let l = m[t.layer]@;
    assert(ts.take(j + 1).drop_last() == ts.take(j)); assert(ts.take(j + 1).last() == t);
    assert forall|i: int| 0 <= i < e0.len() implies elem_done(#[trigger] ev[i], e0[i], ts.take(j + 1)) by {
        if knum(e0[i].layer) == t.layer {
            let q = choose|q: int| 0 <= q < m[knum(e0[i].layer)]@.len() && (#[trigger] m[knum(e0[i].layer)]@[q]).idx == i;
            assert(visited(l, l.len() as int, i)) by { assert(l[q].idx == i); }
        } else {
            assert(!lhit(e0[i], t));
            if visited(l, l.len() as int, i) { } else { assert(net_after(e0[i], ts.take(j + 1)) == net_after(e0[i], ts.take(j))); }
        }
    }
    if hitf { let q = choose|q: int| 0 <= q < l.len() && lhit(e0[(#[trigger] l[q]).idx as int], t); assert(lhit(e0[l[q].idx as int], t)); assert(l[q].idx < e0.len()); }
    if hits_any(e0, t) {
        let i = choose|i: int| 0 <= i < e0.len() && lhit(#[trigger] e0[i], t);
        let q = choose|q: int| 0 <= q < m[knum(e0[i].layer)]@.len() && (#[trigger] m[knum(e0[i].layer)]@[q]).idx == i;
        assert(lhit(e0[l[q].idx as int], t));
    }
}
/// a label that hits nothing leaves every shape as it was and becomes the next annotation
proof fn lemma_no_hit(e0: Seq<Element>, ev: Seq<Element>, m: Map<i16, Vec<ElementKey>>, ts: Seq<gds21::GdsTextElem>, j: int, t: gds21::GdsTextElem)
    requires buckets_ok(m, e0), ev.len() == e0.len(), 0 <= j < ts.len(), ts[j] == t, !hits_any(e0, t),
        forall|i: int| 0 <= i < e0.len() ==> elem_done(#[trigger] ev[i], e0[i], ts.take(j)) || elem_done(ev[i], e0[i], ts.take(j + 1)),
    ensures forall|i: int| 0 <= i < e0.len() ==> elem_done(#[trigger] ev[i], e0[i], ts.take(j + 1)), annots(e0, ts.take(j + 1)) == annots(e0, ts.take(j)).push(t),
{
    assert(ts.take(j + 1).drop_last() == ts.take(j)); assert(ts.take(j + 1).last() == t);
    assert forall|i: int| 0 <= i < e0.len() implies elem_done(#[trigger] ev[i], e0[i], ts.take(j + 1)) by {
        assert(!lhit(e0[i], t));
        assert(net_after(e0[i], ts.take(j + 1)) == net_after(e0[i], ts.take(j)));
    }
}

// =====================================================================================================
// LIBRARY LEVEL (C06): GdsImporter::import_cell / import_and_add / import_lib
// =====================================================================================================
//@ pin layout21raw/src/data.rs :: impl From<Layout> for Cell :: fn from @6c4fc9f0
/// model of `impl From<Layout> for Cell` (data.rs): named after the layout, only the layout view
impl vstd::std_specs::convert::FromSpecImpl<Layout> for Cell {
    open spec fn obeys_from_spec() -> bool { true }
    open spec fn from_spec(src: Layout) -> Cell { Cell { name: src.name, abs: None, layout: Some(src) } }
}
impl From<Layout> for Cell {
    #[verifier::external_body]
    fn from(src: Layout) -> (r: Cell) ensures r.name@ == src.name@, r.layout == Some(src), r.abs is None { unimplemented!() }
}
//@ pin layout21utils/src/ptr.rs :: impl<T> PtrList<T> :: fn insert @cadd958f
//@ pin layout21utils/src/ptr.rs :: impl<T> PtrList<T> :: fn add @305d31d1
/// model of PtrList::insert (= add): wrap the cell in a NEW handle, append it, return the handle
#[verifier::external_body]
pub fn vp_cells_insert(cells: &mut Vec<Ptr<Cell>>, c: Cell) -> (r: Ptr<Cell>)
    ensures final(cells)@ == old(cells)@.push(r), pointee(r) == c, !old(cells)@.contains(r),
{ unimplemented!() }
impl CellMap {
    /// model of HashMap::insert: the key now maps to `v`, every other key as before
    #[verifier::external_body]
    pub fn insert(&mut self, k: String, v: Ptr<Cell>) -> (r: Option<Ptr<Cell>>)
        ensures forall|q: Seq<char>| #[trigger] final(self).lookup(q) == (if q == k@ { Some(v) } else { old(self).lookup(q) }),
    { unimplemented!() }
}
/// the raw unit a GDSII UNITS pair stands for (import_units: float comparisons, proved against its oracle by Kani in unit raw_units) — here an opaque function
pub uninterp spec fn units_of(u: gds21::GdsUnits) -> Option<Units>;
impl GdsImporter {
    #[verifier::external_body]
    fn import_units(&mut self, units: &gds21::GdsUnits) -> (r: LayoutResult<Units>)
        ensures final(self).cell_map == old(self).cell_map, final(self).lib == old(self).lib, (r is Ok) == (units_of(*units) is Some), r is Ok ==> Some(r->Ok_0) == units_of(*units),
    { unimplemented!() }
}
/// the structure a reference element names
pub open spec fn rname(e: gds21::GdsElement) -> Option<Seq<char>> {
    match e { gds21::GdsElement::GdsStructRef(x) => Some(x.name@), gds21::GdsElement::GdsArrayRef(x) => Some(x.name@), _ => None }
}
pub open spec fn snames(v: Seq<&gds21::GdsStruct>) -> Seq<Seq<char>> { Seq::new(v.len(), |i: int| v[i].name@) }
/// what GdsDepOrder::order guarantees when it succeeds (proved for the real orderer in unit gds_order): every structure of the library exactly
/// once, only library structures, each after the structures it references
pub open spec fn ord_ok(v: Seq<&gds21::GdsStruct>, lib: gds21::GdsLibrary) -> bool {
    &&& snames(v).no_duplicates()
    &&& forall|k: int| 0 <= k < lib.structs@.len() ==> snames(v).contains((#[trigger] lib.structs@[k]).name@)
    &&& forall|i: int| 0 <= i < v.len() ==> exists|k: int| 0 <= k < lib.structs@.len() && lib.structs@[k] == *#[trigger] v[i]
    &&& forall|i: int, j: int| 0 <= i < v.len() && 0 <= j < v[i].elems@.len() && rname(#[trigger] v[i].elems@[j]) is Some ==> snames(v.take(i)).contains(rname(v[i].elems@[j])->0)
}
pub struct GdsDepOrder;
impl GdsDepOrder {
    /// ASSUMED copy of the contract proved in unit gds_order
    #[verifier::external_body]
    pub fn order<'a>(gdslib: &'a gds21::GdsLibrary) -> (r: LayoutResult<Vec<&'a gds21::GdsStruct>>)
        ensures r is Ok ==> ord_ok(r->Ok_0@, *gdslib),
    { unimplemented!() }
}
pub open spec fn derefs_s<'a, 'b>(s: Seq<&'b &'a gds21::GdsStruct>) -> Seq<&'a gds21::GdsStruct> { Seq::new(s.len(), |i: int| *s[i]) }
/// what the cell map answers for name `q` once the first `n` structures of `v` have been imported on top of map `m0`
pub open spec fn lk_after(m0: CellMap, v: Seq<&gds21::GdsStruct>, cells: Seq<Ptr<Cell>>, n: nat, q: Seq<char>) -> Option<Ptr<Cell>>
    decreases n
{
    if n == 0 { m0.lookup(q) } else if v[n - 1].name@ == q { Some(cells[n - 1]) } else { lk_after(m0, v, cells, (n - 1) as nat, q) }
}
pub open spec fn map_is(m: CellMap, m0: CellMap, v: Seq<&gds21::GdsStruct>, cells: Seq<Ptr<Cell>>, n: nat) -> bool {
    forall|q: Seq<char>| #[trigger] m.lookup(q) == lk_after(m0, v, cells, n, q)
}
/// the cell behind handle `p` is the import of structure `strukt` against map `m`: the structure's name, a layout view and nothing else
pub open spec fn cell_imp(c: Cell, strukt: gds21::GdsStruct, m: CellMap) -> bool {
    c.name@ == strukt.name@ && c.layout is Some && c.abs is None && layout_imp(c.layout->0, strukt, m)
}
pub open spec fn cell_imported(cells: Seq<Ptr<Cell>>, v: Seq<&gds21::GdsStruct>, m0: CellMap, i: int) -> bool {
    exists|m: CellMap| map_is(m, m0, v, cells, i as nat) && #[trigger] cell_imp(pointee(cells[i]), *v[i], m)
}
/// the imported library: name, units, one cell per structure along a dependency ordering of the structures (every structure, once), each imported
/// against the name -> cell map of the structures before it
pub open spec fn lib_imp(lib: Library, glib: gds21::GdsLibrary, m0: CellMap, m1: CellMap) -> bool {
    &&& lib.name@ == glib.name@ &&& Some(lib.units) == units_of(glib.units)
    &&& exists|v: Seq<&gds21::GdsStruct>| ord_ok(v, glib) && #[trigger] cells_imp(lib.cells@, v, m0) && map_is(m1, m0, v, lib.cells@, v.len())
}
pub open spec fn cells_imp(cells: Seq<Ptr<Cell>>, v: Seq<&gds21::GdsStruct>, m0: CellMap) -> bool {
    cells.len() == v.len() && forall|i: int| 0 <= i < v.len() ==> #[trigger] cell_imported(cells, v, m0, i)
}
pub proof fn lemma_lk_ext(m0: CellMap, v: Seq<&gds21::GdsStruct>, c1: Seq<Ptr<Cell>>, c2: Seq<Ptr<Cell>>, n: nat, q: Seq<char>)
    requires n <= c1.len(), n <= c2.len(), forall|k: int| 0 <= k < n ==> c1[k] == c2[k],
    ensures lk_after(m0, v, c1, n, q) == lk_after(m0, v, c2, n, q),
    decreases n
{
    if n > 0 { lemma_lk_ext(m0, v, c1, c2, (n - 1) as nat, q); }
}
/// a name none of the first `n` structures carries is looked up as in the initial map
pub proof fn lemma_lk_miss(m0: CellMap, v: Seq<&gds21::GdsStruct>, cells: Seq<Ptr<Cell>>, n: nat, q: Seq<char>)
    requires forall|k: int| 0 <= k < n ==> (#[trigger] v[k]).name@ != q,
    ensures lk_after(m0, v, cells, n, q) == m0.lookup(q),
    decreases n
{
    if n > 0 { lemma_lk_miss(m0, v, cells, (n - 1) as nat, q); }
}
pub open spec fn strukt_ok(s: gds21::GdsStruct) -> bool { forall|k: int| 0 <= k < s.elems@.len() && (#[trigger] s.elems@[k]) is GdsBoundary ==> s.elems@[k]->GdsBoundary_0.xy@.len() < 0x7fff_ffff_ffff_ffff }
/// model of #[derive(Default)] on the importer: empty error stack, empty cell map, empty library, nothing unsupported yet (the shared layer
/// table — the `layers` argument of `import`, or a fresh one — is this unit's LayerTable model, R5)
impl Default for GdsImporter {
    #[verifier::external_body]
    fn default() -> (r: Self) ensures r.ctx@.len() == 0, r.lib.cells@.len() == 0, r.unsupported@.len() == 0, forall|q: Seq<char>| #[trigger] r.cell_map.lookup(q) is None { unimplemented!() }
}
impl GdsImporter {
//@ fn layout21raw/src/gds.rs :: impl GdsImporter :: fn import_cell
//@   ret r
//@   spec
//|     requires obeys_key_model::<i16>(), strukt_ok(*strukt),
//|     ensures final(self).cell_map == old(self).cell_map, final(self).lib == old(self).lib,
//|         r is Ok ==> final(self).ctx@ == old(self).ctx@ && cell_imp(r->Ok_0, *strukt, old(self).cell_map),
//@   before /^        Ok\(cell\)$/
//|         proof { assert(self.ctx@ =~= old(self).ctx@); }
//@ end
//@ fn layout21raw/src/gds.rs :: impl GdsImporter :: fn import_and_add
//@   ret r
//@   sub R5 /let key = self\.lib\.cells\.insert\(cell\);/ => let key = vp_cells_insert(&mut self.lib.cells, cell);
//@   sub R5? /self\.cell_map\.insert\(name\.to_string\(\), key\);/ => self.cell_map.insert(name.clone(), key);
//@   spec
//|     requires obeys_key_model::<i16>(), strukt_ok(*strukt),
//|     ensures final(self).lib.name == old(self).lib.name, final(self).lib.units == old(self).lib.units,
//|         // a structure whose name is already in the map is skipped
//|         old(self).cell_map.lookup(strukt.name@) is Some ==> r is Ok && final(self).lib == old(self).lib && final(self).cell_map == old(self).cell_map && final(self).ctx@ == old(self).ctx@,
//|         // otherwise its cell is appended to the library behind a new handle, and the name now maps to that handle
//|         old(self).cell_map.lookup(strukt.name@) is None && r is Ok ==> ({
//|             let cs = final(self).lib.cells@; let n = old(self).lib.cells@.len() as int;
//|             &&& final(self).ctx@ == old(self).ctx@ &&& cs.len() == n + 1 &&& cs.take(n) == old(self).lib.cells@ &&& cell_imp(pointee(cs[n]), *strukt, old(self).cell_map)
//|             &&& forall|q: Seq<char>| #[trigger] final(self).cell_map.lookup(q) == (if q == strukt.name@ { Some(cs[n]) } else { old(self).cell_map.lookup(q) })
//|         }),
//@ end
//@ fn layout21raw/src/gds.rs :: impl GdsImporter :: fn import
//@   ret r
//@   sub R5 /layers: Option<Ptr<Layers>>,/ =>
//@   sub R5 /let layers = match layers \{\s*Some\(l\) => l,\s*None => Ptr::new\(Layers::default\(\)\),\s*\};/ =>
//@   sub R5 /Self \{\s*layers,\s*\.\.Default::default\(\)\s*\}/ => Self { ..Default::default() }
//@   sub R5 /mut lib,\s*layers,\s*unsupported,\s*\.\./ => mut lib, unsupported, ..
//@   sub R5 /lib\.layers = layers;/ =>
//@   spec
//|     requires obeys_key_model::<i16>(), forall|k: int| 0 <= k < gdslib.structs@.len() ==> strukt_ok(#[trigger] gdslib.structs@[k]),
//|     // the public entry: the library import_lib builds on an empty cell map, whatever was unsupported; units outside the raw model are an error
//|     ensures r is Ok ==> exists|m0: CellMap, m1: CellMap| (forall|q: Seq<char>| #[trigger] m0.lookup(q) is None) && #[trigger] lib_imp(r->Ok_0, *gdslib, m0, m1),
//|         units_of(gdslib.units) is None ==> r is Err,
//@   before /importer\.import_lib\(/
//|         let ghost vp_m0 = importer.cell_map;
//@   after /importer\.import_lib\(/
//|         let ghost vp_m1 = importer.cell_map;
//@   before /^        Ok\(lib\)$/
//|         proof { assert(forall|q: Seq<char>| #[trigger] vp_m0.lookup(q) is None); let ghost vp_r: LayoutResult<Library> = Ok(lib); assert(lib_imp(vp_r->Ok_0, *gdslib, vp_m0, vp_m1)); }
//@ end
//@ fn layout21raw/src/gds.rs :: impl GdsImporter :: fn import_lib
//@   ret r
//@   sub R3 /self\.import_and_add\(strukt\)\?(\s*\n\s*\})/ => self.import_and_add(strukt)?;\1
//@   sub R6 /for strukt in &GdsDepOrder::order\(&gdslib\)\? \{/ => let vp_order = GdsDepOrder::order(&gdslib)?; for strukt in vp_order.iter() {
//@   spec
//|     requires obeys_key_model::<i16>(), old(self).lib.cells@.len() == 0, forall|q: Seq<char>| #[trigger] old(self).cell_map.lookup(q) is None,
//|         forall|k: int| 0 <= k < gdslib.structs@.len() ==> strukt_ok(#[trigger] gdslib.structs@[k]),
//|     ensures r is Ok ==> lib_imp(final(self).lib, *gdslib, old(self).cell_map, final(self).cell_map),
//|         units_of(gdslib.units) is None ==> r is Err,
//@   loop 1 iter it
//|             invariant obeys_key_model::<i16>(), forall|q: Seq<char>| #[trigger] old(self).cell_map.lookup(q) is None, forall|k: int| 0 <= k < gdslib.structs@.len() ==> strukt_ok(#[trigger] gdslib.structs@[k]),
//|                 self.lib.name@ == gdslib.name@, Some(self.lib.units) == units_of(gdslib.units), ord_ok(vp_order@, *gdslib), derefs_s(it.seq()) =~= vp_order@,
//|                 it.index@ <= vp_order@.len(), self.lib.cells@.len() == it.index@,
//|                 forall|i: int| 0 <= i < it.index@ ==> #[trigger] cell_imported(self.lib.cells@, vp_order@, old(self).cell_map, i),
//|                 map_is(self.cell_map, old(self).cell_map, vp_order@, self.lib.cells@, it.index@ as nat),
//@   before1 /self\.import_and_add\(strukt\)\?/
//|             let ghost m_prev = self.cell_map; let ghost cells_prev = self.lib.cells@; let ghost n = it.index@ as int; let ghost v = vp_order@; let ghost m0 = old(self).cell_map;
//|             proof {
//|                 assert(**strukt == *v[n]);
//|                 let k = choose|k: int| 0 <= k < gdslib.structs@.len() && gdslib.structs@[k] == *#[trigger] v[n];
//|                 assert(strukt_ok(gdslib.structs@[k]));
//|                 // its name is not in the map yet: the names of the ordering are distinct and the map started empty
//|                 assert forall|j: int| 0 <= j < n implies (#[trigger] v[j]).name@ != v[n].name@ by { assert(snames(v)[j] == v[j].name@); assert(snames(v)[n] == v[n].name@); }
//|                 lemma_lk_miss(m0, v, cells_prev, n as nat, v[n].name@);
//|                 assert(m_prev.lookup(v[n].name@) is None);
//|             }
//@   loopend 1
//|             proof {
//|                 let cs = self.lib.cells@;
//|                 assert(cs[n] == cs.take(n + 1)[n]);
//|                 assert forall|q: Seq<char>| #[trigger] lk_after(m0, v, cells_prev, n as nat, q) == lk_after(m0, v, cs, n as nat, q) by { assert(cs.take(n) == cells_prev); lemma_lk_ext(m0, v, cells_prev, cs, n as nat, q); }
//|                 assert(map_is(m_prev, m0, v, cs, n as nat));
//|                 assert(cell_imp(pointee(cs[n]), *v[n], m_prev));
//|                 assert(cell_imported(cs, v, m0, n));
//|                 assert forall|i: int| 0 <= i < n implies #[trigger] cell_imported(cs, v, m0, i) by {
//|                     assert(cell_imported(cells_prev, v, m0, i));
//|                     let m = choose|m: CellMap| map_is(m, m0, v, cells_prev, i as nat) && #[trigger] cell_imp(pointee(cells_prev[i]), *v[i], m);
//|                     assert forall|q: Seq<char>| #[trigger] m.lookup(q) == lk_after(m0, v, cs, i as nat, q) by { assert(cs.take(n) == cells_prev); lemma_lk_ext(m0, v, cells_prev, cs, i as nat, q); }
//|                     assert(cells_prev[i] == cs[i]) by { assert(cs.take(n)[i] == cs[i]); }
//|                     assert(map_is(m, m0, v, cs, i as nat) && cell_imp(pointee(cs[i]), *v[i], m));
//|                 }
//|             }
//@   before /^        Ok\(\(\)\)$/
//|         proof { assert(cells_imp(self.lib.cells@, vp_order@, old(self).cell_map)); }
//@ end
}

// =====================================================================================================
// C07 round trip, as lemmas over the two converters' contracts
// =====================================================================================================
/// one layer table used both ways: the numbers export_layerspec writes for (key, purpose) are the ones the importer files the key and purpose under
pub open spec fn table_ok() -> bool {
    forall|k: LayerKey, p: LayerPurpose| (#[trigger] nums_of(k, p)) is Some ==> nums_of(k, p)->0.layer == knum(k) && nums_of(k, p)->0.xtype == pnum(k, p)
}
/// the same geometry: a rectangle keeps its corners; a polygon keeps its points (or, when it is an axis-aligned 4-corner walk, comes back as the
/// rectangle with corners at its points 0 and 2); a path keeps its points and width
pub open spec fn shape_same(a: Shape, b: Shape) -> bool {
    match a {
        Shape::Rect(ra) => b is Rect && b->Rect_0.p0 == ra.p0 && b->Rect_0.p1 == ra.p1,
        Shape::Polygon(pa) => (b is Polygon && b->Polygon_0.points@ =~= pa.points@)
            || (b is Rect && pa.points@.len() == 4 && rect_walk(pa.points@) && b->Rect_0.p0 == pa.points@[0] && b->Rect_0.p1 == pa.points@[2]),
        Shape::Path(pa) => b is Path && b->Path_0.points@ =~= pa.points@ && b->Path_0.width == pa.width,
    }
}
pub proof fn lemma_same_pts_eq(g: Seq<gds21::GdsPoint>, a: Seq<Point>, b: Seq<Point>)
    requires same_pts(g, a), same_pts(g, b),
    ensures a =~= b,
{
    assert forall|i: int| 0 <= i < a.len() implies a[i] == b[i] by { assert(same_pt(g[i], a[i])); assert(same_pt(g[i], b[i])); }
}
/// THEOREM (C07, shapes): whatever export_shape wrote for element `e`, whatever the importer made of it is on the same layer number and data type
/// and has the same geometry
pub proof fn theorem_shape_roundtrip(e: Element, g: gds21::GdsElement, e2: Element)
    requires table_ok(), nums_of(e.layer, e.purpose) is Some, shape_gds(e.inner, g, nums_of(e.layer, e.purpose)->0), geom_imp(e2, g),
    ensures knum(e2.layer) == knum(e.layer), pnum(e2.layer, e2.purpose) == pnum(e.layer, e.purpose), shape_same(e.inner, e2.inner), e2.net is None,
{
    match (e.inner, g) {
        (Shape::Rect(rc), gds21::GdsElement::GdsBoundary(b)) => { assert(rect_walk_g(b.xy@)); }
        (Shape::Polygon(pg), gds21::GdsElement::GdsBoundary(b)) => {
            let n = b.xy@.len() as int;
            match e2.inner {
                Shape::Polygon(p2) => { lemma_same_pts_eq(b.xy@.take(n - 1), pg.points@, p2.points@); }
                Shape::Rect(r2) => {
                    assert(n == 5); assert(pg.points@.len() == 4);
                    assert forall|i: int| 0 <= i < 4 implies same_pt(b.xy@[i], #[trigger] pg.points@[i]) by { assert(b.xy@.take(4)[i] == b.xy@[i]); }
                }
                _ => {}
            }
        }
        (Shape::Path(pa), gds21::GdsElement::GdsPath(b)) => {
            match e2.inner { Shape::Path(p2) => { lemma_same_pts_eq(b.xy@, pa.points@, p2.points@); } _ => {} }
        }
        _ => {}
    }
}
/// Path::contains answers true on every flush segment rectangle of a Manhattan path: its PROVED lower bound (unit raw_geom), restated for the
/// function `path_has` that models it here
#[verifier::external_body]
pub proof fn axiom_path_has_flush(p: Path, q: Point)
    requires p.points.len() >= 2, manhattan(p.points@), all_small(p.points@), small(q), p.width <= 0x2000_0000_0000_0000, path_flush(p.points@, (p.width / 2) as int, q, p.points.len() - 1),
    ensures path_has(p, q),
{}
/// THEOREM (C07, nets): the label the exporter emits for a named shape is found again by the importer — it lies inside the re-imported shape, on its
/// layer, and carries the net's name (which the importer lower-cases)
pub proof fn theorem_label_found(e: Element, gs: Seq<gds21::GdsElement>, e2: Element)
    requires table_ok(), elem_gds(gs, e), e.net is Some, geom_imp(e2, gs[0]), shape_pre(e.inner),
        // (a polygon that is an axis-aligned 4-corner walk comes back as a rectangle: that case is left out here)
        e.inner is Polygon ==> !(e.inner->Polygon_0.points@.len() == 4 && rect_walk(e.inner->Polygon_0.points@)),
    ensures gs[1] is GdsTextElem, gs[1]->GdsTextElem_0.string@ == e.net->0@, lhit(e2, gs[1]->GdsTextElem_0),
{
    theorem_shape_roundtrip(e, gs[0], e2);
    let t = gs[1]->GdsTextElem_0;
    let q = choose|q: Point| same_pt(t.xy, q) && shape_holds(e.inner, q);
    assert(tpt(t) == q);
    match e.inner {
        Shape::Rect(rc) => {}
        Shape::Polygon(pg) => {
            match e2.inner {
                Shape::Polygon(p2) => { assert(p2.points@ == pg.points@); }
                _ => {}
            }
        }
        Shape::Path(pa) => { let p2 = e2.inner->Path_0; assert(p2.points@ == pa.points@ && p2.width == pa.width); assert(t.xy.x as isize == q.x && t.xy.y as isize == q.y); lemma_small_pt(t); axiom_path_has_flush(p2, q); }
    }
}
/// THEOREM (C07, instances): whatever export_instance wrote, the importer's instance has the same location, reflection and angle, and its target
/// is what the cell map answers for the exported cell's name
pub proof fn theorem_inst_roundtrip(inst: Instance, g: gds21::GdsStructRef, i2: Instance, m: CellMap)
    requires sref_gds(g, inst), sref_imp(i2, g, m),
    ensures i2.loc == inst.loc, i2.reflect_vert == inst.reflect_vert, i2.angle == inst.angle, m.lookup(pointee(inst.cell).name@) == Some(i2.cell),
{}
proof fn canary_label_found(e: Element, gs: Seq<gds21::GdsElement>, e2: Element)
    requires table_ok(), elem_gds(gs, e), e.net is Some, geom_imp(e2, gs[0]), shape_pre(e.inner), e.inner is Path,
    ensures false {}
proof fn canary_lib_imp(lib: Library, glib: gds21::GdsLibrary, m0: CellMap, m1: CellMap)
    requires lib_imp(lib, glib, m0, m1), forall|q: Seq<char>| #[trigger] m0.lookup(q) is None, glib.structs@.len() == 2, glib.structs@[1].elems@.len() == 1, glib.structs@[1].elems@[0] is GdsStructRef,
    ensures false {}
proof fn canary_insts(is: Seq<Instance>, es: Seq<gds21::GdsElement>, m: CellMap) requires insts_are(is, es, m), es.len() == 2, es[0] is GdsStructRef, es[1] is GdsArrayRef, is.len() == 5 ensures false {}
proof fn canary_slots(s: ElemSlots) requires s.v@.len() == 2 ensures false {}
}
fn main() {}
