// Unit U8c tetris_period: one period of one layer of one cell — blockages, cuts, vias, net assignments, track export (C08).
use vstd::prelude::*;
use vstd::std_specs::cmp::*;
use core::cmp::Ordering;
verus! {
global size_of usize == 8;
//@ include units/common/float.inc.rs
//@ include units/tetris_track/track.inc.rs
//@ include units/tetris_export/export.inc.rs

// =====================================================================================================
// LayerPeriod: the same operation on every track of the period (layout21tetris/src/stack.rs)
// =====================================================================================================
/// every track of the list has at least one piece and at most `b` (what the track operations need not to panic: `last().unwrap()`, room for two insertions)
pub open spec fn tracks_live<'a>(ts: Seq<Track<'a>>, b: int) -> bool { forall|i: int| 0 <= i < ts.len() ==> 1 <= (#[trigger] ts[i]).segments@.len() <= b }
pub open spec fn grown<'a>(o: Seq<Track<'a>>, f: Seq<Track<'a>>, d: int) -> bool { f.len() == o.len() && forall|i: int| 0 <= i < o.len() ==> o[i].segments@.len() <= (#[trigger] f[i]).segments@.len() <= o[i].segments@.len() + d }
pub open spec fn tracks_no_rail<'a>(ts: Seq<Track<'a>>) -> bool { forall|i: int| 0 <= i < ts.len() ==> no_rail((#[trigger] ts[i]).segments@) }
/// track `f` is track `o` with [start, stop) cut out as `tp` (data untouched)
pub open spec fn track_cut<'a>(o: Track<'a>, f: Track<'a>, start: DbUnits, stop: DbUnits, tp: TrackSegmentType<'a>) -> bool {
    f.data == o.data && exists|k: int| first_after(o.segments@, start, k) && (o.segments@[k].tp is Wire || o.segments@[k].tp is Rail)
        && stop.0 <= o.segments@[k].stop.0 && #[trigger] cut_result(o.segments@, k, start, stop, tp) == f.segments@
}
pub open spec fn tracks_cut<'a>(o: Seq<Track<'a>>, f: Seq<Track<'a>>, n: int, start: DbUnits, stop: DbUnits, tp: TrackSegmentType<'a>) -> bool {
    f.len() == o.len() && (forall|i: int| 0 <= i < n ==> track_cut(o[i], #[trigger] f[i], start, stop, tp)) && (forall|i: int| n <= i < o.len() ==> #[trigger] f[i] == o[i])
}
impl<'lib> LayerPeriod<'lib> {
//@ fn layout21tetris/src/stack.rs :: impl<'lib> LayerPeriod<'lib> :: fn block
//@   ret r
//@   sub R6 /for t in self\.(\w+)\.iter_mut\(\) \{\s*t\.block\(start, stop, src\)\?;\s*\}/ => { let mut vp_j: usize = 0; while vp_j < self.\1.len() { let t = &mut self.\1[vp_j]; t.block(start, stop, src)?; vp_j += 1; } }
//@   spec
//|     requires tracks_live(old(self).rails@, 0x7fff_ffff_ffff_ff00), tracks_live(old(self).signals@, 0x7fff_ffff_ffff_ff00),
//|     ensures final(self).index == old(self).index, final(self).rails@.len() == old(self).rails@.len(), final(self).signals@.len() == old(self).signals@.len(),
//|         // every rail and every signal track gets the blockage; each track grows by one or two pieces
//|         r is Ok ==> tracks_cut(old(self).rails@, final(self).rails@, old(self).rails@.len() as int, start, stop, TrackSegmentType::Blockage { src: *src })
//|             && tracks_cut(old(self).signals@, final(self).signals@, old(self).signals@.len() as int, start, stop, TrackSegmentType::Blockage { src: *src })
//|             && grown(old(self).rails@, final(self).rails@, 2) && grown(old(self).signals@, final(self).signals@, 2),
//|         r is Ok && tracks_no_rail(old(self).signals@) ==> tracks_no_rail(final(self).signals@),
//@   loop 1
//|             invariant vp_j <= self.rails@.len(), self.index == old(self).index, self.signals == old(self).signals, tracks_live(old(self).rails@, 0x7fff_ffff_ffff_ff00),
//|                 tracks_cut(old(self).rails@, self.rails@, vp_j as int, start, stop, TrackSegmentType::Blockage { src: *src }), grown(old(self).rails@, self.rails@, 2),
//|             decreases self.rails@.len() - vp_j,
//@   loop 2
//|             invariant vp_j <= self.signals@.len(), self.index == old(self).index, tracks_live(old(self).signals@, 0x7fff_ffff_ffff_ff00),
//|                 tracks_cut(old(self).rails@, self.rails@, old(self).rails@.len() as int, start, stop, TrackSegmentType::Blockage { src: *src }), grown(old(self).rails@, self.rails@, 2),
//|                 tracks_cut(old(self).signals@, self.signals@, vp_j as int, start, stop, TrackSegmentType::Blockage { src: *src }), grown(old(self).signals@, self.signals@, 2),
//|                 tracks_no_rail(old(self).signals@) ==> (forall|i: int| 0 <= i < vp_j ==> no_rail((#[trigger] self.signals@[i]).segments@)),
//|             decreases self.signals@.len() - vp_j,
//@ end
}
// =====================================================================================================
// RawExporter::export_cell_layer_period (layout21tetris/src/conv/raw.rs)
// =====================================================================================================
/// model of slotmap's AssignKey and of `SlotMap<AssignKey, ValidAssign>::get` (read-only here)
#[derive(Debug, Clone, Copy)]
pub struct AssignKey { pub k: u64 }
pub struct AssignMap { pub v: Vec<ValidAssign> }
impl AssignMap {
    pub uninterp spec fn lookup(&self, k: AssignKey) -> Option<ValidAssign>;
    #[verifier::external_body]
    pub fn get(&self, k: AssignKey) -> (r: Option<&ValidAssign>)
        ensures (r is Some) == (self.lookup(k) is Some), r is Some ==> *r->0 == self.lookup(k)->0,
    { unimplemented!() }
}
/// R5: the temporary per-cell / per-layer records reduced to the fields export_cell_layer_period reads
pub struct TempCell<'lib> { pub assignments: AssignMap, pub _p: core::marker::PhantomData<&'lib ()> }
pub struct TempCellLayer<'lib> { pub layer: &'lib ValidMetalLayer, pub span: DbUnits }
//@ item layout21tetris/src/conv/raw.rs :: struct TempPeriod
//@   pubfields
//@   sub R4 /struct TempPeriod/ => pub struct TempPeriod
//@ end
/// model of `Vec::extend(Vec)` (rule R6): appends the elements in order
#[verifier::external_body]
pub fn vp_extend_elems(v: &mut Vec<Element>, w: Vec<Element>) ensures final(v)@ == old(v)@ + w@ { v.extend(w) }
impl<'lib> RawExporter {
    /// model of ErrorHelper::unwrap (Some(v) => Ok(v), None => self.fail(msg))
    #[verifier::external_body]
    fn unwrap<T, M>(&self, opt: Option<T>, msg: M) -> (r: LayoutResult<T>)
        ensures opt is Some ==> r == Ok::<T, LayoutError>(opt->0), opt is None ==> r is Err,
    { unimplemented!() }
}
/// the via a bottom-layer assignment produces: a rectangle of the via layer's size centred on the track crossing, on the via layer's raw key, with the assignment's net
pub open spec fn via_is(e: Element, a: ValidAssign, via: ViaLayer, s: ValidStack) -> bool {
    &&& via.raw is Some && e.layer == via.raw->0 &&& e.purpose == LayerPurpose::Drawing &&& e.net is Some && e.net->0@ == a.src.net@
    &&& ({ let c = cross_xy(s, a.src.at); let hx = tdiv(via.size.x.0 as int, 2); let hy = tdiv(via.size.y.0 as int, 2);
           e.inner == Shape::Rect(Rect { p0: Point { x: (c.0 - hx) as isize, y: (c.1 - hy) as isize }, p1: Point { x: (c.0 + hx) as isize, y: (c.1 + hy) as isize } }) })
}
/// the domain of the period theorem: everything the arithmetic and the callees need (sizes in range, tracks indexed in range, a signal track to cut)
pub open spec fn period_ok(s: ValidStack, tp: TempPeriod) -> bool {
    let l = *tp.layer.layer; let m = l.spec;
    &&& stack_ok(s) &&& l.index < s.metals@.len() && s.metals@[l.index as int] == l
    &&& sums_fit(flat_entries(m.entries@), 0) &&& isize::MIN <= width_sum(flat_entries(m.entries@)) - m.overlap.0 <= isize::MAX
    &&& tp.periodnum <= isize::MAX &&& isize::MIN <= tp.periodnum * (width_sum(flat_entries(m.entries@)) - m.overlap.0) <= isize::MAX
    &&& sums_fit(period_entries(m, tp.periodnum), period_off(m, tp.periodnum))
    &&& forall|k: int| 0 <= k < flat_entries(m.entries@).len() ==> (#[trigger] flat_entries(m.entries@)[k]).width.0 >= 0
    &&& tracks_of(period_entries(m, tp.periodnum), period_off(m, tp.periodnum), m.dir, true).len() > 0
    &&& 1 + 2 * (tp.blockages@.len() + tp.cuts@.len()) <= 0x7fff_ffff_ffff_fe00
    &&& -0x1_0000_0000 <= m.cutsize.0 <= 0x1_0000_0000
    &&& forall|i: int| 0 <= i < tp.blockages@.len() ==> blk_ok(s, #[trigger] tp.blockages@[i])
    &&& forall|i: int| 0 <= i < tp.cuts@.len() ==> (#[trigger] tp.cuts@[i]).track.track <= 0x1000_0000 && tp.cuts@[i].cross.track <= 0x1000_0000
    &&& forall|k: AssignKey| (#[trigger] tp.cell.assignments.lookup(k)) is Some ==> assn_ok(tp.cell.assignments.lookup(k)->0)
    &&& forall|i: int| 0 <= i < s.vias@.len() ==> via_ok(#[trigger] s.vias@[i])
    &&& forall|i: int| 0 <= i < s.metals@.len() ==> layer_small(#[trigger] s.metals@[i])
}
pub open spec fn blk_ok(s: ValidStack, b: (PrimPitches, PrimPitches, Ptr<Instance>)) -> bool {
    isize::MIN <= b.0.num * xy_dir(s.prim.pitches, b.0.dir).0 <= isize::MAX && isize::MIN <= b.1.num * xy_dir(s.prim.pitches, b.1.dir).0 <= isize::MAX
}
pub open spec fn assn_ok(a: ValidAssign) -> bool { a.src.at.track.track <= 0x1000_0000 && a.src.at.cross.track <= 0x1000_0000 }
pub open spec fn via_ok(v: ViaLayer) -> bool { v.raw is Some && -0x1_0000_0000 <= v.size.x.0 <= 0x1_0000_0000 && -0x1_0000_0000 <= v.size.y.0 <= 0x1_0000_0000 }
/// track centres of a layer stay far inside the machine range (follows from layer_ok's bounds and the 2^28 track-index bound)
pub open spec fn layer_small(l: ValidMetalLayer) -> bool { layer_ok(l) }
pub open spec fn data_fit<'a>(ts: Seq<Track<'a>>) -> bool { forall|i: int| 0 <= i < ts.len() ==> isize::MIN <= (#[trigger] ts[i]).data.start.0 + ts[i].data.width.0 <= isize::MAX }
/// what every loop of export_cell_layer_period keeps true of the period being built
pub open spec fn lp_inv<'a>(lp: LayerPeriod<'a>, ns: int, nr: int, b: int) -> bool {
    &&& lp.signals@.len() == ns &&& lp.rails@.len() == nr &&& ns > 0 &&& b <= 0x7fff_ffff_ffff_ff00
    &&& tracks_live(lp.rails@, b) &&& tracks_live(lp.signals@, b) &&& tracks_no_rail(lp.signals@) &&& data_fit(lp.rails@) &&& data_fit(lp.signals@)
}
/// each track of a period starts and ends inside the machine range when the running sums do
proof fn lemma_tracks_fit(es: Seq<TrackEntry>, off: int, dir: Dir, sig: bool)
    requires sums_fit(es, off),
    ensures forall|i: int| 0 <= i < tracks_of(es, off, dir, sig).len() ==> isize::MIN <= (#[trigger] tracks_of(es, off, dir, sig)[i]).start.0 + tracks_of(es, off, dir, sig)[i].width.0 <= isize::MAX,
    decreases es.len()
{
    if es.len() > 0 {
        let h = es.drop_last();
        assert forall|k: int| 0 <= k <= h.len() implies isize::MIN <= off + #[trigger] width_sum(h.take(k)) <= isize::MAX by { assert(h.take(k) == es.take(k)); }
        lemma_tracks_fit(h, off, dir, sig);
        assert(es.take(es.len() as int) == es);
        assert(es.take(es.len() - 1) == h);
        assert(isize::MIN <= off + width_sum(es.take(es.len() as int)) <= isize::MAX);
        assert(isize::MIN <= off + width_sum(es.take(es.len() - 1)) <= isize::MAX);
    }
}
proof fn lemma_period_start<'a>(lp: LayerPeriod<'a>, m: MetalLayer, index: usize, stop: DbUnits)
    requires ptracks_ok(lp.signals@, period_entries(m, index), period_off(m, index), m.dir, stop, true),
        ptracks_ok(lp.rails@, period_entries(m, index), period_off(m, index), m.dir, stop, false),
        sums_fit(period_entries(m, index), period_off(m, index)), tracks_of(period_entries(m, index), period_off(m, index), m.dir, true).len() > 0,
    ensures lp_inv(lp, lp.signals@.len() as int, lp.rails@.len() as int, 1),
{
    lemma_tracks_fit(period_entries(m, index), period_off(m, index), m.dir, true);
    lemma_tracks_fit(period_entries(m, index), period_off(m, index), m.dir, false);
    let ds = tracks_of(period_entries(m, index), period_off(m, index), m.dir, true);
    let dr = tracks_of(period_entries(m, index), period_off(m, index), m.dir, false);
    assert forall|i: int| 0 <= i < lp.signals@.len() implies no_rail((#[trigger] lp.signals@[i]).segments@) && lp.signals@[i].segments@.len() == 1 by {
        assert(lp.signals@[i].data == ds[i]);
    }
    assert forall|i: int| 0 <= i < lp.rails@.len() implies (#[trigger] lp.rails@[i]).segments@.len() == 1 by { assert(lp.rails@[i].data == dr[i]); }
    assert forall|i: int| 0 <= i < lp.signals@.len() implies isize::MIN <= (#[trigger] lp.signals@[i]).data.start.0 + lp.signals@[i].data.width.0 <= isize::MAX by { assert(lp.signals@[i].data == ds[i]); }
    assert forall|i: int| 0 <= i < lp.rails@.len() implies isize::MIN <= (#[trigger] lp.rails@[i]).data.start.0 + lp.rails@[i].data.width.0 <= isize::MAX by { assert(lp.rails@[i].data == dr[i]); }
}
/// track centres stay far inside the machine range
proof fn lemma_center_small(l: ValidMetalLayer, idx: usize)
    requires layer_ok(l), idx <= 0x1000_0000,
    ensures 0 <= center_spec(l, idx) <= 0x1000_0000 * 0x1_0000_0000 + 0x2_0000_0000,
{
    let n = l.period_data.signals@.len() as int; let q = idx as int / n; let p = l.pitch.0 as int;
    assert(0 <= q <= idx) by (nonlinear_arith) requires q == idx as int / n, n >= 1, idx >= 0;
    assert(0 <= p * q <= 0x1000_0000 * 0x1_0000_0000) by (nonlinear_arith) requires 0 <= q <= 0x1000_0000, 0 < p <= 0x1_0000_0000;
    assert(0 <= idx as int % n < n);
    let t = l.period_data.signals@[idx as int % n];
    assert(0 <= t.start.0 <= 0x1_0000_0000 && 0 <= t.width.0 <= 0x1_0000_0000);
}
proof fn lemma_cross_small(s: ValidStack, at: TrackCross)
    requires stack_ok(s), cross_in_stack(s, at), at.track.track <= 0x1000_0000, at.cross.track <= 0x1000_0000,
    ensures 0 <= cross_xy(s, at).0 <= 0x1000_0000 * 0x1_0000_0000 + 0x2_0000_0000, 0 <= cross_xy(s, at).1 <= 0x1000_0000 * 0x1_0000_0000 + 0x2_0000_0000,
{
    lemma_center_small(s.metals@[at.track.layer as int], at.track.track);
    lemma_center_small(s.metals@[at.cross.layer as int], at.cross.track);
}
/// element `e` is the via of the j-th bottom-layer assignment of the period
pub open spec fn vias_ok(s: ValidStack, tp: TempPeriod, e: Element, j: int) -> bool {
    &&& tp.cell.assignments.lookup(tp.bot_assns@[j]) is Some
    &&& exists|v: int| #[trigger] first_via(s.vias@, tp.layer.layer.index, v) && via_is(e, tp.cell.assignments.lookup(tp.bot_assns@[j])->0, s.vias@[v], s)
}
/// assign_track keeps everything the later loops rely on
proof fn lemma_lp_after_assign<'a>(o: LayerPeriod<'a>, f: LayerPeriod<'a>, assn: ValidAssign, top: bool, ns: int, nr: int, b: int)
    requires lp_inv(o, ns, nr, b), f.rails@ == o.rails@, f.signals@.len() == o.signals@.len(),
        forall|t: int| 0 <= t < o.signals@.len() && t != assn_track(assn, top, o.signals@.len() as int) ==> #[trigger] f.signals@[t] == o.signals@[t],
        f.signals@[assn_track(assn, top, o.signals@.len() as int)].data == o.signals@[assn_track(assn, top, o.signals@.len() as int)].data,
        exists|at: DbUnits, a: &'a Assign| net_set(o.signals@[assn_track(assn, top, o.signals@.len() as int)].segments@, f.signals@[assn_track(assn, top, o.signals@.len() as int)].segments@, at, a),
    ensures lp_inv(f, ns, nr, b),
{
    let tr = assn_track(assn, top, o.signals@.len() as int);
    let (at, a) = choose|at: DbUnits, a: &'a Assign| net_set(o.signals@[tr].segments@, f.signals@[tr].segments@, at, a);
    let os = o.signals@[tr].segments@; let fs = f.signals@[tr].segments@;
    let k = choose|k: int| #[trigger] first_hit(os, at, k) && ((os[k].tp is Wire && fs == os.update(k, TrackSegment { tp: TrackSegmentType::Wire { src: Some(a) }, start: os[k].start, stop: os[k].stop })) || (os[k].tp is Blockage && fs == os));
    assert(fs.len() == os.len());
    assert(no_rail(os));
    assert forall|i: int| 0 <= i < fs.len() implies !((#[trigger] fs[i]).tp is Rail) by { if i != k { assert(fs[i] == os[i]); } }
    assert forall|i: int| 0 <= i < f.signals@.len() implies 1 <= (#[trigger] f.signals@[i]).segments@.len() <= b && no_rail(f.signals@[i].segments@)
        && isize::MIN <= f.signals@[i].data.start.0 + f.signals@[i].data.width.0 <= isize::MAX by {
        if i != tr { assert(f.signals@[i] == o.signals@[i]); }
    }
}
impl<'lib> RawExporter {
//@ fn layout21tetris/src/conv/raw.rs :: impl<'lib> RawExporter :: fn export_cell_layer_period
//@   ret r
//@   sub R5 /\.to_layer_period\(temp_period\.periodnum, temp_period\.layer\.span\.0\)\?;/ => .to_layer_period(temp_period.periodnum, DbUnits(temp_period.layer.span.0))?;
//@   sub R5 /self\.db_units\(\*n1\)/ => self.db_units(UnitSpeced::PrimPitches(*n1))
//@   sub R5 /self\.db_units\(\*n2\)/ => self.db_units(UnitSpeced::PrimPitches(*n2))
//@   sub R3 /let mut via_opt = None;/ => let mut via_opt: Option<&ViaLayer> = None;
//@   sub R6 /elems\.extend\(self\.export_track\(t, &layer\)\?\);/ => vp_extend_elems(&mut elems, self.export_track(t, &layer)?);
//@   spec
//|     requires period_ok(self.stack, *temp_period),
//|     ensures r is Ok ==> r->Ok_0@.len() >= temp_period.bot_assns@.len()
//|         // one via per assignment for which this is the lower layer, in order, first in the list
//|         && forall|j: int| 0 <= j < temp_period.bot_assns@.len() ==> vias_ok(self.stack, *temp_period, #[trigger] r->Ok_0@[j], j),
//@   before /for \(n1, n2, inst_ptr\) in temp_period\.blockages\.iter\(\)/
//|         let ghost ns = layer_period.signals@.len() as int; let ghost nr = layer_period.rails@.len() as int;
//|         proof { lemma_period_start(layer_period, layer.spec, temp_period.periodnum, DbUnits(temp_period.layer.span.0)); }
//@   loop 1 iter it
//|             invariant period_ok(self.stack, *temp_period), *layer == *temp_period.layer.layer, elems@.len() == 0, it.index@ <= temp_period.blockages@.len(),
//|                 lp_inv(layer_period, ns, nr, 1 + 2 * it.index@),
//@   before /let start = self\.db_units/
//|             let ghost lp0 = layer_period;
//|             proof { assert(blk_ok(self.stack, temp_period.blockages@[it.index@ as int])); }
//@   loopend 1
//|             proof {
//|                 assert forall|i: int| 0 <= i < layer_period.rails@.len() implies isize::MIN <= (#[trigger] layer_period.rails@[i]).data.start.0 + layer_period.rails@[i].data.width.0 <= isize::MAX by { assert(layer_period.rails@[i].data == lp0.rails@[i].data); }
//|                 assert forall|i: int| 0 <= i < layer_period.signals@.len() implies isize::MIN <= (#[trigger] layer_period.signals@[i]).data.start.0 + layer_period.signals@[i].data.width.0 <= isize::MAX by { assert(layer_period.signals@[i].data == lp0.signals@[i].data); }
//|                 assert forall|i: int| 0 <= i < layer_period.rails@.len() implies 1 <= (#[trigger] layer_period.rails@[i]).segments@.len() <= 1 + 2 * (it.index@ + 1) by { assert(lp0.rails@[i].segments@.len() <= layer_period.rails@[i].segments@.len()); }
//|                 assert forall|i: int| 0 <= i < layer_period.signals@.len() implies 1 <= (#[trigger] layer_period.signals@[i]).segments@.len() <= 1 + 2 * (it.index@ + 1) by { assert(lp0.signals@[i].segments@.len() <= layer_period.signals@[i].segments@.len()); }
//|             }
//@   loop 2 iter it
//|             invariant period_ok(self.stack, *temp_period), *layer == *temp_period.layer.layer, elems@.len() == 0, it.index@ <= temp_period.cuts@.len(), nsig == ns,
//|                 lp_inv(layer_period, ns, nr, 1 + 2 * (temp_period.blockages@.len() as int) + 2 * it.index@),
//@   before /let track = &mut layer_period\.signals\[cut\.track\.track % nsig\];/
//|             let ghost lp0 = layer_period; let ghost ti = cut.track.track as int % ns;
//|             proof {
//|                 assert(**cut == *temp_period.cuts@[it.index@ as int]);
//|                 if cross_in_stack(self.stack, **cut) { lemma_cross_small(self.stack, **cut); }
//|             }
//@   loopend 2
//|             proof {
//|                 assert forall|i: int| 0 <= i < layer_period.signals@.len() implies
//|                     isize::MIN <= (#[trigger] layer_period.signals@[i]).data.start.0 + layer_period.signals@[i].data.width.0 <= isize::MAX
//|                     && 1 <= layer_period.signals@[i].segments@.len() <= 1 + 2 * (temp_period.blockages@.len() as int) + 2 * (it.index@ + 1) && no_rail(layer_period.signals@[i].segments@) by {
//|                     if i != ti { assert(layer_period.signals@[i] == lp0.signals@[i]); } else { assert(layer_period.signals@[i].data == lp0.signals@[i].data); }
//|                 }
//|             }
//@   before /let mut via_opt: Option<&ViaLayer> = None;/
//|         let ghost bmax: int = 1 + 2 * (temp_period.blockages@.len() as int) + 2 * (temp_period.cuts@.len() as int);
//@   loop 3 iter it
//|             invariant period_ok(self.stack, *temp_period), *layer == *temp_period.layer.layer, it.index@ <= temp_period.bot_assns@.len(),
//|                 lp_inv(layer_period, ns, nr, bmax), elems@.len() == it.index@,
//|                 via_opt is Some ==> exists|v: int| #[trigger] first_via(self.stack.vias@, layer.index, v) && *via_opt->0 == self.stack.vias@[v],
//|                 forall|j: int| 0 <= j < it.index@ ==> vias_ok(self.stack, *temp_period, #[trigger] elems@[j], j),
//@   before /self\.assign_track\(layer, &mut layer_period, assn, false\)\?;/
//|             let ghost lp0 = layer_period; let ghost e0 = elems@;
//|             proof {
//|                 assert(temp_period.cell.assignments.lookup(*assn_id) == Some(*assn));
//|                 assert(*assn_id == temp_period.bot_assns@[it.index@ as int]);
//|                 assert(assn_ok(*assn));
//|                 assert(tracks_no_rail(layer_period.signals@));
//|             }
//@   before /let assn_loc = self\.track_cross_xy\(&assn\.src\.at\)\?;/
//|             proof { lemma_lp_after_assign(lp0, layer_period, *assn, false, ns, nr, bmax); }
//@   before /let e = raw::Element \{/
//|             proof {
//|                 lemma_cross_small(self.stack, assn.src.at);
//|                 let v = choose|v: int| #[trigger] first_via(self.stack.vias@, layer.index, v) && *via_opt->0 == self.stack.vias@[v];
//|                 assert(via_ok(self.stack.vias@[v]));
//|             }
//@   loopend 3
//|             proof {
//|                 assert(elems@ == e0.push(e));
//|                 assert forall|j: int| 0 <= j < it.index@ + 1 implies vias_ok(self.stack, *temp_period, #[trigger] elems@[j], j) by {
//|                     if j < it.index@ { assert(elems@[j] == e0[j]); } else {
//|                         let v = choose|v: int| #[trigger] first_via(self.stack.vias@, layer.index, v) && *via_opt->0 == self.stack.vias@[v];
//|                         assert(via_is(e, *assn, self.stack.vias@[v], self.stack));
//|                     }
//|                 }
//|             }
//@   loop 4 iter it
//|             invariant period_ok(self.stack, *temp_period), *layer == *temp_period.layer.layer, it.index@ <= temp_period.top_assns@.len(),
//|                 lp_inv(layer_period, ns, nr, bmax), elems@.len() == temp_period.bot_assns@.len(),
//|                 forall|j: int| 0 <= j < temp_period.bot_assns@.len() ==> vias_ok(self.stack, *temp_period, #[trigger] elems@[j], j),
//@   before /self\.assign_track\(layer, &mut layer_period, assn, true\)\?;/
//|             let ghost lp0 = layer_period;
//|             proof { assert(temp_period.cell.assignments.lookup(*assn_id) == Some(*assn)); assert(assn_ok(*assn)); assert(tracks_no_rail(layer_period.signals@)); }
//@   loopend 4
//|             proof { lemma_lp_after_assign(lp0, layer_period, *assn, true, ns, nr, bmax); }
//@   loop 5 iter it
//|             invariant period_ok(self.stack, *temp_period), *layer == *temp_period.layer.layer, lp_inv(layer_period, ns, nr, bmax), elems@.len() >= temp_period.bot_assns@.len(),
//|                 forall|j: int| 0 <= j < temp_period.bot_assns@.len() ==> vias_ok(self.stack, *temp_period, #[trigger] elems@[j], j),
//@   loop 6 iter it
//|             invariant period_ok(self.stack, *temp_period), *layer == *temp_period.layer.layer, lp_inv(layer_period, ns, nr, bmax), elems@.len() >= temp_period.bot_assns@.len(),
//|                 forall|j: int| 0 <= j < temp_period.bot_assns@.len() ==> vias_ok(self.stack, *temp_period, #[trigger] elems@[j], j),
//@ end
}
proof fn canary_period(s: ValidStack, tp: TempPeriod) requires period_ok(s, tp), tp.bot_assns@.len() == 1, tp.cuts@.len() == 1, tp.blockages@.len() == 1 ensures false {}
proof fn canary_live(ts: Seq<Track>) requires tracks_live(ts, 3), ts.len() == 2 ensures false {}
}
fn main() {}
