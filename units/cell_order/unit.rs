// Unit U10b cell_order: the cell orderers embedded in the converters (C17): layout21raw::data::DepOrder.
use vstd::prelude::*;
use vstd::std_specs::hash::*;
use std::collections::HashSet;
verus! {
//@ include units/common/float.inc.rs
//@ include units/dep_order/spec.inc.rs

// =====================================================================================================
// MODELS (rule R5)
// =====================================================================================================
/// model of layout21utils::Ptr<T> = Arc<RwLock<T>>: a handle with pointer identity (Hash/Eq by address) and a pointee.
/// The pointee is an uninterpreted function of the handle, so that handles may form ANY graph — shared sub-cells and cycles included.
pub struct Ptr<T> { pub id: usize, pub _p: core::marker::PhantomData<T> }
} // verus!
// pointer identity: equality and hash of the address (layout21utils::Ptr implements exactly this); outside the verifier, assumed through obeys_key_model
impl<T> PartialEq for Ptr<T> { fn eq(&self, other: &Self) -> bool { self.id == other.id } }
impl<T> Eq for Ptr<T> { }
impl<T> std::hash::Hash for Ptr<T> { fn hash<H: std::hash::Hasher>(&self, state: &mut H) { self.id.hash(state) } }
verus! {
pub uninterp spec fn pointee<T>(p: Ptr<T>) -> T;
#[derive(Debug)]
pub struct LockError { }
impl<T> Ptr<T> {
    /// `read()`: the lock is neither poisoned nor write-held (uncontended use) — assumption
    #[verifier::external_body]
    pub fn read(&self) -> (r: Result<&T, LockError>) ensures r is Ok, *r->Ok_0 == pointee(*self) { unimplemented!() }
}
impl<T> Clone for Ptr<T> { #[verifier::external_body] fn clone(&self) -> (r: Self) ensures r == *self { unimplemented!() } }
/// R5: the raw data model reduced to the fields the orderer reads
pub struct Instance { pub cell: Ptr<Cell> }
pub struct Layout { pub insts: Vec<Instance> }
pub struct Cell { pub layout: Option<Layout> }
/// PtrList<Cell> (a newtype over Vec<Ptr<Cell>> that derefs to it) as that Vec
pub struct Library { pub cells: Vec<Ptr<Cell>> }

// =====================================================================================================
// SPEC (C17)
// =====================================================================================================
pub open spec fn dep_seq(l: Layout) -> Seq<Ptr<Cell>> { Seq::new(l.insts@.len(), |i: int| l.insts@[i].cell) }
/// the cells a cell depends on: the targets of its layout's instances
pub open spec fn deps(p: Ptr<Cell>) -> Set<Ptr<Cell>> {
    match pointee(p).layout { Some(l) => dep_seq(l).to_set(), None => Set::empty() }
}
/// a topological rank: exists exactly when the instantiation graph is acyclic
pub uninterp spec fn rank(p: Ptr<Cell>) -> nat;
pub open spec fn acyclic() -> bool { forall|p: Ptr<Cell>, q: Ptr<Cell>| #[trigger] deps(p).contains(q) ==> rank(q) < rank(p) }

//@ item layout21raw/src/data.rs :: struct DepOrder
//@   pubfields
//@ end
pub open spec fn deps_fn() -> spec_fn(Ptr<Cell>) -> Set<Ptr<Cell>> { |p: Ptr<Cell>| deps(p) }
/// (A) functional correctness on acyclic libraries: duplicate-free, complete, dependencies-first
impl<'lib> DepOrder<'lib> {
//@ fn layout21raw/src/data.rs :: impl<'lib> DepOrder<'lib> :: fn order
//@   ret r
//@   spec
//|         requires acyclic(), obeys_key_model::<Ptr<Cell>>(),
//|         ensures is_dep_ordering(r@, lib.cells@, |p: Ptr<Cell>| deps(p)), only_reachable(r@, lib.cells@, deps_fn()),
//@   before /for cell in myself\.lib\.cells\.iter\(\)/
//|         proof { assert(myself.stack@.to_set() =~= Set::<Ptr<Cell>>::empty()); }
//@   loop 1 iter it
//|             invariant acyclic(), obeys_key_model::<Ptr<Cell>>(), myself.lib == lib, it.seq().len() == lib.cells@.len(), forall|k: int| 0 <= k < lib.cells@.len() ==> *(#[trigger] it.seq()[k]) == lib.cells@[k],
//|                 inv_raw(myself.stack@, myself.seen@, Set::<Ptr<Cell>>::empty(), |p: Ptr<Cell>| deps(p)),
//|                 forall|k: int| 0 <= k < it.index@ ==> myself.seen@.contains(#[trigger] lib.cells@[k]),
//|                 forall|s: Set<Ptr<Cell>>, x: Ptr<Cell>| #[trigger] closed_under(s, deps_fn()) && covers(s, lib.cells@) && #[trigger] myself.seen@.contains(x) ==> s.contains(x),
//@   before /myself\.push\(cell\);/
//|             let ghost before = myself.stack@; let ghost seen1 = myself.seen@;
//@   loopend 1
//|             proof {
//|                 assert forall|k: int| 0 <= k < it.index@ implies myself.seen@.contains(#[trigger] lib.cells@[k]) by {
//|                     assert(before.contains(lib.cells@[k]));
//|                     let idx = choose|q: int| 0 <= q < before.len() && before[q] == lib.cells@[k];
//|                     assert(myself.stack@[idx] == lib.cells@[k]);
//|                 }
//|                 assert(*cell == lib.cells@[it.index@ as int]);
//|                 assert forall|s: Set<Ptr<Cell>>, x: Ptr<Cell>| #[trigger] closed_under(s, deps_fn()) && covers(s, lib.cells@) && #[trigger] myself.seen@.contains(x) implies s.contains(x) by {
//|                     assert(s.contains(lib.cells@[it.index@ as int]));
//|                     if seen1.contains(x) { } else { }
//|                 }
//|             }
//@   before /^        myself\.stack$/
//|         proof {
//|             assert forall|s: Set<Ptr<Cell>>, i: int| #[trigger] closed_under(s, deps_fn()) && covers(s, lib.cells@) && 0 <= i < myself.stack@.len() implies s.contains(#[trigger] myself.stack@[i]) by {
//|                 assert(myself.stack@.contains(myself.stack@[i])); assert(myself.seen@.contains(myself.stack@[i]));
//|             }
//|             assert forall|k: int| 0 <= k < lib.cells@.len() implies myself.stack@.contains(#[trigger] lib.cells@[k]) by { assert(myself.seen@.contains(lib.cells@[k])); }
//|         }
//@ end
//@ fn layout21raw/src/data.rs :: impl<'lib> DepOrder<'lib> :: fn push
//@   sub R6 /for inst in &layout\.insts \{/ => for inst in layout.insts.iter() {
//@   spec
//|         requires acyclic(), obeys_key_model::<Ptr<Cell>>(), inv_raw(old(self).stack@, old(self).seen@, Set::<Ptr<Cell>>::empty(), |p: Ptr<Cell>| deps(p)),
//|         ensures inv_raw(final(self).stack@, final(self).seen@, Set::<Ptr<Cell>>::empty(), |p: Ptr<Cell>| deps(p)),
//|             old(self).stack@.is_prefix_of(final(self).stack@), final(self).seen@.contains(*ptr), final(self).lib == old(self).lib,
//|             // only the cell and what it (transitively) depends on is added
//|             forall|x: Ptr<Cell>| final(self).seen@.contains(x) && !old(self).seen@.contains(x) ==> rank(x) <= rank(*ptr),
//|             // ... and nothing outside any dependency-closed set that holds the cell
//|             forall|s: Set<Ptr<Cell>>, x: Ptr<Cell>| #[trigger] closed_under(s, deps_fn()) && s.contains(*ptr) && #[trigger] final(self).seen@.contains(x) && !old(self).seen@.contains(x) ==> s.contains(x),
//|         decreases rank(*ptr),
//@   loop 1 iter it
//|                     invariant acyclic(), obeys_key_model::<Ptr<Cell>>(), self.lib == old(self).lib, *cell == pointee(*ptr), cell.layout == Some(*layout),
//|                         inv_raw(self.stack@, self.seen@, Set::<Ptr<Cell>>::empty(), |p: Ptr<Cell>| deps(p)), old(self).stack@.is_prefix_of(self.stack@),
//|                         !old(self).seen@.contains(*ptr),
//|                         forall|x: Ptr<Cell>| self.seen@.contains(x) && !old(self).seen@.contains(x) ==> rank(x) < rank(*ptr),
//|                         forall|s: Set<Ptr<Cell>>, x: Ptr<Cell>| #[trigger] closed_under(s, deps_fn()) && s.contains(*ptr) && #[trigger] self.seen@.contains(x) && !old(self).seen@.contains(x) ==> s.contains(x),
//|                         forall|k: int| 0 <= k < it.index@ ==> self.seen@.contains(#[trigger] layout.insts@[k].cell),
//@   loopstart 1
//|                     let ghost before = self.stack@; let ghost seen0 = self.seen@;
//|                     proof { assert(dep_seq(*layout)[it.index@ as int] == inst.cell); assert(dep_seq(*layout).contains(inst.cell)); assert(deps(*ptr).contains(inst.cell)); }
//@   loopend 1
//|                     proof {
//|                         assert forall|s: Set<Ptr<Cell>>, x: Ptr<Cell>| #[trigger] closed_under(s, deps_fn()) && s.contains(*ptr) && #[trigger] self.seen@.contains(x) && !old(self).seen@.contains(x) implies s.contains(x) by {
//|                             let d = deps_fn(); assert(d(*ptr).subset_of(s)); assert(s.contains(inst.cell));
//|                             if seen0.contains(x) { } else { }
//|                         }
//|                         assert forall|k: int| 0 <= k < it.index@ implies self.seen@.contains(#[trigger] layout.insts@[k].cell) by {
//|                             assert(before.contains(layout.insts@[k].cell));
//|                             let idx = choose|q: int| 0 <= q < before.len() && before[q] == layout.insts@[k].cell;
//|                             assert(self.stack@[idx] == layout.insts@[k].cell);
//|                         }
//|                     }
//@   before1 /And insert the cell \(pointer\) itself|self\.seen\.insert\(Ptr::clone\(ptr\)\)/
//|             let ghost after = *self;
//|             proof {
//|                 assert(!after.seen@.contains(*ptr));
//|                 assert(deps(*ptr).subset_of(after.seen@)) by {
//|                     assert forall|q: Ptr<Cell>| deps(*ptr).contains(q) implies after.seen@.contains(q) by {
//|                         match pointee(*ptr).layout { Some(l) => { let i = choose|i: int| 0 <= i < dep_seq(l).len() && dep_seq(l)[i] == q; assert(after.seen@.contains(l.insts@[i].cell)); } None => {} }
//|                     }
//|                 }
//|             }
//@   after /self\.stack\.push\(Ptr::clone\(ptr\)\);/
//|             proof {
//|                 let s2 = after.stack@; let s3 = self.stack@;
//|                 assert(s3 == s2.push(*ptr));
//|                 assert(!s2.contains(*ptr)) by { if s2.contains(*ptr) { assert(s2.to_set().contains(*ptr)); } }
//|                 lemma_push_no_dup(s2, *ptr);
//|                 lemma_push_to_set(s2, *ptr);
//|                 assert(self.seen@ =~= s3.to_set());
//|                 let d = |x: Ptr<Cell>| deps(x);
//|                 assert forall|i: int| 0 <= i < s3.len() implies (#[trigger] d(s3[i])).subset_of(s3.take(i).to_set()) by {
//|                     if i < s2.len() { assert(s3.take(i) =~= s2.take(i)); assert(s3[i] == s2[i]); assert(d(s2[i]).subset_of(s2.take(i).to_set())); }
//|                     else { assert(s3.take(i) =~= s2); assert(s3[i] == *ptr); }
//|                 }
//|                 assert(old(self).stack@.is_prefix_of(s3)) by { assert(old(self).stack@.is_prefix_of(s2)); }
//|             }
//@ end
}
/// (B) totality — C17's last sentence: "if the graph has a cycle an error is returned ... the call does not recurse without bound".
/// The same function, extracted a second time, for ANY graph of cells: the only obligation is the termination measure.
pub mod any_graph {
    use vstd::prelude::*;
    use vstd::std_specs::hash::*;
    use std::collections::HashSet;
    use super::{Ptr, Cell, Layout, Instance, Library, LockError, pointee, rank};
//@ item layout21raw/src/data.rs :: struct DepOrder
//@   pubfields
//@ end
    impl<'lib> DepOrder<'lib> {
//@ fn layout21raw/src/data.rs :: impl<'lib> DepOrder<'lib> :: fn push
//@   sub R6 /for inst in &layout\.insts \{/ => for inst in layout.insts.iter() {
//@   spec
//|         requires obeys_key_model::<Ptr<Cell>>(),
//|         decreases rank(*ptr),
//@   loop 1 iter it
//|                     invariant obeys_key_model::<Ptr<Cell>>(),
//@ end
    }
}
// =====================================================================================================
// layout21tetris::library::DepOrder — the same orderer over the gridded library (instances are themselves behind handles)
// =====================================================================================================
pub mod tetris {
    use vstd::prelude::*;
    use vstd::std_specs::hash::*;
    use std::collections::HashSet;
    use super::{Ptr, LockError, pointee, is_dep_ordering, inv_raw, lemma_push_no_dup, lemma_push_to_set};
    /// R5: the tetris data model reduced to the fields the orderer reads; PtrList<T> as Vec<Ptr<T>>
    pub struct Instance { pub cell: Ptr<Cell> }
    pub struct Layout { pub instances: Vec<Ptr<Instance>> }
    pub struct Cell { pub layout: Option<Layout> }
    pub struct Library { pub cells: Vec<Ptr<Cell>> }
    pub mod cell { pub use super::Cell; }
    pub open spec fn dep_seq(l: Layout) -> Seq<Ptr<Cell>> { Seq::new(l.instances@.len(), |i: int| pointee(l.instances@[i]).cell) }
    pub open spec fn deps(p: Ptr<Cell>) -> Set<Ptr<Cell>> { match pointee(p).layout { Some(l) => dep_seq(l).to_set(), None => Set::empty() } }
    pub uninterp spec fn rank(p: Ptr<Cell>) -> nat;
    pub open spec fn acyclic() -> bool { forall|p: Ptr<Cell>, q: Ptr<Cell>| #[trigger] deps(p).contains(q) ==> rank(q) < rank(p) }
//@ item layout21tetris/src/library.rs :: struct DepOrder
//@   pubfields
//@ end
    impl<'lib> DepOrder<'lib> {
//@ fn layout21tetris/src/library.rs :: impl<'lib> DepOrder<'lib> :: fn order
//@   ret r
//@   spec
//|         requires acyclic(), obeys_key_model::<Ptr<Cell>>(),
//|         ensures is_dep_ordering(r@, lib.cells@, |p: Ptr<Cell>| deps(p)),
//@   before /for cell in myself\.lib\.cells\.iter\(\)/
//|         proof { assert(myself.stack@.to_set() =~= Set::<Ptr<Cell>>::empty()); }
//@   loop 1 iter it
//|             invariant acyclic(), obeys_key_model::<Ptr<Cell>>(), myself.lib == lib, it.seq().len() == lib.cells@.len(), forall|k: int| 0 <= k < lib.cells@.len() ==> *(#[trigger] it.seq()[k]) == lib.cells@[k],
//|                 inv_raw(myself.stack@, myself.seen@, Set::<Ptr<Cell>>::empty(), |p: Ptr<Cell>| deps(p)),
//|                 forall|k: int| 0 <= k < it.index@ ==> myself.seen@.contains(#[trigger] lib.cells@[k]),
//@   before /myself\.push\(cell\);/
//|             let ghost before = myself.stack@;
//@   loopend 1
//|             proof {
//|                 assert forall|k: int| 0 <= k < it.index@ implies myself.seen@.contains(#[trigger] lib.cells@[k]) by {
//|                     assert(before.contains(lib.cells@[k]));
//|                     let idx = choose|q: int| 0 <= q < before.len() && before[q] == lib.cells@[k];
//|                     assert(myself.stack@[idx] == lib.cells@[k]);
//|                 }
//|                 assert(*cell == lib.cells@[it.index@ as int]);
//|             }
//@   before /^        myself\.stack$/
//|         proof {
//|             assert forall|k: int| 0 <= k < lib.cells@.len() implies myself.stack@.contains(#[trigger] lib.cells@[k]) by { assert(myself.seen@.contains(lib.cells@[k])); }
//|         }
//@ end
//@ fn layout21tetris/src/library.rs :: impl<'lib> DepOrder<'lib> :: fn push
//@   sub R3 /for ptr in layout\.instances\.iter\(\) \{\s*let inst = ptr\.read\(\)\.unwrap\(\);/ => for vp_iptr in layout.instances.iter() { let inst = vp_iptr.read().unwrap();
//@   spec
//|         requires acyclic(), obeys_key_model::<Ptr<Cell>>(), inv_raw(old(self).stack@, old(self).seen@, Set::<Ptr<Cell>>::empty(), |p: Ptr<Cell>| deps(p)),
//|         ensures inv_raw(final(self).stack@, final(self).seen@, Set::<Ptr<Cell>>::empty(), |p: Ptr<Cell>| deps(p)),
//|             old(self).stack@.is_prefix_of(final(self).stack@), final(self).seen@.contains(*ptr), final(self).lib == old(self).lib,
//|             forall|x: Ptr<Cell>| final(self).seen@.contains(x) && !old(self).seen@.contains(x) ==> rank(x) <= rank(*ptr),
//|         decreases rank(*ptr),
//@   loop 1 iter it
//|                     invariant acyclic(), obeys_key_model::<Ptr<Cell>>(), self.lib == old(self).lib, *cell == pointee(*ptr), cell.layout == Some(*layout),
//|                         inv_raw(self.stack@, self.seen@, Set::<Ptr<Cell>>::empty(), |p: Ptr<Cell>| deps(p)), old(self).stack@.is_prefix_of(self.stack@),
//|                         !old(self).seen@.contains(*ptr),
//|                         forall|x: Ptr<Cell>| self.seen@.contains(x) && !old(self).seen@.contains(x) ==> rank(x) < rank(*ptr),
//|                         forall|k: int| 0 <= k < it.index@ ==> self.seen@.contains(#[trigger] dep_seq(*layout)[k]),
//@   before /self\.push\(&inst\.cell\);/
//|                     let ghost before = self.stack@;
//|                     proof { assert(dep_seq(*layout)[it.index@ as int] == inst.cell); assert(dep_seq(*layout).contains(inst.cell)); assert(deps(*ptr).contains(inst.cell)); }
//@   loopend 1
//|                     proof {
//|                         assert forall|k: int| 0 <= k < it.index@ implies self.seen@.contains(#[trigger] dep_seq(*layout)[k]) by {
//|                             assert(before.contains(dep_seq(*layout)[k]));
//|                             let idx = choose|q: int| 0 <= q < before.len() && before[q] == dep_seq(*layout)[k];
//|                             assert(self.stack@[idx] == dep_seq(*layout)[k]);
//|                         }
//|                     }
//@   before1 /And insert the cell \(pointer\) itself|self\.seen\.insert\(Ptr::clone\(ptr\)\)/
//|             let ghost after = *self;
//|             proof {
//|                 assert(!after.seen@.contains(*ptr));
//|                 assert(deps(*ptr).subset_of(after.seen@)) by {
//|                     assert forall|q: Ptr<Cell>| deps(*ptr).contains(q) implies after.seen@.contains(q) by {
//|                         match pointee(*ptr).layout { Some(l) => { let i = choose|i: int| 0 <= i < dep_seq(l).len() && dep_seq(l)[i] == q; assert(after.seen@.contains(dep_seq(l)[i])); } None => {} }
//|                     }
//|                 }
//|             }
//@   after /self\.stack\.push\(Ptr::clone\(ptr\)\);/
//|             proof {
//|                 let s2 = after.stack@; let s3 = self.stack@;
//|                 assert(s3 == s2.push(*ptr));
//|                 assert(!s2.contains(*ptr)) by { if s2.contains(*ptr) { assert(s2.to_set().contains(*ptr)); } }
//|                 lemma_push_no_dup(s2, *ptr);
//|                 lemma_push_to_set(s2, *ptr);
//|                 assert(self.seen@ =~= s3.to_set());
//|                 let d = |x: Ptr<Cell>| deps(x);
//|                 assert forall|i: int| 0 <= i < s3.len() implies (#[trigger] d(s3[i])).subset_of(s3.take(i).to_set()) by {
//|                     if i < s2.len() { assert(s3.take(i) =~= s2.take(i)); assert(s3[i] == s2[i]); assert(d(s2[i]).subset_of(s2.take(i).to_set())); }
//|                     else { assert(s3.take(i) =~= s2); assert(s3[i] == *ptr); }
//|                 }
//|                 assert(old(self).stack@.is_prefix_of(s3)) by { assert(old(self).stack@.is_prefix_of(s2)); }
//|             }
//@ end
    }
    /// totality on ANY graph (C17's last sentence), as for the raw orderer
    pub mod any_graph {
        use vstd::prelude::*;
        use vstd::std_specs::hash::*;
        use std::collections::HashSet;
        use super::super::{Ptr, LockError, pointee};
        pub use super::{Cell, Layout, Instance, Library, rank};
        pub mod cell { pub use super::super::Cell; }
//@ item layout21tetris/src/library.rs :: struct DepOrder
//@   pubfields
//@ end
        impl<'lib> DepOrder<'lib> {
//@ fn layout21tetris/src/library.rs :: impl<'lib> DepOrder<'lib> :: fn push
//@   sub R3 /for ptr in layout\.instances\.iter\(\) \{\s*let inst = ptr\.read\(\)\.unwrap\(\);/ => for vp_iptr in layout.instances.iter() { let inst = vp_iptr.read().unwrap();
//@   spec
//|         requires obeys_key_model::<Ptr<Cell>>(),
//|         decreases rank(*ptr),
//@   loop 1 iter it
//|                     invariant obeys_key_model::<Ptr<Cell>>(),
//@ end
        }
    }
}
proof fn canary_acyclic(p: Ptr<Cell>, q: Ptr<Cell>) requires acyclic(), deps(p).contains(q), deps(q).len() == 0 ensures false {}
}
fn main() {}
