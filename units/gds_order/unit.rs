// Unit U10c gds_order: layout21raw::gds::GdsDepOrder — the by-name structure orderer of the GDSII importer (C17, C06).
use vstd::prelude::*;
use vstd::std_specs::hash::*;
use std::collections::{HashMap, HashSet};
verus! {
//@ include units/dep_order/spec.inc.rs

// =====================================================================================================
// MODELS (rule R5)
// =====================================================================================================
/// a Rust String is determined by its characters (Eq and Hash are content-based): stated as an axiom because vstd gives String no extensionality
pub mod vp_string_ext {
    use vstd::prelude::*;
    pub broadcast axiom fn axiom_string_ext(a: String, b: String) ensures (#[trigger] a@ == #[trigger] b@) ==> a == b;
}
broadcast use vp_string_ext::axiom_string_ext;
#[derive(Debug)]
pub struct LayoutError { }
pub type LayoutResult<T> = Result<T, LayoutError>;
/// R5: gds21's library tree reduced to what the orderer reads: structure names, and the names referenced by SREF / AREF elements
pub mod gds21 {
    pub struct GdsStructRef { pub name: String }
    pub struct GdsArrayRef { pub name: String }
    pub struct GdsOther { }
    pub enum GdsElement { GdsStructRef(GdsStructRef), GdsArrayRef(GdsArrayRef), GdsBoundary(GdsOther), GdsPath(GdsOther), GdsTextElem(GdsOther), GdsNode(GdsOther), GdsBox(GdsOther) }
    pub struct GdsStruct { pub name: String, pub elems: Vec<GdsElement> }
    pub struct GdsLibrary { pub structs: Vec<GdsStruct> }
}

// =====================================================================================================
// SPEC (C17 / C06)
// =====================================================================================================
pub type SMap<'a> = Map<String, &'a gds21::GdsStruct>;
/// the name an element references, if it is a structure or array reference
pub open spec fn rname(e: gds21::GdsElement) -> Option<String> {
    match e { gds21::GdsElement::GdsStructRef(x) => Some(x.name), gds21::GdsElement::GdsArrayRef(x) => Some(x.name), _ => None }
}
pub open spec fn in_map(m: SMap, s: gds21::GdsStruct) -> bool { m.contains_key(s.name) && *m[s.name] == s }
/// the name table is keyed by the structures' own names, and every SREF / AREF names a structure of the table
pub open spec fn keys_own(m: SMap) -> bool { forall|k: String| #[trigger] m.contains_key(k) ==> m[k].name == k }
pub open spec fn refs_in(m: SMap) -> bool {
    forall|k: String, j: int| m.contains_key(k) && 0 <= j < m[k].elems@.len() && rname(#[trigger] m[k].elems@[j]) is Some ==> m.contains_key(rname(m[k].elems@[j])->0)
}
pub open spec fn map_ok(m: SMap) -> bool { keys_own(m) && refs_in(m) }
/// a topological rank on names: exists exactly when the reference graph is acyclic
pub uninterp spec fn rank(n: String) -> nat;
pub open spec fn acyclic(m: SMap) -> bool {
    forall|k: String, j: int| m.contains_key(k) && 0 <= j < m[k].elems@.len() && rname(#[trigger] m[k].elems@[j]) is Some ==> rank(rname(m[k].elems@[j])->0) < rank(k)
}
pub open spec fn snames(st: Seq<&gds21::GdsStruct>) -> Seq<String> { Seq::new(st.len(), |i: int| st[i].name) }
/// orderer invariant: distinct names, `seen` is exactly the names on the stack, every stacked structure is the table's, and every
/// structure comes after everything it references
pub open spec fn ginv(m: SMap, st: Seq<&gds21::GdsStruct>, seen: Set<String>) -> bool {
    &&& snames(st).no_duplicates() &&& seen == snames(st).to_set()
    &&& forall|i: int| 0 <= i < st.len() ==> in_map(m, *#[trigger] st[i])
    &&& forall|i: int, j: int| 0 <= i < st.len() && 0 <= j < st[i].elems@.len() && rname(#[trigger] st[i].elems@[j]) is Some ==> snames(st.take(i)).contains(rname(st[i].elems@[j])->0)
}

pub open spec fn unique_names(l: gds21::GdsLibrary) -> bool {
    forall|i: int, j: int| 0 <= i < l.structs@.len() && 0 <= j < l.structs@.len() && i != j ==> (#[trigger] l.structs@[i]).name != (#[trigger] l.structs@[j]).name
}
pub open spec fn in_lib(l: gds21::GdsLibrary, s: gds21::GdsStruct) -> bool { exists|k: int| 0 <= k < l.structs@.len() && #[trigger] l.structs@[k] == s }
pub open spec fn has_name(l: gds21::GdsLibrary, n: String) -> bool { exists|i: int| 0 <= i < l.structs@.len() && (#[trigger] l.structs@[i]).name == n }
/// every SREF / AREF names a structure of the library
pub open spec fn refs_defined(l: gds21::GdsLibrary) -> bool {
    forall|i: int, j: int| 0 <= i < l.structs@.len() && 0 <= j < l.structs@[i].elems@.len() && rname(#[trigger] l.structs@[i].elems@[j]) is Some ==> has_name(l, rname(l.structs@[i].elems@[j])->0)
}
pub open spec fn lib_acyclic(l: gds21::GdsLibrary) -> bool {
    forall|i: int, j: int| 0 <= i < l.structs@.len() && 0 <= j < l.structs@[i].elems@.len() && rname(#[trigger] l.structs@[i].elems@[j]) is Some ==> rank(rname(l.structs@[i].elems@[j])->0) < rank(l.structs@[i].name)
}
/// the name table holds exactly the first `n` structures of the library, each under its own name
pub open spec fn table_of(m: SMap, l: gds21::GdsLibrary, n: int) -> bool {
    &&& forall|i: int| 0 <= i < n ==> m.contains_key((#[trigger] l.structs@[i]).name) && *m[l.structs@[i].name] == l.structs@[i]
    &&& forall|k: String| #[trigger] m.contains_key(k) ==> exists|i: int| 0 <= i < n && (#[trigger] l.structs@[i]).name == k
}
proof fn lemma_table(m: SMap, l: gds21::GdsLibrary)
    requires table_of(m, l, l.structs@.len() as int), unique_names(l),
    ensures keys_own(m), (refs_defined(l) && lib_acyclic(l)) ==> refs_in(m) && acyclic(m),
{
    assert forall|k: String| #[trigger] m.contains_key(k) implies m[k].name == k by {
        let i = choose|i: int| 0 <= i < l.structs@.len() && (#[trigger] l.structs@[i]).name == k;
        assert(*m[l.structs@[i].name] == l.structs@[i]);
    }
    if refs_defined(l) && lib_acyclic(l) {
        assert forall|k: String, j: int| m.contains_key(k) && 0 <= j < m[k].elems@.len() && rname(#[trigger] m[k].elems@[j]) is Some
            implies m.contains_key(rname(m[k].elems@[j])->0) && rank(rname(m[k].elems@[j])->0) < rank(k) by {
            let i = choose|i: int| 0 <= i < l.structs@.len() && (#[trigger] l.structs@[i]).name == k;
            assert(*m[l.structs@[i].name] == l.structs@[i]);
            assert(m[k].elems@[j] == l.structs@[i].elems@[j]);
            let r = rname(l.structs@[i].elems@[j])->0;
            assert(has_name(l, r));
            let q = choose|q: int| 0 <= q < l.structs@.len() && (#[trigger] l.structs@[q]).name == r;
            assert(m.contains_key(l.structs@[q].name));
        }
    }
}
//@ item layout21raw/src/gds.rs :: struct GdsDepOrder
//@   pubfields
//@ end
/// order / push / get of the by-name orderer: correct whenever they succeed, successful on well-formed libraries, total on any library
impl<'a> GdsDepOrder<'a> {
//@ fn layout21raw/src/gds.rs :: impl<'a> GdsDepOrder<'a> :: fn order
//@   ret r
//@   sub R3 /let mut strukts = HashMap::new\(\);/ => let mut strukts: HashMap<String, &'a gds21::GdsStruct> = HashMap::new();
//@   sub R6 /for s in &gdslib\.structs \{/ => for s in gdslib.structs.iter() {
//@   spec
//|         requires obeys_key_model::<String>(), unique_names(*gdslib),
//|         ensures r is Ok ==> ({
//|             let v = r->Ok_0@;
//|             &&& snames(v).no_duplicates()
//|             // complete: every structure of the library is listed
//|             &&& forall|k: int| 0 <= k < gdslib.structs@.len() ==> snames(v).contains((#[trigger] gdslib.structs@[k]).name)
//|             // only library structures are listed
//|             &&& forall|i: int| 0 <= i < v.len() ==> in_lib(*gdslib, *#[trigger] v[i])
//|             // dependencies first
//|             &&& forall|i: int, j: int| 0 <= i < v.len() && 0 <= j < v[i].elems@.len() && rname(#[trigger] v[i].elems@[j]) is Some ==> snames(v.take(i)).contains(rname(v[i].elems@[j])->0)
//|         }),
//|             // a library in which every reference is defined and which has no cycle is never rejected
//|             (refs_defined(*gdslib) && lib_acyclic(*gdslib)) ==> r is Ok,
//@   loop 1 iter it
//|             invariant obeys_key_model::<String>(), unique_names(*gdslib), it.index@ <= gdslib.structs@.len(), table_of(strukts@, *gdslib, it.index@ as int),
//@   loopend 1
//|             proof {
//|                 let k = it.index@ as int; let m = strukts@;
//|                 assert(*s == gdslib.structs@[k]);
//|                 assert forall|i: int| 0 <= i < k + 1 implies m.contains_key((#[trigger] gdslib.structs@[i]).name) && *m[gdslib.structs@[i].name] == gdslib.structs@[i] by {
//|                     if i < k { assert(gdslib.structs@[i].name != gdslib.structs@[k].name); }
//|                 }
//|             }
//@   before /let mut me = Self \{/
//|         proof { lemma_table(strukts@, *gdslib); }
//|         let ghost m = strukts@;
//@   after /^        \};$/
//|         proof { assert(snames(me.stack@).to_set() =~= Set::<String>::empty()); assert(me.pending@ =~= Set::<String>::empty()); }
//@   loop 2 iter it2
//|             invariant obeys_key_model::<String>(), me.strukts@ == m, keys_own(m), table_of(m, *gdslib, gdslib.structs@.len() as int),
//|                 (refs_defined(*gdslib) && lib_acyclic(*gdslib)) ==> refs_in(m) && acyclic(m),
//|                 me.pending@ == Set::<String>::empty(), ginv(m, me.stack@, me.seen@), it2.index@ <= gdslib.structs@.len(),
//|                 forall|k: int| 0 <= k < it2.index@ ==> me.seen@.contains((#[trigger] gdslib.structs@[k]).name),
//@   before /me\.push\(s\)\?;/
//|             let ghost before = me.stack@; let ghost bseen = me.seen@;
//|             proof { assert(*s == gdslib.structs@[it2.index@ as int]); assert(in_map(m, *s)); }
//@   loopend 2
//|             proof {
//|                 assert forall|k: int| 0 <= k < it2.index@ implies me.seen@.contains((#[trigger] gdslib.structs@[k]).name) by {
//|                     let n = gdslib.structs@[k].name;
//|                     assert(bseen.contains(n)); assert(snames(before).contains(n));
//|                     let idx = choose|q: int| 0 <= q < snames(before).len() && snames(before)[q] == n;
//|                     assert(me.stack@[idx] == before[idx]); assert(snames(me.stack@)[idx] == n);
//|                 }
//|             }
//@   before /^        Ok\(me\.stack\)$/
//|         proof {
//|             assert forall|k: int| 0 <= k < gdslib.structs@.len() implies snames(me.stack@).contains((#[trigger] gdslib.structs@[k]).name) by { assert(me.seen@.contains(gdslib.structs@[k].name)); }
//|             assert forall|i: int| 0 <= i < me.stack@.len() implies in_lib(*gdslib, *#[trigger] me.stack@[i]) by {
//|                 assert(in_map(m, *me.stack@[i]));
//|                 let k = choose|k: int| 0 <= k < gdslib.structs@.len() && (#[trigger] gdslib.structs@[k]).name == me.stack@[i].name;
//|                 assert(*m[gdslib.structs@[k].name] == gdslib.structs@[k]);
//|                 assert(*me.stack@[i] == gdslib.structs@[k]);
//|             }
//|         }
//@ end
//@ fn layout21raw/src/gds.rs :: impl<'a> GdsDepOrder<'a> :: fn get
//@   ret r
//@   sub R5 /name: &str/ => name: &String
//@   spec
//|         requires obeys_key_model::<String>(),
//|         ensures r is Ok <==> self.strukts@.contains_key(*name), r is Ok ==> r->Ok_0 == self.strukts@[*name],
//@ end
//@ fn layout21raw/src/gds.rs :: impl<'a> GdsDepOrder<'a> :: fn push
//@   ret r
//@   sub R6 /for elem in &strukt\.elems \{/ => for elem in strukt.elems.iter() {
//@   spec
//|         requires obeys_key_model::<String>(), keys_own(old(self).strukts@), in_map(old(self).strukts@, *strukt),
//|             old(self).pending@.subset_of(old(self).strukts@.dom()), old(self).seen@.disjoint(old(self).pending@),
//|             ginv(old(self).strukts@, old(self).stack@, old(self).seen@),
//|         ensures final(self).strukts == old(self).strukts,
//|             r is Ok ==> ginv(final(self).strukts@, final(self).stack@, final(self).seen@) && old(self).stack@.is_prefix_of(final(self).stack@)
//|                 && final(self).seen@.contains(strukt.name) && final(self).pending@ == old(self).pending@ && final(self).seen@.disjoint(final(self).pending@),
//|             // a hierarchy in which every reference is defined and which has no cycle is never rejected
//|             (refs_in(old(self).strukts@) && acyclic(old(self).strukts@) && forall|p: String| old(self).pending@.contains(p) ==> rank(strukt.name) < rank(p)) ==> r is Ok,
//|         // TOTALITY on any library (dangling and cyclic references included): every recursive call has one more structure pending
//|         decreases old(self).strukts@.dom().len() - old(self).pending@.len(),
//@   before /for elem in strukt\.elems\.iter\(\) \{/
//|             let ghost pend1 = self.pending@;
//|             proof {
//|                 assert(pend1 == old(self).pending@.insert(strukt.name));
//|                 assert(pend1.subset_of(self.strukts@.dom()));
//|                 vstd::set_lib::lemma_len_subset(pend1, self.strukts@.dom());
//|             }
//@   loop 1 iter it
//|             invariant obeys_key_model::<String>(), self.strukts == old(self).strukts, keys_own(self.strukts@), in_map(self.strukts@, *strukt),
//|                 self.pending@ == pend1, pend1 == old(self).pending@.insert(strukt.name), !old(self).pending@.contains(strukt.name), pend1.subset_of(self.strukts@.dom()),
//|                 pend1.len() == old(self).pending@.len() + 1, pend1.len() <= self.strukts@.dom().len(), self.strukts@.dom().finite(),
//|                 self.seen@.disjoint(pend1), ginv(self.strukts@, self.stack@, self.seen@), old(self).stack@.is_prefix_of(self.stack@),
//|                 forall|k: int| 0 <= k < it.index@ && rname(#[trigger] strukt.elems@[k]) is Some ==> self.seen@.contains(rname(strukt.elems@[k])->0),
//@   before /use gds21::GdsElement::\*;/
//|                 let ghost before = self.stack@; let ghost bseen = self.seen@;
//|                 proof {
//|                     assert(*self.strukts@[strukt.name] == *strukt);
//|                     assert(self.strukts@[strukt.name].elems@[it.index@ as int] == *elem);
//|                     if rname(*elem) is Some {
//|                         let r = rname(*elem)->0;
//|                         if self.strukts@.contains_key(r) { assert(in_map(self.strukts@, *self.strukts@[r])); }
//|                         if refs_in(self.strukts@) { assert(self.strukts@.contains_key(r)); }
//|                         if acyclic(self.strukts@) { assert(rank(r) < rank(strukt.name)); }
//|                     }
//|                 }
//@   loopend 1
//|                 proof {
//|                     assert forall|k: int| 0 <= k < it.index@ && rname(#[trigger] strukt.elems@[k]) is Some implies self.seen@.contains(rname(strukt.elems@[k])->0) by {
//|                         let r = rname(strukt.elems@[k])->0;
//|                         assert(bseen.contains(r));
//|                         assert(snames(before).contains(r));
//|                         let idx = choose|q: int| 0 <= q < snames(before).len() && snames(before)[q] == r;
//|                         assert(self.stack@[idx] == before[idx]);
//|                         assert(snames(self.stack@)[idx] == r);
//|                     }
//|                 }
//@   before /self\.pending\.remove\(&strukt\.name\);/
//|             proof { assert(!self.seen@.contains(strukt.name)); }
//@   before /self\.seen\.insert\(strukt\.name\.clone\(\)\);/
//|             let ghost after = *self;
//|             proof { assert(after.pending@ =~= old(self).pending@); assert(!after.seen@.contains(strukt.name)); }
//@   after /self\.stack\.push\(strukt\);/
//|             proof {
//|                 let s2 = after.stack@; let s3 = self.stack@; let m = self.strukts@;
//|                 assert(s3 == s2.push(strukt));
//|                 assert(snames(s3) =~= snames(s2).push(strukt.name));
//|                 assert(!snames(s2).contains(strukt.name)) by { if snames(s2).contains(strukt.name) { assert(snames(s2).to_set().contains(strukt.name)); } }
//|                 lemma_push_no_dup(snames(s2), strukt.name);
//|                 lemma_push_to_set(snames(s2), strukt.name);
//|                 assert(self.seen@ =~= snames(s3).to_set());
//|                 assert forall|i: int| 0 <= i < s3.len() implies in_map(m, *#[trigger] s3[i]) by { if i < s2.len() { assert(s3[i] == s2[i]); } }
//|                 assert forall|i: int, j: int| 0 <= i < s3.len() && 0 <= j < s3[i].elems@.len() && rname(#[trigger] s3[i].elems@[j]) is Some implies snames(s3.take(i)).contains(rname(s3[i].elems@[j])->0) by {
//|                     if i < s2.len() { assert(s3[i] == s2[i]); assert(s3.take(i) =~= s2.take(i)); }
//|                     else {
//|                         assert(s3.take(i) =~= s2); let r = rname(strukt.elems@[j])->0;
//|                         assert(after.seen@.contains(r)); assert(snames(s2).to_set().contains(r));
//|                     }
//|                 }
//|                 assert(old(self).stack@.is_prefix_of(s3)) by { assert(old(self).stack@.is_prefix_of(s2)); }
//|             }
//@ end
}
proof fn canary_map(m: SMap, k: String) requires map_ok(m), acyclic(m), m.contains_key(k), m[k].elems@.len() == 0 ensures false {}
impl LayoutError {
    /// model of LayoutError::fail: always an error
    #[verifier::external_body]
    pub fn fail<T, M>(msg: M) -> (r: Result<T, LayoutError>) ensures r is Err { Err(LayoutError { }) }
}
}
fn main() {}
