// Unit U12d raw_proto_lib: raw <-> vlsir protobuf at library / cell / abstract level (C14).
use vstd::prelude::*;
use vstd::std_specs::hash::*;
use std::convert::{TryFrom, TryInto};
use std::collections::HashMap;
verus! {
global size_of usize == 8;
//@ include units/common/float.inc.rs
//@ include units/raw_proto/proto.inc.rs
//@ include units/dep_order/spec.inc.rs

// =====================================================================================================
// MODELS (rule R5)
// =====================================================================================================
pub type LKey = (i16, i16);
/// model of the shared layer table: a slot map LayerKey -> Layer; each Layer knows its number and its purpose -> number map
pub struct Layer { pub layernum: i16 }
pub struct Layers { }
impl Layer {
    pub uninterp spec fn num_spec(&self, p: LayerPurpose) -> Option<i16>;
    #[verifier::external_body]
    pub fn num(&self, purpose: &LayerPurpose) -> (r: Option<i16>) ensures r == self.num_spec(*purpose) { unimplemented!() }
}
impl Layers {
    pub uninterp spec fn get_spec(&self, k: LayerKey) -> Option<Layer>;
    #[verifier::external_body]
    pub fn get(&self, key: LayerKey) -> (r: Option<&Layer>) ensures (r is Some) == (self.get_spec(key) is Some), r is Some ==> *r->0 == self.get_spec(key)->0 { unimplemented!() }
}
/// the (layer number, purpose number) the layer table assigns to a (layer key, purpose) pair
pub open spec fn nums_in(ls: Layers, k: LayerKey, p: LayerPurpose) -> Option<LKey> {
    match ls.get_spec(k) { Some(l) => match l.num_spec(p) { Some(n) => Some((l.layernum, n)), None => None }, None => None }
}
/// the library's layer table (the `layers: Ptr<Layers>` field the Library model leaves out)
pub uninterp spec fn layers_of(lib: Library) -> Ptr<Layers>;
pub open spec fn nums(lib: Library, k: LayerKey, p: LayerPurpose) -> Option<LKey> { nums_in(*layers_of(lib).v, k, p) }
impl Library {
    /// R5: `self.lib.layers` (field access) as a call
    #[verifier::external_body]
    pub fn vp_layers(&self) -> (r: &Ptr<Layers>) ensures *r == layers_of(*self) { unimplemented!() }
}
pub open spec fn units_num(u: proto::Units) -> i32 { match u { proto::Units::Micro => 0i32, proto::Units::Nano => 1i32, proto::Units::Angstrom => 2i32 } }
impl vstd::std_specs::convert::FromSpecImpl<proto::Units> for i32 {
    open spec fn obeys_from_spec() -> bool { true }
    open spec fn from_spec(u: proto::Units) -> i32 { units_num(u) }
}
impl From<proto::Units> for i32 { fn from(u: proto::Units) -> (r: i32) ensures r == units_num(u) { match u { proto::Units::Micro => 0, proto::Units::Nano => 1, proto::Units::Angstrom => 2 } } }

// =====================================================================================================
// SPEC
// =====================================================================================================
pub open spec fn units_exp(g: i32, u: Units) -> bool { match u { Units::Micro => g == 0, Units::Nano => g == 1, Units::Angstrom => g == 2, Units::Pico => false } }

/// the shapes of one kind (0 rectangle, 1 polygon, 2 path), in order
pub open spec fn skind(ss: Seq<Shape>, kind: int) -> Seq<Shape> decreases ss.len() {
    if ss.len() == 0 { Seq::empty() } else {
        let h = skind(ss.drop_last(), kind); let e = ss.last();
        if (kind == 0 && e is Rect) || (kind == 1 && e is Polygon) || (kind == 2 && e is Path) { h.push(e) } else { h }
    }
}
/// protobuf layer message `g` carries exactly the (net-less) shapes `ss` under layer numbers `k`: per kind, in order
pub open spec fn shapes_msg_is(g: proto::LayerShapes, k: LKey, ss: Seq<Shape>) -> bool {
    &&& g.layer is Some && g.layer->0.number == k.0 && g.layer->0.purpose == k.1
    &&& g.rectangles@.len() == skind(ss, 0).len() &&& forall|i: int| 0 <= i < skind(ss, 0).len() ==> rect_is(#[trigger] g.rectangles@[i], skind(ss, 0)[i]->Rect_0) && g.rectangles@[i].net@.len() == 0
    &&& g.polygons@.len() == skind(ss, 1).len() &&& forall|i: int| 0 <= i < skind(ss, 1).len() ==> poly_is(#[trigger] g.polygons@[i], skind(ss, 1)[i]->Polygon_0) && g.polygons@[i].net@.len() == 0
    &&& g.paths@.len() == skind(ss, 2).len() &&& forall|i: int| 0 <= i < skind(ss, 2).len() ==> path_is(#[trigger] g.paths@[i], skind(ss, 2)[i]->Path_0) && g.paths@[i].net@.len() == 0
}
/// what export_and_add_shape guarantees (its postcondition, as a predicate)
pub open spec fn added(g0: proto::LayerShapes, g1: proto::LayerShapes, s: Shape) -> bool {
    g1.layer == g0.layer && (match s {
        Shape::Rect(rc) => g1.rectangles@.len() == g0.rectangles@.len() + 1 && g1.rectangles@.drop_last() == g0.rectangles@
            && rect_is(g1.rectangles@.last(), rc) && g1.rectangles@.last().net@.len() == 0 && g1.polygons@ == g0.polygons@ && g1.paths@ == g0.paths@,
        Shape::Polygon(p) => g1.polygons@.len() == g0.polygons@.len() + 1 && g1.polygons@.drop_last() == g0.polygons@
            && poly_is(g1.polygons@.last(), p) && g1.polygons@.last().net@.len() == 0 && g1.rectangles@ == g0.rectangles@ && g1.paths@ == g0.paths@,
        Shape::Path(p) => g1.paths@.len() == g0.paths@.len() + 1 && g1.paths@.drop_last() == g0.paths@
            && path_is(g1.paths@.last(), p) && g1.paths@.last().net@.len() == 0 && g1.rectangles@ == g0.rectangles@ && g1.polygons@ == g0.polygons@,
    })
}
pub proof fn lemma_msg_step(g0: proto::LayerShapes, g1: proto::LayerShapes, k: LKey, ss: Seq<Shape>, s: Shape)
    requires shapes_msg_is(g0, k, ss), added(g0, g1, s),
    ensures shapes_msg_is(g1, k, ss.push(s)),
{
    let t = ss.push(s);
    assert(t.drop_last() == ss); assert(t.last() == s);
    match s {
        Shape::Rect(rc) => {
            assert(skind(t, 0) == skind(ss, 0).push(s)); assert(skind(t, 1) == skind(ss, 1)); assert(skind(t, 2) == skind(ss, 2));
            assert forall|i: int| 0 <= i < skind(t, 0).len() implies rect_is(#[trigger] g1.rectangles@[i], skind(t, 0)[i]->Rect_0) && g1.rectangles@[i].net@.len() == 0 by {
                if i < skind(ss, 0).len() { assert(g1.rectangles@[i] == g1.rectangles@.drop_last()[i]); } else { assert(g1.rectangles@[i] == g1.rectangles@.last()); }
            }
        }
        Shape::Polygon(p) => {
            assert(skind(t, 1) == skind(ss, 1).push(s)); assert(skind(t, 0) == skind(ss, 0)); assert(skind(t, 2) == skind(ss, 2));
            assert forall|i: int| 0 <= i < skind(t, 1).len() implies poly_is(#[trigger] g1.polygons@[i], skind(t, 1)[i]->Polygon_0) && g1.polygons@[i].net@.len() == 0 by {
                if i < skind(ss, 1).len() { assert(g1.polygons@[i] == g1.polygons@.drop_last()[i]); } else { assert(g1.polygons@[i] == g1.polygons@.last()); }
            }
        }
        Shape::Path(p) => {
            assert(skind(t, 2) == skind(ss, 2).push(s)); assert(skind(t, 0) == skind(ss, 0)); assert(skind(t, 1) == skind(ss, 1));
            assert forall|i: int| 0 <= i < skind(t, 2).len() implies path_is(#[trigger] g1.paths@[i], skind(t, 2)[i]->Path_0) && g1.paths@[i].net@.len() == 0 by {
                if i < skind(ss, 2).len() { assert(g1.paths@[i] == g1.paths@.drop_last()[i]); } else { assert(g1.paths@[i] == g1.paths@.last()); }
            }
        }
    }
}
pub open spec fn shapes_small(ss: Seq<Shape>) -> bool { forall|i: int| 0 <= i < ss.len() ==> shape_small(#[trigger] ss[i]) }
/// `gs` holds, in the order `keys`, one message per entry of the layer -> shapes map `m` (exported under purpose `p`)
pub open spec fn entries_exp(gs: Seq<proto::LayerShapes>, keys: Seq<LayerKey>, m: Map<LayerKey, Vec<Shape>>, lib: Library, p: LayerPurpose) -> bool {
    &&& keys.no_duplicates() &&& keys.len() == m.dom().len() &&& gs.len() == keys.len()
    &&& forall|i: int| 0 <= i < keys.len() ==> m.dom().contains(#[trigger] keys[i]) && nums(lib, keys[i], p) is Some && shapes_msg_is(gs[i], nums(lib, keys[i], p)->0, m[keys[i]]@)
}
/// HashMap iteration order is unspecified: the messages follow SOME duplicate-free enumeration of all the map's keys
pub open spec fn layer_map_exp(gs: Seq<proto::LayerShapes>, m: Map<LayerKey, Vec<Shape>>, lib: Library, p: LayerPurpose) -> bool {
    exists|keys: Seq<LayerKey>| #[trigger] entries_exp(gs, keys, m, lib, p)
}
pub open spec fn port_exp(g: proto::AbstractPort, port: AbstractPort, lib: Library) -> bool { g.net@ == port.net@ && layer_map_exp(g.shapes@, port.shapes@, lib, LayerPurpose::Pin) }
pub open spec fn map_small(m: Map<LayerKey, Vec<Shape>>) -> bool { forall|k: LayerKey| m.dom().contains(k) ==> shapes_small(#[trigger] m[k]@) }
/// `g` is the protobuf layout message of layout `l`: PINNED by the postcondition of the real ProtoExporter::export_layout proved in unit
/// raw_proto_layout (name, one layer message per distinct (layer, purpose) in first-seen order with its shapes by kind and nets,
/// instances and annotations element-wise) — here an abstract predicate connecting the two units
pub uninterp spec fn layout_exported(g: proto::Layout, l: Layout, lib: Library) -> bool;
pub open spec fn cell_small(c: Cell) -> bool { c.abs is Some ==> abs_small(c.abs->0) }
/// the cell message: name, and exactly the views the cell has
pub open spec fn cell_exp(g: proto::Cell, c: Cell, lib: Library) -> bool {
    &&& g.name@ == c.name@
    &&& (g.layout is Some <==> c.layout is Some) &&& (c.layout is Some ==> layout_exported(g.layout->0, c.layout->0, lib))
    &&& (g.r#abstract is Some <==> c.abs is Some) &&& (c.abs is Some ==> abs_exp(g.r#abstract->0, c.abs->0, lib))
}
/// the cells a cell instantiates: the dependency relation of layout21raw::data::DepOrder
pub open spec fn cell_dep_seq(l: Layout) -> Seq<Ptr<Cell>> { Seq::new(l.insts@.len(), |i: int| l.insts@[i].cell) }
pub open spec fn cell_deps(item: Ptr<Cell>) -> Set<Ptr<Cell>> { match (*item.v).layout { Some(l) => cell_dep_seq(l).to_set(), None => Set::empty() } }
pub open spec fn cells_exp(g: Seq<proto::Cell>, order: Seq<Ptr<Cell>>, lib: Library) -> bool {
    g.len() == order.len() && forall|i: int| 0 <= i < order.len() ==> cell_exp(#[trigger] g[i], *order[i].v, lib)
}
/// the library message: name, units, and the cells' messages in a dependency ordering of the cell list
pub open spec fn lib_exp(g: proto::Library, lib: Library) -> bool {
    &&& g.domain@ == lib.name@ &&& units_exp(g.units, lib.units)
    &&& exists|order: Seq<Ptr<Cell>>| is_dep_ordering(order, lib.cells@, |c: Ptr<Cell>| cell_deps(c)) && #[trigger] cells_exp(g.cells@, order, lib)
}
pub open spec fn lib_small(lib: Library) -> bool { forall|c: Ptr<Cell>| cell_small(#[trigger] *c.v) }
/// `DepOrder::order` with, as an ASSUMED contract, the contract proved for the real layout21raw::data::DepOrder::order in unit cell_order
/// (acyclic libraries; the by-value Ptr model here cannot even express a cyclic one; cyclic libraries: finding F11)
pub struct DepOrder;
impl DepOrder {
    #[verifier::external_body]
    pub fn order(lib: &Library) -> (r: Vec<Ptr<Cell>>) ensures is_dep_ordering(r@, lib.cells@, |c: Ptr<Cell>| cell_deps(c)) { unimplemented!() }
}
impl<'lib> ProtoExporter<'lib> {
    /// ASSUMED copy of the contract proved in unit raw_proto_layout
    #[verifier::external_body]
    fn export_layout(&mut self, cell: &Layout) -> (r: LayoutResult<proto::Layout>)
        ensures final(self).lib == old(self).lib, r is Ok ==> layout_exported(r->Ok_0, *cell, *old(self).lib),
    { unimplemented!() }
//@ fn layout21raw/src/proto.rs :: impl<'lib> ProtoExporter<'lib> :: fn export_cell
//@   ret r
//@   spec
//|     requires obeys_key_model::<LayerKey>(), cell_small(*cell),
//|     ensures final(self).lib == old(self).lib, r is Ok ==> cell_exp(r->Ok_0, *cell, *old(self).lib),
//@ end
//@ fn layout21raw/src/proto.rs :: impl<'lib> ProtoExporter<'lib> :: fn export_lib
//@   ret r
//@   let plib : proto::Library
//@   sub R6 /for cell in DepOrder::order\(self\.lib\)\.iter\(\) \{/ => let vp_order = DepOrder::order(self.lib); for cell in vp_order.iter() {
//@   spec
//|     requires obeys_key_model::<LayerKey>(), !(old(self).lib.units is Pico), lib_small(*old(self).lib),
//|     ensures r is Ok ==> lib_exp(r->Ok_0, *old(self).lib),
//@   loop 1 iter it
//|             invariant self.lib == old(self).lib, obeys_key_model::<LayerKey>(), lib_small(*self.lib), plib.domain@ == self.lib.name@, units_exp(plib.units, self.lib.units),
//|                 plib.cells@.len() == it.index@, it.index@ <= vp_order@.len(),
//|                 forall|i: int| 0 <= i < it.index@ ==> cell_exp(#[trigger] plib.cells@[i], *vp_order@[i].v, *self.lib),
//@   before /let pcell = self\.export_cell\(&\*cell\)\?;/
//|             proof { assert(cell_small(*vp_order@[it.index@ as int].v)); }
//@   before /^        Ok\(plib\)$/
//|         proof { assert(cells_exp(plib.cells@, vp_order@, *self.lib)); }
//@ end
}
/// the abstract message: name, outline polygon, one port message per port in order, one blockage message per blockage layer (in some order)
pub open spec fn abs_exp(g: proto::Abstract, a: Abstract, lib: Library) -> bool {
    &&& g.name@ == a.name@ &&& g.outline is Some && poly_is(g.outline->0, a.outline) && g.outline->0.net@.len() == 0
    &&& g.ports@.len() == a.ports@.len() &&& forall|i: int| 0 <= i < a.ports@.len() ==> port_exp(#[trigger] g.ports@[i], a.ports@[i], lib)
    &&& layer_map_exp(g.blockages@, a.blockages@, lib, LayerPurpose::Obstruction)
}
pub open spec fn abs_small(a: Abstract) -> bool { map_small(a.blockages@) && forall|i: int| 0 <= i < a.ports@.len() ==> map_small((#[trigger] a.ports@[i]).shapes@) }
impl<'lib> ProtoExporter<'lib> {
//@ fn layout21raw/src/proto.rs :: impl<'lib> ProtoExporter<'lib> :: fn export_abstract
//@   ret r
//@   spec
//|     requires obeys_key_model::<LayerKey>(), abs_small(*abs),
//|     ensures final(self).lib == old(self).lib, r is Ok ==> abs_exp(r->Ok_0, *abs, *old(self).lib),
//@   atstart
//|         let ghost mut keys: Seq<LayerKey> = Seq::empty();
//@   loop 1 iter it
//|             invariant self.lib == old(self).lib, obeys_key_model::<LayerKey>(), abs_small(*abs), pabs.name@ == abs.name@, pabs.blockages@.len() == 0, pabs.ports@.len() == it.index@, it.index@ <= abs.ports@.len(),
//|                 forall|i: int| 0 <= i < it.index@ ==> port_exp(#[trigger] pabs.ports@[i], abs.ports@[i], *self.lib),
//@   loop 2 iter it
//|             invariant self.lib == old(self).lib, obeys_key_model::<LayerKey>(), abs_small(*abs), pabs.name@ == abs.name@, pabs.ports@.len() == abs.ports@.len(),
//|                 forall|i: int| 0 <= i < abs.ports@.len() ==> port_exp(#[trigger] pabs.ports@[i], abs.ports@[i], *self.lib),
//|                 pabs.blockages@.len() == it.index@, keys.len() == it.index@,
//|                 forall|i: int| 0 <= i < it.index@ ==> (#[trigger] keys[i]) == *it.history@[i].0 && nums(*self.lib, keys[i], LayerPurpose::Obstruction) is Some
//|                     && abs.blockages@.dom().contains(keys[i]) && shapes_msg_is(pabs.blockages@[i], nums(*self.lib, keys[i], LayerPurpose::Obstruction)->0, abs.blockages@[keys[i]]@),
//@   before1 /pabs\.blockages$|pabs\.blockages\.push/
//|             proof { assert(abs.blockages@.dom().contains(*layerkey) && abs.blockages@[*layerkey] == *shapes); assert(shapes_small(abs.blockages@[*layerkey]@)); keys = keys.push(*layerkey); }
//@   before /pabs\.outline = Some\(self\.export_polygon\(&abs\.outline\)\?\);/
//|         proof {
//|             assert(keys.len() == abs.blockages@.dom().len());
//|             assert(forall|i: int, j: int| 0 <= i < j < keys.len() ==> (#[trigger] keys[i]) != (#[trigger] keys[j]));
//|             assert(entries_exp(pabs.blockages@, keys, abs.blockages@, *self.lib, LayerPurpose::Obstruction));
//|         }
//@ end
//@ fn layout21raw/src/proto.rs :: impl<'lib> ProtoExporter<'lib> :: fn export_abstract_port
//@   ret r
//@   sub R6 /for \(layerkey, shapes\) in &port\.shapes \{/ => for (layerkey, shapes) in port.shapes.iter() {
//@   spec
//|     requires obeys_key_model::<LayerKey>(), map_small(port.shapes@),
//|     ensures final(self).lib == old(self).lib, r is Ok ==> port_exp(r->Ok_0, *port, *old(self).lib),
//@   atstart
//|         let ghost mut keys: Seq<LayerKey> = Seq::empty();
//@   loop 1 iter it
//|             invariant self.lib == old(self).lib, obeys_key_model::<LayerKey>(), map_small(port.shapes@), pport.net@ == port.net@, pport.shapes@.len() == it.index@, keys.len() == it.index@,
//|                 forall|i: int| 0 <= i < it.index@ ==> (#[trigger] keys[i]) == *it.history@[i].0 && nums(*self.lib, keys[i], LayerPurpose::Pin) is Some
//|                     && port.shapes@.dom().contains(keys[i]) && shapes_msg_is(pport.shapes@[i], nums(*self.lib, keys[i], LayerPurpose::Pin)->0, port.shapes@[keys[i]]@),
//@   before /for shape in shapes\.iter\(\) \{/
//|             proof { assert(port.shapes@.dom().contains(*layerkey) && port.shapes@[*layerkey] == *shapes); assert(shapes_small(port.shapes@[*layerkey]@)); }
//@   loop 2 iter it2
//|                 invariant self.lib == old(self).lib, shapes_small(shapes@), it2.index@ <= shapes@.len(), nums(*self.lib, *layerkey, LayerPurpose::Pin) is Some,
//|                     shapes_msg_is(pshapes, nums(*self.lib, *layerkey, LayerPurpose::Pin)->0, shapes@.take(it2.index@ as int)),
//@   before /self\.export_and_add_shape\(shape, &mut pshapes\)\?;/
//|                 let ghost ps0 = pshapes;
//|                 proof { assert(*shape == shapes@[it2.index@ as int]); }
//@   loopend 2
//|                 proof { lemma_msg_step(ps0, pshapes, nums(*self.lib, *layerkey, LayerPurpose::Pin)->0, shapes@.take(it2.index@ as int), *shape); assert(shapes@.take(it2.index@ + 1) == shapes@.take(it2.index@ as int).push(*shape)); }
//@   before /pport\.shapes\.push\(pshapes\);/
//|             proof { assert(shapes@.take(shapes@.len() as int) == shapes@); keys = keys.push(*layerkey); }
//@   before /^        Ok\(pport\)$/
//|         proof {
//|             assert(keys.len() == port.shapes@.dom().len());
//|             assert(forall|i: int, j: int| 0 <= i < j < keys.len() ==> (#[trigger] keys[i]) != (#[trigger] keys[j]));
//|             assert(entries_exp(pport.shapes@, keys, port.shapes@, *self.lib, LayerPurpose::Pin));
//|         }
//@ end
//@ fn layout21raw/src/proto.rs :: impl<'lib> ProtoExporter<'lib> :: fn export_abstract_blockages
//@   ret r
//@   spec
//|     requires shapes_small(shapes@),
//|     ensures final(self).lib == old(self).lib, r is Ok ==> nums(*old(self).lib, *layerkey, LayerPurpose::Obstruction) is Some
//|             && shapes_msg_is(r->Ok_0, nums(*old(self).lib, *layerkey, LayerPurpose::Obstruction)->0, shapes@),
//@   loop 1 iter it
//|             invariant self.lib == old(self).lib, shapes_small(shapes@), it.index@ <= shapes@.len(), nums(*self.lib, *layerkey, LayerPurpose::Obstruction) is Some,
//|                 shapes_msg_is(pshapes, nums(*self.lib, *layerkey, LayerPurpose::Obstruction)->0, shapes@.take(it.index@ as int)),
//@   before /self\.export_and_add_shape\(shape, &mut pshapes\)\?;/
//|             let ghost ps0 = pshapes;
//|             proof { let t = shapes@.take(it.index@ + 1); assert(*shape == shapes@[it.index@ as int]); assert(t.drop_last() == shapes@.take(it.index@ as int)); assert(t.last() == *shape); }
//@   loopend 1
//|             proof { lemma_msg_step(ps0, pshapes, nums(*self.lib, *layerkey, LayerPurpose::Obstruction)->0, shapes@.take(it.index@ as int), *shape); assert(shapes@.take(it.index@ + 1) == shapes@.take(it.index@ as int).push(*shape)); }
//@   before /^        Ok\(pshapes\)$/
//|         proof { assert(shapes@.take(shapes@.len() as int) == shapes@); }
//@ end
//@ fn layout21raw/src/proto.rs :: impl<'lib> ProtoExporter<'lib> :: fn export_units
//@   ret r
//@   spec
//|     requires !(*units is Pico),
//|     ensures r is Ok, units_exp(units_num(r->Ok_0), *units), final(self).lib == old(self).lib,
//@ end
//@ fn layout21raw/src/proto.rs :: impl<'lib> ProtoExporter<'lib> :: fn export_layerspec
//@   ret r
//@   sub R5 /self\.lib\.layers\.read\(\)\?/ => self.lib.vp_layers().read()?
//@   spec
//|     ensures final(self).lib == old(self).lib, r is Ok ==> nums(*old(self).lib, *layer, *purpose) is Some, nums(*old(self).lib, *layer, *purpose) is None ==> r is Err,
//|         r is Ok ==> r->Ok_0.number == nums(*old(self).lib, *layer, *purpose)->Some_0.0 && r->Ok_0.purpose == nums(*old(self).lib, *layer, *purpose)->Some_0.1,
//@ end
}
}
fn main() {}
