// Unit U12d raw_proto_lib: raw <-> vlsir protobuf at library / cell / abstract level (C14).
use vstd::prelude::*;
use vstd::std_specs::hash::*;
use std::convert::{TryFrom, TryInto};
use std::collections::HashMap;
verus! {
global size_of usize == 8;
//@ include units/common/float.inc.rs
//@ include units/raw_proto/proto.inc.rs
//@ include units/dep_order/spec.inc.rs

// =====================================================================================================
// MODELS (rule R5)
// =====================================================================================================
pub type LKey = (i16, i16);
/// model of the shared layer table: a slot map LayerKey -> Layer; each Layer knows its number and its purpose -> number map
pub struct Layer { pub layernum: i16 }
pub struct Layers { }
impl Layer {
    pub uninterp spec fn num_spec(&self, p: LayerPurpose) -> Option<i16>;
    #[verifier::external_body]
    pub fn num(&self, purpose: &LayerPurpose) -> (r: Option<i16>) ensures r == self.num_spec(*purpose) { unimplemented!() }
}
impl Layers {
    pub uninterp spec fn get_spec(&self, k: LayerKey) -> Option<Layer>;
    #[verifier::external_body]
    pub fn get(&self, key: LayerKey) -> (r: Option<&Layer>) ensures (r is Some) == (self.get_spec(key) is Some), r is Some ==> *r->0 == self.get_spec(key)->0 { unimplemented!() }
}
/// the (layer number, purpose number) the layer table assigns to a (layer key, purpose) pair
pub open spec fn nums_in(ls: Layers, k: LayerKey, p: LayerPurpose) -> Option<LKey> {
    match ls.get_spec(k) { Some(l) => match l.num_spec(p) { Some(n) => Some((l.layernum, n)), None => None }, None => None }
}
/// the library's layer table (the `layers: Ptr<Layers>` field the Library model leaves out)
pub uninterp spec fn layers_of(lib: Library) -> Ptr<Layers>;
pub open spec fn nums(lib: Library, k: LayerKey, p: LayerPurpose) -> Option<LKey> { nums_in(*layers_of(lib).v, k, p) }
impl Library {
    /// R5: `self.lib.layers` (field access) as a call
    #[verifier::external_body]
    pub fn vp_layers(&self) -> (r: &Ptr<Layers>) ensures *r == layers_of(*self) { unimplemented!() }
}
pub open spec fn units_num(u: proto::Units) -> i32 { match u { proto::Units::Micro => 0i32, proto::Units::Nano => 1i32, proto::Units::Angstrom => 2i32 } }
impl vstd::std_specs::convert::FromSpecImpl<proto::Units> for i32 {
    open spec fn obeys_from_spec() -> bool { true }
    open spec fn from_spec(u: proto::Units) -> i32 { units_num(u) }
}
impl From<proto::Units> for i32 { fn from(u: proto::Units) -> (r: i32) ensures r == units_num(u) { match u { proto::Units::Micro => 0, proto::Units::Nano => 1, proto::Units::Angstrom => 2 } } }

// =====================================================================================================
// SPEC
// =====================================================================================================
pub open spec fn units_exp(g: i32, u: Units) -> bool { match u { Units::Micro => g == 0, Units::Nano => g == 1, Units::Angstrom => g == 2, Units::Pico => false } }

/// the shapes of one kind (0 rectangle, 1 polygon, 2 path), in order
pub open spec fn skind(ss: Seq<Shape>, kind: int) -> Seq<Shape> decreases ss.len() {
    if ss.len() == 0 { Seq::empty() } else {
        let h = skind(ss.drop_last(), kind); let e = ss.last();
        if (kind == 0 && e is Rect) || (kind == 1 && e is Polygon) || (kind == 2 && e is Path) { h.push(e) } else { h }
    }
}
/// protobuf layer message `g` carries exactly the (net-less) shapes `ss` under layer numbers `k`: per kind, in order
pub open spec fn shapes_msg_is(g: proto::LayerShapes, k: LKey, ss: Seq<Shape>) -> bool {
    &&& g.layer is Some && g.layer->0.number == k.0 && g.layer->0.purpose == k.1
    &&& g.rectangles@.len() == skind(ss, 0).len() &&& forall|i: int| 0 <= i < skind(ss, 0).len() ==> rect_is(#[trigger] g.rectangles@[i], skind(ss, 0)[i]->Rect_0) && g.rectangles@[i].net@.len() == 0
    &&& g.polygons@.len() == skind(ss, 1).len() &&& forall|i: int| 0 <= i < skind(ss, 1).len() ==> poly_is(#[trigger] g.polygons@[i], skind(ss, 1)[i]->Polygon_0) && g.polygons@[i].net@.len() == 0
    &&& g.paths@.len() == skind(ss, 2).len() &&& forall|i: int| 0 <= i < skind(ss, 2).len() ==> path_is(#[trigger] g.paths@[i], skind(ss, 2)[i]->Path_0) && g.paths@[i].net@.len() == 0
}
/// what export_and_add_shape guarantees (its postcondition, as a predicate)
pub open spec fn added(g0: proto::LayerShapes, g1: proto::LayerShapes, s: Shape) -> bool {
    g1.layer == g0.layer && (match s {
        Shape::Rect(rc) => g1.rectangles@.len() == g0.rectangles@.len() + 1 && g1.rectangles@.drop_last() == g0.rectangles@
            && rect_is(g1.rectangles@.last(), rc) && g1.rectangles@.last().net@.len() == 0 && g1.polygons@ == g0.polygons@ && g1.paths@ == g0.paths@,
        Shape::Polygon(p) => g1.polygons@.len() == g0.polygons@.len() + 1 && g1.polygons@.drop_last() == g0.polygons@
            && poly_is(g1.polygons@.last(), p) && g1.polygons@.last().net@.len() == 0 && g1.rectangles@ == g0.rectangles@ && g1.paths@ == g0.paths@,
        Shape::Path(p) => g1.paths@.len() == g0.paths@.len() + 1 && g1.paths@.drop_last() == g0.paths@
            && path_is(g1.paths@.last(), p) && g1.paths@.last().net@.len() == 0 && g1.rectangles@ == g0.rectangles@ && g1.polygons@ == g0.polygons@,
    })
}
pub proof fn lemma_msg_step(g0: proto::LayerShapes, g1: proto::LayerShapes, k: LKey, ss: Seq<Shape>, s: Shape)
    requires shapes_msg_is(g0, k, ss), added(g0, g1, s),
    ensures shapes_msg_is(g1, k, ss.push(s)),
{
    let t = ss.push(s);
    assert(t.drop_last() == ss); assert(t.last() == s);
    match s {
        Shape::Rect(rc) => {
            assert(skind(t, 0) == skind(ss, 0).push(s)); assert(skind(t, 1) == skind(ss, 1)); assert(skind(t, 2) == skind(ss, 2));
            assert forall|i: int| 0 <= i < skind(t, 0).len() implies rect_is(#[trigger] g1.rectangles@[i], skind(t, 0)[i]->Rect_0) && g1.rectangles@[i].net@.len() == 0 by {
                if i < skind(ss, 0).len() { assert(g1.rectangles@[i] == g1.rectangles@.drop_last()[i]); } else { assert(g1.rectangles@[i] == g1.rectangles@.last()); }
            }
        }
        Shape::Polygon(p) => {
            assert(skind(t, 1) == skind(ss, 1).push(s)); assert(skind(t, 0) == skind(ss, 0)); assert(skind(t, 2) == skind(ss, 2));
            assert forall|i: int| 0 <= i < skind(t, 1).len() implies poly_is(#[trigger] g1.polygons@[i], skind(t, 1)[i]->Polygon_0) && g1.polygons@[i].net@.len() == 0 by {
                if i < skind(ss, 1).len() { assert(g1.polygons@[i] == g1.polygons@.drop_last()[i]); } else { assert(g1.polygons@[i] == g1.polygons@.last()); }
            }
        }
        Shape::Path(p) => {
            assert(skind(t, 2) == skind(ss, 2).push(s)); assert(skind(t, 0) == skind(ss, 0)); assert(skind(t, 1) == skind(ss, 1));
            assert forall|i: int| 0 <= i < skind(t, 2).len() implies path_is(#[trigger] g1.paths@[i], skind(t, 2)[i]->Path_0) && g1.paths@[i].net@.len() == 0 by {
                if i < skind(ss, 2).len() { assert(g1.paths@[i] == g1.paths@.drop_last()[i]); } else { assert(g1.paths@[i] == g1.paths@.last()); }
            }
        }
    }
}
pub open spec fn shapes_small(ss: Seq<Shape>) -> bool { forall|i: int| 0 <= i < ss.len() ==> shape_small(#[trigger] ss[i]) }
/// `gs` holds, in the order `keys`, one message per entry of the layer -> shapes map `m` (exported under purpose `p`)
pub open spec fn entries_exp(gs: Seq<proto::LayerShapes>, keys: Seq<LayerKey>, m: Map<LayerKey, Vec<Shape>>, lib: Library, p: LayerPurpose) -> bool {
    &&& keys.no_duplicates() &&& keys.len() == m.dom().len() &&& gs.len() == keys.len()
    &&& forall|i: int| 0 <= i < keys.len() ==> m.dom().contains(#[trigger] keys[i]) && nums(lib, keys[i], p) is Some && shapes_msg_is(gs[i], nums(lib, keys[i], p)->0, m[keys[i]]@)
}
/// HashMap iteration order is unspecified: the messages follow SOME duplicate-free enumeration of all the map's keys
pub open spec fn layer_map_exp(gs: Seq<proto::LayerShapes>, m: Map<LayerKey, Vec<Shape>>, lib: Library, p: LayerPurpose) -> bool {
    exists|keys: Seq<LayerKey>| #[trigger] entries_exp(gs, keys, m, lib, p)
}
pub open spec fn port_exp(g: proto::AbstractPort, port: AbstractPort, lib: Library) -> bool { g.net@ == port.net@ && layer_map_exp(g.shapes@, port.shapes@, lib, LayerPurpose::Pin) }
pub open spec fn map_small(m: Map<LayerKey, Vec<Shape>>) -> bool { forall|k: LayerKey| m.dom().contains(k) ==> shapes_small(#[trigger] m[k]@) }
/// `g` is the protobuf layout message of layout `l`: PINNED by the postcondition of the real ProtoExporter::export_layout proved in unit
/// raw_proto_layout (name, one layer message per distinct (layer, purpose) in first-seen order with its shapes by kind and nets,
/// instances and annotations element-wise) — here an abstract predicate connecting the two units
pub uninterp spec fn layout_exported(g: proto::Layout, l: Layout, lib: Library) -> bool;
/// the layout message: the shape part (abstract here, see layout_exported), the name, one message per instance and per annotation, in order
pub open spec fn layout_exp(g: proto::Layout, l: Layout, lib: Library) -> bool {
    &&& layout_exported(g, l, lib) &&& g.name@ == l.name@
    &&& g.instances@.len() == l.insts@.len() &&& forall|i: int| 0 <= i < l.insts@.len() ==> inst_exp(#[trigger] g.instances@[i], l.insts@[i])
    &&& g.annotations@.len() == l.annotations@.len()
    &&& forall|i: int| 0 <= i < l.annotations@.len() ==> (#[trigger] g.annotations@[i]).string@ == l.annotations@[i].string@ && g.annotations@[i].loc is Some && same_pt(g.annotations@[i].loc->0, l.annotations@[i].loc)
}
pub open spec fn cell_small(c: Cell) -> bool { c.abs is Some ==> abs_small(c.abs->0) }
/// the cell message: name, and exactly the views the cell has
pub open spec fn cell_exp(g: proto::Cell, c: Cell, lib: Library) -> bool {
    &&& g.name@ == c.name@
    &&& (g.layout is Some <==> c.layout is Some) &&& (c.layout is Some ==> layout_exp(g.layout->0, c.layout->0, lib))
    &&& (g.r#abstract is Some <==> c.abs is Some) &&& (c.abs is Some ==> abs_exp(g.r#abstract->0, c.abs->0, lib))
}
/// the cells a cell instantiates: the dependency relation of layout21raw::data::DepOrder
pub open spec fn cell_dep_seq(l: Layout) -> Seq<Ptr<Cell>> { Seq::new(l.insts@.len(), |i: int| l.insts@[i].cell) }
pub open spec fn cell_deps(item: Ptr<Cell>) -> Set<Ptr<Cell>> { match (*item.v).layout { Some(l) => cell_dep_seq(l).to_set(), None => Set::empty() } }
pub open spec fn derefs(s: Seq<&Ptr<Cell>>) -> Seq<Ptr<Cell>> { Seq::new(s.len(), |i: int| *s[i]) }
pub open spec fn cells_exp(g: Seq<proto::Cell>, order: Seq<Ptr<Cell>>, lib: Library) -> bool {
    g.len() == order.len() && forall|i: int| 0 <= i < order.len() ==> cell_exp(#[trigger] g[i], *order[i].v, lib)
}
/// the library message: name, units, and the cells' messages in a dependency ordering of the cell list
pub open spec fn lib_exp(g: proto::Library, lib: Library) -> bool {
    &&& g.domain@ == lib.name@ &&& units_exp(g.units, lib.units)
    &&& exists|order: Seq<Ptr<Cell>>| is_dep_ordering(order, lib.cells@, |c: Ptr<Cell>| cell_deps(c)) && #[trigger] cells_exp(g.cells@, order, lib)
}
pub open spec fn cell_deps_fn() -> spec_fn(Ptr<Cell>) -> Set<Ptr<Cell>> { |c: Ptr<Cell>| cell_deps(c) }
/// machine-integer side condition (rectangle extents are differences of coordinates): every cell the library lists or (transitively)
/// instantiates has abstract shapes whose coordinates leave room for that — stated over a dependency-closed set of cells holding the listed ones
pub open spec fn small_set(s: Set<Ptr<Cell>>, lib: Library) -> bool {
    closed_under(s, cell_deps_fn()) && covers(s, lib.cells@) && forall|c: Ptr<Cell>| s.contains(c) ==> cell_small(*(#[trigger] c.v))
}
pub open spec fn lib_small(lib: Library) -> bool { exists|s: Set<Ptr<Cell>>| small_set(s, lib) }
pub proof fn lemma_order_small(order: Seq<Ptr<Cell>>, lib: Library)
    requires lib_small(lib), only_reachable(order, lib.cells@, cell_deps_fn()),
    ensures forall|i: int| 0 <= i < order.len() ==> cell_small(*(#[trigger] order[i]).v),
{
    let s = choose|s: Set<Ptr<Cell>>| small_set(s, lib);
    assert forall|i: int| 0 <= i < order.len() implies cell_small(*(#[trigger] order[i]).v) by { assert(s.contains(order[i])); }
}
/// `DepOrder::order` with, as an ASSUMED contract, the contract proved for the real layout21raw::data::DepOrder::order in unit cell_order
/// (acyclic libraries; the by-value Ptr model here cannot even express a cyclic one; cyclic libraries: finding F11)
pub struct DepOrder;
impl DepOrder {
    #[verifier::external_body]
    pub fn order(lib: &Library) -> (r: Vec<Ptr<Cell>>) ensures is_dep_ordering(r@, lib.cells@, |c: Ptr<Cell>| cell_deps(c)), only_reachable(r@, lib.cells@, cell_deps_fn()) { unimplemented!() }
}
impl<'lib> ProtoExporter<'lib> {
    /// ASSUMED copy of the contract proved in unit raw_proto_layout
    #[verifier::external_body]
    fn export_layout(&mut self, cell: &Layout) -> (r: LayoutResult<proto::Layout>)
        ensures final(self).lib == old(self).lib, r is Ok ==> layout_exp(r->Ok_0, *cell, *old(self).lib),
    { unimplemented!() }
//@ fn layout21raw/src/proto.rs :: impl<'lib> ProtoExporter<'lib> :: fn export
//@   ret r
//@   spec
//|     requires obeys_key_model::<LayerKey>(), !(lib.units is Pico), lib_small(*lib),
//|     ensures r is Ok ==> lib_exp(r->Ok_0, *lib),
//@ end
//@ fn layout21raw/src/proto.rs :: impl<'lib> ProtoExporter<'lib> :: fn export_cell
//@   ret r
//@   spec
//|     requires obeys_key_model::<LayerKey>(), cell_small(*cell),
//|     ensures final(self).lib == old(self).lib, r is Ok ==> cell_exp(r->Ok_0, *cell, *old(self).lib),
//@ end
//@ fn layout21raw/src/proto.rs :: impl<'lib> ProtoExporter<'lib> :: fn export_lib
//@   ret r
//@   let plib : proto::Library
//@   sub R6? /for cell in DepOrder::order\(self\.lib\)\.iter\(\) \{/ => let vp_order = DepOrder::order(self.lib); proof { vp_all = vp_order@; } for cell in vp_order.iter() {
//@   sub R5? /self\.lib\.cells\.iter\(\)/ => self.lib.cells.v.iter()
//@   spec
//|     requires obeys_key_model::<LayerKey>(), !(old(self).lib.units is Pico), lib_small(*old(self).lib),
//|     ensures r is Ok ==> lib_exp(r->Ok_0, *old(self).lib),
//@   atstart
//|         // the sequence of cells the export loop runs over (until the loop header says otherwise: the library's own listing)
//|         let ghost mut vp_all: Seq<Ptr<Cell>> = self.lib.cells@;
//@   loop 1 iter it
//|             invariant self.lib == old(self).lib, obeys_key_model::<LayerKey>(), lib_small(*self.lib), plib.domain@ == self.lib.name@, units_exp(plib.units, self.lib.units),
//|                 plib.cells@.len() == it.index@, it.index@ <= it.seq().len(),
//|                 // whatever sequence the loop runs over is a dependency ordering of the library's cell list, made of reachable cells only
//|                 derefs(it.seq()) =~= vp_all, is_dep_ordering(vp_all, self.lib.cells@, |c: Ptr<Cell>| cell_deps(c)), only_reachable(vp_all, self.lib.cells@, cell_deps_fn()),
//|                 forall|i: int| 0 <= i < it.index@ ==> cell_exp(#[trigger] plib.cells@[i], *vp_all[i].v, *self.lib),
//@   before /let pcell = self\.export_cell\(&\*cell\)\?;/
//|             proof { lemma_order_small(vp_all, *self.lib); assert(cell_small(*vp_all[it.index@ as int].v)); }
//@   before /^        Ok\(plib\)$/
//|         proof { assert(cells_exp(plib.cells@, vp_all, *self.lib)); }
//@ end
}
/// the abstract message: name, outline polygon, one port message per port in order, one blockage message per blockage layer (in some order)
pub open spec fn abs_exp(g: proto::Abstract, a: Abstract, lib: Library) -> bool {
    &&& g.name@ == a.name@ &&& g.outline is Some && poly_is(g.outline->0, a.outline) && g.outline->0.net@.len() == 0
    &&& g.ports@.len() == a.ports@.len() &&& forall|i: int| 0 <= i < a.ports@.len() ==> port_exp(#[trigger] g.ports@[i], a.ports@[i], lib)
    &&& layer_map_exp(g.blockages@, a.blockages@, lib, LayerPurpose::Obstruction)
}
pub open spec fn abs_small(a: Abstract) -> bool { map_small(a.blockages@) && forall|i: int| 0 <= i < a.ports@.len() ==> map_small((#[trigger] a.ports@[i]).shapes@) }
impl<'lib> ProtoExporter<'lib> {
//@ fn layout21raw/src/proto.rs :: impl<'lib> ProtoExporter<'lib> :: fn export_abstract
//@   ret r
//@   spec
//|     requires obeys_key_model::<LayerKey>(), abs_small(*abs),
//|     ensures final(self).lib == old(self).lib, r is Ok ==> abs_exp(r->Ok_0, *abs, *old(self).lib),
//@   atstart
//|         let ghost mut keys: Seq<LayerKey> = Seq::empty();
//@   loop 1 iter it
//|             invariant self.lib == old(self).lib, obeys_key_model::<LayerKey>(), abs_small(*abs), pabs.name@ == abs.name@, pabs.blockages@.len() == 0, pabs.ports@.len() == it.index@, it.index@ <= abs.ports@.len(),
//|                 forall|i: int| 0 <= i < it.index@ ==> port_exp(#[trigger] pabs.ports@[i], abs.ports@[i], *self.lib),
//@   loop 2 iter it
//|             invariant self.lib == old(self).lib, obeys_key_model::<LayerKey>(), abs_small(*abs), pabs.name@ == abs.name@, pabs.ports@.len() == abs.ports@.len(),
//|                 forall|i: int| 0 <= i < abs.ports@.len() ==> port_exp(#[trigger] pabs.ports@[i], abs.ports@[i], *self.lib),
//|                 pabs.blockages@.len() == it.index@, keys.len() == it.index@,
//|                 forall|i: int| 0 <= i < it.index@ ==> (#[trigger] keys[i]) == *it.history@[i].0 && nums(*self.lib, keys[i], LayerPurpose::Obstruction) is Some
//|                     && abs.blockages@.dom().contains(keys[i]) && shapes_msg_is(pabs.blockages@[i], nums(*self.lib, keys[i], LayerPurpose::Obstruction)->0, abs.blockages@[keys[i]]@),
//@   before1 /pabs\.blockages$|pabs\.blockages\.push/
//|             proof { assert(abs.blockages@.dom().contains(*layerkey) && abs.blockages@[*layerkey] == *shapes); assert(shapes_small(abs.blockages@[*layerkey]@)); keys = keys.push(*layerkey); }
//@   before /pabs\.outline = Some\(self\.export_polygon\(&abs\.outline\)\?\);/
//|         proof {
//|             assert(keys.len() == abs.blockages@.dom().len());
//|             assert(forall|i: int, j: int| 0 <= i < j < keys.len() ==> (#[trigger] keys[i]) != (#[trigger] keys[j]));
//|             assert(entries_exp(pabs.blockages@, keys, abs.blockages@, *self.lib, LayerPurpose::Obstruction));
//|         }
//@ end
//@ fn layout21raw/src/proto.rs :: impl<'lib> ProtoExporter<'lib> :: fn export_abstract_port
//@   ret r
//@   sub R6 /for \(layerkey, shapes\) in &port\.shapes \{/ => for (layerkey, shapes) in port.shapes.iter() {
//@   spec
//|     requires obeys_key_model::<LayerKey>(), map_small(port.shapes@),
//|     ensures final(self).lib == old(self).lib, r is Ok ==> port_exp(r->Ok_0, *port, *old(self).lib),
//@   atstart
//|         let ghost mut keys: Seq<LayerKey> = Seq::empty();
//@   loop 1 iter it
//|             invariant self.lib == old(self).lib, obeys_key_model::<LayerKey>(), map_small(port.shapes@), pport.net@ == port.net@, pport.shapes@.len() == it.index@, keys.len() == it.index@,
//|                 forall|i: int| 0 <= i < it.index@ ==> (#[trigger] keys[i]) == *it.history@[i].0 && nums(*self.lib, keys[i], LayerPurpose::Pin) is Some
//|                     && port.shapes@.dom().contains(keys[i]) && shapes_msg_is(pport.shapes@[i], nums(*self.lib, keys[i], LayerPurpose::Pin)->0, port.shapes@[keys[i]]@),
//@   before /for shape in shapes\.iter\(\) \{/
//|             proof { assert(port.shapes@.dom().contains(*layerkey) && port.shapes@[*layerkey] == *shapes); assert(shapes_small(port.shapes@[*layerkey]@)); }
//@   loop 2 iter it2
//|                 invariant self.lib == old(self).lib, shapes_small(shapes@), it2.index@ <= shapes@.len(), nums(*self.lib, *layerkey, LayerPurpose::Pin) is Some,
//|                     shapes_msg_is(pshapes, nums(*self.lib, *layerkey, LayerPurpose::Pin)->0, shapes@.take(it2.index@ as int)),
//@   before /self\.export_and_add_shape\(shape, &mut pshapes\)\?;/
//|                 let ghost ps0 = pshapes;
//|                 proof { assert(*shape == shapes@[it2.index@ as int]); }
//@   loopend 2
//|                 proof { lemma_msg_step(ps0, pshapes, nums(*self.lib, *layerkey, LayerPurpose::Pin)->0, shapes@.take(it2.index@ as int), *shape); assert(shapes@.take(it2.index@ + 1) == shapes@.take(it2.index@ as int).push(*shape)); }
//@   before1 /pport\.shapes\.push\(/
//|             proof { assert(shapes@.take(shapes@.len() as int) == shapes@); keys = keys.push(*layerkey); }
//@   before /^        Ok\(pport\)$/
//|         proof {
//|             assert(keys.len() == port.shapes@.dom().len());
//|             assert(forall|i: int, j: int| 0 <= i < j < keys.len() ==> (#[trigger] keys[i]) != (#[trigger] keys[j]));
//|             assert(entries_exp(pport.shapes@, keys, port.shapes@, *self.lib, LayerPurpose::Pin));
//|         }
//@ end
//@ fn layout21raw/src/proto.rs :: impl<'lib> ProtoExporter<'lib> :: fn export_abstract_blockages
//@   ret r
//@   spec
//|     requires shapes_small(shapes@),
//|     ensures final(self).lib == old(self).lib, r is Ok ==> nums(*old(self).lib, *layerkey, LayerPurpose::Obstruction) is Some
//|             && shapes_msg_is(r->Ok_0, nums(*old(self).lib, *layerkey, LayerPurpose::Obstruction)->0, shapes@),
//@   loop 1 iter it
//|             invariant self.lib == old(self).lib, shapes_small(shapes@), it.index@ <= shapes@.len(), nums(*self.lib, *layerkey, LayerPurpose::Obstruction) is Some,
//|                 shapes_msg_is(pshapes, nums(*self.lib, *layerkey, LayerPurpose::Obstruction)->0, shapes@.take(it.index@ as int)),
//@   before /self\.export_and_add_shape\(shape, &mut pshapes\)\?;/
//|             let ghost ps0 = pshapes;
//|             proof { let t = shapes@.take(it.index@ + 1); assert(*shape == shapes@[it.index@ as int]); assert(t.drop_last() == shapes@.take(it.index@ as int)); assert(t.last() == *shape); }
//@   loopend 1
//|             proof { lemma_msg_step(ps0, pshapes, nums(*self.lib, *layerkey, LayerPurpose::Obstruction)->0, shapes@.take(it.index@ as int), *shape); assert(shapes@.take(it.index@ + 1) == shapes@.take(it.index@ as int).push(*shape)); }
//@   before /^        Ok\(pshapes\)$/
//|         proof { assert(shapes@.take(shapes@.len() as int) == shapes@); }
//@ end
//@ fn layout21raw/src/proto.rs :: impl<'lib> ProtoExporter<'lib> :: fn export_units
//@   ret r
//@   spec
//|     requires !(*units is Pico),
//|     ensures r is Ok, units_exp(units_num(r->Ok_0), *units), final(self).lib == old(self).lib,
//@ end
//@ fn layout21raw/src/proto.rs :: impl<'lib> ProtoExporter<'lib> :: fn export_layerspec
//@   ret r
//@   sub R5 /self\.lib\.layers\.read\(\)\?/ => self.lib.vp_layers().read()?
//@   spec
//|     ensures final(self).lib == old(self).lib, r is Ok ==> nums(*old(self).lib, *layer, *purpose) is Some, nums(*old(self).lib, *layer, *purpose) is None ==> r is Err,
//|         r is Ok ==> r->Ok_0.number == nums(*old(self).lib, *layer, *purpose)->Some_0.0 && r->Ok_0.purpose == nums(*old(self).lib, *layer, *purpose)->Some_0.1,
//@ end
}

// =====================================================================================================
// IMPORTER
// =====================================================================================================
impl proto::Units {
    /// model of the prost-generated `from_i32`
    pub fn from_i32(v: i32) -> (r: Option<proto::Units>)
        ensures (r is Some) == (0 <= v <= 2), r is Some ==> units_num(r->0) == v,
    { if v == 0 { Some(proto::Units::Micro) } else if v == 1 { Some(proto::Units::Nano) } else if v == 2 { Some(proto::Units::Angstrom) } else { None } }
}
/// model of #[derive(Default)] on the two abstract-view structs
impl Default for AbstractPort { fn default() -> (r: Self) ensures r.net@.len() == 0, r.shapes@ == Map::<LayerKey, Vec<Shape>>::empty() { AbstractPort { net: String::new(), shapes: HashMap::new() } } }
impl Default for Abstract { fn default() -> (r: Self) ensures r.name@.len() == 0, r.outline.points@.len() == 0, r.ports@.len() == 0, r.blockages@ == Map::<LayerKey, Vec<Shape>>::empty() { Abstract { name: String::new(), outline: Polygon { points: Vec::new() }, ports: Vec::new(), blockages: HashMap::new() } } }
impl Cell {
    //@ pin layout21raw/src/data.rs :: impl Cell :: fn new @e4b081c1
    /// model of Cell::new(impl Into<String>): the name, no views (`..Default::default()`)
    #[verifier::external_body]
    pub fn new(name: &String) -> (r: Self) ensures r.name@ == name@, r.abs is None, r.layout is None { unimplemented!() }
}
/// the layer key the abstract importer files a layer message under: `get_or_insert(number as i16, purpose as i16)` (note the truncating casts)
pub open spec fn lkey_of(g: proto::LayerShapes) -> LayerKey { layer_of((g.layer->0.number as i16) as i64, (g.layer->0.purpose as i16) as i64).0 }
/// `ss` is the import of one abstract layer message: its rectangles, then its polygons, then its paths
pub open spec fn ashapes_are(ss: Seq<Shape>, l: proto::LayerShapes) -> bool {
    &&& ss.len() == chunk_len(l)
    &&& forall|i: int| 0 <= i < l.rectangles@.len() ==> rect_imp(#[trigger] ss[i], l.rectangles@[i])
    &&& forall|i: int| 0 <= i < l.polygons@.len() ==> poly_imp(#[trigger] ss[l.rectangles@.len() + i], l.polygons@[i])
    &&& forall|i: int| 0 <= i < l.paths@.len() ==> path_imp(#[trigger] ss[l.rectangles@.len() + l.polygons@.len() + i], l.paths@[i])
}
/// message `i` is the last of the first `n` messages filed under its layer key (HashMap::insert: the last one wins)
pub open spec fn last_of(gs: Seq<proto::LayerShapes>, n: int, i: int) -> bool { 0 <= i < n && forall|j: int| i < j < n ==> lkey_of(#[trigger] gs[j]) != lkey_of(gs[i]) }
/// the layer -> shapes map built from the first `n` layer messages: exactly their keys, each key holding the import of its last message
pub open spec fn layer_map_imp(m: Map<LayerKey, Vec<Shape>>, gs: Seq<proto::LayerShapes>, n: int) -> bool {
    &&& forall|k: LayerKey| #[trigger] m.dom().contains(k) ==> exists|i: int| 0 <= i < n && lkey_of(#[trigger] gs[i]) == k
    &&& forall|i: int| 0 <= i < n ==> m.dom().contains(lkey_of(#[trigger] gs[i]))
    &&& forall|i: int| #[trigger] last_of(gs, n, i) ==> ashapes_are(m[lkey_of(gs[i])]@, gs[i])
}
pub proof fn lemma_layer_map_step(m: Map<LayerKey, Vec<Shape>>, gs: Seq<proto::LayerShapes>, n: int, v: Vec<Shape>)
    requires layer_map_imp(m, gs, n), 0 <= n < gs.len(), ashapes_are(v@, gs[n]),
    ensures layer_map_imp(m.insert(lkey_of(gs[n]), v), gs, n + 1),
{
    let m1 = m.insert(lkey_of(gs[n]), v);
    assert forall|k: LayerKey| #[trigger] m1.dom().contains(k) implies exists|i: int| 0 <= i < n + 1 && lkey_of(#[trigger] gs[i]) == k by {
        if k == lkey_of(gs[n]) { } else { assert(m.dom().contains(k)); let i = choose|i: int| 0 <= i < n && lkey_of(#[trigger] gs[i]) == k; assert(0 <= i < n + 1 && lkey_of(gs[i]) == k); }
    }
    assert forall|i: int| #[trigger] last_of(gs, n + 1, i) implies ashapes_are(m1[lkey_of(gs[i])]@, gs[i]) by {
        if i < n { assert(lkey_of(gs[n]) != lkey_of(gs[i])); assert(last_of(gs, n, i)); }
    }
}
pub open spec fn port_imp(p: AbstractPort, g: proto::AbstractPort) -> bool { p.net@ == g.net@ && layer_map_imp(p.shapes@, g.shapes@, g.shapes@.len() as int) }
pub open spec fn abs_imp(a: Abstract, g: proto::Abstract) -> bool {
    &&& a.name@ == g.name@ &&& g.outline is Some && same_pts(g.outline->0.vertices@, a.outline.points@)
    &&& a.ports@.len() == g.ports@.len() &&& forall|i: int| 0 <= i < g.ports@.len() ==> port_imp(#[trigger] a.ports@[i], g.ports@[i])
    &&& layer_map_imp(a.blockages@, g.blockages@, g.blockages@.len() as int)
}
/// supported subset + machine-integer side conditions of an abstract message: every layer message names its layer, the outline is present
/// (the importer `unwrap()`s both), rectangle coordinates leave room for corner arithmetic
pub open spec fn lmsgs_ok(gs: Seq<proto::LayerShapes>) -> bool { forall|i: int| 0 <= i < gs.len() ==> (#[trigger] gs[i]).layer is Some && layer_small(gs[i]) }
pub open spec fn abs_msg_ok(g: proto::Abstract) -> bool { g.outline is Some && lmsgs_ok(g.blockages@) && forall|i: int| 0 <= i < g.ports@.len() ==> lmsgs_ok((#[trigger] g.ports@[i]).shapes@) }
pub open spec fn cell_msg_ok(g: proto::Cell) -> bool { (g.r#abstract is Some ==> abs_msg_ok(g.r#abstract->0)) && (g.layout is Some ==> layers_small(g.layout->0.shapes@)) }
/// the imported cell: the message's name and exactly the views the message has
pub open spec fn cell_imp(c: Cell, g: proto::Cell, m: CellMap) -> bool {
    &&& c.name@ == g.name@
    &&& (c.layout is Some <==> g.layout is Some) &&& (g.layout is Some ==> layout_imp(c.layout->0, g.layout->0, m))
    &&& (c.abs is Some <==> g.r#abstract is Some) &&& (g.r#abstract is Some ==> abs_imp(c.abs->0, g.r#abstract->0))
}
/// what the cell map answers for name `q` once the first `n` cell messages have been imported on top of map `m0`
pub open spec fn lk_after(m0: CellMap, pcells: Seq<proto::Cell>, cells: Seq<Ptr<Cell>>, n: nat, q: Seq<char>) -> Option<Ptr<Cell>>
    decreases n
{
    if n == 0 { m0.lookup(q) } else if pcells[n - 1].name@ == q { Some(cells[n - 1]) } else { lk_after(m0, pcells, cells, (n - 1) as nat, q) }
}
pub open spec fn map_is(m: CellMap, m0: CellMap, pcells: Seq<proto::Cell>, cells: Seq<Ptr<Cell>>, n: nat) -> bool {
    forall|q: Seq<char>| #[trigger] m.lookup(q) == lk_after(m0, pcells, cells, n, q)
}
/// cell `i` of the library is message `i` imported against the map holding exactly the earlier messages' cells
pub open spec fn cell_imported(cells: Seq<Ptr<Cell>>, pcells: Seq<proto::Cell>, m0: CellMap, i: int) -> bool {
    exists|m: CellMap| map_is(m, m0, pcells, cells, i as nat) && #[trigger] cell_imp(*cells[i].v, pcells[i], m)
}
/// the imported library: name, units, one cell per message in order, and the name -> cell map of all of them
pub open spec fn lib_imp(lib: Library, plib: proto::Library, m0: CellMap, m1: CellMap) -> bool {
    &&& lib.name@ == plib.domain@ &&& units_exp(plib.units, lib.units) &&& lib.cells@.len() == plib.cells@.len()
    &&& forall|i: int| 0 <= i < plib.cells@.len() ==> #[trigger] cell_imported(lib.cells@, plib.cells@, m0, i)
    &&& map_is(m1, m0, plib.cells@, lib.cells@, plib.cells@.len())
}
pub proof fn lemma_lk_ext(m0: CellMap, pcells: Seq<proto::Cell>, c1: Seq<Ptr<Cell>>, c2: Seq<Ptr<Cell>>, n: nat, q: Seq<char>)
    requires n <= c1.len(), n <= c2.len(), forall|k: int| 0 <= k < n ==> c1[k] == c2[k],
    ensures lk_after(m0, pcells, c1, n, q) == lk_after(m0, pcells, c2, n, q),
    decreases n
{
    if n > 0 { lemma_lk_ext(m0, pcells, c1, c2, (n - 1) as nat, q); }
}
/// model of #[derive(Default)] on the importer: empty error stack, empty cell map, empty library (the shared layer table — the `layers`
/// argument of `import`, or a fresh table — is the fixed function `layer_of` of this unit, R5)
impl Default for ProtoImporter {
    #[verifier::external_body]
    fn default() -> (r: Self) ensures r.ctx@.len() == 0, r.lib.cells@.len() == 0, forall|q: Seq<char>| #[trigger] r.cell_map.lookup(q) is None { unimplemented!() }
}
impl ProtoImporter {
    /// R5: `self.layers.write().unwrap().get_or_insert(*number as i16, *purpose as i16).unwrap()` with `number`, `purpose` destructured from
    /// `layershapes.layer.as_ref().unwrap()` — the shared layer table modelled, as for import_layer, by the function `layer_of`
    #[verifier::external_body]
    fn vp_layer_key(&mut self, ls: &proto::LayerShapes) -> (r: (LayerKey, LayerPurpose))
        requires ls.layer is Some,
        ensures r.0 == lkey_of(*ls), final(self).cell_map == old(self).cell_map, final(self).lib == old(self).lib, final(self).ctx == old(self).ctx,
    { unimplemented!() }
//@ fn layout21raw/src/proto.rs :: impl ProtoImporter :: fn import_units
//@   ret r
//@   spec
//|     ensures final(self).cell_map == old(self).cell_map, final(self).lib == old(self).lib, (r is Ok) == (0 <= punits <= 2), r is Ok ==> units_exp(punits, r->Ok_0),
//@ end
//@ fn layout21raw/src/proto.rs :: impl ProtoImporter :: fn import_abstract_layer_shapes
//@   ret r
//@   sub R6 /for shape in &player\.rectangles \{/ => for shape in player.rectangles.iter() {
//@   sub R6 /for shape in &player\.polygons \{/ => for shape in player.polygons.iter() {
//@   sub R6 /for shape in &player\.paths \{/ => for shape in player.paths.iter() {
//@   spec
//|     requires layer_small(*player),
//|     ensures final(self).cell_map == old(self).cell_map, final(self).lib == old(self).lib, r is Ok ==> final(self).ctx@ == old(self).ctx@ && ashapes_are(r->Ok_0@, *player),
//@   loop 1 iter it
//|             invariant self.cell_map == old(self).cell_map, self.lib == old(self).lib, self.ctx@ == old(self).ctx@.push(ErrorContext::Geometry), layer_small(*player), it.index@ <= player.rectangles@.len(),
//|                 shapes@.len() == it.index@, forall|i: int| 0 <= i < it.index@ ==> rect_imp(#[trigger] shapes@[i], player.rectangles@[i]),
//@   loop 2 iter it
//|             invariant self.cell_map == old(self).cell_map, self.lib == old(self).lib, self.ctx@ == old(self).ctx@.push(ErrorContext::Geometry), it.index@ <= player.polygons@.len(),
//|                 shapes@.len() == player.rectangles@.len() + it.index@,
//|                 forall|i: int| 0 <= i < player.rectangles@.len() ==> rect_imp(#[trigger] shapes@[i], player.rectangles@[i]),
//|                 forall|i: int| 0 <= i < it.index@ ==> poly_imp(#[trigger] shapes@[player.rectangles@.len() + i], player.polygons@[i]),
//@   loop 3 iter it
//|             invariant self.cell_map == old(self).cell_map, self.lib == old(self).lib, self.ctx@ == old(self).ctx@.push(ErrorContext::Geometry), it.index@ <= player.paths@.len(),
//|                 shapes@.len() == player.rectangles@.len() + player.polygons@.len() + it.index@,
//|                 forall|i: int| 0 <= i < player.rectangles@.len() ==> rect_imp(#[trigger] shapes@[i], player.rectangles@[i]),
//|                 forall|i: int| 0 <= i < player.polygons@.len() ==> poly_imp(#[trigger] shapes@[player.rectangles@.len() + i], player.polygons@[i]),
//|                 forall|i: int| 0 <= i < it.index@ ==> path_imp(#[trigger] shapes@[player.rectangles@.len() + player.polygons@.len() + i], player.paths@[i]),
//@   before /^        Ok\(shapes\)$/
//|         proof { assert(self.ctx@ =~= old(self).ctx@); }
//@ end
//@ fn layout21raw/src/proto.rs :: impl ProtoImporter :: fn import_abstract_port
//@   ret r
//@   sub R5 /let proto::Layer \{ number, purpose \} = layershapes\.layer\.as_ref\(\)\.unwrap\(\);\s*let \(layerkey, _\) = self\s*\.layers\s*\.write\(\)\s*\.unwrap\(\)\s*\.get_or_insert\(\*number as i16, \*purpose as i16\)\s*\.unwrap\(\);/ => let (layerkey, _) = self.vp_layer_key(layershapes);
//@   spec
//|     requires obeys_key_model::<LayerKey>(), lmsgs_ok(pport.shapes@),
//|     ensures final(self).cell_map == old(self).cell_map, final(self).lib == old(self).lib, r is Ok ==> final(self).ctx@ == old(self).ctx@ && port_imp(r->Ok_0, *pport),
//@   loop 1 iter it
//|             invariant self.cell_map == old(self).cell_map, self.lib == old(self).lib, self.ctx@ == old(self).ctx@, obeys_key_model::<LayerKey>(), lmsgs_ok(pport.shapes@), port.net@ == pport.net@,
//|                 it.index@ <= pport.shapes@.len(), layer_map_imp(port.shapes@, pport.shapes@, it.index@ as int),
//@   before /port\.shapes\.insert\(layerkey, shapes\);/
//|             proof { lemma_layer_map_step(port.shapes@, pport.shapes@, it.index@ as int, shapes); }
//@ end
//@ fn layout21raw/src/proto.rs :: impl ProtoImporter :: fn import_abstract
//@   ret r
//@   sub R5 /let proto::Layer \{ number, purpose \} = layershapes\.layer\.as_ref\(\)\.unwrap\(\);\s*let \(layerkey, _\) = self\s*\.layers\s*\.write\(\)\s*\.unwrap\(\)\s*\.get_or_insert\(\*number as i16, \*purpose as i16\)\s*\.unwrap\(\);/ => let (layerkey, _) = self.vp_layer_key(layershapes);
//@   spec
//|     requires obeys_key_model::<LayerKey>(), abs_msg_ok(*pabs),
//|     ensures final(self).cell_map == old(self).cell_map, final(self).lib == old(self).lib, r is Ok ==> abs_imp(r->Ok_0, *pabs),
//@   loop 1 iter it
//|             invariant self.cell_map == old(self).cell_map, self.lib == old(self).lib, obeys_key_model::<LayerKey>(), abs_msg_ok(*pabs), abs.name@ == pabs.name@, abs.blockages@ == Map::<LayerKey, Vec<Shape>>::empty(),
//|                 it.index@ <= pabs.ports@.len(), abs.ports@.len() == it.index@, forall|i: int| 0 <= i < it.index@ ==> port_imp(#[trigger] abs.ports@[i], pabs.ports@[i]),
//@   loop 2 iter it
//|             invariant self.cell_map == old(self).cell_map, self.lib == old(self).lib, obeys_key_model::<LayerKey>(), abs_msg_ok(*pabs), abs.name@ == pabs.name@,
//|                 abs.ports@.len() == pabs.ports@.len(), forall|i: int| 0 <= i < pabs.ports@.len() ==> port_imp(#[trigger] abs.ports@[i], pabs.ports@[i]),
//|                 it.index@ <= pabs.blockages@.len(), layer_map_imp(abs.blockages@, pabs.blockages@, it.index@ as int),
//@   before /abs\.blockages\.insert\(layerkey, shapes\);/
//|             proof { lemma_layer_map_step(abs.blockages@, pabs.blockages@, it.index@ as int, shapes); }
//@ end
//@ fn layout21raw/src/proto.rs :: impl ProtoImporter :: fn import
//@   ret r
//@   sub R5 /, layers: Option<Ptr<Layers>>\)/ => )
//@   sub R5 /let layers = match layers \{\s*Some\(l\) => l,\s*None => Ptr::new\(Layers::default\(\)\),\s*\};/ =>
//@   sub R5 /Self \{\s*layers,\s*\.\.Default::default\(\)\s*\}/ => Self { ..Default::default() }
//@   sub R5 /mut lib, layers, \.\./ => mut lib, ..
//@   sub R5 /lib\.layers = layers;/ =>
//@   spec
//|     requires obeys_key_model::<LayerKey>(), forall|i: int| 0 <= i < plib.cells@.len() ==> cell_msg_ok(#[trigger] plib.cells@[i]),
//|     ensures r is Ok ==> exists|m0: CellMap, m1: CellMap| (forall|q: Seq<char>| #[trigger] m0.lookup(q) is None) && #[trigger] lib_imp(r->Ok_0, *plib, m0, m1),
//|         !(0 <= plib.units <= 2) ==> r is Err,
//@   before /importer\.import_lib\(/
//|         let ghost vp_m0 = importer.cell_map;
//@   after /importer\.import_lib\(/
//|         let ghost vp_m1 = importer.cell_map;
//@   before /^        Ok\(lib\)$/
//|         proof { assert(forall|q: Seq<char>| #[trigger] vp_m0.lookup(q) is None); assert(lib_imp(lib, *plib, vp_m0, vp_m1)); let ghost vp_r: LayoutResult<Library> = Ok(lib); assert(lib_imp(vp_r->Ok_0, *plib, vp_m0, vp_m1)); }
//@ end
//@ fn layout21raw/src/proto.rs :: impl ProtoImporter :: fn import_lib
//@   ret r
//@   sub R6 /for cell in &plib\.cells \{/ => for cell in plib.cells.iter() {
//@   spec
//|     requires obeys_key_model::<LayerKey>(), old(self).lib.cells@.len() == 0, forall|i: int| 0 <= i < plib.cells@.len() ==> cell_msg_ok(#[trigger] plib.cells@[i]),
//|     ensures r is Ok ==> lib_imp(final(self).lib, *plib, old(self).cell_map, final(self).cell_map),
//|         !(0 <= plib.units <= 2) ==> r is Err,
//@   loop 1 iter it
//|             invariant obeys_key_model::<LayerKey>(), forall|i: int| 0 <= i < plib.cells@.len() ==> cell_msg_ok(#[trigger] plib.cells@[i]),
//|                 self.lib.name@ == plib.domain@, units_exp(plib.units, self.lib.units), self.lib.cells@.len() == it.index@, it.index@ <= plib.cells@.len(),
//|                 forall|i: int| 0 <= i < it.index@ ==> #[trigger] cell_imported(self.lib.cells@, plib.cells@, old(self).cell_map, i),
//|                 map_is(self.cell_map, old(self).cell_map, plib.cells@, self.lib.cells@, it.index@ as nat),
//@   before1 /let cell = self\.import_cell\(/
//|             let ghost m_prev = self.cell_map; let ghost cells_prev = self.lib.cells@; let ghost n = it.index@;
//@   after1 /self\.cell_map\.insert\(/
//|             proof {
//|                 let m0 = old(self).cell_map; let pc = plib.cells@; let cs = self.lib.cells@;
//|                 assert forall|q: Seq<char>| #[trigger] lk_after(m0, pc, cells_prev, n as nat, q) == lk_after(m0, pc, cs, n as nat, q) by { lemma_lk_ext(m0, pc, cells_prev, cs, n as nat, q); }
//|                 assert(map_is(m_prev, m0, pc, cs, n as nat));
//|                 assert(cell_imp(*cs[n].v, pc[n], m_prev));
//|                 assert(cell_imported(cs, pc, m0, n));
//|                 assert forall|i: int| 0 <= i < n implies #[trigger] cell_imported(cs, pc, m0, i) by {
//|                     assert(cell_imported(cells_prev, pc, m0, i));
//|                     let m = choose|m: CellMap| map_is(m, m0, pc, cells_prev, i as nat) && #[trigger] cell_imp(*cells_prev[i].v, pc[i], m);
//|                     assert forall|q: Seq<char>| #[trigger] m.lookup(q) == lk_after(m0, pc, cs, i as nat, q) by { lemma_lk_ext(m0, pc, cells_prev, cs, i as nat, q); }
//|                     assert(map_is(m, m0, pc, cs, i as nat) && cell_imp(*cs[i].v, pc[i], m));
//|                 }
//|             }
//@ end
//@ fn layout21raw/src/proto.rs :: impl ProtoImporter :: fn import_cell
//@   ret r
//@   spec
//|     requires obeys_key_model::<LayerKey>(), cell_msg_ok(*pcell),
//|     ensures final(self).cell_map == old(self).cell_map, final(self).lib == old(self).lib, r is Ok ==> cell_imp(r->Ok_0, *pcell, old(self).cell_map),
//@ end
}

// =====================================================================================================
// THEOREMS over the contracts (C14)
// =====================================================================================================
/// a name defined by one of the first `n` messages is found in the map built from them
pub proof fn lemma_lk_some(m0: CellMap, pcells: Seq<proto::Cell>, cells: Seq<Ptr<Cell>>, n: nat, j: int)
    requires 0 <= j < n,
    ensures lk_after(m0, pcells, cells, n, pcells[j].name@) is Some,
    decreases n
{
    if pcells[n - 1].name@ != pcells[j].name@ { lemma_lk_some(m0, pcells, cells, (n - 1) as nat, j); }
}
/// THEOREM (C14 "exported libraries always list a cell after the cells it instantiates, so export followed by import never fails on an
/// undefined reference"): in an exported library message every instance of message i's layout names a cell defined by an EARLIER message;
/// hence the importer's cell map answers that name when message i is imported
pub proof fn theorem_export_resolvable(g: proto::Library, lib: Library, m0: CellMap, cells: Seq<Ptr<Cell>>, i: int, k: int)
    requires lib_exp(g, lib), 0 <= i < g.cells@.len(), g.cells@[i].layout is Some, 0 <= k < g.cells@[i].layout->0.instances@.len(),
    ensures ({
        let gi = g.cells@[i].layout->0.instances@[k];
        &&& gi.cell is Some && gi.cell->0.to is Some && gi.cell->0.to->0 is Local
        &&& exists|j: int| 0 <= j < i && (#[trigger] g.cells@[j]).name@ == gi.cell->0.to->0->Local_0@
        &&& lk_after(m0, g.cells@, cells, i as nat, gi.cell->0.to->0->Local_0@) is Some
    }),
{
    let order = choose|order: Seq<Ptr<Cell>>| is_dep_ordering(order, lib.cells@, |c: Ptr<Cell>| cell_deps(c)) && #[trigger] cells_exp(g.cells@, order, lib);
    let c = *order[i].v;
    assert(cell_exp(g.cells@[i], c, lib));
    let l = c.layout->0;
    let gi = g.cells@[i].layout->0.instances@[k];
    assert(inst_exp(gi, l.insts@[k]));
    let dep = l.insts@[k].cell;
    assert(cell_dep_seq(l)[k] == dep);
    assert(cell_deps(order[i]).contains(dep));
    let f = |c: Ptr<Cell>| cell_deps(c);
    assert(f(order[i]).subset_of(order.take(i).to_set()));
    assert(order.take(i).contains(dep));
    let j = choose|j: int| 0 <= j < order.take(i).len() && order.take(i)[j] == dep;
    assert(order[j] == dep);
    assert(cell_exp(g.cells@[j], *order[j].v, lib));
    lemma_lk_some(m0, g.cells@, cells, i as nat, j);
}
/// the layer table gives every (key, purpose) it numbers a pair that the importer's lookup maps back to that key — assumption of the
/// round trip (one table used both ways, one layer per number)
pub open spec fn table_ok(lib: Library, p: LayerPurpose) -> bool {
    forall|k: LayerKey| (#[trigger] nums(lib, k, p)) is Some ==> layer_of(nums(lib, k, p)->Some_0.0 as i64, nums(lib, k, p)->Some_0.1 as i64).0 == k
}
/// same shape up to the schema's rectangle normalisation (lower-left corner + extents)
pub open spec fn shape_same(a: Shape, b: Shape) -> bool {
    match a {
        Shape::Rect(ra) => b is Rect && imin(b->Rect_0.p0.x as int, b->Rect_0.p1.x as int) == imin(ra.p0.x as int, ra.p1.x as int) && imax(b->Rect_0.p0.x as int, b->Rect_0.p1.x as int) == imax(ra.p0.x as int, ra.p1.x as int)
            && imin(b->Rect_0.p0.y as int, b->Rect_0.p1.y as int) == imin(ra.p0.y as int, ra.p1.y as int) && imax(b->Rect_0.p0.y as int, b->Rect_0.p1.y as int) == imax(ra.p0.y as int, ra.p1.y as int),
        Shape::Polygon(pa) => b is Polygon && pa.points@ =~= b->Polygon_0.points@,
        Shape::Path(pa) => b is Path && pa.points@ =~= b->Path_0.points@ && pa.width == b->Path_0.width,
    }
}
/// `ss2` is `ss` regrouped by kind (rectangles, polygons, paths; each kind in its original order), shape for shape the same
pub open spec fn shapes_rt(ss: Seq<Shape>, ss2: Seq<Shape>) -> bool {
    let n0 = skind(ss, 0).len(); let n1 = skind(ss, 1).len(); let n2 = skind(ss, 2).len();
    &&& ss2.len() == n0 + n1 + n2
    &&& forall|i: int| 0 <= i < n0 ==> shape_same(skind(ss, 0)[i], #[trigger] ss2[i])
    &&& forall|i: int| 0 <= i < n1 ==> shape_same(skind(ss, 1)[i], #[trigger] ss2[n0 + i])
    &&& forall|i: int| 0 <= i < n2 ==> shape_same(skind(ss, 2)[i], #[trigger] ss2[n0 + n1 + i])
}
pub proof fn lemma_skind_kind(ss: Seq<Shape>, kind: int, i: int)
    requires 0 <= i < skind(ss, kind).len(),
    ensures kind == 0 ==> skind(ss, kind)[i] is Rect, kind == 1 ==> skind(ss, kind)[i] is Polygon, kind == 2 ==> skind(ss, kind)[i] is Path,
    decreases ss.len()
{
    if ss.len() > 0 {
        let h = skind(ss.drop_last(), kind);
        if i < h.len() { lemma_skind_kind(ss.drop_last(), kind, i); }
    }
}
pub proof fn lemma_same_pts_eq(g: Seq<proto::Point>, a: Seq<Point>, b: Seq<Point>)
    requires same_pts(g, a), same_pts(g, b),
    ensures a =~= b,
{
    assert forall|i: int| 0 <= i < a.len() implies a[i] == b[i] by { assert(same_pt(g[i], a[i])); assert(same_pt(g[i], b[i])); }
}
/// one layer message, exported from `ss` and imported back as `ss2`
pub proof fn lemma_shapes_roundtrip(g: proto::LayerShapes, k: LKey, ss: Seq<Shape>, ss2: Seq<Shape>)
    requires shapes_msg_is(g, k, ss), ashapes_are(ss2, g),
    ensures shapes_rt(ss, ss2),
{
    let n0 = skind(ss, 0).len(); let n1 = skind(ss, 1).len();
    assert forall|i: int| 0 <= i < n0 implies shape_same(skind(ss, 0)[i], #[trigger] ss2[i]) by {
        lemma_skind_kind(ss, 0, i); assert(rect_is(g.rectangles@[i], skind(ss, 0)[i]->Rect_0)); assert(rect_imp(ss2[i], g.rectangles@[i]));
    }
    assert forall|i: int| 0 <= i < n1 implies shape_same(skind(ss, 1)[i], #[trigger] ss2[n0 + i]) by {
        lemma_skind_kind(ss, 1, i); assert(poly_is(g.polygons@[i], skind(ss, 1)[i]->Polygon_0)); assert(poly_imp(ss2[n0 + i], g.polygons@[i]));
        lemma_same_pts_eq(g.polygons@[i].vertices@, skind(ss, 1)[i]->Polygon_0.points@, ss2[n0 + i]->Polygon_0.points@);
    }
    assert forall|i: int| 0 <= i < skind(ss, 2).len() implies shape_same(skind(ss, 2)[i], #[trigger] ss2[n0 + n1 + i]) by {
        lemma_skind_kind(ss, 2, i); assert(path_is(g.paths@[i], skind(ss, 2)[i]->Path_0)); assert(path_imp(ss2[n0 + n1 + i], g.paths@[i]));
        lemma_same_pts_eq(g.paths@[i].points@, skind(ss, 2)[i]->Path_0.points@, ss2[n0 + n1 + i]->Path_0.points@);
    }
}
/// THEOREM (C14, abstracts, raw -> protobuf -> raw): a layer -> shapes map exported (in whatever order the HashMap iterates) and imported
/// back has exactly the same layer keys, each with the same shapes (regrouped by kind)
pub proof fn theorem_layer_map_roundtrip(gs: Seq<proto::LayerShapes>, m: Map<LayerKey, Vec<Shape>>, m2: Map<LayerKey, Vec<Shape>>, lib: Library, p: LayerPurpose)
    requires layer_map_exp(gs, m, lib, p), layer_map_imp(m2, gs, gs.len() as int), table_ok(lib, p), m.dom().finite(),
    ensures m2.dom() =~= m.dom(), forall|k: LayerKey| m.dom().contains(k) ==> shapes_rt(m[k]@, #[trigger] m2[k]@),
{
    let keys = choose|keys: Seq<LayerKey>| #[trigger] entries_exp(gs, keys, m, lib, p);
    // message i is filed back under keys[i]
    assert forall|i: int| 0 <= i < keys.len() implies lkey_of(#[trigger] gs[i]) == keys[i] by {
        assert(m.dom().contains(keys[i])); assert(shapes_msg_is(gs[i], nums(lib, keys[i], p)->0, m[keys[i]]@));
    }
    // the keys enumerate the whole domain (duplicate-free, as many as the domain)
    keys.unique_seq_to_set();
    assert(keys.to_set().subset_of(m.dom())) by { assert forall|k: LayerKey| keys.to_set().contains(k) implies m.dom().contains(k) by { let i = choose|i: int| 0 <= i < keys.len() && keys[i] == k; assert(m.dom().contains(keys[i])); } }
    vstd::set_lib::lemma_subset_equality(keys.to_set(), m.dom());
    assert forall|k: LayerKey| m2.dom().contains(k) <==> m.dom().contains(k) by {
        if m2.dom().contains(k) { let i = choose|i: int| 0 <= i < gs.len() && lkey_of(#[trigger] gs[i]) == k; assert(m.dom().contains(keys[i])); }
        if m.dom().contains(k) { assert(keys.to_set().contains(k)); let i = choose|i: int| 0 <= i < keys.len() && keys[i] == k; assert(m2.dom().contains(lkey_of(gs[i]))); }
    }
    assert forall|k: LayerKey| m.dom().contains(k) implies shapes_rt(m[k]@, #[trigger] m2[k]@) by {
        assert(keys.to_set().contains(k)); let i = choose|i: int| 0 <= i < keys.len() && keys[i] == k;
        assert(last_of(gs, gs.len() as int, i)) by { assert forall|j: int| i < j < gs.len() implies lkey_of(#[trigger] gs[j]) != lkey_of(gs[i]) by { assert(keys[j] != keys[i]); } }
        assert(m.dom().contains(keys[i]));
        lemma_shapes_roundtrip(gs[i], nums(lib, keys[i], p)->0, m[k]@, m2[k]@);
    }
}

// ---- library-level round trip: a pure consequence of the two converters' contracts ----
pub open spec fn deg(a: Option<f64>) -> Option<i32> { match a { None => Some(0i32), Some(x) => whole_degrees(x) } }
pub open spec fn inst_same(a: Instance, b: Instance) -> bool {
    &&& a.inst_name@ == b.inst_name@ &&& a.reflect_vert == b.reflect_vert &&& a.loc == b.loc &&& (*a.cell.v).name@ == (*b.cell.v).name@ &&& deg(a.angle) == deg(b.angle)
}
/// name, instances and annotations (the shapes of a layout: units raw_proto / raw_proto_layout)
pub open spec fn layout_same(a: Layout, b: Layout) -> bool {
    &&& a.name@ == b.name@
    &&& a.insts@.len() == b.insts@.len() &&& forall|i: int| 0 <= i < a.insts@.len() ==> inst_same(#[trigger] a.insts@[i], b.insts@[i])
    &&& a.annotations@.len() == b.annotations@.len() &&& forall|i: int| 0 <= i < a.annotations@.len() ==> (#[trigger] a.annotations@[i]).string@ == b.annotations@[i].string@ && a.annotations@[i].loc == b.annotations@[i].loc
}
pub open spec fn map_same(m: Map<LayerKey, Vec<Shape>>, m2: Map<LayerKey, Vec<Shape>>) -> bool { m2.dom() =~= m.dom() && forall|k: LayerKey| m.dom().contains(k) ==> shapes_rt(m[k]@, #[trigger] m2[k]@) }
pub open spec fn abs_same(a: Abstract, b: Abstract) -> bool {
    &&& a.name@ == b.name@ &&& a.outline.points@ =~= b.outline.points@
    &&& a.ports@.len() == b.ports@.len() &&& forall|i: int| 0 <= i < a.ports@.len() ==> (#[trigger] a.ports@[i]).net@ == b.ports@[i].net@ && map_same(a.ports@[i].shapes@, b.ports@[i].shapes@)
    &&& map_same(a.blockages@, b.blockages@)
}
pub open spec fn cell_same(a: Cell, b: Cell) -> bool {
    &&& a.name@ == b.name@ &&& (a.layout is Some <==> b.layout is Some) &&& (a.layout is Some ==> layout_same(a.layout->0, b.layout->0))
    &&& (a.abs is Some <==> b.abs is Some) &&& (a.abs is Some ==> abs_same(a.abs->0, b.abs->0))
}
pub open spec fn cells_same(order: Seq<Ptr<Cell>>, cells: Seq<Ptr<Cell>>) -> bool { order.len() == cells.len() && forall|i: int| 0 <= i < order.len() ==> cell_same(*(#[trigger] order[i]).v, *cells[i].v) }
/// over an initially empty map, a successful lookup after `n` messages yields the cell of a message (among the first n) with that name
pub proof fn lemma_lk_hit(m0: CellMap, pcells: Seq<proto::Cell>, cells: Seq<Ptr<Cell>>, n: nat, q: Seq<char>)
    requires forall|x: Seq<char>| #[trigger] m0.lookup(x) is None, lk_after(m0, pcells, cells, n, q) is Some,
    ensures exists|j: int| 0 <= j < n && (#[trigger] pcells[j]).name@ == q && lk_after(m0, pcells, cells, n, q) == Some(cells[j]),
    decreases n
{
    if n > 0 && pcells[n - 1].name@ != q {
        lemma_lk_hit(m0, pcells, cells, (n - 1) as nat, q);
        let j = choose|j: int| 0 <= j < n - 1 && (#[trigger] pcells[j]).name@ == q && lk_after(m0, pcells, cells, (n - 1) as nat, q) == Some(cells[j]);
        assert(0 <= j < n && pcells[j].name@ == q);
    } else if n > 0 { assert(pcells[n - 1].name@ == q); }
}
/// float side (f64 is opaque to the verifier): converting whole degrees to f64 and back is exact — assumption of the round trip
pub open spec fn degrees_exact() -> bool { forall|d: i32| whole_degrees(#[trigger] degrees_f64(d)) == Some(d) }
pub proof fn lemma_layout_roundtrip(a: Layout, g: proto::Layout, b: Layout, lib: Library, m: CellMap, m0: CellMap, pcells: Seq<proto::Cell>, cells: Seq<Ptr<Cell>>, n: nat)
    requires layout_exp(g, a, lib), layout_imp(b, g, m), map_is(m, m0, pcells, cells, n), forall|x: Seq<char>| #[trigger] m0.lookup(x) is None, degrees_exact(),
        n <= cells.len(), n <= pcells.len(), forall|j: int| 0 <= j < n ==> (*(#[trigger] cells[j]).v).name@ == pcells[j].name@,
    ensures layout_same(a, b),
{
    assert forall|i: int| 0 <= i < a.insts@.len() implies inst_same(#[trigger] a.insts@[i], b.insts@[i]) by {
        assert(inst_exp(g.instances@[i], a.insts@[i]));
        assert(inst_imp(b.insts@[i], g.instances@[i], m));
        let q = g.instances@[i].cell->0.to->0->Local_0@;
        assert(m.lookup(q) == lk_after(m0, pcells, cells, n, q));
        lemma_lk_hit(m0, pcells, cells, n, q);
    }
    assert forall|i: int| 0 <= i < a.annotations@.len() implies (#[trigger] a.annotations@[i]).string@ == b.annotations@[i].string@ && a.annotations@[i].loc == b.annotations@[i].loc by {
        assert(g.annotations@[i].string@ == a.annotations@[i].string@);
    }
}
pub proof fn lemma_abs_roundtrip(a: Abstract, g: proto::Abstract, b: Abstract, lib: Library)
    requires abs_exp(g, a, lib), abs_imp(b, g), table_ok(lib, LayerPurpose::Pin), table_ok(lib, LayerPurpose::Obstruction),
    ensures abs_same(a, b),
{
    lemma_same_pts_eq(g.outline->0.vertices@, a.outline.points@, b.outline.points@);
    assert forall|i: int| 0 <= i < a.ports@.len() implies (#[trigger] a.ports@[i]).net@ == b.ports@[i].net@ && map_same(a.ports@[i].shapes@, b.ports@[i].shapes@) by {
        assert(port_exp(g.ports@[i], a.ports@[i], lib)); assert(port_imp(b.ports@[i], g.ports@[i]));
        theorem_layer_map_roundtrip(g.ports@[i].shapes@, a.ports@[i].shapes@, b.ports@[i].shapes@, lib, LayerPurpose::Pin);
    }
    theorem_layer_map_roundtrip(g.blockages@, a.blockages@, b.blockages@, lib, LayerPurpose::Obstruction);
}
/// THEOREM (C14, first sentence): whatever `export` produced for `lib`, whatever `import_lib` then built from it (starting from an empty
/// cell map, with the same layer table) has the library's name and units and, cell for cell along the export's dependency ordering,
/// the same name, layout view (name, instances with name / target cell name / location / reflection / rotation, annotations) and
/// abstract view (name, outline, ports with net and per-layer shapes, blockages per layer)
pub proof fn theorem_roundtrip(lib: Library, g: proto::Library, lib2: Library, m0: CellMap, m1: CellMap)
    requires lib_exp(g, lib), lib_imp(lib2, g, m0, m1), forall|x: Seq<char>| #[trigger] m0.lookup(x) is None, degrees_exact(),
        table_ok(lib, LayerPurpose::Pin), table_ok(lib, LayerPurpose::Obstruction),
    ensures lib2.name@ == lib.name@, lib2.units == lib.units,
        exists|order: Seq<Ptr<Cell>>| is_dep_ordering(order, lib.cells@, |c: Ptr<Cell>| cell_deps(c)) && #[trigger] cells_same(order, lib2.cells@),
{
    let order = choose|order: Seq<Ptr<Cell>>| is_dep_ordering(order, lib.cells@, |c: Ptr<Cell>| cell_deps(c)) && #[trigger] cells_exp(g.cells@, order, lib);
    let cs = lib2.cells@; let pc = g.cells@;
    assert forall|i: int| 0 <= i < order.len() implies cell_same(*(#[trigger] order[i]).v, *cs[i].v) by {
        assert(cell_exp(pc[i], *order[i].v, lib));
        assert(cell_imported(cs, pc, m0, i));
        let m = choose|m: CellMap| map_is(m, m0, pc, cs, i as nat) && #[trigger] cell_imp(*cs[i].v, pc[i], m);
        if pc[i].layout is Some {
            assert forall|j: int| 0 <= j < i implies (*(#[trigger] cs[j]).v).name@ == pc[j].name@ by { assert(cell_imported(cs, pc, m0, j)); }
            lemma_layout_roundtrip((*order[i].v).layout->0, pc[i].layout->0, (*cs[i].v).layout->0, lib, m, m0, pc, cs, i as nat);
        }
        if pc[i].r#abstract is Some { lemma_abs_roundtrip((*order[i].v).abs->0, pc[i].r#abstract->0, (*cs[i].v).abs->0, lib); }
    }
    assert(cells_same(order, cs));
}

/// the converse direction for one abstract port — C14: "conversely a protobuf library whose cells are listed before their users converts
/// to raw and back to an equal message".  Supported subset assumed: every layer message names a distinct layer whose (number, Pin-purpose
/// number) the layer table maps back.  The net and the NUMBER of layer messages come back; their ORDER does not follow from the two
/// converters' contracts — and is false of the real code: the raw data model keeps a port's shapes in a HashMap<LayerKey, Vec<Shape>> and
/// the exporter follows its iteration order (known finding F15, native replay findings/F15_abstract_layer_order.rs)
pub proof fn theorem_port_msg_roundtrip(g: proto::AbstractPort, p: AbstractPort, g2: proto::AbstractPort, lib: Library)
    requires lmsgs_ok(g.shapes@), port_imp(p, g), port_exp(g2, p, lib), p.shapes@.dom().finite(),
        forall|i: int, j: int| 0 <= i < j < g.shapes@.len() ==> lkey_of(#[trigger] g.shapes@[i]) != lkey_of(#[trigger] g.shapes@[j]),
        forall|i: int| 0 <= i < g.shapes@.len() ==> nums(lib, lkey_of(#[trigger] g.shapes@[i]), LayerPurpose::Pin) is Some
            && nums(lib, lkey_of(g.shapes@[i]), LayerPurpose::Pin)->Some_0.0 == g.shapes@[i].layer->0.number && nums(lib, lkey_of(g.shapes@[i]), LayerPurpose::Pin)->Some_0.1 == g.shapes@[i].layer->0.purpose,
    ensures g2.net@ == g.net@,
        g2.shapes@.len() == g.shapes@.len(),
        forall|i: int| 0 <= i < g.shapes@.len() ==> (#[trigger] g2.shapes@[i]).layer == g.shapes@[i].layer,
{
    let m = p.shapes@; let gs = g.shapes@;
    let keys = choose|keys: Seq<LayerKey>| #[trigger] entries_exp(g2.shapes@, keys, m, lib, LayerPurpose::Pin);
    // the map has exactly one key per message (distinct layers)
    let ks = Seq::new(gs.len(), |i: int| lkey_of(gs[i]));
    assert(ks.no_duplicates());
    ks.unique_seq_to_set();
    assert(ks.to_set() =~= m.dom()) by {
        assert forall|k: LayerKey| ks.to_set().contains(k) <==> m.dom().contains(k) by {
            if ks.to_set().contains(k) { let i = choose|i: int| 0 <= i < ks.len() && ks[i] == k; assert(m.dom().contains(lkey_of(gs[i]))); }
            if m.dom().contains(k) { let i = choose|i: int| 0 <= i < gs.len() && lkey_of(#[trigger] gs[i]) == k; assert(ks[i] == k); }
        }
    }
}

// vacuity canaries (each must FAIL: its hypotheses are satisfiable)
proof fn canary_layer_map_rt(gs: Seq<proto::LayerShapes>, m: Map<LayerKey, Vec<Shape>>, m2: Map<LayerKey, Vec<Shape>>, lib: Library, p: LayerPurpose)
    requires layer_map_exp(gs, m, lib, p), layer_map_imp(m2, gs, gs.len() as int), table_ok(lib, p), m.dom().finite(), gs.len() == 2, gs[0].rectangles@.len() == 1, gs[1].paths@.len() == 1,
    ensures false {}
proof fn canary_roundtrip(lib: Library, g: proto::Library, lib2: Library, m0: CellMap, m1: CellMap)
    requires lib_exp(g, lib), lib_imp(lib2, g, m0, m1), forall|x: Seq<char>| #[trigger] m0.lookup(x) is None, degrees_exact(), table_ok(lib, LayerPurpose::Pin), table_ok(lib, LayerPurpose::Obstruction),
        g.cells@.len() == 2, g.cells@[1].layout is Some, g.cells@[1].layout->0.instances@.len() == 1, g.cells@[1].r#abstract is Some, g.cells@[1].r#abstract->0.ports@.len() == 1,
    ensures false {}
proof fn canary_lib_exp(g: proto::Library, lib: Library) requires lib_exp(g, lib), lib_small(lib), lib.cells@.len() == 2, g.cells@[1].layout is Some, g.cells@[1].r#abstract is Some ensures false {}
proof fn canary_lib_imp(lib: Library, plib: proto::Library, m0: CellMap, m1: CellMap) requires lib_imp(lib, plib, m0, m1), plib.cells@.len() == 2, plib.cells@[1].layout is Some, plib.cells@[1].r#abstract is Some, cell_msg_ok(plib.cells@[1]) ensures false {}
proof fn canary_abs_exp(g: proto::Abstract, a: Abstract, lib: Library) requires abs_exp(g, a, lib), abs_small(a), a.ports@.len() == 1, a.ports@[0].shapes@.dom().len() == 2, a.blockages@.dom().len() == 1 ensures false {}
proof fn canary_abs_imp(a: Abstract, g: proto::Abstract) requires abs_imp(a, g), abs_msg_ok(g), g.ports@.len() == 1, g.ports@[0].shapes@.len() == 2, lkey_of(g.ports@[0].shapes@[0]) != lkey_of(g.ports@[0].shapes@[1]) ensures false {}
}
fn main() {}
