// Unit U3 gds_tree: gds21 library tree -> record sequence (trait Encode) (C01, C02).
use vstd::prelude::*;
use vstd::string::*;
use vstd::utf8::*;
use std::convert::{TryFrom, TryInto};
verus! {
global size_of usize == 8;
//@ include units/common/float.inc.rs
//@ include units/gds_codec/spec.inc.rs
//@ include units/gds_codec/points.inc.rs
//@ include units/gds_codec/writer.inc.rs
//@ include units/gds_codec/lemmas.inc.rs
//@ include units/gds_tree/tree.inc.rs

pub assume_specification<T: Clone>[ <[T]>::to_vec ](s: &[T]) -> (r: Vec<T>) ensures r@ == s@;
/// R11: identity on f64.  Verus drops the axioms of an array literal one of whose elements reads an f64 struct field
/// (tool defect, reproduced stand-alone); passing the value through this function keeps them.
#[verifier::external_body]
pub fn vp_f64(x: f64) -> (r: f64) ensures r == x { x }
/// model of `Vec::extend(Vec)` (rule R6): appends the elements in order
#[verifier::external_body]
pub fn vp_extend(v: &mut Vec<i32>, w: Vec<i32>) ensures final(v)@ == old(v)@ + w@ { v.extend(w) }


/// ---- domain of the writer theorem (preconditions): sizes a Vec/String can have in practice, reals inside the GDSII range ----
pub open spec fn xy_req(n: nat) -> bool { n < 0x0fff_ffff_ffff_ff00 }
pub open spec fn str_req(s: &String) -> bool { string_bytes(s).len() < 0x7fff_ffff_ffff_0000 }
pub open spec fn oreal_req(x: Option<f64>) -> bool { x is Some ==> gds_in_range(x->0) }
pub open spec fn strans_req(s: GdsStrans) -> bool { oreal_req(s.mag) && oreal_req(s.angle) }
pub open spec fn ostrans_req(s: Option<GdsStrans>) -> bool { s is Some ==> strans_req(s->0) }
pub open spec fn props_req(ps: Seq<GdsProperty>) -> bool { forall|i: int| 0 <= i < ps.len() ==> str_req(&(#[trigger] ps[i]).value) }
pub open spec fn boundary_req(b: GdsBoundary) -> bool { xy_req(b.xy@.len()) && props_req(b.properties@) }
pub open spec fn path_req(b: GdsPath) -> bool { xy_req(b.xy@.len()) && props_req(b.properties@) }
pub open spec fn node_req(b: GdsNode) -> bool { xy_req(b.xy@.len()) && props_req(b.properties@) }
pub open spec fn box_req(b: GdsBox) -> bool { xy_req(b.xy@.len()) && props_req(b.properties@) }
pub open spec fn sref_req(b: GdsStructRef) -> bool { str_req(&b.name) && ostrans_req(b.strans) && props_req(b.properties@) }
pub open spec fn aref_req(b: GdsArrayRef) -> bool { str_req(&b.name) && ostrans_req(b.strans) && props_req(b.properties@) }
pub open spec fn text_req(b: GdsTextElem) -> bool { str_req(&b.string) && ostrans_req(b.strans) && props_req(b.properties@) }
pub open spec fn elem_req(e: GdsElement) -> bool {
    match e {
        GdsElement::GdsBoundary(x) => boundary_req(x), GdsElement::GdsPath(x) => path_req(x), GdsElement::GdsStructRef(x) => sref_req(x), GdsElement::GdsArrayRef(x) => aref_req(x),
        GdsElement::GdsTextElem(x) => text_req(x), GdsElement::GdsNode(x) => node_req(x), GdsElement::GdsBox(x) => box_req(x),
    }
}
pub open spec fn struct_req(s: GdsStruct) -> bool { str_req(&s.name) && forall|i: int| 0 <= i < s.elems@.len() ==> elem_req(#[trigger] s.elems@[i]) }
pub open spec fn lib_req(l: GdsLibrary) -> bool {
    str_req(&l.name) && gds_in_range(l.units.0) && gds_in_range(l.units.1) && forall|i: int| 0 <= i < l.structs@.len() ==> struct_req(#[trigger] l.structs@[i])
}
/// what a record handed to an encoder must satisfy: payload of a size a Vec/String can have, reals inside the GDSII range
pub open spec fn rec_ok(r: GdsRecord) -> bool {
    (r is Xy ==> r->Xy_0@.len() < 0x1fff_ffff_ffff_ff00)
    && (r is Mag ==> gds_in_range(r->Mag_0)) && (r is Angle ==> gds_in_range(r->Angle_0)) && (r is Units ==> gds_in_range(r->Units_0) && gds_in_range(r->Units_1))
    && (r is LibName ==> str_req(&r->LibName_0)) && (r is StructName ==> str_req(&r->StructName_0)) && (r is StructRefName ==> str_req(&r->StructRefName_0))
    && (r is String ==> str_req(&r->String_0)) && (r is RefLibs ==> str_req(&r->RefLibs_0)) && (r is Fonts ==> str_req(&r->Fonts_0)) && (r is AttrTable ==> str_req(&r->AttrTable_0))
    && (r is PropValue ==> str_req(&r->PropValue_0)) && (r is Mask ==> str_req(&r->Mask_0)) && (r is SrfName ==> str_req(&r->SrfName_0))
}
/// rec_ok in the terms the record writer's contract uses
proof fn lemma_rec_ok(r: GdsRecord) requires rec_ok(r) ensures payload(r).len() < 0x7fff_ffff_ffff_ff00, reals_ok(r) { lemma_payload_len(r); }

/// the record-by-record ("operational") reading of <text> and <path> up to the property list: one push per record, in order, in stages.
/// lemma_text_op / lemma_path_op prove these equal to the grammar oracle's text_pre / path_pre.
pub open spec fn op_head(s: Seq<Content>, num: u8, ef: Option<GdsElemFlags>, pl: Option<GdsPlex>) -> Seq<Content> {
    let s = s.push(c0(num));
    let s = match ef { Some(f) => s.push(ci(0x26, seq![f.0 as int, f.1 as int])), None => s };
    match pl { Some(f) => s.push(ci(0x2F, seq![f.0 as int])), None => s }
}
pub open spec fn op_i16(s: Seq<Content>, num: u8, o: Option<i16>) -> Seq<Content> { match o { Some(v) => s.push(ci(num, seq![v as int])), None => s } }
pub open spec fn op_i32(s: Seq<Content>, num: u8, o: Option<i32>) -> Seq<Content> { match o { Some(v) => s.push(ci(num, seq![v as int])), None => s } }
pub open spec fn text_op_b(s: Seq<Content>, t: GdsTextElem) -> Seq<Content> {
    let s = s.push(ci(0x0D, seq![t.layer as int])).push(ci(0x16, seq![t.texttype as int]));
    match t.presentation { Some(p) => s.push(ci(0x17, seq![p.0 as int, p.1 as int])), None => s }
}
pub open spec fn text_op_d(s: Seq<Content>, t: GdsTextElem) -> Seq<Content> {
    let s = match t.strans { Some(st) => s + strans_c(st), None => s };
    s.push(ci(0x10, xy_ints(seq![t.xy]))).push(cs(0x19, string_bytes(&t.string)))
}
pub open spec fn text_op(b: Seq<Content>, t: GdsTextElem) -> Seq<Content> {
    text_op_d(op_i32(op_i16(text_op_b(op_head(b, 0x0C, t.elflags, t.plex), t), 0x21, t.path_type), 0x0F, t.width), t)
}
proof fn lemma_op_head(b: Seq<Content>, num: u8, ef: Option<GdsElemFlags>, pl: Option<GdsPlex>)
    ensures op_head(b, num, ef, pl) == b + (seq![c0(num)] + opt_elflags(ef) + opt_plex(pl))
{ assert(op_head(b, num, ef, pl) =~= b + (seq![c0(num)] + opt_elflags(ef) + opt_plex(pl))); }
proof fn lemma_op_i16(b: Seq<Content>, x: Seq<Content>, num: u8, o: Option<i16>) ensures op_i16(b + x, num, o) == b + (x + opt_i16(num, o))
{ assert(op_i16(b + x, num, o) =~= b + (x + opt_i16(num, o))); }
proof fn lemma_op_i32(b: Seq<Content>, x: Seq<Content>, num: u8, o: Option<i32>) ensures op_i32(b + x, num, o) == b + (x + opt_i32(num, o))
{ assert(op_i32(b + x, num, o) =~= b + (x + opt_i32(num, o))); }
proof fn lemma_text_op_b(b: Seq<Content>, x: Seq<Content>, t: GdsTextElem)
    ensures text_op_b(b + x, t) == b + (x + seq![ci(0x0D, seq![t.layer as int]), ci(0x16, seq![t.texttype as int])]
        + (match t.presentation { Some(p) => seq![ci(0x17, seq![p.0 as int, p.1 as int])], None => Seq::<Content>::empty() }))
{
    assert(text_op_b(b + x, t) =~= b + (x + seq![ci(0x0D, seq![t.layer as int]), ci(0x16, seq![t.texttype as int])]
        + (match t.presentation { Some(p) => seq![ci(0x17, seq![p.0 as int, p.1 as int])], None => Seq::<Content>::empty() })));
}
proof fn lemma_text_op_d(b: Seq<Content>, x: Seq<Content>, t: GdsTextElem)
    ensures text_op_d(b + x, t) == b + (x + opt_strans(t.strans) + seq![ci(0x10, xy_ints(seq![t.xy])), cs(0x19, string_bytes(&t.string))])
{ assert(text_op_d(b + x, t) =~= b + (x + opt_strans(t.strans) + seq![ci(0x10, xy_ints(seq![t.xy])), cs(0x19, string_bytes(&t.string))])); }
proof fn lemma_text_op(b: Seq<Content>, t: GdsTextElem) ensures text_op(b, t) == b + text_pre(t) {
    let x1 = seq![c0(0x0C)] + opt_elflags(t.elflags) + opt_plex(t.plex);
    lemma_op_head(b, 0x0C, t.elflags, t.plex);
    lemma_text_op_b(b, x1, t);
    let x2 = x1 + seq![ci(0x0D, seq![t.layer as int]), ci(0x16, seq![t.texttype as int])]
        + (match t.presentation { Some(p) => seq![ci(0x17, seq![p.0 as int, p.1 as int])], None => Seq::<Content>::empty() });
    lemma_op_i16(b, x2, 0x21, t.path_type);
    let x3 = x2 + opt_i16(0x21, t.path_type);
    lemma_op_i32(b, x3, 0x0F, t.width);
    let x4 = x3 + opt_i32(0x0F, t.width);
    lemma_text_op_d(b, x4, t);
}
pub open spec fn path_op(b: Seq<Content>, t: GdsPath) -> Seq<Content> {
    let s = op_head(b, 0x09, t.elflags, t.plex);
    let s = s.push(ci(0x0D, seq![t.layer as int])).push(ci(0x0E, seq![t.datatype as int]));
    let s = op_i32(op_i32(op_i32(op_i16(s, 0x21, t.path_type), 0x0F, t.width), 0x30, t.begin_extn), 0x31, t.end_extn);
    s.push(ci(0x10, xy_ints(t.xy@)))
}
proof fn lemma_path_op(b: Seq<Content>, t: GdsPath) ensures path_op(b, t) == b + path_pre(t) {
    let x1 = seq![c0(0x09)] + opt_elflags(t.elflags) + opt_plex(t.plex);
    lemma_op_head(b, 0x09, t.elflags, t.plex);
    let x2 = x1 + seq![ci(0x0D, seq![t.layer as int]), ci(0x0E, seq![t.datatype as int])];
    assert((b + x1).push(ci(0x0D, seq![t.layer as int])).push(ci(0x0E, seq![t.datatype as int])) =~= b + x2);
    lemma_op_i16(b, x2, 0x21, t.path_type);
    let x3 = x2 + opt_i16(0x21, t.path_type);
    lemma_op_i32(b, x3, 0x0F, t.width);
    let x4 = x3 + opt_i32(0x0F, t.width);
    lemma_op_i32(b, x4, 0x30, t.begin_extn);
    let x5 = x4 + opt_i32(0x30, t.begin_extn);
    lemma_op_i32(b, x5, 0x31, t.end_extn);
    let x6 = x5 + opt_i32(0x31, t.end_extn);
    assert((b + x6).push(ci(0x10, xy_ints(t.xy@))) =~= b + (x6 + seq![ci(0x10, xy_ints(t.xy@))]));
}

// =====================================================================================================
// WRITER: trait Encode (gds21/src/write.rs), default methods extracted
// =====================================================================================================
trait Encode {
    /// R8 ghost member: the contents of the records encoded so far
    spec fn recs(&self) -> Seq<Content>;
    /// R8 ghost member: the encoder's own invariant (for GdsWriter: the bytes written so far are whole records)
    spec fn inv(&self) -> bool;
//@ fn gds21/src/write.rs :: trait Encode :: fn encode_record
//@   ret r
//@   spec
//|         requires old(self).inv(), rec_ok(record),
//|         ensures r is Ok ==> final(self).inv() && final(self).recs() == old(self).recs().push(content(record))
//@ end
//@ fn gds21/src/write.rs :: trait Encode :: fn encode_records
//@   ret r
//@   spec
//|         requires old(self).inv(), forall|i: int| 0 <= i < records@.len() ==> rec_ok(#[trigger] records@[i]),
//|         ensures r is Ok ==> final(self).inv() && final(self).recs() == old(self).recs() + contents(records@)
//@ end
//@ fn gds21/src/write.rs :: trait Encode :: fn encode_strans
//@   ret r
//@   spec
//|         requires old(self).inv(), strans_req(*strans),
//|         ensures r is Ok ==> final(self).inv() && final(self).recs() == old(self).recs() + strans_c(*strans),
//@   before /self\.encode_record\(GdsRecord::Strans\(/
//|         proof {
//|             assert((1u8 << 7) == 0x80u8 && (0u8 << 7) == 0u8) by (bit_vector);
//|             assert(((0u8 << 2) | (0u8 << 1)) == 0u8 && ((1u8 << 2) | (0u8 << 1)) == 4u8 && ((0u8 << 2) | (1u8 << 1)) == 2u8 && ((1u8 << 2) | (1u8 << 1)) == 6u8) by (bit_vector);
//|         }
//@   before /^        Ok\(\(\)\)$/
//|         proof { assert(self.recs() =~= old(self).recs() + strans_c(*strans)); }
//@ end
//@ fn gds21/src/write.rs :: trait Encode :: fn encode_boundary
//@   ret r
//@   spec
//|         requires old(self).inv(), boundary_req(*boundary),
//|         ensures r is Ok ==> final(self).inv() && final(self).recs() == old(self).recs() + boundary_c(*boundary),
//@   before /for prop in boundary\.properties\.iter\(\)/
//|         let ghost pre = self.recs();
//|         proof { lemma_xy(boundary.xy@); assert(pre =~= old(self).recs() + boundary_pre(*boundary)); }
//@   loop 1 iter it
//|             invariant self.inv(), props_req(boundary.properties@), self.recs() == pre + props_c(boundary.properties@.take(it.index@ as int)), it.index@ <= boundary.properties@.len(),
//@   loopend 1
//|             proof { lemma_props_push(boundary.properties@.take(it.index@ as int), *prop); assert(boundary.properties@.take(it.index@ + 1) == boundary.properties@.take(it.index@ as int).push(*prop)); }
//@   before /^        Ok\(\(\)\)$/
//|         proof { assert(boundary.properties@.take(boundary.properties@.len() as int) == boundary.properties@); assert(self.recs() =~= old(self).recs() + boundary_c(*boundary)); }
//@ end
//@ fn gds21/src/write.rs :: trait Encode :: fn encode_path
//@   attr #[verifier::spinoff_prover] #[verifier::rlimit(100)]
//@   ret r
//@   spec
//|         requires old(self).inv(), path_req(*path),
//|         ensures r is Ok ==> final(self).inv() && final(self).recs() == old(self).recs() + path_c(*path),
//@   before /for prop in path\.properties\.iter\(\)/
//|         let ghost pre = self.recs();
//|         proof {
//|             lemma_xy(path.xy@);
//|             assert(pre == path_op(old(self).recs(), *path));
//|             lemma_path_op(old(self).recs(), *path);
//|         }
//@   loop 1 iter it
//|             invariant self.inv(), props_req(path.properties@), self.recs() == pre + props_c(path.properties@.take(it.index@ as int)), it.index@ <= path.properties@.len(),
//@   loopend 1
//|             proof { lemma_props_push(path.properties@.take(it.index@ as int), *prop); assert(path.properties@.take(it.index@ + 1) == path.properties@.take(it.index@ as int).push(*prop)); }
//@   before /^        Ok\(\(\)\)$/
//|         proof { assert(path.properties@.take(path.properties@.len() as int) == path.properties@); assert(self.recs() =~= old(self).recs() + path_c(*path)); }
//@ end
//@ fn gds21/src/write.rs :: trait Encode :: fn encode_struct_ref
//@   attr #[verifier::spinoff_prover] #[verifier::rlimit(100)]
//@   ret r
//@   spec
//|         requires old(self).inv(), sref_req(*sref),
//|         ensures r is Ok ==> final(self).inv() && final(self).recs() == old(self).recs() + sref_c(*sref),
//@   before /for prop in sref\.properties\.iter\(\)/
//|         let ghost pre = self.recs();
//|         proof { lemma_xy_single(sref.xy); assert(pre =~= old(self).recs() + sref_pre(*sref)); }
//@   loop 1 iter it
//|             invariant self.inv(), props_req(sref.properties@), self.recs() == pre + props_c(sref.properties@.take(it.index@ as int)), it.index@ <= sref.properties@.len(),
//@   loopend 1
//|             proof { lemma_props_push(sref.properties@.take(it.index@ as int), *prop); assert(sref.properties@.take(it.index@ + 1) == sref.properties@.take(it.index@ as int).push(*prop)); }
//@   before /^        Ok\(\(\)\)$/
//|         proof { assert(sref.properties@.take(sref.properties@.len() as int) == sref.properties@); assert(self.recs() =~= old(self).recs() + sref_c(*sref)); }
//@ end
//@ fn gds21/src/write.rs :: trait Encode :: fn encode_text_elem
//@   attr #[verifier::spinoff_prover] #[verifier::rlimit(100)]
//@   ret r
//@   spec
//|         requires old(self).inv(), text_req(*text),
//|         ensures r is Ok ==> final(self).inv() && final(self).recs() == old(self).recs() + text_c(*text),
//@   before /for prop in text\.properties\.iter\(\)/
//|         let ghost pre = self.recs();
//|         proof {
//|             lemma_xy_single(text.xy);
//|             assert(pre == text_op(old(self).recs(), *text));
//|             lemma_text_op(old(self).recs(), *text);
//|         }
//@   loop 1 iter it
//|             invariant self.inv(), props_req(text.properties@), self.recs() == pre + props_c(text.properties@.take(it.index@ as int)), it.index@ <= text.properties@.len(),
//@   loopend 1
//|             proof { lemma_props_push(text.properties@.take(it.index@ as int), *prop); assert(text.properties@.take(it.index@ + 1) == text.properties@.take(it.index@ as int).push(*prop)); }
//@   before /^        Ok\(\(\)\)$/
//|         proof { assert(text.properties@.take(text.properties@.len() as int) == text.properties@); assert(self.recs() =~= old(self).recs() + text_c(*text)); }
//@ end
//@ fn gds21/src/write.rs :: trait Encode :: fn encode_node
//@   ret r
//@   spec
//|         requires old(self).inv(), node_req(*node),
//|         ensures r is Ok ==> final(self).inv() && final(self).recs() == old(self).recs() + node_c(*node),
//@   before /for prop in node\.properties\.iter\(\)/
//|         let ghost pre = self.recs();
//|         proof { lemma_xy(node.xy@); assert(pre =~= old(self).recs() + node_pre(*node)); }
//@   loop 1 iter it
//|             invariant self.inv(), props_req(node.properties@), self.recs() == pre + props_c(node.properties@.take(it.index@ as int)), it.index@ <= node.properties@.len(),
//@   loopend 1
//|             proof { lemma_props_push(node.properties@.take(it.index@ as int), *prop); assert(node.properties@.take(it.index@ + 1) == node.properties@.take(it.index@ as int).push(*prop)); }
//@   before /^        Ok\(\(\)\)$/
//|         proof { assert(node.properties@.take(node.properties@.len() as int) == node.properties@); assert(self.recs() =~= old(self).recs() + node_c(*node)); }
//@ end
//@ fn gds21/src/write.rs :: trait Encode :: fn encode_box
//@   ret r
//@   spec
//|         requires old(self).inv(), box_req(*box_),
//|         ensures r is Ok ==> final(self).inv() && final(self).recs() == old(self).recs() + box_c(*box_),
//@   before /for prop in box_\.properties\.iter\(\)/
//|         let ghost pre = self.recs();
//|         proof { lemma_xy(box_.xy@); assert(pre =~= old(self).recs() + box_pre(*box_)); }
//@   loop 1 iter it
//|             invariant self.inv(), props_req(box_.properties@), self.recs() == pre + props_c(box_.properties@.take(it.index@ as int)), it.index@ <= box_.properties@.len(),
//@   loopend 1
//|             proof { lemma_props_push(box_.properties@.take(it.index@ as int), *prop); assert(box_.properties@.take(it.index@ + 1) == box_.properties@.take(it.index@ as int).push(*prop)); }
//@   before /^        Ok\(\(\)\)$/
//|         proof { assert(box_.properties@.take(box_.properties@.len() as int) == box_.properties@); assert(self.recs() =~= old(self).recs() + box_c(*box_)); }
//@ end
//@ fn gds21/src/write.rs :: trait Encode :: fn encode_array_ref
//@   attr #[verifier::spinoff_prover] #[verifier::rlimit(100)]
//@   sub R6 /xy\.extend\((GdsPoint::flatten\(&aref\.xy\[\d\]\))\);/ => vp_extend(&mut xy, \1);
//@   ret r
//@   spec
//|         requires old(self).inv(), aref_req(*aref),
//|         ensures r is Ok ==> final(self).inv() && final(self).recs() == old(self).recs() + aref_c(*aref),
//@   before /for prop in aref\.properties\.iter\(\)/
//|         let ghost pre = self.recs();
//|         proof { lemma_xy(aref.xy@); assert(xy_of(aref.xy@, xy@)); assert(pre =~= old(self).recs() + aref_pre(*aref)); }
//@   loop 1 iter it
//|             invariant self.inv(), props_req(aref.properties@), self.recs() == pre + props_c(aref.properties@.take(it.index@ as int)), it.index@ <= aref.properties@.len(),
//@   loopend 1
//|             proof { lemma_props_push(aref.properties@.take(it.index@ as int), *prop); assert(aref.properties@.take(it.index@ + 1) == aref.properties@.take(it.index@ as int).push(*prop)); }
//@   before /^        Ok\(\(\)\)$/
//|         proof { assert(aref.properties@.take(aref.properties@.len() as int) == aref.properties@); assert(self.recs() =~= old(self).recs() + aref_c(*aref)); }
//@ end
//@ fn gds21/src/write.rs :: trait Encode :: fn encode_element
//@   ret r
//@   spec
//|         requires old(self).inv(), elem_req(*elem),
//|         ensures r is Ok ==> final(self).inv() && final(self).recs() == old(self).recs() + elem_c(*elem),
//@ end
//@ fn gds21/src/write.rs :: trait Encode :: fn encode_datetime
//@   spec
//|         requires old(dest)@.len() == 6,
//|         ensures final(dest)@ == seq![dt.year, dt.month, dt.day, dt.hour, dt.minute, dt.second],
//@ end
//@ fn gds21/src/write.rs :: trait Encode :: fn encode_datetimes
//@   ret r
//@   spec
//|         ensures r@.len() == 12, forall|i: int| 0 <= i < 12 ==> #[trigger] r@[i] as int == dates12(*dts)[i],
//@ end
//@ fn gds21/src/write.rs :: trait Encode :: fn encode_struct
//@   ret r
//@   spec
//|         requires old(self).inv(), struct_req(*strukt),
//|         ensures r is Ok ==> final(self).inv() && final(self).recs() == old(self).recs() + struct_c(*strukt),
//@   before1 /Write each of our elements|for elem in strukt\.elems\.iter\(\)/
//|         let ghost pre = self.recs();
//|         proof {
//|             assert(Seq::new(12, |i: int| dates@[i] as int) =~= dates12(strukt.dates));
//|             assert(pre =~= old(self).recs() + seq![ci(0x05, dates12(strukt.dates)), cs(0x06, string_bytes(&strukt.name))]);
//|         }
//@   loop 1 iter it
//|             invariant self.inv(), self.recs() == pre + elems_c(strukt.elems@.take(it.index@ as int)), it.index@ <= strukt.elems@.len(),
//|                 struct_req(*strukt),
//@   loopend 1
//|             proof { assert(strukt.elems@.take(it.index@ + 1).drop_last() == strukt.elems@.take(it.index@ as int)); assert(self.recs() =~= pre + elems_c(strukt.elems@.take(it.index@ + 1))); }
//@   before /^        Ok\(\(\)\)$/
//|         proof { assert(strukt.elems@.take(strukt.elems@.len() as int) == strukt.elems@); assert(self.recs() =~= old(self).recs() + struct_c(*strukt)); }
//@ end
//@ fn gds21/src/write.rs :: trait Encode :: fn encode_lib
//@   sub R11 /GdsRecord::Units\(lib\.units\.0, lib\.units\.1\)/ => GdsRecord::Units(vp_f64(lib.units.0), vp_f64(lib.units.1))
//@   ret r
//@   spec
//|         requires old(self).inv(), lib_req(*lib),
//|         ensures r is Ok ==> final(self).inv() && final(self).recs() == old(self).recs() + lib_c(*lib),
//@   before1 /Write all of our Structs|for strukt in lib\.structs\.iter\(\)/
//|         let ghost pre = self.recs();
//|         proof {
//|             assert(Seq::new(12, |i: int| dates@[i] as int) =~= dates12(lib.dates));
//|             assert(pre =~= old(self).recs() + seq![ci(0x00, seq![lib.version as int]), ci(0x01, dates12(lib.dates)), cs(0x02, string_bytes(&lib.name)), cr(0x03, seq![lib.units.0, lib.units.1])]);
//|         }
//@   loop 1 iter it
//|             invariant self.inv(), self.recs() == pre + structs_c(lib.structs@.take(it.index@ as int)), it.index@ <= lib.structs@.len(),
//|                 lib_req(*lib),
//@   loopend 1
//|             proof { assert(lib.structs@.take(it.index@ + 1).drop_last() == lib.structs@.take(it.index@ as int)); assert(self.recs() =~= pre + structs_c(lib.structs@.take(it.index@ + 1))); }
//@   before /^        Ok\(\(\)\)$/
//|         proof { assert(lib.structs@.take(lib.structs@.len() as int) == lib.structs@); assert(self.recs() =~= old(self).recs() + lib_c(*lib)); }
//@ end
}

// an implementor of the trait: GdsRecordList collects the records (gds21/src/write.rs), checked against the trait contract
//@ item gds21/src/write.rs :: struct GdsRecordList
//@ end
/// model of `Vec::extend(Vec)` (rule R6) for record lists
#[verifier::external_body]
pub fn vp_extend_recs(v: &mut Vec<GdsRecord>, w: Vec<GdsRecord>) ensures final(v)@ == old(v)@ + w@ { v.extend(w) }
impl Encode for GdsRecordList {
    closed spec fn recs(&self) -> Seq<Content> { contents(self.records@) }
    closed spec fn inv(&self) -> bool { true }
//@ fn gds21/src/write.rs :: impl Encode for GdsRecordList :: fn encode_record
//@   sub R6 /Ok\(self\.records\.push\(record\)\)/ => self.records.push(record); proof { assert(contents(self.records@) =~= contents(old(self).records@).push(content(record))); } Ok(())
//@ end
//@ fn gds21/src/write.rs :: impl Encode for GdsRecordList :: fn encode_records
//@   sub R6 /Ok\(self\.records\.extend\(records\.to_vec\(\)\)\)/ => vp_extend_recs(&mut self.records, records.to_vec()); proof { assert(contents(self.records@) =~= contents(old(self).records@) + contents(records@)); } Ok(())
//@ end
}
// the implementor that writes bytes: GdsWriter (gds21/src/write.rs).  Its encoder state is the byte stream, seen through the independent decoder `cstream`.
impl Encode for GdsWriter {
    closed spec fn recs(&self) -> Seq<Content> { cstream(self.dest@) }
    closed spec fn inv(&self) -> bool { wf_stream(self.dest@) }
//@ fn gds21/src/write.rs :: impl Encode for GdsWriter<'_> :: fn encode_record
//@   sub R2 /self\.write_record\(&record\)/ => proof { lemma_rec_ok(record); } let r = self.write_record(&record); proof { if r is Ok { lemma_stream_push(old(self).dest@, record); } } r
//@ end
//@ fn gds21/src/write.rs :: impl Encode for GdsWriter<'_> :: fn encode_records
//@   sub R2 /self\.write_records\(records\)/ => proof { assert forall|i: int| 0 <= i < records@.len() implies payload(#[trigger] records@[i]).len() < 0x7fff_ffff_ffff_ff00 by { lemma_rec_ok(records@[i]); } assert forall|i: int| 0 <= i < records@.len() implies reals_ok(#[trigger] records@[i]) by { lemma_rec_ok(records@[i]); } } let r = self.write_records(records); proof { if r is Ok { lemma_stream_recs(old(self).dest@, records@); } } r
//@ end
}
impl GdsWriter {
//@ fn gds21/src/write.rs :: impl<'wr> GdsWriter<'wr> :: fn write_lib
//@   ret r
//@   spec
//|         requires wf_stream(old(self).dest@), lib_req(*lib),
//|         ensures r is Ok ==> wf_stream(final(self).dest@) && cstream(final(self).dest@) == cstream(old(self).dest@) + lib_c(*lib),
//@ end
}
/// C02 at stream level: appending the bytes of a list of accepted records appends exactly their contents to the decoded stream
proof fn lemma_stream_recs(b: Seq<u8>, rs: Seq<GdsRecord>)
    requires wf_stream(b), forall|i: int| 0 <= i < rs.len() ==> writable(#[trigger] rs[i]) && reals_ok(rs[i]),
    ensures wf_stream(b + recs_bytes(rs)), cstream(b + recs_bytes(rs)) == cstream(b) + contents(rs),
    decreases rs.len()
{
    if rs.len() == 0 {
        assert(b + recs_bytes(rs) =~= b);
        assert(cstream(b) + contents(rs) =~= cstream(b));
    } else {
        let h = rs.drop_last();
        lemma_stream_recs(b, h);
        lemma_recs_push(h, rs.last());
        assert(h.push(rs.last()) == rs);
        lemma_stream_push(b + recs_bytes(h), rs.last());
        assert(b + recs_bytes(rs) =~= (b + recs_bytes(h)) + rec_bytes(rs.last()));
        assert(contents(rs) =~= contents(h).push(content(rs.last())));
        assert(cstream(b + recs_bytes(rs)) =~= cstream(b) + contents(rs));
    }
}
/// the XY record's content for a flattened point list is the grammar's coordinate list
proof fn lemma_xy(p: Seq<GdsPoint>) ensures forall|v: Vec<i32>| #[trigger] xy_of(p, v@) ==> content(GdsRecord::Xy(v)) == ci(0x10, xy_ints(p)),
{
    assert forall|v: Vec<i32>| #[trigger] xy_of(p, v@) implies content(GdsRecord::Xy(v)) == ci(0x10, xy_ints(p)) by {
        assert(content(GdsRecord::Xy(v)).1 =~= xy_ints(p)) by {
            assert forall|i: int| 0 <= i < 2 * p.len() implies (v@[i] as int) == xy_ints(p)[i] by {
                let k = i / 2;
                if i % 2 == 0 { assert(i == 2 * k); } else { assert(i == 2 * k + 1); }
            }
        }
    }
}
proof fn lemma_xy1(p: GdsPoint, v: Seq<i32>) requires v == seq![p.x, p.y] ensures xy_of(seq![p], v) {
    let s = seq![p];
    assert(s.len() == 1 && s[0] == p);
    assert(v.len() == 2 && v[0] == p.x && v[1] == p.y);
}
proof fn lemma_xy_single(p: GdsPoint) ensures forall|v: Vec<i32>| v@ == seq![p.x, p.y] ==> #[trigger] content(GdsRecord::Xy(v)) == ci(0x10, xy_ints(seq![p])),
{
    lemma_xy(seq![p]);
    assert forall|v: Vec<i32>| v@ == seq![p.x, p.y] implies #[trigger] content(GdsRecord::Xy(v)) == ci(0x10, xy_ints(seq![p])) by { lemma_xy1(p, v@); }
}
proof fn lemma_props_push(ps: Seq<GdsProperty>, p: GdsProperty)
    ensures props_c(ps.push(p)) == props_c(ps) + seq![ci(0x2B, seq![p.attr as int]), cs(0x2C, string_bytes(&p.value))]
{ assert(ps.push(p).drop_last() == ps); }
// vacuity canaries
proof fn canary_elem_req(e: GdsElement) requires elem_req(e), e is GdsBoundary, e->GdsBoundary_0.xy@.len() == 5 ensures false {}
proof fn canary_lib_c(l: GdsLibrary) requires lib_c(l).len() >= 6, l.structs@.len() == 1 ensures false {}
}
fn main() {}
