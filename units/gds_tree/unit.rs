// Unit U3 gds_tree: gds21 library tree -> record sequence (trait Encode) (C01, C02).
use vstd::prelude::*;
use vstd::string::*;
use vstd::utf8::*;
use std::convert::{TryFrom, TryInto};
verus! {
global size_of usize == 8;
//@ include units/gds_codec/spec.inc.rs
//@ include units/gds_codec/points.inc.rs
//@ include units/gds_tree/tree.inc.rs

pub assume_specification<T: Clone>[ <[T]>::to_vec ](s: &[T]) -> (r: Vec<T>) ensures r@ == s@;
/// R11: identity on f64.  Verus drops the axioms of an array literal one of whose elements reads an f64 struct field
/// (tool defect, reproduced stand-alone); passing the value through this function keeps them.
#[verifier::external_body]
pub fn vp_f64(x: f64) -> (r: f64) ensures r == x { x }
/// model of `Vec::extend(Vec)` (rule R6): appends the elements in order
#[verifier::external_body]
pub fn vp_extend(v: &mut Vec<i32>, w: Vec<i32>) ensures final(v)@ == old(v)@ + w@ { v.extend(w) }


pub open spec fn boundary_req(b: GdsBoundary) -> bool { b.xy@.len() < 0x3fff_ffff_ffff_ffff }
pub open spec fn path_req(b: GdsPath) -> bool { b.xy@.len() < 0x3fff_ffff_ffff_ffff }
pub open spec fn node_req(b: GdsNode) -> bool { b.xy@.len() < 0x3fff_ffff_ffff_ffff }
pub open spec fn sref_req(b: GdsStructRef) -> bool { true }
pub open spec fn aref_req(b: GdsArrayRef) -> bool { true }
pub open spec fn text_req(b: GdsTextElem) -> bool { true }
pub open spec fn box_req(b: GdsBox) -> bool { true }
pub open spec fn elem_req(e: GdsElement) -> bool {
    match e { GdsElement::GdsBoundary(x) => boundary_req(x), GdsElement::GdsPath(x) => path_req(x), GdsElement::GdsNode(x) => node_req(x), _ => true }
}

// =====================================================================================================
// WRITER: trait Encode (gds21/src/write.rs), default methods extracted
// =====================================================================================================
trait Encode {
    /// R8 ghost member: the contents of the records encoded so far
    spec fn recs(&self) -> Seq<Content>;
//@ fn gds21/src/write.rs :: trait Encode :: fn encode_record
//@   ret r
//@   spec
//|         ensures r is Ok ==> final(self).recs() == old(self).recs().push(content(record))
//@ end
//@ fn gds21/src/write.rs :: trait Encode :: fn encode_records
//@   ret r
//@   spec
//|         ensures r is Ok ==> final(self).recs() == old(self).recs() + contents(records@)
//@ end
//@ fn gds21/src/write.rs :: trait Encode :: fn encode_strans
//@   ret r
//@   spec
//|         ensures r is Ok ==> final(self).recs() == old(self).recs() + strans_c(*strans),
//@   before /self\.encode_record\(GdsRecord::Strans\(/
//|         proof {
//|             assert((1u8 << 7) == 0x80u8 && (0u8 << 7) == 0u8) by (bit_vector);
//|             assert(((0u8 << 2) | (0u8 << 1)) == 0u8 && ((1u8 << 2) | (0u8 << 1)) == 4u8 && ((0u8 << 2) | (1u8 << 1)) == 2u8 && ((1u8 << 2) | (1u8 << 1)) == 6u8) by (bit_vector);
//|         }
//@   before /^        Ok\(\(\)\)$/
//|         proof { assert(self.recs() =~= old(self).recs() + strans_c(*strans)); }
//@ end
//@ fn gds21/src/write.rs :: trait Encode :: fn encode_boundary
//@   ret r
//@   spec
//|         requires boundary_req(*boundary),
//|         ensures r is Ok ==> final(self).recs() == old(self).recs() + boundary_c(*boundary),
//@   before /for prop in boundary\.properties\.iter\(\)/
//|         let ghost pre = self.recs();
//|         proof { lemma_xy(boundary.xy@); assert(pre =~= old(self).recs() + boundary_pre(*boundary)); }
//@   loop 1 iter it
//|             invariant self.recs() == pre + props_c(boundary.properties@.take(it.index@ as int)), it.index@ <= boundary.properties@.len(),
//@   loopend 1
//|             proof { lemma_props_push(boundary.properties@.take(it.index@ as int), *prop); assert(boundary.properties@.take(it.index@ + 1) == boundary.properties@.take(it.index@ as int).push(*prop)); }
//@   before /^        Ok\(\(\)\)$/
//|         proof { assert(boundary.properties@.take(boundary.properties@.len() as int) == boundary.properties@); assert(self.recs() =~= old(self).recs() + boundary_c(*boundary)); }
//@ end
//@ fn gds21/src/write.rs :: trait Encode :: fn encode_path
//@   attr #[verifier::spinoff_prover] #[verifier::rlimit(100)]
//@   ret r
//@   spec
//|         requires path_req(*path),
//|         ensures r is Ok ==> final(self).recs() == old(self).recs() + path_c(*path),
//@   before /for prop in path\.properties\.iter\(\)/
//|         let ghost pre = self.recs();
//|         proof { lemma_xy(path.xy@); assert(pre =~= old(self).recs() + path_pre(*path)); }
//@   loop 1 iter it
//|             invariant self.recs() == pre + props_c(path.properties@.take(it.index@ as int)), it.index@ <= path.properties@.len(),
//@   loopend 1
//|             proof { lemma_props_push(path.properties@.take(it.index@ as int), *prop); assert(path.properties@.take(it.index@ + 1) == path.properties@.take(it.index@ as int).push(*prop)); }
//@   before /^        Ok\(\(\)\)$/
//|         proof { assert(path.properties@.take(path.properties@.len() as int) == path.properties@); assert(self.recs() =~= old(self).recs() + path_c(*path)); }
//@ end
//@ fn gds21/src/write.rs :: trait Encode :: fn encode_struct_ref
//@   attr #[verifier::spinoff_prover] #[verifier::rlimit(100)]
//@   ret r
//@   spec
//|         requires sref_req(*sref),
//|         ensures r is Ok ==> final(self).recs() == old(self).recs() + sref_c(*sref),
//@   before /for prop in sref\.properties\.iter\(\)/
//|         let ghost pre = self.recs();
//|         proof { lemma_xy_single(sref.xy); assert(pre =~= old(self).recs() + sref_pre(*sref)); }
//@   loop 1 iter it
//|             invariant self.recs() == pre + props_c(sref.properties@.take(it.index@ as int)), it.index@ <= sref.properties@.len(),
//@   loopend 1
//|             proof { lemma_props_push(sref.properties@.take(it.index@ as int), *prop); assert(sref.properties@.take(it.index@ + 1) == sref.properties@.take(it.index@ as int).push(*prop)); }
//@   before /^        Ok\(\(\)\)$/
//|         proof { assert(sref.properties@.take(sref.properties@.len() as int) == sref.properties@); assert(self.recs() =~= old(self).recs() + sref_c(*sref)); }
//@ end
//@ fn gds21/src/write.rs :: trait Encode :: fn encode_text_elem
//@   attr #[verifier::spinoff_prover] #[verifier::rlimit(100)]
//@   ret r
//@   spec
//|         requires text_req(*text),
//|         ensures r is Ok ==> final(self).recs() == old(self).recs() + text_c(*text),
//@   before /for prop in text\.properties\.iter\(\)/
//|         let ghost pre = self.recs();
//|         proof { lemma_xy_single(text.xy); assert(pre =~= old(self).recs() + text_pre(*text)); }
//@   loop 1 iter it
//|             invariant self.recs() == pre + props_c(text.properties@.take(it.index@ as int)), it.index@ <= text.properties@.len(),
//@   loopend 1
//|             proof { lemma_props_push(text.properties@.take(it.index@ as int), *prop); assert(text.properties@.take(it.index@ + 1) == text.properties@.take(it.index@ as int).push(*prop)); }
//@   before /^        Ok\(\(\)\)$/
//|         proof { assert(text.properties@.take(text.properties@.len() as int) == text.properties@); assert(self.recs() =~= old(self).recs() + text_c(*text)); }
//@ end
//@ fn gds21/src/write.rs :: trait Encode :: fn encode_node
//@   ret r
//@   spec
//|         requires node_req(*node),
//|         ensures r is Ok ==> final(self).recs() == old(self).recs() + node_c(*node),
//@   before /for prop in node\.properties\.iter\(\)/
//|         let ghost pre = self.recs();
//|         proof { lemma_xy(node.xy@); assert(pre =~= old(self).recs() + node_pre(*node)); }
//@   loop 1 iter it
//|             invariant self.recs() == pre + props_c(node.properties@.take(it.index@ as int)), it.index@ <= node.properties@.len(),
//@   loopend 1
//|             proof { lemma_props_push(node.properties@.take(it.index@ as int), *prop); assert(node.properties@.take(it.index@ + 1) == node.properties@.take(it.index@ as int).push(*prop)); }
//@   before /^        Ok\(\(\)\)$/
//|         proof { assert(node.properties@.take(node.properties@.len() as int) == node.properties@); assert(self.recs() =~= old(self).recs() + node_c(*node)); }
//@ end
//@ fn gds21/src/write.rs :: trait Encode :: fn encode_box
//@   ret r
//@   spec
//|         requires box_req(*box_),
//|         ensures r is Ok ==> final(self).recs() == old(self).recs() + box_c(*box_),
//@   before /for prop in box_\.properties\.iter\(\)/
//|         let ghost pre = self.recs();
//|         proof { lemma_xy(box_.xy@); assert(pre =~= old(self).recs() + box_pre(*box_)); }
//@   loop 1 iter it
//|             invariant self.recs() == pre + props_c(box_.properties@.take(it.index@ as int)), it.index@ <= box_.properties@.len(),
//@   loopend 1
//|             proof { lemma_props_push(box_.properties@.take(it.index@ as int), *prop); assert(box_.properties@.take(it.index@ + 1) == box_.properties@.take(it.index@ as int).push(*prop)); }
//@   before /^        Ok\(\(\)\)$/
//|         proof { assert(box_.properties@.take(box_.properties@.len() as int) == box_.properties@); assert(self.recs() =~= old(self).recs() + box_c(*box_)); }
//@ end
//@ fn gds21/src/write.rs :: trait Encode :: fn encode_array_ref
//@   attr #[verifier::spinoff_prover] #[verifier::rlimit(100)]
//@   sub R6 /xy\.extend\((GdsPoint::flatten\(&aref\.xy\[\d\]\))\);/ => vp_extend(&mut xy, \1);
//@   ret r
//@   spec
//|         requires aref_req(*aref),
//|         ensures r is Ok ==> final(self).recs() == old(self).recs() + aref_c(*aref),
//@   before /for prop in aref\.properties\.iter\(\)/
//|         let ghost pre = self.recs();
//|         proof { lemma_xy(aref.xy@); assert(xy_of(aref.xy@, xy@)); assert(pre =~= old(self).recs() + aref_pre(*aref)); }
//@   loop 1 iter it
//|             invariant self.recs() == pre + props_c(aref.properties@.take(it.index@ as int)), it.index@ <= aref.properties@.len(),
//@   loopend 1
//|             proof { lemma_props_push(aref.properties@.take(it.index@ as int), *prop); assert(aref.properties@.take(it.index@ + 1) == aref.properties@.take(it.index@ as int).push(*prop)); }
//@   before /^        Ok\(\(\)\)$/
//|         proof { assert(aref.properties@.take(aref.properties@.len() as int) == aref.properties@); assert(self.recs() =~= old(self).recs() + aref_c(*aref)); }
//@ end
//@ fn gds21/src/write.rs :: trait Encode :: fn encode_element
//@   ret r
//@   spec
//|         requires elem_req(*elem),
//|         ensures r is Ok ==> final(self).recs() == old(self).recs() + elem_c(*elem),
//@ end
//@ fn gds21/src/write.rs :: trait Encode :: fn encode_datetime
//@   spec
//|         requires old(dest)@.len() == 6,
//|         ensures final(dest)@ == seq![dt.year, dt.month, dt.day, dt.hour, dt.minute, dt.second],
//@ end
//@ fn gds21/src/write.rs :: trait Encode :: fn encode_datetimes
//@   ret r
//@   spec
//|         ensures r@.len() == 12, forall|i: int| 0 <= i < 12 ==> #[trigger] r@[i] as int == dates12(*dts)[i],
//@ end
//@ fn gds21/src/write.rs :: trait Encode :: fn encode_struct
//@   ret r
//@   spec
//|         requires forall|i: int| 0 <= i < strukt.elems@.len() ==> elem_req(#[trigger] strukt.elems@[i]),
//|         ensures r is Ok ==> final(self).recs() == old(self).recs() + struct_c(*strukt),
//@   before /Write each of our elements/
//|         let ghost pre = self.recs();
//|         proof {
//|             assert(Seq::new(12, |i: int| dates@[i] as int) =~= dates12(strukt.dates));
//|             assert(pre =~= old(self).recs() + seq![ci(0x05, dates12(strukt.dates)), cs(0x06, string_bytes(&strukt.name))]);
//|         }
//@   loop 1 iter it
//|             invariant self.recs() == pre + elems_c(strukt.elems@.take(it.index@ as int)), it.index@ <= strukt.elems@.len(),
//|                 forall|i: int| 0 <= i < strukt.elems@.len() ==> elem_req(#[trigger] strukt.elems@[i]),
//@   loopend 1
//|             proof { assert(strukt.elems@.take(it.index@ + 1).drop_last() == strukt.elems@.take(it.index@ as int)); assert(self.recs() =~= pre + elems_c(strukt.elems@.take(it.index@ + 1))); }
//@   before /^        Ok\(\(\)\)$/
//|         proof { assert(strukt.elems@.take(strukt.elems@.len() as int) == strukt.elems@); assert(self.recs() =~= old(self).recs() + struct_c(*strukt)); }
//@ end
//@ fn gds21/src/write.rs :: trait Encode :: fn encode_lib
//@   sub R11 /GdsRecord::Units\(lib\.units\.0, lib\.units\.1\)/ => GdsRecord::Units(vp_f64(lib.units.0), vp_f64(lib.units.1))
//@   ret r
//@   spec
//|         requires forall|i: int, j: int| 0 <= i < lib.structs@.len() && 0 <= j < lib.structs@[i].elems@.len() ==> elem_req(#[trigger] lib.structs@[i].elems@[j]),
//|         ensures r is Ok ==> final(self).recs() == old(self).recs() + lib_c(*lib),
//@   before /Write all of our Structs/
//|         let ghost pre = self.recs();
//|         proof {
//|             assert(Seq::new(12, |i: int| dates@[i] as int) =~= dates12(lib.dates));
//|             assert(pre =~= old(self).recs() + seq![ci(0x00, seq![lib.version as int]), ci(0x01, dates12(lib.dates)), cs(0x02, string_bytes(&lib.name)), cr(0x03, seq![lib.units.0, lib.units.1])]);
//|         }
//@   loop 1 iter it
//|             invariant self.recs() == pre + structs_c(lib.structs@.take(it.index@ as int)), it.index@ <= lib.structs@.len(),
//|                 forall|i: int, j: int| 0 <= i < lib.structs@.len() && 0 <= j < lib.structs@[i].elems@.len() ==> elem_req(#[trigger] lib.structs@[i].elems@[j]),
//@   loopend 1
//|             proof { assert(lib.structs@.take(it.index@ + 1).drop_last() == lib.structs@.take(it.index@ as int)); assert(self.recs() =~= pre + structs_c(lib.structs@.take(it.index@ + 1))); }
//@   before /^        Ok\(\(\)\)$/
//|         proof { assert(lib.structs@.take(lib.structs@.len() as int) == lib.structs@); assert(self.recs() =~= old(self).recs() + lib_c(*lib)); }
//@ end
}

// an implementor of the trait: GdsRecordList collects the records (gds21/src/write.rs), checked against the trait contract
//@ item gds21/src/write.rs :: struct GdsRecordList
//@ end
/// model of `Vec::extend(Vec)` (rule R6) for record lists
#[verifier::external_body]
pub fn vp_extend_recs(v: &mut Vec<GdsRecord>, w: Vec<GdsRecord>) ensures final(v)@ == old(v)@ + w@ { v.extend(w) }
impl Encode for GdsRecordList {
    closed spec fn recs(&self) -> Seq<Content> { contents(self.records@) }
//@ fn gds21/src/write.rs :: impl Encode for GdsRecordList :: fn encode_record
//@   sub R6 /Ok\(self\.records\.push\(record\)\)/ => self.records.push(record); proof { assert(contents(self.records@) =~= contents(old(self).records@).push(content(record))); } Ok(())
//@ end
//@ fn gds21/src/write.rs :: impl Encode for GdsRecordList :: fn encode_records
//@   sub R6 /Ok\(self\.records\.extend\(records\.to_vec\(\)\)\)/ => vp_extend_recs(&mut self.records, records.to_vec()); proof { assert(contents(self.records@) =~= contents(old(self).records@) + contents(records@)); } Ok(())
//@ end
}
/// the XY record's content for a flattened point list is the grammar's coordinate list
proof fn lemma_xy(p: Seq<GdsPoint>) ensures forall|v: Vec<i32>| #[trigger] xy_of(p, v@) ==> content(GdsRecord::Xy(v)) == ci(0x10, xy_ints(p)),
{
    assert forall|v: Vec<i32>| #[trigger] xy_of(p, v@) implies content(GdsRecord::Xy(v)) == ci(0x10, xy_ints(p)) by {
        assert(content(GdsRecord::Xy(v)).1 =~= xy_ints(p)) by {
            assert forall|i: int| 0 <= i < 2 * p.len() implies (v@[i] as int) == xy_ints(p)[i] by {
                let k = i / 2;
                if i % 2 == 0 { assert(i == 2 * k); } else { assert(i == 2 * k + 1); }
            }
        }
    }
}
proof fn lemma_xy1(p: GdsPoint, v: Seq<i32>) requires v == seq![p.x, p.y] ensures xy_of(seq![p], v) {
    let s = seq![p];
    assert(s.len() == 1 && s[0] == p);
    assert(v.len() == 2 && v[0] == p.x && v[1] == p.y);
}
proof fn lemma_xy_single(p: GdsPoint) ensures forall|v: Vec<i32>| v@ == seq![p.x, p.y] ==> #[trigger] content(GdsRecord::Xy(v)) == ci(0x10, xy_ints(seq![p])),
{
    lemma_xy(seq![p]);
    assert forall|v: Vec<i32>| v@ == seq![p.x, p.y] implies #[trigger] content(GdsRecord::Xy(v)) == ci(0x10, xy_ints(seq![p])) by { lemma_xy1(p, v@); }
}
proof fn lemma_props_push(ps: Seq<GdsProperty>, p: GdsProperty)
    ensures props_c(ps.push(p)) == props_c(ps) + seq![ci(0x2B, seq![p.attr as int]), cs(0x2C, string_bytes(&p.value))]
{ assert(ps.push(p).drop_last() == ps); }
// vacuity canaries
proof fn canary_elem_req(e: GdsElement) requires elem_req(e), e is GdsBoundary, e->GdsBoundary_0.xy@.len() == 5 ensures false {}
proof fn canary_lib_c(l: GdsLibrary) requires lib_c(l).len() >= 6, l.structs@.len() == 1 ensures false {}
}
fn main() {}
