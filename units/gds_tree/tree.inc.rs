// shared by the gds_tree units: gds21's tree structs and the grammar oracle
// gds21's library tree (extracted from gds21/src/data.rs; derives and serde/builder attributes dropped, R4)
//@ item gds21/src/data.rs :: struct Unsupported
//@ end
//@ item gds21/src/data.rs :: struct GdsStrans
//@ end
//@ item gds21/src/data.rs :: struct GdsPresentation
//@ end
//@ item gds21/src/data.rs :: struct GdsElemFlags
//@ end
//@ item gds21/src/data.rs :: struct GdsPlex
//@ end
//@ item gds21/src/data.rs :: struct GdsUnits
//@ end
//@ item gds21/src/data.rs :: struct GdsProperty
//@ end
//@ item gds21/src/data.rs :: struct GdsPath
//@ end
//@ item gds21/src/data.rs :: struct GdsBoundary
//@ end
//@ item gds21/src/data.rs :: struct GdsStructRef
//@ end
//@ item gds21/src/data.rs :: struct GdsArrayRef
//@ end
//@ item gds21/src/data.rs :: struct GdsTextElem
//@ end
//@ item gds21/src/data.rs :: struct GdsNode
//@ end
//@ item gds21/src/data.rs :: struct GdsBox
//@ end
//@ item gds21/src/data.rs :: enum GdsElement
//@ end
//@ item gds21/src/data.rs :: struct GdsDateTime
//@ end
//@ item gds21/src/data.rs :: struct GdsDateTimes
//@ end
//@ item gds21/src/data.rs :: struct GdsStruct
//@ end
//@ item gds21/src/data.rs :: struct GdsLibrary
//@ end

// =====================================================================================================
// SPEC: the GDSII grammar (DESIGN.md appendix A), as the sequence of record contents a library flattens to
// =====================================================================================================
pub type Content = (u8, Seq<int>, Seq<u8>, Seq<f64>);
pub open spec fn c0(num: u8) -> Content { (num, Seq::<int>::empty(), Seq::<u8>::empty(), Seq::<f64>::empty()) }
pub open spec fn ci(num: u8, v: Seq<int>) -> Content { (num, v, Seq::<u8>::empty(), Seq::<f64>::empty()) }
pub open spec fn cs(num: u8, s: Seq<u8>) -> Content { (num, Seq::<int>::empty(), s, Seq::<f64>::empty()) }
pub open spec fn cr(num: u8, v: Seq<f64>) -> Content { (num, Seq::<int>::empty(), Seq::<u8>::empty(), v) }
pub open spec fn xy_ints(p: Seq<GdsPoint>) -> Seq<int> { Seq::new(2 * p.len(), |i: int| if i % 2 == 0 { p[i / 2].x as int } else { p[i / 2].y as int }) }
pub open spec fn opt_elflags(e: Option<GdsElemFlags>) -> Seq<Content> { match e { Some(f) => seq![ci(0x26, seq![f.0 as int, f.1 as int])], None => Seq::<Content>::empty() } }
pub open spec fn opt_plex(e: Option<GdsPlex>) -> Seq<Content> { match e { Some(f) => seq![ci(0x2F, seq![f.0 as int])], None => Seq::<Content>::empty() } }
pub open spec fn opt_i16(num: u8, e: Option<i16>) -> Seq<Content> { match e { Some(v) => seq![ci(num, seq![v as int])], None => Seq::<Content>::empty() } }
pub open spec fn opt_i32(num: u8, e: Option<i32>) -> Seq<Content> { match e { Some(v) => seq![ci(num, seq![v as int])], None => Seq::<Content>::empty() } }
pub open spec fn opt_real(num: u8, e: Option<f64>) -> Seq<Content> { match e { Some(v) => seq![cr(num, seq![v])], None => Seq::<Content>::empty() } }
/// {PROPATTR PROPVALUE}*
pub open spec fn props_c(ps: Seq<GdsProperty>) -> Seq<Content> decreases ps.len() {
    if ps.len() == 0 { Seq::<Content>::empty() } else { props_c(ps.drop_last()) + seq![ci(0x2B, seq![ps.last().attr as int]), cs(0x2C, string_bytes(&ps.last().value))] }
}
/// <strans> ::= STRANS [MAG] [ANGLE];  STRANS bit 0 (0x80 of byte 0) reflection, bit 13 (0x04 of byte 1) abs mag, bit 14 (0x02 of byte 1) abs angle
pub open spec fn strans_c(s: GdsStrans) -> Seq<Content> {
    seq![ci(0x1A, seq![if s.reflected { 0x80int } else { 0int }, (if s.abs_mag { 4int } else { 0int }) + (if s.abs_angle { 2int } else { 0int })])]
        + opt_real(0x1B, s.mag) + opt_real(0x1C, s.angle)
}
pub open spec fn opt_strans(e: Option<GdsStrans>) -> Seq<Content> { match e { Some(s) => strans_c(s), None => Seq::<Content>::empty() } }
pub open spec fn boundary_pre(b: GdsBoundary) -> Seq<Content> {
    seq![c0(0x08)] + opt_elflags(b.elflags) + opt_plex(b.plex) + seq![ci(0x0D, seq![b.layer as int]), ci(0x0E, seq![b.datatype as int]), ci(0x10, xy_ints(b.xy@))]
}
pub open spec fn boundary_c(b: GdsBoundary) -> Seq<Content> { boundary_pre(b) + props_c(b.properties@) + seq![c0(0x11)] }
pub open spec fn path_pre(b: GdsPath) -> Seq<Content> {
    seq![c0(0x09)] + opt_elflags(b.elflags) + opt_plex(b.plex) + seq![ci(0x0D, seq![b.layer as int]), ci(0x0E, seq![b.datatype as int])]
        + opt_i16(0x21, b.path_type) + opt_i32(0x0F, b.width) + opt_i32(0x30, b.begin_extn) + opt_i32(0x31, b.end_extn) + seq![ci(0x10, xy_ints(b.xy@))]
}
pub open spec fn path_c(b: GdsPath) -> Seq<Content> { path_pre(b) + props_c(b.properties@) + seq![c0(0x11)] }
pub open spec fn sref_pre(b: GdsStructRef) -> Seq<Content> {
    seq![c0(0x0A)] + opt_elflags(b.elflags) + opt_plex(b.plex) + seq![cs(0x12, string_bytes(&b.name))] + opt_strans(b.strans) + seq![ci(0x10, xy_ints(seq![b.xy]))]
}
pub open spec fn sref_c(b: GdsStructRef) -> Seq<Content> { sref_pre(b) + props_c(b.properties@) + seq![c0(0x11)] }
pub open spec fn aref_pre(b: GdsArrayRef) -> Seq<Content> {
    seq![c0(0x0B)] + opt_elflags(b.elflags) + opt_plex(b.plex) + seq![cs(0x12, string_bytes(&b.name))] + opt_strans(b.strans)
        + seq![ci(0x13, seq![b.cols as int, b.rows as int]), ci(0x10, xy_ints(b.xy@))]
}
pub open spec fn aref_c(b: GdsArrayRef) -> Seq<Content> { aref_pre(b) + props_c(b.properties@) + seq![c0(0x11)] }
pub open spec fn text_pre(b: GdsTextElem) -> Seq<Content> {
    seq![c0(0x0C)] + opt_elflags(b.elflags) + opt_plex(b.plex) + seq![ci(0x0D, seq![b.layer as int]), ci(0x16, seq![b.texttype as int])]
        + (match b.presentation { Some(p) => seq![ci(0x17, seq![p.0 as int, p.1 as int])], None => Seq::<Content>::empty() })
        + opt_i16(0x21, b.path_type) + opt_i32(0x0F, b.width) + opt_strans(b.strans) + seq![ci(0x10, xy_ints(seq![b.xy])), cs(0x19, string_bytes(&b.string))]
}
pub open spec fn text_c(b: GdsTextElem) -> Seq<Content> { text_pre(b) + props_c(b.properties@) + seq![c0(0x11)] }
pub open spec fn node_pre(b: GdsNode) -> Seq<Content> {
    seq![c0(0x15)] + opt_elflags(b.elflags) + opt_plex(b.plex) + seq![ci(0x0D, seq![b.layer as int]), ci(0x2A, seq![b.nodetype as int]), ci(0x10, xy_ints(b.xy@))]
}
pub open spec fn node_c(b: GdsNode) -> Seq<Content> { node_pre(b) + props_c(b.properties@) + seq![c0(0x11)] }
pub open spec fn box_pre(b: GdsBox) -> Seq<Content> {
    seq![c0(0x2D)] + opt_elflags(b.elflags) + opt_plex(b.plex) + seq![ci(0x0D, seq![b.layer as int]), ci(0x2E, seq![b.boxtype as int]), ci(0x10, xy_ints(b.xy@))]
}
pub open spec fn box_c(b: GdsBox) -> Seq<Content> { box_pre(b) + props_c(b.properties@) + seq![c0(0x11)] }
pub open spec fn elem_c(e: GdsElement) -> Seq<Content> {
    match e {
        GdsElement::GdsBoundary(x) => boundary_c(x), GdsElement::GdsPath(x) => path_c(x), GdsElement::GdsStructRef(x) => sref_c(x), GdsElement::GdsArrayRef(x) => aref_c(x),
        GdsElement::GdsTextElem(x) => text_c(x), GdsElement::GdsNode(x) => node_c(x), GdsElement::GdsBox(x) => box_c(x),
    }
}
pub open spec fn elems_c(es: Seq<GdsElement>) -> Seq<Content> decreases es.len() {
    if es.len() == 0 { Seq::<Content>::empty() } else { elems_c(es.drop_last()) + elem_c(es.last()) }
}
/// the 12 date words: modification then access time, each year month day hour minute second
pub open spec fn dates12(d: GdsDateTimes) -> Seq<int> {
    seq![d.modified.year as int, d.modified.month as int, d.modified.day as int, d.modified.hour as int, d.modified.minute as int, d.modified.second as int,
         d.accessed.year as int, d.accessed.month as int, d.accessed.day as int, d.accessed.hour as int, d.accessed.minute as int, d.accessed.second as int]
}
pub open spec fn struct_c(s: GdsStruct) -> Seq<Content> {
    seq![ci(0x05, dates12(s.dates)), cs(0x06, string_bytes(&s.name))] + elems_c(s.elems@) + seq![c0(0x07)]
}
pub open spec fn structs_c(ss: Seq<GdsStruct>) -> Seq<Content> decreases ss.len() {
    if ss.len() == 0 { Seq::<Content>::empty() } else { structs_c(ss.drop_last()) + struct_c(ss.last()) }
}
/// <library> ::= HEADER BGNLIB LIBNAME UNITS {<structure>}* ENDLIB
pub open spec fn lib_c(l: GdsLibrary) -> Seq<Content> {
    seq![ci(0x00, seq![l.version as int]), ci(0x01, dates12(l.dates)), cs(0x02, string_bytes(&l.name)), cr(0x03, seq![l.units.0, l.units.1])] + structs_c(l.structs@) + seq![c0(0x04)]
}
pub open spec fn contents(rs: Seq<GdsRecord>) -> Seq<Content> { Seq::new(rs.len(), |i: int| content(rs[i])) }
