// Unit U8e tetris_validate: validation of net assignments and track crossings (C08: "reports an error", which layer is top and which bottom).
use vstd::prelude::*;
verus! {
global size_of usize == 8;
//@ include units/common/float.inc.rs
// =====================================================================================================
// MODELS (rule R5)
// =====================================================================================================
#[derive(Debug)]
pub struct LayoutError { }
pub type LayoutResult<T> = Result<T, LayoutError>;
impl LayoutError {
    /// model of LayoutError::fail: always an error
    #[verifier::external_body]
    pub fn fail<T, M>(msg: M) -> (r: Result<T, LayoutError>) ensures r is Err { Err(LayoutError { }) }
}
//@ item layout21raw/src/geom.rs :: enum Dir
//@   derive Debug, Clone, Copy
//@ end
// model of #[derive(PartialEq)] on the field-less enum
impl vstd::std_specs::cmp::PartialEqSpecImpl for Dir {
    open spec fn obeys_eq_spec() -> bool { true }
    open spec fn eq_spec(&self, other: &Self) -> bool { *self == *other }
}
impl PartialEq for Dir { fn eq(&self, other: &Self) -> bool { match (self, other) { (Dir::Horiz, Dir::Horiz) => true, (Dir::Vert, Dir::Vert) => true, _ => false } } }
//@ item layout21tetris/src/tracks.rs :: struct TrackRef
//@   derive Debug, Clone, Copy
//@ end
//@ item layout21tetris/src/tracks.rs :: struct TrackCross
//@   derive Debug, Clone, Copy
//@ end
//@ item layout21tetris/src/stack.rs :: struct Assign
//@ end
impl Clone for Assign { #[verifier::external_body] fn clone(&self) -> (r: Self) ensures r == *self { unimplemented!() } }
//@ item layout21tetris/src/validate.rs :: struct ValidAssign
//@ end
/// R5: the stack reduced to its metal layers' directions
pub struct MetalLayer { pub dir: Dir }
pub struct ValidMetalLayer { pub spec: MetalLayer }
pub struct ValidStack { pub metals: Vec<ValidMetalLayer> }
impl ValidStack {
//@ fn layout21tetris/src/validate.rs :: impl ValidStack :: fn metal
//@   ret r
//@   spec
//|     ensures (r is Ok) == (idx < self.metals@.len()), r is Ok ==> *r->Ok_0 == self.metals@[idx as int],
//@ end
}
//@ item layout21tetris/src/validate.rs :: struct LibValidator
//@ end
impl<'stk> LibValidator<'stk> {
    /// models of ErrorHelper::fail / assert (message only)
    #[verifier::external_body]
    fn fail<T, M>(&self, msg: M) -> (r: LayoutResult<T>) ensures r is Err { Err(LayoutError { }) }
    #[verifier::external_body]
    fn assert<M>(&self, b: bool, msg: M) -> (r: LayoutResult<()>) ensures (r is Ok) == b { if b { Ok(()) } else { Err(LayoutError { }) } }
}
/// `str::len` of a String (bytes) as far as it is used: zero exactly for the empty string
#[verifier::external_body]
pub fn vp_str_len(s: &String) -> (r: usize) ensures (r == 0) == (s@.len() == 0) { s.len() }

// =====================================================================================================
// SPEC (C08: a net assignment sits on the crossing of two tracks of ADJACENT metal layers running in opposite directions)
// =====================================================================================================
pub open spec fn cross_ok(s: ValidStack, c: TrackCross) -> bool {
    c.track.layer < s.metals@.len() && c.cross.layer < s.metals@.len() && s.metals@[c.track.layer as int].spec.dir != s.metals@[c.cross.layer as int].spec.dir
}
pub open spec fn adjacent(c: TrackCross) -> bool { c.track.layer == c.cross.layer + 1 || c.track.layer + 1 == c.cross.layer }

impl<'stk> LibValidator<'stk> {
//@ fn layout21tetris/src/validate.rs :: impl<'stk> LibValidator<'stk> :: fn validate_track_ref
//@   ret r
//@   spec
//|     ensures final(self).stack == old(self).stack, (r is Ok) == (i.layer < old(self).stack.metals@.len()),
//@ end
//@ fn layout21tetris/src/validate.rs :: impl<'stk> LibValidator<'stk> :: fn validate_track_cross
//@   ret r
//@   spec
//|     ensures final(self).stack == old(self).stack, (r is Ok) == cross_ok(*old(self).stack, *i),
//@ end
//@ fn layout21tetris/src/validate.rs :: impl<'stk> LibValidator<'stk> :: fn validate_assign
//@   ret r
//@   sub R5 /assn\.net\.len\(\) > 0/ => vp_str_len(&assn.net) > 0
//@   before1 /let \(top, bot\) = /
//|         proof { let ghost n = self.stack.metals.len(); assert(i.track.layer < n && i.cross.layer < n); }
//@   spec
//|     ensures final(self).stack == old(self).stack,
//|         // accepted exactly when the net is named and the crossing is one of two adjacent, opposite-direction layers — never a crash
//|         (r is Ok) == (assn.net@.len() > 0 && cross_ok(*old(self).stack, assn.at) && adjacent(assn.at)),
//|         // the upper layer's track is `top`, the lower one's `bot`
//|         r is Ok ==> r->Ok_0.src == *assn && r->Ok_0.top.layer == r->Ok_0.bot.layer + 1
//|             && ((r->Ok_0.top == assn.at.track && r->Ok_0.bot == assn.at.cross) || (r->Ok_0.top == assn.at.cross && r->Ok_0.bot == assn.at.track)),
//@ end
}
proof fn canary_cross(s: ValidStack, c: TrackCross) requires cross_ok(s, c), adjacent(c), c.cross.layer == 0 ensures false {}
}
fn main() {}
