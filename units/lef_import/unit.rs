// Unit U11 lef_import: layout21raw::lef::LefImporter coordinate conversion (C16).
use vstd::prelude::*;
use std::convert::{TryFrom, TryInto};
verus! {
global size_of usize == 8;
//@ include units/common/float.inc.rs
pub type Int = isize;

// =====================================================================================================
// MODELS of external code (assumptions; rule R5).  rust_decimal::Decimal as  value = m / 10^s.
// =====================================================================================================
pub open spec fn pow10(n: nat) -> int decreases n { if n == 0 { 1 } else { 10 * pow10((n - 1) as nat) } }
proof fn lemma_pow10_pos(n: nat) ensures pow10(n) > 0 decreases n { if n > 0 { lemma_pow10_pos((n - 1) as nat); } }
pub mod lef21 {
    use super::*;
    /// model of rust_decimal::Decimal (96-bit mantissa, scale 0..=28); semantics from the crate documentation
    #[derive(Clone, Copy, Debug)]
    pub struct LefDecimal { pub m: i128, pub s: u32 }
    impl LefDecimal {
        /// representable without rounding by rust_decimal
        pub open spec fn fits(m: int, s: int) -> bool { -0x1_0000_0000_0000_0000_0000_0000 < m < 0x1_0000_0000_0000_0000_0000_0000 && 0 <= s <= 28 }
        #[verifier::external_body]
        pub fn from(v: u32) -> (r: LefDecimal) ensures r.m == v, r.s == 0 { unimplemented!() }
        /// fractional part: value - trunc(value); zero exactly when 10^s divides m
        #[verifier::external_body]
        pub fn fract(&self) -> (r: LefDecimal) ensures (r.m == 0) == ((self.m as int) % pow10(self.s as nat) == 0) { unimplemented!() }
        #[verifier::external_body]
        pub fn is_zero(&self) -> (r: bool) ensures r == (self.m == 0) { unimplemented!() }
        /// integral part (rounded toward zero), scale 0
        #[verifier::external_body]
        pub fn trunc(&self) -> (r: LefDecimal)
            ensures r.s == 0, (self.m as int) % pow10(self.s as nat) == 0 ==> r.m as int == (self.m as int) / pow10(self.s as nat),
                r.m as int == (if self.m >= 0 { (self.m as int) / pow10(self.s as nat) } else { -((-(self.m as int)) / pow10(self.s as nat)) }),
        { unimplemented!() }
        /// the digits without the decimal point
        #[verifier::external_body]
        pub fn mantissa(&self) -> (r: i128) ensures r == self.m { unimplemented!() }
    }
    #[derive(Clone, Copy, Debug)]
    pub struct LefPoint { pub x: LefDecimal, pub y: LefDecimal }
    /// only the field the extracted code reads
    pub struct LefLayerGeometries { pub width: Option<LefDecimal> }
    /// opaque: import_units ignores its argument
    pub struct LefUnits { }
}
// model of Decimal's comparison operators: comparison of the values m / 10^s
impl vstd::std_specs::cmp::PartialEqSpecImpl for lef21::LefDecimal {
    open spec fn obeys_eq_spec() -> bool { true }
    open spec fn eq_spec(&self, other: &Self) -> bool { self.m * pow10(other.s as nat) == other.m * pow10(self.s as nat) }
}
impl PartialEq for lef21::LefDecimal { #[verifier::external_body] fn eq(&self, other: &Self) -> bool { unimplemented!() } }
impl vstd::std_specs::cmp::PartialOrdSpecImpl for lef21::LefDecimal {
    open spec fn obeys_partial_cmp_spec() -> bool { true }
    open spec fn partial_cmp_spec(&self, other: &Self) -> Option<core::cmp::Ordering> {
        let (a, b) = (self.m * pow10(other.s as nat), other.m * pow10(self.s as nat));
        if a < b { Some(core::cmp::Ordering::Less) } else if a > b { Some(core::cmp::Ordering::Greater) } else { Some(core::cmp::Ordering::Equal) }
    }
}
impl PartialOrd for lef21::LefDecimal { #[verifier::external_body] fn partial_cmp(&self, other: &Self) -> Option<core::cmp::Ordering> { unimplemented!() } }
impl vstd::std_specs::ops::MulSpecImpl<lef21::LefDecimal> for &lef21::LefDecimal {
    open spec fn obeys_mul_spec() -> bool { true }
    // rust_decimal multiplies exactly as long as the product fits 96 bits and the scales add up to <= 28
    open spec fn mul_req(self, rhs: lef21::LefDecimal) -> bool { lef21::LefDecimal::fits(self.m * rhs.m, self.s + rhs.s) }
    open spec fn mul_spec(self, rhs: lef21::LefDecimal) -> lef21::LefDecimal { lef21::LefDecimal { m: (self.m * rhs.m) as i128, s: (self.s + rhs.s) as u32 } }
}
impl std::ops::Mul<lef21::LefDecimal> for &lef21::LefDecimal {
    type Output = lef21::LefDecimal;
    #[verifier::external_body]
    fn mul(self, rhs: lef21::LefDecimal) -> lef21::LefDecimal { unimplemented!() }
}
#[derive(Debug)]
pub struct LayoutError { }
pub type LayoutResult<T> = Result<T, LayoutError>;
impl From<std::num::TryFromIntError> for LayoutError { fn from(e: std::num::TryFromIntError) -> Self { LayoutError { } } }
/// model of layout21utils::Unwrapper for Option (Some(t) => Ok(t), None => helper.fail(msg))
pub trait Unwrapper: Sized {
    type Ok;
    spec fn some_spec(&self) -> Option<Self::Ok>;
    fn unwrapper<M>(self, helper: &LefImporter, msg: M) -> (r: Result<Self::Ok, LayoutError>)
        ensures self.some_spec() is Some ==> r == Ok::<Self::Ok, LayoutError>(self.some_spec()->0), self.some_spec() is None ==> r is Err;
}
impl<T> Unwrapper for Option<T> {
    type Ok = T;
    open spec fn some_spec(&self) -> Option<T> { *self }
    #[verifier::external_body]
    fn unwrapper<M>(self, helper: &LefImporter, msg: M) -> (r: Result<T, LayoutError>) { match self { Some(t) => Ok(t), None => Err(LayoutError { }) } }
}

//@ item layout21utils/src/context.rs :: enum ErrorContext
//@ end
//@ item layout21raw/src/data.rs :: enum Units
//@ end
//@ item layout21raw/src/geom.rs :: struct Point
//@   derive Debug, Copy, Clone
//@ end
//@ item layout21raw/src/geom.rs :: struct Rect
//@ end
//@ item layout21raw/src/geom.rs :: struct Polygon
//@ end
//@ item layout21raw/src/geom.rs :: struct Path
//@ end
//@ item layout21raw/src/geom.rs :: enum Shape
//@ end
impl Point {
//@ fn layout21raw/src/geom.rs :: impl Point :: fn new
//@   ret r
//@   spec
//|     ensures r.x == x, r.y == y,
//@ end
}
// R5: the importer without the two fields the coordinate code never touches (layers: Ptr<Layers>, lib: Library)
//@ item layout21raw/src/lef.rs :: struct LefImporter
//@   sub R5 /layers: Ptr<Layers>,/ =>
//@   sub R5 /lib: Library,/ =>
//@   sub R4 /\n    (ctx|dist_scale):/ => \n    pub \1:
//@ end

// =====================================================================================================
// SPEC (from the property): raw coordinate = LEF value in microns * raw units per micron, exactly, or an error
// =====================================================================================================
pub open spec fn dist_exact(d: lef21::LefDecimal, scale: int) -> bool { (d.m * scale) % pow10(d.s as nat) == 0 }
pub open spec fn dist_val(d: lef21::LefDecimal, scale: int) -> int { (d.m * scale) / pow10(d.s as nat) }
pub open spec fn dist_ok(d: lef21::LefDecimal, scale: int) -> bool { dist_exact(d, scale) && isize::MIN <= dist_val(d, scale) <= isize::MAX }
pub open spec fn dec_ok(d: lef21::LefDecimal, scale: int) -> bool { lef21::LefDecimal::fits(d.m * scale, d.s as int) }
pub open spec fn pt_dec_ok(p: lef21::LefPoint, scale: int) -> bool { dec_ok(p.x, scale) && dec_ok(p.y, scale) }
pub open spec fn pt_ok(p: lef21::LefPoint, scale: int) -> bool { dist_ok(p.x, scale) && dist_ok(p.y, scale) }
pub open spec fn pt_val(p: lef21::LefPoint, scale: int) -> Point { Point { x: dist_val(p.x, scale) as isize, y: dist_val(p.y, scale) as isize } }
/// trailing zeros do not matter: the value of m/10^s scaled is the same as that of (10m)/10^(s+1)
proof fn lemma_trailing_zero_irrelevant(m: int, s: nat, scale: int)
    ensures ((10 * m) * scale) % pow10(s + 1) == 0 <==> (m * scale) % pow10(s) == 0,
            (m * scale) % pow10(s) == 0 ==> ((10 * m) * scale) / pow10(s + 1) == (m * scale) / pow10(s),
{
    lemma_pow10_pos(s);
    let a = m * scale; let p = pow10(s);
    assert((10 * m) * scale == 10 * a) by (nonlinear_arith) requires a == m * scale;
    assert(pow10(s + 1) == 10 * p);
    if a % p == 0 {
        let q = a / p;
        vstd::arithmetic::div_mod::lemma_fundamental_div_mod(a, p);
        assert(10 * a == q * (10 * p) + 0) by (nonlinear_arith) requires a == p * q;
        vstd::arithmetic::div_mod::lemma_fundamental_div_mod_converse(10 * a, 10 * p, q, 0);
    }
    if (10 * a) % (10 * p) == 0 {
        let q = (10 * a) / (10 * p);
        vstd::arithmetic::div_mod::lemma_fundamental_div_mod(10 * a, 10 * p);
        assert(a == q * p + 0) by (nonlinear_arith) requires 10 * a == (10 * p) * q;
        vstd::arithmetic::div_mod::lemma_fundamental_div_mod_converse(a, p, q, 0);
    }
}

impl LefImporter {
    /// model of ErrorHelper::fail: always an error
    #[verifier::external_body]
    fn fail<T, M>(&self, msg: M) -> (r: LayoutResult<T>) ensures r is Err { Err(LayoutError { }) }

//@ fn layout21raw/src/lef.rs :: impl LefImporter :: fn import_units
//@   ret r
//@   spec
//|     ensures r == Ok::<Units, LayoutError>(Units::Angstrom), final(self).dist_scale == 10_000,
//@ end
//@ fn layout21raw/src/lef.rs :: impl LefImporter :: fn import_dist
//@   ret r
//@   sub R10 /lefdec \* lef21::LefDecimal::from\(self\.dist_scale\)/ => core::ops::Mul::mul(lefdec, lef21::LefDecimal::from(self.dist_scale))
//@   spec
//|     requires dec_ok(*lefdec, old(self).dist_scale as int),
//|     ensures final(self).dist_scale == old(self).dist_scale,
//|         match r {
//|             Ok(v) => dist_ok(*lefdec, old(self).dist_scale as int) && v == dist_val(*lefdec, old(self).dist_scale as int),
//|             Err(_) => !dist_ok(*lefdec, old(self).dist_scale as int),
//|         },
//@   after /let scaled = /
//|         proof { lemma_pow10_pos(lefdec.s as nat); }
//@ end
//@ fn layout21raw/src/lef.rs :: impl LefImporter :: fn import_point
//@   ret r
//@   spec
//|     requires pt_dec_ok(*pt, old(self).dist_scale as int),
//|     ensures final(self).dist_scale == old(self).dist_scale,
//|         match r {
//|             Ok(p) => pt_ok(*pt, old(self).dist_scale as int) && p == pt_val(*pt, old(self).dist_scale as int),
//|             Err(_) => !pt_ok(*pt, old(self).dist_scale as int),
//|         },
//@ end
    /// ASSUMED element-wise contract of the iterator idiom `pts.iter().map(|p| self.import_point(p)).collect::<Result<Vec<_>,_>>()`
    /// (not extracted: Verus has no specification for iterator adapters)
    #[verifier::external_body]
    fn import_point_vec(&mut self, pts: &Vec<lef21::LefPoint>) -> (r: LayoutResult<Vec<Point>>)
        requires forall|i: int| 0 <= i < pts@.len() ==> pt_dec_ok(#[trigger] pts@[i], old(self).dist_scale as int),
        ensures final(self).dist_scale == old(self).dist_scale,
            match r {
                Ok(v) => v@.len() == pts@.len() && forall|i: int| 0 <= i < pts@.len() ==> pt_ok(#[trigger] pts@[i], old(self).dist_scale as int) && v@[i] == pt_val(pts@[i], old(self).dist_scale as int),
                Err(_) => exists|i: int| 0 <= i < pts@.len() && !pt_ok(#[trigger] pts@[i], old(self).dist_scale as int),
            },
    { unimplemented!() }
//@ fn layout21raw/src/lef.rs :: impl LefImporter :: fn import_rect
//@   ret r
//@   spec
//|     requires pt_dec_ok(*lefpoints.0, old(self).dist_scale as int), pt_dec_ok(*lefpoints.1, old(self).dist_scale as int),
//|     ensures final(self).dist_scale == old(self).dist_scale,
//|         match r {
//|             Ok(s) => pt_ok(*lefpoints.0, old(self).dist_scale as int) && pt_ok(*lefpoints.1, old(self).dist_scale as int)
//|                 && s == Shape::Rect(Rect { p0: pt_val(*lefpoints.0, old(self).dist_scale as int), p1: pt_val(*lefpoints.1, old(self).dist_scale as int) }),
//|             Err(_) => !(pt_ok(*lefpoints.0, old(self).dist_scale as int) && pt_ok(*lefpoints.1, old(self).dist_scale as int)),
//|         },
//@ end
//@ fn layout21raw/src/lef.rs :: impl LefImporter :: fn import_polygon
//@   ret r
//@   spec
//|     requires forall|i: int| 0 <= i < lefpoints@.len() ==> pt_dec_ok(#[trigger] lefpoints@[i], old(self).dist_scale as int),
//|     ensures final(self).dist_scale == old(self).dist_scale,
//|         match r {
//|             Ok(Shape::Polygon(p)) => p.points@.len() == lefpoints@.len()
//|                 && forall|i: int| 0 <= i < lefpoints@.len() ==> pt_ok(#[trigger] lefpoints@[i], old(self).dist_scale as int) && p.points@[i] == pt_val(lefpoints@[i], old(self).dist_scale as int),
//|             Ok(_) => false,
//|             Err(_) => exists|i: int| 0 <= i < lefpoints@.len() && !pt_ok(#[trigger] lefpoints@[i], old(self).dist_scale as int),
//|         },
//@ end
//@ fn layout21raw/src/lef.rs :: impl LefImporter :: fn import_path
//@   ret r
//@   spec
//|     requires forall|i: int| 0 <= i < pts@.len() ==> pt_dec_ok(#[trigger] pts@[i], old(self).dist_scale as int),
//|         layer.width is Some ==> dec_ok(layer.width->0, old(self).dist_scale as int),
//|     ensures final(self).dist_scale == old(self).dist_scale,
//|         match r {
//|             Ok(Shape::Path(p)) => p.points@.len() == pts@.len() && layer.width is Some
//|                 && dist_ok(layer.width->0, old(self).dist_scale as int) && p.width as int == dist_val(layer.width->0, old(self).dist_scale as int)
//|                 && forall|i: int| 0 <= i < pts@.len() ==> pt_ok(#[trigger] pts@[i], old(self).dist_scale as int) && p.points@[i] == pt_val(pts@[i], old(self).dist_scale as int),
//|             Ok(_) => false,
//|             Err(_) => layer.width is None || !dist_ok(layer.width->0, old(self).dist_scale as int) || dist_val(layer.width->0, old(self).dist_scale as int) < 0
//|                 || exists|i: int| 0 <= i < pts@.len() && !pt_ok(#[trigger] pts@[i], old(self).dist_scale as int),
//|         },
//@ end
}

proof fn canary_dist(d: lef21::LefDecimal) requires dec_ok(d, 10000), d.s == 3, d.m == 1500, ensures false {}
proof fn canary_dist_ok(d: lef21::LefDecimal) requires dist_ok(d, 10000), d.s == 2, ensures false {}
}
fn main() {}
