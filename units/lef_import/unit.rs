// Unit U11 lef_import: layout21raw::lef::LefImporter coordinate conversion (C16).
use vstd::prelude::*;
use std::convert::{TryFrom, TryInto};
use vstd::std_specs::hash::*;
verus! {
global size_of usize == 8;
//@ include units/common/float.inc.rs
pub type Int = isize;

// =====================================================================================================
// MODELS of external code (assumptions; rule R5).  rust_decimal::Decimal as  value = m / 10^s.
// =====================================================================================================
pub open spec fn pow10(n: nat) -> int decreases n { if n == 0 { 1 } else { 10 * pow10((n - 1) as nat) } }
proof fn lemma_pow10_pos(n: nat) ensures pow10(n) > 0 decreases n { if n > 0 { lemma_pow10_pos((n - 1) as nat); } }
pub mod lef21 {
    use super::*;
    /// model of rust_decimal::Decimal (96-bit mantissa, scale 0..=28); semantics from the crate documentation
    #[derive(Clone, Copy, Debug)]
    pub struct LefDecimal { pub m: i128, pub s: u32 }
    impl LefDecimal {
        /// representable without rounding by rust_decimal
        pub open spec fn fits(m: int, s: int) -> bool { -0x1_0000_0000_0000_0000_0000_0000 < m < 0x1_0000_0000_0000_0000_0000_0000 && 0 <= s <= 28 }
        #[verifier::external_body]
        pub fn from(v: u32) -> (r: LefDecimal) ensures r.m == v, r.s == 0 { unimplemented!() }
        /// fractional part: value - trunc(value); zero exactly when 10^s divides m
        #[verifier::external_body]
        pub fn fract(&self) -> (r: LefDecimal) ensures (r.m == 0) == ((self.m as int) % pow10(self.s as nat) == 0) { unimplemented!() }
        #[verifier::external_body]
        pub fn is_zero(&self) -> (r: bool) ensures r == (self.m == 0) { unimplemented!() }
        /// integral part (rounded toward zero), scale 0
        #[verifier::external_body]
        pub fn trunc(&self) -> (r: LefDecimal)
            ensures r.s == 0, (self.m as int) % pow10(self.s as nat) == 0 ==> r.m as int == (self.m as int) / pow10(self.s as nat),
                r.m as int == (if self.m >= 0 { (self.m as int) / pow10(self.s as nat) } else { -((-(self.m as int)) / pow10(self.s as nat)) }),
        { unimplemented!() }
        /// the digits without the decimal point
        #[verifier::external_body]
        pub fn mantissa(&self) -> (r: i128) ensures r == self.m { unimplemented!() }
    }
    #[derive(Clone, Copy, Debug)]
    pub struct LefPoint { pub x: LefDecimal, pub y: LefDecimal }
    impl LefDecimal { pub const ZERO: LefDecimal = LefDecimal { m: 0, s: 0 }; }
    /// opaque: masks and vias are not imported
    pub struct LefMask { }
    pub struct LefVia { }
    pub struct LefPortClass { }
//@ item lef21/src/data.rs :: struct LefStepPattern
//@ end
//@ item lef21/src/data.rs :: enum LefShape
//@ end
//@ item lef21/src/data.rs :: enum LefGeometry
//@ end
//@ item lef21/src/data.rs :: enum LefLayerSpacing
//@ end
//@ item lef21/src/data.rs :: struct LefLayerGeometries
//@ end
//@ item lef21/src/data.rs :: struct LefPort
//@ end
    /// R5: LefPin / LefMacro reduced to the fields the importer reads
    pub struct LefPin { pub name: String, pub ports: Vec<LefPort> }
    pub struct LefMacro { pub name: String, pub pins: Vec<LefPin>, pub obs: Vec<LefLayerGeometries>, pub size: Option<(LefDecimal, LefDecimal)> }
    impl LefPoint {
        pub fn new(x: LefDecimal, y: LefDecimal) -> (r: LefPoint) ensures r.x == x, r.y == y { LefPoint { x, y } }
    }
    /// opaque: import_units ignores its argument
    pub struct LefUnits { }
    pub struct LefSite { }
    #[derive(Clone, Copy, Debug)]
    pub enum LefOnOff { On, Off }
    // model of #[derive(PartialEq)] on the field-less enum
    impl vstd::std_specs::cmp::PartialEqSpecImpl for LefOnOff {
        open spec fn obeys_eq_spec() -> bool { true }
        open spec fn eq_spec(&self, other: &Self) -> bool { *self == *other }
    }
    impl PartialEq for LefOnOff { fn eq(&self, other: &Self) -> bool { match (self, other) { (LefOnOff::On, LefOnOff::On) => true, (LefOnOff::Off, LefOnOff::Off) => true, _ => false } } }
    /// R5: LefLibrary reduced to the fields import_lib reads
    pub struct LefLibrary { pub macros: Vec<LefMacro>, pub sites: Vec<LefSite>, pub names_case_sensitive: Option<LefOnOff>, pub units: Option<LefUnits> }
}
// model of Decimal's comparison operators: comparison of the values m / 10^s
impl vstd::std_specs::cmp::PartialEqSpecImpl for lef21::LefDecimal {
    open spec fn obeys_eq_spec() -> bool { true }
    open spec fn eq_spec(&self, other: &Self) -> bool { self.m * pow10(other.s as nat) == other.m * pow10(self.s as nat) }
}
impl PartialEq for lef21::LefDecimal { #[verifier::external_body] fn eq(&self, other: &Self) -> bool { unimplemented!() } }
impl vstd::std_specs::cmp::PartialOrdSpecImpl for lef21::LefDecimal {
    open spec fn obeys_partial_cmp_spec() -> bool { true }
    open spec fn partial_cmp_spec(&self, other: &Self) -> Option<core::cmp::Ordering> {
        let (a, b) = (self.m * pow10(other.s as nat), other.m * pow10(self.s as nat));
        if a < b { Some(core::cmp::Ordering::Less) } else if a > b { Some(core::cmp::Ordering::Greater) } else { Some(core::cmp::Ordering::Equal) }
    }
}
impl PartialOrd for lef21::LefDecimal { #[verifier::external_body] fn partial_cmp(&self, other: &Self) -> Option<core::cmp::Ordering> { unimplemented!() } }
impl vstd::std_specs::ops::MulSpecImpl<lef21::LefDecimal> for &lef21::LefDecimal {
    open spec fn obeys_mul_spec() -> bool { true }
    // rust_decimal multiplies exactly as long as the product fits 96 bits and the scales add up to <= 28
    open spec fn mul_req(self, rhs: lef21::LefDecimal) -> bool { lef21::LefDecimal::fits(self.m * rhs.m, self.s + rhs.s) }
    open spec fn mul_spec(self, rhs: lef21::LefDecimal) -> lef21::LefDecimal { lef21::LefDecimal { m: (self.m * rhs.m) as i128, s: (self.s + rhs.s) as u32 } }
}
impl std::ops::Mul<lef21::LefDecimal> for &lef21::LefDecimal {
    type Output = lef21::LefDecimal;
    #[verifier::external_body]
    fn mul(self, rhs: lef21::LefDecimal) -> lef21::LefDecimal { unimplemented!() }
}
#[derive(Debug)]
pub struct LayoutError { }
pub type LayoutResult<T> = Result<T, LayoutError>;
impl From<std::num::TryFromIntError> for LayoutError { fn from(e: std::num::TryFromIntError) -> Self { LayoutError { } } }
/// model of layout21utils::Unwrapper for Option (Some(t) => Ok(t), None => helper.fail(msg))
pub trait Unwrapper: Sized {
    type Ok;
    spec fn some_spec(&self) -> Option<Self::Ok>;
    fn unwrapper<M>(self, helper: &LefImporter, msg: M) -> (r: Result<Self::Ok, LayoutError>)
        ensures self.some_spec() is Some ==> r == Ok::<Self::Ok, LayoutError>(self.some_spec()->0), self.some_spec() is None ==> r is Err;
}
impl<T> Unwrapper for Option<T> {
    type Ok = T;
    open spec fn some_spec(&self) -> Option<T> { *self }
    #[verifier::external_body]
    fn unwrapper<M>(self, helper: &LefImporter, msg: M) -> (r: Result<T, LayoutError>) { match self { Some(t) => Ok(t), None => Err(LayoutError { }) } }
}

//@ item layout21utils/src/context.rs :: enum ErrorContext
//@ end
//@ item layout21raw/src/data.rs :: enum Units
//@ end
//@ item layout21raw/src/geom.rs :: struct Point
//@   derive Debug, Copy, Clone
//@ end
//@ item layout21raw/src/geom.rs :: struct Rect
//@ end
//@ item layout21raw/src/geom.rs :: struct Polygon
//@ end
//@ item layout21raw/src/geom.rs :: struct Path
//@ end
//@ item layout21raw/src/geom.rs :: enum Shape
//@ end
impl Point {
//@ fn layout21raw/src/geom.rs :: impl Point :: fn new
//@   ret r
//@   spec
//|     ensures r.x == x, r.y == y,
//@ end
}
/// R5: the raw Library reduced to name, units and cells; `cells: PtrList<Cell>` as the list of the cells themselves; Cell reduced to name + abstract view
pub struct Cell { pub name: String, pub abs: Option<Abstract> }
pub struct Library { pub name: String, pub units: Units, pub cells: Vec<Cell> }
// R5: the importer without its shared layer table (layers: Ptr<Layers>)
//@ item layout21raw/src/lef.rs :: struct LefImporter
//@   sub R5 /layers: Ptr<Layers>,/ =>
//@   sub R4 /\n    (ctx|dist_scale|lib):/ => \n    pub \1:
//@ end

// =====================================================================================================
// SPEC (from the property): raw coordinate = LEF value in microns * raw units per micron, exactly, or an error
// =====================================================================================================
pub open spec fn dist_exact(d: lef21::LefDecimal, scale: int) -> bool { (d.m * scale) % pow10(d.s as nat) == 0 }
pub open spec fn dist_val(d: lef21::LefDecimal, scale: int) -> int { (d.m * scale) / pow10(d.s as nat) }
pub open spec fn dist_ok(d: lef21::LefDecimal, scale: int) -> bool { dist_exact(d, scale) && isize::MIN <= dist_val(d, scale) <= isize::MAX }
pub open spec fn dec_ok(d: lef21::LefDecimal, scale: int) -> bool { lef21::LefDecimal::fits(d.m * scale, d.s as int) }
pub open spec fn pt_dec_ok(p: lef21::LefPoint, scale: int) -> bool { dec_ok(p.x, scale) && dec_ok(p.y, scale) }
pub open spec fn pt_ok(p: lef21::LefPoint, scale: int) -> bool { dist_ok(p.x, scale) && dist_ok(p.y, scale) }
pub open spec fn pt_val(p: lef21::LefPoint, scale: int) -> Point { Point { x: dist_val(p.x, scale) as isize, y: dist_val(p.y, scale) as isize } }
/// trailing zeros do not matter: the value of m/10^s scaled is the same as that of (10m)/10^(s+1)
proof fn lemma_trailing_zero_irrelevant(m: int, s: nat, scale: int)
    ensures ((10 * m) * scale) % pow10(s + 1) == 0 <==> (m * scale) % pow10(s) == 0,
            (m * scale) % pow10(s) == 0 ==> ((10 * m) * scale) / pow10(s + 1) == (m * scale) / pow10(s),
{
    lemma_pow10_pos(s);
    let a = m * scale; let p = pow10(s);
    assert((10 * m) * scale == 10 * a) by (nonlinear_arith) requires a == m * scale;
    assert(pow10(s + 1) == 10 * p);
    if a % p == 0 {
        let q = a / p;
        vstd::arithmetic::div_mod::lemma_fundamental_div_mod(a, p);
        assert(10 * a == q * (10 * p) + 0) by (nonlinear_arith) requires a == p * q;
        vstd::arithmetic::div_mod::lemma_fundamental_div_mod_converse(10 * a, 10 * p, q, 0);
    }
    if (10 * a) % (10 * p) == 0 {
        let q = (10 * a) / (10 * p);
        vstd::arithmetic::div_mod::lemma_fundamental_div_mod(10 * a, 10 * p);
        assert(a == q * p + 0) by (nonlinear_arith) requires 10 * a == (10 * p) * q;
        vstd::arithmetic::div_mod::lemma_fundamental_div_mod_converse(a, p, q, 0);
    }
}

// ---- shapes, per-layer geometry lists (C16: "macro to abstract, pin to port, obstruction to blockage") ----
/// model of slotmap's LayerKey: an opaque copyable, hashable key
#[derive(Debug, Clone, Copy, PartialEq, Eq, Hash)]
pub struct LayerKey { pub id: u64 }
/// the key the shared layer table holds (or creates) for a layer name: one key per name — assumption (import_layer is modelled, see below)
pub uninterp spec fn key_of(name: Seq<char>) -> LayerKey;
pub open spec fn dec_eq(a: lef21::LefDecimal, b: lef21::LefDecimal) -> bool { a.m * pow10(b.s as nat) == b.m * pow10(a.s as nat) }
// model of #[derive(PartialEq)] on LefLayerSpacing: same variant and equal decimal values
impl vstd::std_specs::cmp::PartialEqSpecImpl for lef21::LefLayerSpacing {
    open spec fn obeys_eq_spec() -> bool { true }
    open spec fn eq_spec(&self, other: &Self) -> bool {
        match (*self, *other) {
            (lef21::LefLayerSpacing::Spacing(a), lef21::LefLayerSpacing::Spacing(b)) => dec_eq(a, b),
            (lef21::LefLayerSpacing::DesignRuleWidth(a), lef21::LefLayerSpacing::DesignRuleWidth(b)) => dec_eq(a, b),
            _ => false,
        }
    }
}
impl PartialEq for lef21::LefLayerSpacing { #[verifier::external_body] fn eq(&self, other: &Self) -> bool { unimplemented!() } }
pub open spec fn pts_dec_ok(pts: Seq<lef21::LefPoint>, scale: int) -> bool { forall|i: int| 0 <= i < pts.len() ==> pt_dec_ok(#[trigger] pts[i], scale) }
/// the LEF shape's numbers are within the decimal model's exact range
pub open spec fn shape_dec_ok(l: lef21::LefShape, layer: lef21::LefLayerGeometries, scale: int) -> bool {
    match l {
        lef21::LefShape::Rect(_, p0, p1) => pt_dec_ok(p0, scale) && pt_dec_ok(p1, scale),
        lef21::LefShape::Polygon(_, pts) => pts_dec_ok(pts@, scale),
        lef21::LefShape::Path(_, pts) => pts_dec_ok(pts@, scale) && (layer.width is Some ==> dec_ok(layer.width->0, scale)),
    }
}
pub open spec fn pts_are(v: Seq<Point>, pts: Seq<lef21::LefPoint>, scale: int) -> bool {
    v.len() == pts.len() && forall|i: int| 0 <= i < pts.len() ==> pt_ok(#[trigger] pts[i], scale) && v[i] == pt_val(pts[i], scale)
}
/// `s` is the raw image of LEF shape `l`: same kind, every coordinate scaled exactly, same order and count, path width from the layer
pub open spec fn shape_is(s: Shape, l: lef21::LefShape, layer: lef21::LefLayerGeometries, scale: int) -> bool {
    match l {
        lef21::LefShape::Rect(_, p0, p1) => pt_ok(p0, scale) && pt_ok(p1, scale) && s == Shape::Rect(Rect { p0: pt_val(p0, scale), p1: pt_val(p1, scale) }),
        lef21::LefShape::Polygon(_, pts) => s is Polygon && pts_are(s->Polygon_0.points@, pts@, scale),
        lef21::LefShape::Path(_, pts) => s is Path && pts_are(s->Path_0.points@, pts@, scale) && layer.width is Some
            && dist_ok(layer.width->0, scale) && s->Path_0.width as int == dist_val(layer.width->0, scale),
    }
}
pub open spec fn geom_dec_ok(g: lef21::LefGeometry, layer: lef21::LefLayerGeometries, scale: int) -> bool { g is Shape ==> shape_dec_ok(g->Shape_0, layer, scale) }
pub open spec fn geoms_dec_ok(layer: lef21::LefLayerGeometries, scale: int) -> bool { forall|i: int| 0 <= i < layer.geometries@.len() ==> geom_dec_ok(#[trigger] layer.geometries@[i], layer, scale) }
/// `shapes` are the images of the layer's geometries, one for one, in order
pub open spec fn shapes_are(shapes: Seq<Shape>, layer: lef21::LefLayerGeometries, n: int, scale: int) -> bool {
    shapes.len() == n && forall|i: int| 0 <= i < n ==> (#[trigger] layer.geometries@[i]) is Shape && shape_is(shapes[i], layer.geometries@[i]->Shape_0, layer, scale)
}
/// the layer-geometries record uses only supported features
pub open spec fn geoms_supported(layer: lef21::LefLayerGeometries) -> bool {
    layer.except_pg_net is None && (layer.spacing is Some ==> layer.spacing->0 is Spacing && layer.spacing->0->Spacing_0.m == 0)
}

// ---- per-layer shape maps ----
use std::collections::HashMap;
/// R6: the HashMap entry idiom  `match m.entry(k) { Occupied(mut e) => e.get_mut().extend(v), Vacant(e) => { e.insert(v); } }`:
/// the key's list is extended by `v` (created if absent); every other key untouched
#[verifier::external_body]
pub fn vp_entry_extend(m: &mut HashMap<LayerKey, Vec<Shape>>, k: LayerKey, v: Vec<Shape>)
    ensures lists(final(m)@) == merge1(lists(old(m)@), k, v@),
{ unimplemented!() }
/// the map's lists as sequences
pub open spec fn lists(m: Map<LayerKey, Vec<Shape>>) -> Map<LayerKey, Seq<Shape>> { Map::new(m.dom(), |k: LayerKey| m[k]@) }
pub open spec fn merge1(m: Map<LayerKey, Seq<Shape>>, k: LayerKey, v: Seq<Shape>) -> Map<LayerKey, Seq<Shape>> {
    m.insert(k, if m.dom().contains(k) { m[k] + v } else { v })
}
/// per-layer merge of a list of (layer key, shapes) items, in order: what pins' ports and macro obstructions fold to
pub open spec fn merged(items: Seq<(LayerKey, Seq<Shape>)>) -> Map<LayerKey, Seq<Shape>> decreases items.len() {
    if items.len() == 0 { Map::empty() } else { merge1(merged(items.drop_last()), items.last().0, items.last().1) }
}
/// `item` is the image of one LEF layer-geometries record
pub open spec fn item_is(item: (LayerKey, Seq<Shape>), g: lef21::LefLayerGeometries, scale: int) -> bool {
    geoms_supported(g) && item.0 == key_of(g.layer_name@) && shapes_are(item.1, g, g.geometries@.len() as int, scale)
}
pub open spec fn items_are(items: Seq<(LayerKey, Seq<Shape>)>, gs: Seq<lef21::LefLayerGeometries>, scale: int) -> bool {
    items.len() == gs.len() && forall|i: int| 0 <= i < gs.len() ==> item_is(#[trigger] items[i], gs[i], scale)
}
pub open spec fn port_dec_ok(p: lef21::LefPort, scale: int) -> bool { forall|j: int| 0 <= j < p.layers@.len() ==> geoms_dec_ok(#[trigger] p.layers@[j], scale) }
pub open spec fn pin_dec_ok(p: lef21::LefPin, scale: int) -> bool { forall|i: int| 0 <= i < p.ports@.len() ==> port_dec_ok(#[trigger] p.ports@[i], scale) }
/// all layer-geometries records of a pin, port after port
pub open spec fn pin_geoms(ports: Seq<lef21::LefPort>) -> Seq<lef21::LefLayerGeometries> decreases ports.len() {
    if ports.len() == 0 { Seq::empty() } else { pin_geoms(ports.drop_last()) + ports.last().layers@ }
}
//@ item layout21raw/src/data.rs :: struct AbstractPort
//@ end
//@ item layout21raw/src/data.rs :: struct Abstract
//@ end
impl AbstractPort {
    //@ pin layout21raw/src/data.rs :: impl AbstractPort :: fn new @5f14b977
    /// model of AbstractPort::new(impl Into<String>): the name, no shapes
    #[verifier::external_body]
    pub fn new(net: &String) -> (r: Self) ensures r.net@ == net@, r.shapes@ == Map::<LayerKey, Vec<Shape>>::empty() { unimplemented!() }
}
impl Abstract {
    #[verifier::external_body]
    pub fn new(name: &String, outline: Polygon) -> (r: Self) ensures r.name@ == name@, r.outline == outline, r.ports@.len() == 0, r.blockages@ == Map::<LayerKey, Vec<Shape>>::empty() { unimplemented!() }
}

impl LefImporter {
//@ fn layout21raw/src/lef.rs :: impl LefImporter :: fn import_pin
//@   ret r
//@   sub R6 /for port in &lefpin\.ports \{/ => for port in lefpin.ports.iter() {
//@   sub R6 /for lef_layer_geom in &port\.layers \{/ => for lef_layer_geom in port.layers.iter() {
//@   sub R6? /match abs_port\.shapes\.entry\(layerkey\) \{\s*Entry::Occupied\(mut e\) => e\.get_mut\(\)\.extend\(shapes\),\s*Entry::Vacant\(e\) => \{\s*e\.insert\(shapes\);\s*\}\s*\}/ => vp_entry_extend(&mut abs_port.shapes, layerkey, shapes);
//@   spec
//|     requires pin_dec_ok(*lefpin, old(self).dist_scale as int),
//|         obeys_key_model::<LayerKey>(),
//|     ensures final(self).dist_scale == old(self).dist_scale, final(self).lib == old(self).lib,
//|         r is Ok ==> final(self).ctx@ == old(self).ctx@ && r->Ok_0.net@ == lefpin.name@
//|             && exists|items: Seq<(LayerKey, Seq<Shape>)>| #[trigger] items_are(items, pin_geoms(lefpin.ports@), old(self).dist_scale as int) && lists(r->Ok_0.shapes@) == merged(items),
//@   before /for port in lefpin\.ports\.iter\(\) \{/
//|         let ghost mut items: Seq<(LayerKey, Seq<Shape>)> = Seq::empty();
//@   loop 1 iter it
//|             invariant self.dist_scale == old(self).dist_scale, self.lib == old(self).lib, self.ctx@ == old(self).ctx@, it.index@ <= lefpin.ports@.len(), abs_port.net@ == lefpin.name@, obeys_key_model::<LayerKey>(),
//|                 pin_dec_ok(*lefpin, self.dist_scale as int),
//|                 items_are(items, pin_geoms(lefpin.ports@.take(it.index@ as int)), self.dist_scale as int), lists(abs_port.shapes@) == merged(items),
//@   before /for lef_layer_geom in port\.layers\.iter\(\) \{/
//|             let ghost items0 = items;
//@   loop 2 iter it2
//|                 invariant self.dist_scale == old(self).dist_scale, self.lib == old(self).lib, self.ctx@ == old(self).ctx@, 0 <= it.index@ < lefpin.ports@.len(), it2.index@ <= port.layers@.len(), abs_port.net@ == lefpin.name@, obeys_key_model::<LayerKey>(),
//|                     *port == lefpin.ports@[it.index@ as int],
//|                     pin_dec_ok(*lefpin, self.dist_scale as int),
//|                     items_are(items, pin_geoms(lefpin.ports@.take(it.index@ as int)) + port.layers@.take(it2.index@ as int), self.dist_scale as int), lists(abs_port.shapes@) == merged(items),
//@   before /let \(layerkey, shapes\) = self\.import_layer_geometries\(lef_layer_geom\)\?;/
//|                 proof { assert(port_dec_ok(lefpin.ports@[it.index@ as int], self.dist_scale as int)); assert(port.layers@[it2.index@ as int] == *lef_layer_geom); }
//@   loopend 2
//|                 proof {
//|                     let item = (layerkey, shapes@);
//|                     assert(lefpin.ports@[it.index@ as int].layers@[it2.index@ as int] == *lef_layer_geom);
//|                     assert(items.push(item).drop_last() == items);
//|                     items = items.push(item);
//|                     assert(port.layers@.take(it2.index@ + 1) == port.layers@.take(it2.index@ as int).push(*lef_layer_geom));
//|                     assert(pin_geoms(lefpin.ports@.take(it.index@ as int)) + port.layers@.take(it2.index@ + 1) == (pin_geoms(lefpin.ports@.take(it.index@ as int)) + port.layers@.take(it2.index@ as int)).push(*lef_layer_geom));
//|                 }
//@   loopend 1
//|             proof {
//|                 assert(port.layers@.take(port.layers@.len() as int) == port.layers@);
//|                 assert(lefpin.ports@.take(it.index@ + 1).drop_last() == lefpin.ports@.take(it.index@ as int));
//|             }
//@   before /^        Ok\(abs_port\)$/
//|         proof { assert(lefpin.ports@.take(lefpin.ports@.len() as int) == lefpin.ports@); }
//@ end
}
/// port `p` is the image of LEF pin `l`: its name, and per layer the shapes of all its ports' geometries, in order
pub open spec fn port_is(p: AbstractPort, l: lef21::LefPin, scale: int) -> bool {
    p.net@ == l.name@ && exists|items: Seq<(LayerKey, Seq<Shape>)>| #[trigger] items_are(items, pin_geoms(l.ports@), scale) && lists(p.shapes@) == merged(items)
}
pub open spec fn macro_dec_ok(m: lef21::LefMacro, scale: int) -> bool {
    &&& m.size is Some ==> pt_dec_ok(lef21::LefPoint { x: m.size->Some_0.0, y: m.size->Some_0.1 }, scale)
    &&& forall|i: int| 0 <= i < m.pins@.len() ==> pin_dec_ok(#[trigger] m.pins@[i], scale)
    &&& forall|i: int| 0 <= i < m.obs@.len() ==> geoms_dec_ok(#[trigger] m.obs@[i], scale)
}
impl LefImporter {
    /// model of the block in import_abstract that looks up / creates the layer named "boundary" in the shared layer table (result unused)
    #[verifier::external_body]
    fn vp_boundary_layer(&mut self) -> (r: LayoutResult<LayerKey>) ensures final(self).dist_scale == old(self).dist_scale, final(self).lib == old(self).lib, final(self).ctx == old(self).ctx { unimplemented!() }
//@ fn layout21raw/src/lef.rs :: impl LefImporter :: fn import_abstract
//@   ret r
//@   sub R5 @c7395c62 /let _layer = \{[\s\S]*?\n            \};/ => let _layer = self.vp_boundary_layer()?;
//@   sub R6 /for lefpin in &lefmacro\.pins \{/ => for lefpin in lefmacro.pins.iter() {
//@   sub R6 /for lefobs in &lefmacro\.obs \{/ => for lefobs in lefmacro.obs.iter() {
//@   sub R6? /match abs\.blockages\.entry\(layerkey\) \{\s*Entry::Occupied\(mut e\) => e\.get_mut\(\)\.extend\(shapes\),\s*Entry::Vacant\(e\) => \{\s*e\.insert\(shapes\);\s*\}\s*\}/ => vp_entry_extend(&mut abs.blockages, layerkey, shapes);
//@   spec
//|     requires macro_dec_ok(*lefmacro, old(self).dist_scale as int), obeys_key_model::<LayerKey>(),
//|     ensures final(self).dist_scale == old(self).dist_scale, final(self).lib == old(self).lib,
//|         r is Ok ==> final(self).ctx@ == old(self).ctx@ && abs_is(r->Ok_0, *lefmacro, old(self).dist_scale as int),
//@   loop 1 iter it
//|             invariant self.dist_scale == old(self).dist_scale, self.lib == old(self).lib, self.ctx@ == old(self).ctx@.push(ErrorContext::Abstract), macro_dec_ok(*lefmacro, self.dist_scale as int), obeys_key_model::<LayerKey>(),
//|                 abs.name@ == lefmacro.name@, abs.outline == outline, abs.blockages@ == Map::<LayerKey, Vec<Shape>>::empty(),
//|                 abs.ports@.len() == it.index@, it.index@ <= lefmacro.pins@.len(),
//|                 forall|i: int| 0 <= i < it.index@ ==> port_is(#[trigger] abs.ports@[i], lefmacro.pins@[i], self.dist_scale as int),
//@   before /for lefobs in lefmacro\.obs\.iter\(\) \{/
//|         let ghost mut items: Seq<(LayerKey, Seq<Shape>)> = Seq::empty();
//|         proof { assert(lists(abs.blockages@) =~= merged(items)); }
//@   loop 2 iter it2
//|             invariant self.dist_scale == old(self).dist_scale, self.lib == old(self).lib, self.ctx@ == old(self).ctx@.push(ErrorContext::Abstract), macro_dec_ok(*lefmacro, self.dist_scale as int), obeys_key_model::<LayerKey>(),
//|                 abs.name@ == lefmacro.name@, abs.outline == outline, abs.ports@.len() == lefmacro.pins@.len(), it2.index@ <= lefmacro.obs@.len(),
//|                 forall|i: int| 0 <= i < lefmacro.pins@.len() ==> port_is(#[trigger] abs.ports@[i], lefmacro.pins@[i], self.dist_scale as int),
//|                 items_are(items, lefmacro.obs@.take(it2.index@ as int), self.dist_scale as int), lists(abs.blockages@) == merged(items),
//@   loopend 2
//|             proof {
//|                 let item = (layerkey, shapes@);
//|                 assert(items.push(item).drop_last() == items);
//|                 items = items.push(item);
//|                 assert(lefmacro.obs@.take(it2.index@ + 1) == lefmacro.obs@.take(it2.index@ as int).push(*lefobs));
//|             }
//@   before /^        self\.ctx\.pop\(\);$/
//|         proof { assert(lefmacro.obs@.take(lefmacro.obs@.len() as int) == lefmacro.obs@); }
//@   before /^        Ok\(abs\)$/
//|         proof { assert(self.ctx@ =~= old(self).ctx@); }
//@ end
}
impl LefImporter {
    /// LefImporter::import_layer: ASSUMED copy of the contract proved for the real function in unit lef_layer (the name's key; this unit's importer has no layer table)
    #[verifier::external_body]
    fn import_layer(&mut self, leflayer: &String) -> (r: LayoutResult<LayerKey>)
        ensures final(self).dist_scale == old(self).dist_scale, final(self).lib == old(self).lib, final(self).ctx == old(self).ctx, r is Ok ==> r->Ok_0 == key_of(leflayer@),
    { unimplemented!() }
    /// model of `warn`: prints
    #[verifier::external_body]
    fn warn<M>(&self, msg: M) { }
//@ fn layout21raw/src/lef.rs :: impl LefImporter :: fn import_shape
//@   ret r
//@   spec
//|     requires shape_dec_ok(*lefshape, *layer, old(self).dist_scale as int),
//|     ensures final(self).dist_scale == old(self).dist_scale, final(self).lib == old(self).lib, final(self).ctx == old(self).ctx,
//|         r is Ok ==> shape_is(r->Ok_0, *lefshape, *layer, old(self).dist_scale as int),
//@ end
//@ fn layout21raw/src/lef.rs :: impl LefImporter :: fn import_geometry
//@   ret r
//@   spec
//|     requires geom_dec_ok(*geom, *layer, old(self).dist_scale as int),
//|     ensures final(self).dist_scale == old(self).dist_scale, final(self).lib == old(self).lib, final(self).ctx == old(self).ctx,
//|         r is Ok ==> geom is Shape && shape_is(r->Ok_0, geom->Shape_0, *layer, old(self).dist_scale as int),
//@ end
//@ fn layout21raw/src/lef.rs :: impl LefImporter :: fn import_layer_geometries
//@   ret r
//@   sub R6 /for geom in &geoms\.geometries \{/ => for geom in geoms.geometries.iter() {
//@   spec
//|     requires geoms_dec_ok(*geoms, old(self).dist_scale as int),
//|     ensures final(self).dist_scale == old(self).dist_scale, final(self).lib == old(self).lib,
//|         r is Ok ==> final(self).ctx@ == old(self).ctx@ && geoms_supported(*geoms) && r->Ok_0.0 == key_of(geoms.layer_name@)
//|             && shapes_are(r->Ok_0.1@, *geoms, geoms.geometries@.len() as int, old(self).dist_scale as int),
//@   loop 1 iter it
//|             invariant self.dist_scale == old(self).dist_scale, self.lib == old(self).lib, self.ctx@ == old(self).ctx@.push(ErrorContext::Geometry), geoms_dec_ok(*geoms, self.dist_scale as int),
//|                 shapes_are(shapes@, *geoms, it.index@ as int, self.dist_scale as int), it.index@ <= geoms.geometries@.len(),
//@   before /^        Ok\(\(layerkey, shapes\)\)$/
//|         proof { assert(self.ctx@ =~= old(self).ctx@); }
//@ end
    /// model of ErrorHelper::fail: always an error
    #[verifier::external_body]
    fn fail<T, M>(&self, msg: M) -> (r: LayoutResult<T>) ensures r is Err { Err(LayoutError { }) }

//@ fn layout21raw/src/lef.rs :: impl LefImporter :: fn import_units
//@   ret r
//@   spec
//|     ensures r == Ok::<Units, LayoutError>(Units::Angstrom), final(self).dist_scale == 10_000, final(self).lib == old(self).lib, final(self).ctx@ == old(self).ctx@,
//@   before /^        Ok\(Units::Angstrom\)$/
//|         proof { assert(self.ctx@ =~= old(self).ctx@); }
//@ end
//@ fn layout21raw/src/lef.rs :: impl LefImporter :: fn import_dist
//@   ret r
//@   sub R10 /lefdec \* lef21::LefDecimal::from\(self\.dist_scale\)/ => core::ops::Mul::mul(lefdec, lef21::LefDecimal::from(self.dist_scale))
//@   spec
//|     requires dec_ok(*lefdec, old(self).dist_scale as int),
//|     ensures final(self).dist_scale == old(self).dist_scale, final(self).lib == old(self).lib, final(self).ctx == old(self).ctx,
//|         match r {
//|             Ok(v) => dist_ok(*lefdec, old(self).dist_scale as int) && v == dist_val(*lefdec, old(self).dist_scale as int),
//|             Err(_) => !dist_ok(*lefdec, old(self).dist_scale as int),
//|         },
//@   after /let scaled = /
//|         proof { lemma_pow10_pos(lefdec.s as nat); }
//@ end
//@ fn layout21raw/src/lef.rs :: impl LefImporter :: fn import_point
//@   ret r
//@   spec
//|     requires pt_dec_ok(*pt, old(self).dist_scale as int),
//|     ensures final(self).dist_scale == old(self).dist_scale, final(self).lib == old(self).lib, final(self).ctx == old(self).ctx,
//|         match r {
//|             Ok(p) => pt_ok(*pt, old(self).dist_scale as int) && p == pt_val(*pt, old(self).dist_scale as int),
//|             Err(_) => !pt_ok(*pt, old(self).dist_scale as int),
//|         },
//@ end
    /// ASSUMED element-wise contract of the iterator idiom `pts.iter().map(|p| self.import_point(p)).collect::<Result<Vec<_>,_>>()`
    /// (not extracted: Verus has no specification for iterator adapters)
    #[verifier::external_body]
    fn import_point_vec(&mut self, pts: &Vec<lef21::LefPoint>) -> (r: LayoutResult<Vec<Point>>)
        requires forall|i: int| 0 <= i < pts@.len() ==> pt_dec_ok(#[trigger] pts@[i], old(self).dist_scale as int),
        ensures final(self).dist_scale == old(self).dist_scale, final(self).lib == old(self).lib, final(self).ctx == old(self).ctx,
            match r {
                Ok(v) => v@.len() == pts@.len() && forall|i: int| 0 <= i < pts@.len() ==> pt_ok(#[trigger] pts@[i], old(self).dist_scale as int) && v@[i] == pt_val(pts@[i], old(self).dist_scale as int),
                Err(_) => exists|i: int| 0 <= i < pts@.len() && !pt_ok(#[trigger] pts@[i], old(self).dist_scale as int),
            },
    { unimplemented!() }
//@ fn layout21raw/src/lef.rs :: impl LefImporter :: fn import_rect
//@   ret r
//@   spec
//|     requires pt_dec_ok(*lefpoints.0, old(self).dist_scale as int), pt_dec_ok(*lefpoints.1, old(self).dist_scale as int),
//|     ensures final(self).dist_scale == old(self).dist_scale, final(self).lib == old(self).lib, final(self).ctx == old(self).ctx,
//|         match r {
//|             Ok(s) => pt_ok(*lefpoints.0, old(self).dist_scale as int) && pt_ok(*lefpoints.1, old(self).dist_scale as int)
//|                 && s == Shape::Rect(Rect { p0: pt_val(*lefpoints.0, old(self).dist_scale as int), p1: pt_val(*lefpoints.1, old(self).dist_scale as int) }),
//|             Err(_) => !(pt_ok(*lefpoints.0, old(self).dist_scale as int) && pt_ok(*lefpoints.1, old(self).dist_scale as int)),
//|         },
//@ end
//@ fn layout21raw/src/lef.rs :: impl LefImporter :: fn import_polygon
//@   ret r
//@   spec
//|     requires forall|i: int| 0 <= i < lefpoints@.len() ==> pt_dec_ok(#[trigger] lefpoints@[i], old(self).dist_scale as int),
//|     ensures final(self).dist_scale == old(self).dist_scale, final(self).lib == old(self).lib, final(self).ctx == old(self).ctx,
//|         match r {
//|             Ok(Shape::Polygon(p)) => p.points@.len() == lefpoints@.len()
//|                 && forall|i: int| 0 <= i < lefpoints@.len() ==> pt_ok(#[trigger] lefpoints@[i], old(self).dist_scale as int) && p.points@[i] == pt_val(lefpoints@[i], old(self).dist_scale as int),
//|             Ok(_) => false,
//|             Err(_) => exists|i: int| 0 <= i < lefpoints@.len() && !pt_ok(#[trigger] lefpoints@[i], old(self).dist_scale as int),
//|         },
//@ end
//@ fn layout21raw/src/lef.rs :: impl LefImporter :: fn import_path
//@   ret r
//@   spec
//|     requires forall|i: int| 0 <= i < pts@.len() ==> pt_dec_ok(#[trigger] pts@[i], old(self).dist_scale as int),
//|         layer.width is Some ==> dec_ok(layer.width->0, old(self).dist_scale as int),
//|     ensures final(self).dist_scale == old(self).dist_scale, final(self).lib == old(self).lib, final(self).ctx == old(self).ctx,
//|         match r {
//|             Ok(Shape::Path(p)) => p.points@.len() == pts@.len() && layer.width is Some
//|                 && dist_ok(layer.width->0, old(self).dist_scale as int) && p.width as int == dist_val(layer.width->0, old(self).dist_scale as int)
//|                 && forall|i: int| 0 <= i < pts@.len() ==> pt_ok(#[trigger] pts@[i], old(self).dist_scale as int) && p.points@[i] == pt_val(pts@[i], old(self).dist_scale as int),
//|             Ok(_) => false,
//|             Err(_) => layer.width is None || !dist_ok(layer.width->0, old(self).dist_scale as int) || dist_val(layer.width->0, old(self).dist_scale as int) < 0
//|                 || exists|i: int| 0 <= i < pts@.len() && !pt_ok(#[trigger] pts@[i], old(self).dist_scale as int),
//|         },
//@ end
}

/// abstract `a` is the import of LEF macro `lefmacro` at `scale` raw units per micron
pub open spec fn abs_is(a: Abstract, lefmacro: lef21::LefMacro, scale: int) -> bool {
    &&& lefmacro.size is Some
    &&& { let sz = lef21::LefPoint { x: lefmacro.size->Some_0.0, y: lefmacro.size->Some_0.1 }; let c = pt_val(sz, scale);
          // the outline is the SIZE rectangle with its lower-left corner at the origin
          pt_ok(sz, scale) && a.outline.points@ == seq![Point { x: 0, y: 0 }, Point { x: c.x, y: 0 }, Point { x: c.x, y: c.y }, Point { x: 0, y: c.y }] }
    &&& a.name@ == lefmacro.name@
    // one port per pin, in order
    &&& a.ports@.len() == lefmacro.pins@.len() &&& forall|i: int| 0 <= i < lefmacro.pins@.len() ==> port_is(#[trigger] a.ports@[i], lefmacro.pins@[i], scale)
    // obstructions merged per layer, in order
    &&& exists|items: Seq<(LayerKey, Seq<Shape>)>| #[trigger] items_are(items, lefmacro.obs@, scale) && lists(a.blockages@) == merged(items)
}
/// C16 "one abstract cell per macro": the cell named after the macro whose only view is the macro's abstract
pub open spec fn cell_is(c: Cell, lefmacro: lef21::LefMacro, scale: int) -> bool { c.name@ == lefmacro.name@ && c.abs is Some && abs_is(c.abs->0, lefmacro, scale) }
//@ pin layout21raw/src/data.rs :: impl From<Abstract> for Cell :: fn from @c4c07b3d
/// model of `impl From<Abstract> for Cell` (data.rs): named after the abstract, only the abstract view
impl vstd::std_specs::convert::FromSpecImpl<Abstract> for Cell {
    open spec fn obeys_from_spec() -> bool { true }
    open spec fn from_spec(src: Abstract) -> Cell { Cell { name: src.name, abs: Some(src) } }
}
impl From<Abstract> for Cell {
    #[verifier::external_body]
    fn from(src: Abstract) -> (r: Cell) ensures r.name@ == src.name@, r.abs == Some(src) { unimplemented!() }
}
//@ pin layout21utils/src/ptr.rs :: impl<T> PtrList<T> :: fn insert @cadd958f
//@ pin layout21utils/src/ptr.rs :: impl<T> PtrList<T> :: fn add @305d31d1
/// model of PtrList::insert (wrap in a handle, append): here the list of the cells themselves
#[verifier::external_body]
pub fn vp_cells_insert(cells: &mut Vec<Cell>, c: Cell) ensures final(cells)@ == old(cells)@.push(c) { cells.push(c) }
impl LefImporter {
//@ fn layout21raw/src/lef.rs :: impl LefImporter :: fn import_cell
//@   ret r
//@   spec
//|     requires macro_dec_ok(*lefmacro, old(self).dist_scale as int), obeys_key_model::<LayerKey>(),
//|     ensures final(self).dist_scale == old(self).dist_scale, final(self).lib == old(self).lib,
//|         r is Ok ==> final(self).ctx@ == old(self).ctx@ && cell_is(r->Ok_0, *lefmacro, old(self).dist_scale as int),
//@   before /^        Ok\(cell\)$/
//|         proof { assert(self.ctx@ =~= old(self).ctx@); }
//@ end
//@ fn layout21raw/src/lef.rs :: impl LefImporter :: fn import_lib
//@   ret r
//@   sub R5 /let name = ""\.to_string\(\);/ => let name = String::new();
//@   sub R6 /for lefmacro in &leflib\.macros \{/ => for lefmacro in leflib.macros.iter() {
//@   sub R5? /self\.lib\.cells\.insert\(cell\);/ => vp_cells_insert(&mut self.lib.cells, cell);
//@   spec
//|     requires obeys_key_model::<LayerKey>(), forall|i: int| 0 <= i < leflib.macros@.len() ==> macro_dec_ok(#[trigger] leflib.macros@[i], 10_000),
//|     ensures r is Ok ==> ({
//|         let n0 = old(self).lib.cells@.len() as int;
//|         // LEF distances are microns; the raw library is in angstroms: 10000 raw units per micron
//|         &&& final(self).lib.units == Units::Angstrom &&& final(self).dist_scale == 10_000
//|         // one abstract cell per macro, in order, after whatever the library already held
//|         &&& final(self).lib.cells@.len() == n0 + leflib.macros@.len() &&& final(self).lib.cells@.take(n0) == old(self).lib.cells@
//|         &&& forall|i: int| 0 <= i < leflib.macros@.len() ==> cell_is(#[trigger] final(self).lib.cells@[n0 + i], leflib.macros@[i], 10_000)
//|     }),
//|         // case-insensitive naming is refused, not mis-read
//|         leflib.names_case_sensitive == Some(lef21::LefOnOff::Off) ==> r is Err,
//@   loop 1 iter it
//|             invariant obeys_key_model::<LayerKey>(), forall|i: int| 0 <= i < leflib.macros@.len() ==> macro_dec_ok(#[trigger] leflib.macros@[i], 10_000),
//|                 self.dist_scale == 10_000, self.lib.units == Units::Angstrom, it.index@ <= leflib.macros@.len(),
//|                 self.lib.cells@.len() == old(self).lib.cells@.len() + it.index@, self.lib.cells@.take(old(self).lib.cells@.len() as int) == old(self).lib.cells@,
//|                 forall|i: int| 0 <= i < it.index@ ==> cell_is(#[trigger] self.lib.cells@[old(self).lib.cells@.len() + i], leflib.macros@[i], 10_000),
//@   before1 /let cell = self\.import_cell\(lefmacro\)\?;/
//|             let ghost c0 = self.lib.cells@;
//@   loopend 1
//|             proof {
//|                 let n0 = old(self).lib.cells@.len() as int;
//|                 assert(self.lib.cells@.take(n0) =~= c0.take(n0));
//|                 assert forall|i: int| 0 <= i < it.index@ implies cell_is(#[trigger] self.lib.cells@[n0 + i], leflib.macros@[i], 10_000) by { assert(self.lib.cells@[n0 + i] == c0[n0 + i]); }
//|             }
//@ end
}
proof fn canary_cells(c: Cell, m: lef21::LefMacro) requires cell_is(c, m, 10000), macro_dec_ok(m, 10000), m.pins@.len() == 1, m.obs@.len() == 1 ensures false {}
proof fn canary_dist(d: lef21::LefDecimal) requires dec_ok(d, 10000), d.s == 3, d.m == 1500, ensures false {}
proof fn canary_dist_ok(d: lef21::LefDecimal) requires dist_ok(d, 10000), d.s == 2, ensures false {}
}
fn main() {}
