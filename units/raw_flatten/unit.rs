// Unit raw_flatten: layout21raw::Layout::flatten / flatten_helper — which transform reaches which element (C06, C12).
use vstd::prelude::*;
verus! {
global size_of usize == 8;
//@ include units/common/float.inc.rs
pub type Int = isize;
// =====================================================================================================
// MODELS (rule R5)
// =====================================================================================================
#[derive(Debug)]
pub struct LayoutError { }
pub type LayoutResult<T> = Result<T, LayoutError>;
/// model of layout21utils::Ptr<T> = Arc<RwLock<T>>: `read()` yields the pointee (or a lock-poison error)
pub struct Ptr<T> { pub v: Box<T> }
impl<T> Ptr<T> {
    #[verifier::external_body]
    pub fn read(&self) -> (r: LayoutResult<&T>) ensures r is Ok ==> *r->Ok_0 == *self.v { Ok(&*self.v) }
}
//@ item layout21raw/src/geom.rs :: struct Point
//@   derive Debug, Copy, Clone
//@ end
//@ item layout21raw/src/geom.rs :: struct Rect
//@ end
//@ item layout21raw/src/geom.rs :: struct Polygon
//@ end
//@ item layout21raw/src/geom.rs :: struct Path
//@ end
//@ item layout21raw/src/geom.rs :: enum Shape
//@ end
//@ item layout21raw/src/geom.rs :: struct Transform
//@   derive Debug, Clone, Copy
//@ end
//@ item layout21raw/src/data.rs :: enum LayerPurpose
//@ end
/// R5: slotmap key (opaque)
#[derive(Debug, Clone, Copy)]
pub struct LayerKey { pub k: u64 }
//@ item layout21raw/src/data.rs :: struct Element
//@ end
//@ item layout21raw/src/data.rs :: struct TextElement
//@ end
//@ item layout21raw/src/data.rs :: struct Instance
//@ end
//@ item layout21raw/src/data.rs :: struct Layout
//@ end
/// R5: `Cell` without its abstract view
pub struct Cell { pub name: String, pub layout: Option<Layout> }

// the floating-point transform algebra is outside Verus; it is specified by uninterpreted functions here and checked
// against exact integer maps by the Kani unit raw_transform (bounded) — ASSUMED contracts
pub uninterp spec fn identity_spec() -> Transform;
pub uninterp spec fn from_instance_spec(loc: Point, reflect_vert: bool, angle: Option<f64>) -> Transform;
pub uninterp spec fn cascade_spec(parent: Transform, child: Transform) -> Transform;
/// `out` is `inp` with every point mapped through `t` (Shape::transform)
pub uninterp spec fn shape_image(inp: Shape, t: Transform, out: Shape) -> bool;
impl Transform {
    #[verifier::external_body]
    pub fn identity() -> (r: Self) ensures r == identity_spec() { unimplemented!() }
    #[verifier::external_body]
    pub fn from_instance(loc: &Point, reflect_vert: bool, angle: Option<f64>) -> (r: Self) ensures r == from_instance_spec(*loc, reflect_vert, angle) { unimplemented!() }
    #[verifier::external_body]
    pub fn cascade(parent: &Transform, child: &Transform) -> (r: Transform) ensures r == cascade_spec(*parent, *child) { unimplemented!() }
}
impl Shape {
    #[verifier::external_body]
    pub fn transform(&self, trans: &Transform) -> (r: Self) ensures shape_image(*self, *trans, r) { unimplemented!() }
}
/// R11: integer -> float conversion, wrapped (f64 is opaque to the verifier)
#[verifier::external_body]
pub fn vp_isize_as_f64(x: isize) -> f64 { x as f64 }
// model of #[derive(Clone)] on Element: an equal value
impl Clone for Element { #[verifier::external_body] fn clone(&self) -> (r: Self) ensures r == *self { unimplemented!() } }

// =====================================================================================================
// SPEC: flattening = every element of every transitively instantiated cell, in order, under the cascade of the placements on its path
// =====================================================================================================
/// nesting depth of a layout's hierarchy (exists for a finite, acyclic hierarchy)
pub uninterp spec fn depth(l: Layout) -> nat;
/// the hierarchy below `l` is finite and acyclic, and every instantiated cell has a layout (the real code panics/recurses forever otherwise)
pub open spec fn hier_ok(l: Layout) -> bool
    decreases depth(l)
{
    forall|i: int| 0 <= i < l.insts@.len() ==> {
        let c = (*(#[trigger] l.insts@[i]).cell.v).layout;
        c is Some && depth(c->0) < depth(l) && hier_ok(c->0)
    }
}
/// the first n own elements of `l`, each under `t`
pub open spec fn own(l: Layout, t: Transform, n: nat) -> Seq<(Element, Transform)> { Seq::new(n, |i: int| (l.elems@[i], t)) }
/// the flattened list, as (source element, transform applied to it)
pub open spec fn flat(l: Layout, t: Transform) -> Seq<(Element, Transform)>
    decreases depth(l), l.insts@.len() + 1
{
    own(l, t, l.elems@.len()) + flat_insts(l, t, l.insts@.len())
}
pub open spec fn flat_insts(l: Layout, t: Transform, n: nat) -> Seq<(Element, Transform)>
    decreases depth(l), n
{
    if n == 0 || n > l.insts@.len() { Seq::<(Element, Transform)>::empty() } else {
        let i = l.insts@[n - 1];
        let c = (*i.cell.v).layout;
        let child = if c is Some && depth(c->0) < depth(l) {
            // reflect, rotate, translate of the placement, applied *after* (as child of) the transforms above it
            flat(c->0, cascade_spec(t, from_instance_spec(i.loc, i.reflect_vert, i.angle)))
        } else { Seq::<(Element, Transform)>::empty() };
        flat_insts(l, t, (n - 1) as nat) + child
    }
}
/// `out` realises the descriptor list `d`: same layer/purpose/net, shape = image of the source shape under its transform
pub open spec fn realises(out: Seq<Element>, d: Seq<(Element, Transform)>) -> bool {
    out.len() == d.len() && forall|i: int| 0 <= i < d.len() ==> {
        let (src, t) = #[trigger] d[i];
        out[i].net == src.net && out[i].layer == src.layer && out[i].purpose == src.purpose && shape_image(src.inner, t, out[i].inner)
    }
}
/// `cur` is `old` with elements appended
pub open spec fn extends(cur: Seq<Element>, old: Seq<Element>) -> bool { cur.len() >= old.len() && cur.take(old.len() as int) == old }
pub open spec fn added(cur: Seq<Element>, old: Seq<Element>) -> Seq<Element> { cur.skip(old.len() as int) }
proof fn lemma_realises_append(a: Seq<Element>, da: Seq<(Element, Transform)>, b: Seq<Element>, db: Seq<(Element, Transform)>)
    requires realises(a, da), realises(b, db)
    ensures realises(a + b, da + db)
{
    assert forall|i: int| 0 <= i < (da + db).len() implies {
        let (src, t) = #[trigger] (da + db)[i];
        (a + b)[i].net == src.net && (a + b)[i].layer == src.layer && (a + b)[i].purpose == src.purpose && shape_image(src.inner, t, (a + b)[i].inner)
    } by {
        if i < da.len() { let x = da[i]; } else { let x = db[i - da.len()]; }
    }
}

// =====================================================================================================
// CODE UNDER CONTRACT
// =====================================================================================================
//@ fn layout21raw/src/data.rs :: fn flatten_helper
//@   sub R10? /([\w\.\[\]]+) \+= ([^;]+);/ => \1 = \1 + \2;
//@   sub R11? /([\w\.]+) as f64/ => vp_isize_as_f64(\1)
//@   ret r
//@   spec
//|     requires hier_ok(*layout),
//|     ensures r is Ok ==> extends(final(elems)@, old(elems)@) && realises(added(final(elems)@, old(elems)@), flat(*layout, *trans)),
//|     decreases depth(*layout),
//@   loop 1 iter it
//|         invariant hier_ok(*layout), it.index@ <= layout.elems@.len(),
//|             extends(elems@, old(elems)@), realises(added(elems@, old(elems)@), own(*layout, *trans, it.index@ as nat)),
//@   before /let mut new_elem = elem\.clone\(\);/
//|         let ghost e0 = elems@;
//@   loopend 1
//|         proof {
//|             let o = old(elems)@; let k = it.index@;
//|             assert(elems@ == e0.push(new_elem));
//|             assert(added(elems@, o) =~= added(e0, o).push(new_elem));
//|             assert(own(*layout, *trans, (k + 1) as nat) =~= own(*layout, *trans, k as nat).push((layout.elems@[k], *trans)));
//|             assert(elems@.take(o.len() as int) =~= e0.take(o.len() as int));
//|         }
//@   loop 2 iter it
//|         invariant hier_ok(*layout), it.index@ <= layout.insts@.len(), *layout0 == *layout, *trans0 == *trans,
//|             it.seq().len() == layout.insts@.len(), forall|j: int| 0 <= j < it.seq().len() ==> *(#[trigger] it.seq()[j]) == layout.insts@[j],
//|             extends(elems@, old(elems)@),
//|             realises(added(elems@, old(elems)@), own(*layout, *trans, layout.elems@.len()) + flat_insts(*layout, *trans, it.index@ as nat)),
//@   before /let cell = inst\.cell\.read\(\)\?;/
//|         let ghost e0 = elems@;
//@   loopend 2
//|         proof {
//|             let o = old(elems)@; let k = it.index@; let outer = *layout0;
//|             let child = (*inst.cell.v).layout->0;
//|             let ct = cascade_spec(*trans0, from_instance_spec(inst.loc, inst.reflect_vert, inst.angle));
//|             assert(it.seq()[k] == inst);
//|             assert(outer.insts@[k] == *inst);
//|             assert(flat_insts(outer, *trans0, (k + 1) as nat) == flat_insts(outer, *trans0, k as nat) + flat(child, ct));
//|             assert(added(elems@, o) =~= added(e0, o) + added(elems@, e0));
//|             lemma_realises_append(added(e0, o), own(outer, *trans0, outer.elems@.len()) + flat_insts(outer, *trans0, k as nat), added(elems@, e0), flat(child, ct));
//|             assert((own(outer, *trans0, outer.elems@.len()) + flat_insts(outer, *trans0, k as nat)) + flat(child, ct)
//|                 =~= own(outer, *trans0, outer.elems@.len()) + flat_insts(outer, *trans0, (k + 1) as nat));
//|             assert(elems@.take(o.len() as int) =~= e0.take(o.len() as int));
//|         }
//@   atstart
//|     let ghost layout0 = layout; let ghost trans0 = trans;
//|     proof {
//|         assert(elems@.take(elems@.len() as int) =~= elems@);
//|         assert(added(elems@, elems@) =~= Seq::<Element>::empty());
//|         assert(own(*layout, *trans, 0) =~= Seq::<(Element, Transform)>::empty());
//|     }
//@ end
impl Layout {
//@ fn layout21raw/src/data.rs :: impl Layout :: fn flatten
//@   ret r
//@   spec
//|     requires hier_ok(*self),
//|     ensures r is Ok ==> realises(r->Ok_0@, flat(*self, identity_spec())),
//@   before /^        Ok\(elems\)$/
//|         proof { assert(added(elems@, Seq::<Element>::empty()) =~= elems@); }
//@ end
}
proof fn canary_hier(l: Layout) requires hier_ok(l), l.insts@.len() == 2 ensures false {}
}
fn main() {}
