// shared by units gds_codec and gds_tree: models of external code, the extracted record enums, the format oracle

// =====================================================================================================
// MODELS of external code (assumptions; rule R5)
// =====================================================================================================
pub struct BigEndian;
#[derive(Debug)]
pub struct IoError;
#[derive(Debug)]
pub struct Utf8Error;
pub open spec fn be16(v: u16) -> Seq<u8> { seq![(v >> 8) as u8, (v & 0xff) as u8] }
pub open spec fn be32(v: u32) -> Seq<u8> { seq![(v >> 24) as u8, ((v >> 16) & 0xff) as u8, ((v >> 8) & 0xff) as u8, (v & 0xff) as u8] }
pub open spec fn be64(v: u64) -> Seq<u8> { be32((v >> 32) as u32) + be32((v & 0xffff_ffff) as u32) }
/// model of `Box<dyn std::io::Write>` + byteorder::WriteBytesExt: an append-only byte sink; any write may fail
pub struct Dest { pub bytes: Vec<u8> }
impl Dest {
    pub open spec fn view(&self) -> Seq<u8> { self.bytes@ }
    #[verifier::external_body]
    pub fn write_u8(&mut self, v: u8) -> (r: Result<(), IoError>)
        ensures r is Ok ==> final(self)@ == old(self)@.push(v),
    { self.bytes.push(v); Ok(()) }
    #[verifier::external_body]
    pub fn write_u16<E>(&mut self, v: u16) -> (r: Result<(), IoError>)
        ensures r is Ok ==> final(self)@ == old(self)@ + be16(v),
    { unimplemented!() }
    #[verifier::external_body]
    pub fn write_i16<E>(&mut self, v: i16) -> (r: Result<(), IoError>)
        ensures r is Ok ==> final(self)@ == old(self)@ + be16(v as u16),
    { unimplemented!() }
    #[verifier::external_body]
    pub fn write_i32<E>(&mut self, v: i32) -> (r: Result<(), IoError>)
        ensures r is Ok ==> final(self)@ == old(self)@ + be32(v as u32),
    { unimplemented!() }
    /// std::io::Write::write_all: appends all the bytes, or fails
    #[verifier::external_body]
    pub fn write_all(&mut self, buf: &[u8]) -> (r: Result<(), IoError>)
        ensures r is Ok ==> final(self)@ == old(self)@ + buf@,
    { unimplemented!() }
    #[verifier::external_body]
    pub fn write_u64<E>(&mut self, v: u64) -> (r: Result<(), IoError>)
        ensures r is Ok ==> final(self)@ == old(self)@ + be64(v),
    { unimplemented!() }
}
/// models of iN::to_be_bytes (std; their signatures cannot be named in an assume_specification): big-endian bytes
#[verifier::external_body]
pub fn vp_i32_to_be(v: &i32) -> (r: [u8; 4]) ensures r@ == be32(*v as u32) { v.to_be_bytes() }
#[verifier::external_body]
pub fn vp_i16_to_be(v: &i16) -> (r: [u8; 2]) ensures r@ == be16(*v as u16) { v.to_be_bytes() }
/// strings: only their UTF-8 byte content matters
pub open spec fn string_bytes(s: &String) -> Seq<u8> { encode_utf8(s@) }
pub assume_specification [std::string::String::as_bytes] (s: &std::string::String) -> (r: &[u8]) ensures r@ == string_bytes(s);
pub assume_specification [std::string::String::len] (s: &std::string::String) -> (r: usize) ensures r == string_bytes(s).len();
/// GDSII real codec: contract of GdsFloat64::encode / ::decode (proved by the Kani unit gds_real, C15)
pub uninterp spec fn gds_enc(x: f64) -> u64;
pub uninterp spec fn gds_dec(v: u64) -> f64;
pub struct GdsFloat64;
impl GdsFloat64 {
    #[verifier::external_body]
    pub fn encode(val: f64) -> (r: u64) ensures r == gds_enc(val) { unimplemented!() }
    #[verifier::external_body]
    pub fn decode(val: u64) -> (r: f64) ensures r == gds_dec(val) { unimplemented!() }
}

//@ item gds21/src/data.rs :: enum GdsRecordType
//@   derive Debug, Clone, Copy
//@ end
//@ item gds21/src/data.rs :: enum GdsDataType
//@   derive Debug, Clone, Copy
//@ end
//@ item gds21/src/data.rs :: struct GdsRecordHeader
//@   derive Debug, Clone, Copy
//@ end
//@ item gds21/src/data.rs :: enum GdsRecord
//@   derive Clone
//@ end
//@ item gds21/src/data.rs :: enum GdsContext
//@ end
//@ item gds21/src/data.rs :: enum GdsError
//@   sub R5 /Box<dyn Error>/ => Box<IoError>
//@ end
//@ item gds21/src/data.rs :: type GdsResult
//@ end
impl vstd::std_specs::convert::FromSpecImpl<IoError> for GdsError {
    open spec fn obeys_from_spec() -> bool { true }
    open spec fn from_spec(e: IoError) -> GdsError { GdsError::Boxed(Box::new(e)) }
}
impl From<IoError> for GdsError { fn from(e: IoError) -> Self { Self::Boxed(Box::new(e)) } }

// =====================================================================================================
// SPEC: the GDSII stream format (typed from the Stream Format manual, DESIGN.md appendix A) — independent of the code
// =====================================================================================================
pub open spec fn i16s_bytes(s: Seq<i16>) -> Seq<u8> decreases s.len() {
    if s.len() == 0 { Seq::<u8>::empty() } else { i16s_bytes(s.drop_last()) + be16(s.last() as u16) }
}
pub open spec fn i32s_bytes(s: Seq<i32>) -> Seq<u8> decreases s.len() {
    if s.len() == 0 { Seq::<u8>::empty() } else { i32s_bytes(s.drop_last()) + be32(s.last() as u32) }
}
/// ASCII string payload: NUL-padded to even length
pub open spec fn padded(b: Seq<u8>) -> Seq<u8> { if b.len() % 2 == 0 { b } else { b.push(0u8) } }
/// record number (hex column of the manual's table)
pub open spec fn rec_num(r: GdsRecord) -> u8 {
    match r {
        GdsRecord::Header { .. } => 0x00, GdsRecord::BgnLib { .. } => 0x01, GdsRecord::LibName(_) => 0x02, GdsRecord::Units(_, _) => 0x03,
        GdsRecord::EndLib => 0x04, GdsRecord::BgnStruct { .. } => 0x05, GdsRecord::StructName(_) => 0x06, GdsRecord::EndStruct => 0x07,
        GdsRecord::Boundary => 0x08, GdsRecord::Path => 0x09, GdsRecord::StructRef => 0x0A, GdsRecord::ArrayRef => 0x0B, GdsRecord::Text => 0x0C,
        GdsRecord::Layer(_) => 0x0D, GdsRecord::DataType(_) => 0x0E, GdsRecord::Width(_) => 0x0F, GdsRecord::Xy(_) => 0x10, GdsRecord::EndElement => 0x11,
        GdsRecord::StructRefName(_) => 0x12, GdsRecord::ColRow { .. } => 0x13, GdsRecord::Node => 0x15, GdsRecord::TextType(_) => 0x16,
        GdsRecord::Presentation(_, _) => 0x17, GdsRecord::String(_) => 0x19, GdsRecord::Strans(_, _) => 0x1A, GdsRecord::Mag(_) => 0x1B, GdsRecord::Angle(_) => 0x1C,
        GdsRecord::RefLibs(_) => 0x1F, GdsRecord::Fonts(_) => 0x20, GdsRecord::PathType(_) => 0x21, GdsRecord::Generations(_) => 0x22, GdsRecord::AttrTable(_) => 0x23,
        GdsRecord::ElemFlags(_, _) => 0x26, GdsRecord::Nodetype(_) => 0x2A, GdsRecord::PropAttr(_) => 0x2B, GdsRecord::PropValue(_) => 0x2C,
        GdsRecord::Box => 0x2D, GdsRecord::BoxType(_) => 0x2E, GdsRecord::Plex(_) => 0x2F, GdsRecord::BeginExtn(_) => 0x30, GdsRecord::EndExtn(_) => 0x31,
        GdsRecord::TapeNum(_) => 0x32, GdsRecord::TapeCode(_) => 0x33, GdsRecord::Format(_) => 0x36, GdsRecord::Mask(_) => 0x37, GdsRecord::EndMasks => 0x38,
        GdsRecord::LibDirSize(_) => 0x39, GdsRecord::SrfName(_) => 0x3A, GdsRecord::LibSecur(_) => 0x3B,
    }
}
/// data type code (0 none, 1 bit array, 2 i16, 3 i32, 5 eight-byte real, 6 string)
pub open spec fn rec_dtype(r: GdsRecord) -> u8 {
    match r {
        GdsRecord::EndLib | GdsRecord::EndStruct | GdsRecord::Boundary | GdsRecord::Path | GdsRecord::StructRef | GdsRecord::ArrayRef | GdsRecord::Text
        | GdsRecord::EndElement | GdsRecord::Node | GdsRecord::Box | GdsRecord::EndMasks => 0,
        GdsRecord::Presentation(_, _) | GdsRecord::Strans(_, _) | GdsRecord::ElemFlags(_, _) => 1,
        GdsRecord::Header { .. } | GdsRecord::BgnLib { .. } | GdsRecord::BgnStruct { .. } | GdsRecord::Layer(_) | GdsRecord::DataType(_) | GdsRecord::ColRow { .. }
        | GdsRecord::TextType(_) | GdsRecord::PathType(_) | GdsRecord::Generations(_) | GdsRecord::Nodetype(_) | GdsRecord::PropAttr(_) | GdsRecord::BoxType(_)
        | GdsRecord::TapeNum(_) | GdsRecord::TapeCode(_) | GdsRecord::Format(_) | GdsRecord::LibDirSize(_) | GdsRecord::LibSecur(_) => 2,
        GdsRecord::Width(_) | GdsRecord::Xy(_) | GdsRecord::Plex(_) | GdsRecord::BeginExtn(_) | GdsRecord::EndExtn(_) => 3,
        GdsRecord::Units(_, _) | GdsRecord::Mag(_) | GdsRecord::Angle(_) => 5,
        GdsRecord::LibName(_) | GdsRecord::StructName(_) | GdsRecord::StructRefName(_) | GdsRecord::String(_) | GdsRecord::RefLibs(_) | GdsRecord::Fonts(_)
        | GdsRecord::AttrTable(_) | GdsRecord::PropValue(_) | GdsRecord::Mask(_) | GdsRecord::SrfName(_) => 6,
    }
}
/// payload bytes
pub open spec fn payload(r: GdsRecord) -> Seq<u8> {
    match r {
        GdsRecord::EndLib | GdsRecord::EndStruct | GdsRecord::Boundary | GdsRecord::Path | GdsRecord::StructRef | GdsRecord::ArrayRef | GdsRecord::Text
        | GdsRecord::EndElement | GdsRecord::Node | GdsRecord::Box | GdsRecord::EndMasks => Seq::<u8>::empty(),
        GdsRecord::Presentation(a, b) | GdsRecord::Strans(a, b) | GdsRecord::ElemFlags(a, b) => seq![a, b],
        GdsRecord::Header { version: d } | GdsRecord::Layer(d) | GdsRecord::DataType(d) | GdsRecord::TextType(d) | GdsRecord::PathType(d) | GdsRecord::Generations(d)
        | GdsRecord::Nodetype(d) | GdsRecord::PropAttr(d) | GdsRecord::BoxType(d) | GdsRecord::TapeNum(d) | GdsRecord::Format(d) | GdsRecord::LibDirSize(d)
        | GdsRecord::LibSecur(d) => be16(d as u16),
        GdsRecord::BgnLib { dates: d } | GdsRecord::BgnStruct { dates: d } => i16s_bytes(d@),
        GdsRecord::TapeCode(d) => i16s_bytes(d@),
        GdsRecord::ColRow { cols, rows } => be16(cols as u16) + be16(rows as u16),
        GdsRecord::Width(d) | GdsRecord::Plex(d) | GdsRecord::BeginExtn(d) | GdsRecord::EndExtn(d) => be32(d as u32),
        GdsRecord::Xy(v) => i32s_bytes(v@),
        GdsRecord::Mag(x) | GdsRecord::Angle(x) => be64(gds_enc(x)),
        GdsRecord::Units(a, b) => be64(gds_enc(a)) + be64(gds_enc(b)),
        GdsRecord::LibName(s) | GdsRecord::StructName(s) | GdsRecord::StructRefName(s) | GdsRecord::String(s) | GdsRecord::RefLibs(s) | GdsRecord::Fonts(s)
        | GdsRecord::AttrTable(s) | GdsRecord::PropValue(s) | GdsRecord::Mask(s) | GdsRecord::SrfName(s) => padded(string_bytes(&s)),
    }
}
/// the four header bytes: total length (big-endian, includes the header), record number, data type
pub open spec fn header_bytes(r: GdsRecord) -> Seq<u8> { be16((payload(r).len() + 4) as u16) + seq![rec_num(r), rec_dtype(r)] }
/// a record fits the format iff its total length fits 16 bits
pub open spec fn fits(r: GdsRecord) -> bool { payload(r).len() + 4 <= 0xffff }

/// the string carried by a string record
pub open spec fn str_of(r: GdsRecord) -> Option<Seq<u8>> {
    match r {
        GdsRecord::LibName(s) | GdsRecord::StructName(s) | GdsRecord::StructRefName(s) | GdsRecord::String(s) | GdsRecord::RefLibs(s) | GdsRecord::Fonts(s)
        | GdsRecord::AttrTable(s) | GdsRecord::PropValue(s) | GdsRecord::Mask(s) | GdsRecord::SrfName(s) => Some(string_bytes(&s)),
        _ => None,
    }
}
/// a string that ends in NUL cannot be told from its padding: the format cannot represent it
pub open spec fn str_representable(r: GdsRecord) -> bool {
    match str_of(r) { Some(b) => b.len() == 0 || b.last() != 0u8, None => true }
}
/// a record the writer must accept: total length fits 16 bits, string (if any) representable
pub open spec fn writable(r: GdsRecord) -> bool { fits(r) && str_representable(r) }
pub open spec fn rec_bytes(r: GdsRecord) -> Seq<u8> { header_bytes(r) + payload(r) }

proof fn lemma_i16s_len(s: Seq<i16>) ensures i16s_bytes(s).len() == 2 * s.len() decreases s.len() { if s.len() > 0 { lemma_i16s_len(s.drop_last()); } }
proof fn lemma_i32s_len(s: Seq<i32>) ensures i32s_bytes(s).len() == 4 * s.len() decreases s.len() { if s.len() > 0 { lemma_i32s_len(s.drop_last()); } }
/// payload length per record, as plain numbers
pub open spec fn payload_len(r: GdsRecord) -> int {
    match r {
        GdsRecord::EndLib | GdsRecord::EndStruct | GdsRecord::Boundary | GdsRecord::Path | GdsRecord::StructRef | GdsRecord::ArrayRef | GdsRecord::Text
        | GdsRecord::EndElement | GdsRecord::Node | GdsRecord::Box | GdsRecord::EndMasks => 0int,
        GdsRecord::BgnLib { .. } | GdsRecord::BgnStruct { .. } => 24,
        GdsRecord::TapeCode(_) => 12,
        GdsRecord::ColRow { .. } | GdsRecord::Width(_) | GdsRecord::Plex(_) | GdsRecord::BeginExtn(_) | GdsRecord::EndExtn(_) => 4,
        GdsRecord::Xy(v) => 4 * (v@.len() as int),
        GdsRecord::Mag(_) | GdsRecord::Angle(_) => 8,
        GdsRecord::Units(_, _) => 16,
        GdsRecord::LibName(s) | GdsRecord::StructName(s) | GdsRecord::StructRefName(s) | GdsRecord::String(s) | GdsRecord::RefLibs(s) | GdsRecord::Fonts(s)
        | GdsRecord::AttrTable(s) | GdsRecord::PropValue(s) | GdsRecord::Mask(s) | GdsRecord::SrfName(s) => (string_bytes(&s).len() + string_bytes(&s).len() % 2) as int,
        _ => 2,
    }
}
/// C02: every record's payload has even length, so the length field is even and >= 4
proof fn lemma_payload_len(r: GdsRecord) ensures payload(r).len() == payload_len(r), payload(r).len() % 2 == 0, rec_bytes(r).len() == 4 + payload(r).len(),
{
    match r {
        GdsRecord::BgnLib { dates: d } => { lemma_i16s_len(d@); }
        GdsRecord::BgnStruct { dates: d } => { lemma_i16s_len(d@); }
        GdsRecord::TapeCode(d) => { lemma_i16s_len(d@); }
        GdsRecord::Xy(v) => { lemma_i32s_len(v@); }
        GdsRecord::Units(a, b) => { assert(be64(gds_enc(a)).len() == 8); assert(be64(gds_enc(b)).len() == 8); }
        GdsRecord::Mag(a) => { assert(be64(gds_enc(a)).len() == 8); }
        GdsRecord::Angle(a) => { assert(be64(gds_enc(a)).len() == 8); }
        _ => {}
    }
}
proof fn lemma_i16s_push(s: Seq<i16>, v: i16) ensures i16s_bytes(s.push(v)) == i16s_bytes(s) + be16(v as u16) { assert(s.push(v).drop_last() == s); }
proof fn lemma_i32s_push(s: Seq<i32>, v: i32) ensures i32s_bytes(s.push(v)) == i32s_bytes(s) + be32(v as u32) { assert(s.push(v).drop_last() == s); }


/// byte stream of a record sequence
pub open spec fn recs_bytes(rs: Seq<GdsRecord>) -> Seq<u8> decreases rs.len() {
    if rs.len() == 0 { Seq::<u8>::empty() } else { recs_bytes(rs.drop_last()) + rec_bytes(rs.last()) }
}
proof fn lemma_recs_push(rs: Seq<GdsRecord>, r: GdsRecord) ensures recs_bytes(rs.push(r)) == recs_bytes(rs) + rec_bytes(r) { assert(rs.push(r).drop_last() == rs); }


/// the content of a record, field for field: (record number, integer fields, string bytes, real fields)
pub open spec fn content(r: GdsRecord) -> (u8, Seq<int>, Seq<u8>, Seq<f64>) {
    match r {
        GdsRecord::Presentation(x, y) | GdsRecord::Strans(x, y) | GdsRecord::ElemFlags(x, y) => (rec_num(r), seq![x as int, y as int], Seq::<u8>::empty(), Seq::<f64>::empty()),
        GdsRecord::Header { version: d } | GdsRecord::Layer(d) | GdsRecord::DataType(d) | GdsRecord::TextType(d) | GdsRecord::PathType(d) | GdsRecord::Generations(d)
        | GdsRecord::Nodetype(d) | GdsRecord::PropAttr(d) | GdsRecord::BoxType(d) | GdsRecord::TapeNum(d) | GdsRecord::Format(d) | GdsRecord::LibDirSize(d)
        | GdsRecord::LibSecur(d) => (rec_num(r), seq![d as int], Seq::<u8>::empty(), Seq::<f64>::empty()),
        GdsRecord::BgnLib { dates: d } => (rec_num(r), Seq::new(12, |i: int| d@[i] as int), Seq::<u8>::empty(), Seq::<f64>::empty()),
        GdsRecord::BgnStruct { dates: d } => (rec_num(r), Seq::new(12, |i: int| d@[i] as int), Seq::<u8>::empty(), Seq::<f64>::empty()),
        GdsRecord::TapeCode(d) => (rec_num(r), Seq::new(6, |i: int| d@[i] as int), Seq::<u8>::empty(), Seq::<f64>::empty()),
        GdsRecord::ColRow { cols, rows } => (rec_num(r), seq![cols as int, rows as int], Seq::<u8>::empty(), Seq::<f64>::empty()),
        GdsRecord::Width(d) | GdsRecord::Plex(d) | GdsRecord::BeginExtn(d) | GdsRecord::EndExtn(d) => (rec_num(r), seq![d as int], Seq::<u8>::empty(), Seq::<f64>::empty()),
        GdsRecord::Xy(v) => (rec_num(r), Seq::new(v@.len(), |i: int| v@[i] as int), Seq::<u8>::empty(), Seq::<f64>::empty()),
        GdsRecord::Mag(x) | GdsRecord::Angle(x) => (rec_num(r), Seq::<int>::empty(), Seq::<u8>::empty(), seq![x]),
        GdsRecord::Units(x, y) => (rec_num(r), Seq::<int>::empty(), Seq::<u8>::empty(), seq![x, y]),
        GdsRecord::LibName(s) | GdsRecord::StructName(s) | GdsRecord::StructRefName(s) | GdsRecord::String(s) | GdsRecord::RefLibs(s) | GdsRecord::Fonts(s)
        | GdsRecord::AttrTable(s) | GdsRecord::PropValue(s) | GdsRecord::Mask(s) | GdsRecord::SrfName(s) => (rec_num(r), Seq::<int>::empty(), string_bytes(&s), Seq::<f64>::empty()),
        _ => (rec_num(r), Seq::<int>::empty(), Seq::<u8>::empty(), Seq::<f64>::empty()),
    }
}

// ---- decoder-view oracle (pure specification; used by the reader contracts and the stream lemmas) ----
pub open spec fn de16(a: u8, b: u8) -> u16 { ((a as u16) << 8) | (b as u16) }
pub open spec fn de32(a: u8, b: u8, c: u8, d: u8) -> u32 { ((a as u32) << 24) | ((b as u32) << 16) | ((c as u32) << 8) | (d as u32) }
pub open spec fn de64(s: Seq<u8>, o: int) -> u64 { ((de32(s[o], s[o + 1], s[o + 2], s[o + 3]) as u64) << 32) | (de32(s[o + 4], s[o + 5], s[o + 6], s[o + 7]) as u64) }
/// string payload as read: one trailing NUL (the padding) is dropped
pub open spec fn strip_nul(b: Seq<u8>) -> Seq<u8> { if b.len() > 0 && b.last() == 0u8 { b.drop_last() } else { b } }

// ---- SPEC: the record table of the manual as a decoder would use it: (record number, data type, payload length) rows ----
pub open spec fn table_row(num: u8, dt: u8, n: int) -> bool {
    ||| (dt == 0 && n == 0 && (num == 0x04 || num == 0x07 || num == 0x08 || num == 0x09 || num == 0x0A || num == 0x0B || num == 0x0C || num == 0x11 || num == 0x15 || num == 0x2D || num == 0x38))
    ||| (dt == 1 && n == 2 && (num == 0x17 || num == 0x1A || num == 0x26))
    ||| (dt == 2 && n == 2 && (num == 0x00 || num == 0x0D || num == 0x0E || num == 0x16 || num == 0x21 || num == 0x22 || num == 0x2A || num == 0x2B || num == 0x2E || num == 0x32 || num == 0x36 || num == 0x39 || num == 0x3B))
    ||| (dt == 2 && n == 24 && (num == 0x01 || num == 0x05))
    ||| (dt == 2 && n == 4 && num == 0x13)
    ||| (dt == 2 && n == 12 && num == 0x33)
    ||| (dt == 3 && n == 4 && (num == 0x0F || num == 0x2F || num == 0x30 || num == 0x31))
    ||| (dt == 3 && num == 0x10)
    ||| (dt == 5 && n == 16 && num == 0x03)
    ||| (dt == 5 && n == 8 && (num == 0x1B || num == 0x1C))
    ||| (dt == 6 && (num == 0x02 || num == 0x06 || num == 0x12 || num == 0x19 || num == 0x1F || num == 0x20 || num == 0x23 || num == 0x2C || num == 0x37 || num == 0x3A))
}
pub open spec fn i16_at(b: Seq<u8>, i: int) -> i16 { de16(b[2 * i], b[2 * i + 1]) as i16 }
pub open spec fn i32_at(b: Seq<u8>, i: int) -> i32 { de32(b[4 * i], b[4 * i + 1], b[4 * i + 2], b[4 * i + 3]) as i32 }
/// `rec` is the content of a record whose payload bytes are `b` (decoder view, per data type)
pub open spec fn payload_matches(rec: GdsRecord, b: Seq<u8>) -> bool {
    match rec {
        GdsRecord::EndLib | GdsRecord::EndStruct | GdsRecord::Boundary | GdsRecord::Path | GdsRecord::StructRef | GdsRecord::ArrayRef | GdsRecord::Text
        | GdsRecord::EndElement | GdsRecord::Node | GdsRecord::Box | GdsRecord::EndMasks => b.len() == 0,
        GdsRecord::Presentation(x, y) | GdsRecord::Strans(x, y) | GdsRecord::ElemFlags(x, y) => b.len() == 2 && x == b[0] && y == b[1],
        GdsRecord::Header { version: d } | GdsRecord::Layer(d) | GdsRecord::DataType(d) | GdsRecord::TextType(d) | GdsRecord::PathType(d) | GdsRecord::Generations(d)
        | GdsRecord::Nodetype(d) | GdsRecord::PropAttr(d) | GdsRecord::BoxType(d) | GdsRecord::TapeNum(d) | GdsRecord::Format(d) | GdsRecord::LibDirSize(d)
        | GdsRecord::LibSecur(d) => b.len() == 2 && d == i16_at(b, 0),
        GdsRecord::BgnLib { dates: d } => b.len() == 24 && forall|i: int| 0 <= i < 12 ==> #[trigger] d@[i] == i16_at(b, i),
        GdsRecord::BgnStruct { dates: d } => b.len() == 24 && forall|i: int| 0 <= i < 12 ==> #[trigger] d@[i] == i16_at(b, i),
        GdsRecord::TapeCode(d) => b.len() == 12 && forall|i: int| 0 <= i < 6 ==> #[trigger] d@[i] == i16_at(b, i),
        GdsRecord::ColRow { cols, rows } => b.len() == 4 && cols == i16_at(b, 0) && rows == i16_at(b, 1),
        GdsRecord::Width(d) | GdsRecord::Plex(d) | GdsRecord::BeginExtn(d) | GdsRecord::EndExtn(d) => b.len() == 4 && d == i32_at(b, 0),
        GdsRecord::Xy(v) => v@.len() == b.len() / 4 && forall|i: int| 0 <= i < v@.len() ==> #[trigger] v@[i] == i32_at(b, i),
        GdsRecord::Mag(x) | GdsRecord::Angle(x) => b.len() == 8 && x == gds_dec(de64(b, 0)),
        GdsRecord::Units(x, y) => b.len() == 16 && x == gds_dec(de64(b, 0)) && y == gds_dec(de64(b, 8)),
        GdsRecord::LibName(s) | GdsRecord::StructName(s) | GdsRecord::StructRefName(s) | GdsRecord::String(s) | GdsRecord::RefLibs(s) | GdsRecord::Fonts(s)
        | GdsRecord::AttrTable(s) | GdsRecord::PropValue(s) | GdsRecord::Mask(s) | GdsRecord::SrfName(s) => string_bytes(&s) == strip_nul(b),
    }
}
// ---- SPEC: which headers the format allows (appendix A: record numbers not used / unreleased / internal are invalid) ----
pub open spec fn valid_rec_num(n: u8) -> bool {
    n <= 0x3B && n != 0x14 && n != 0x18 && n != 0x1D && n != 0x1E && n != 0x24 && n != 0x25 && n != 0x27 && n != 0x28 && n != 0x29 && n != 0x34 && n != 0x35
}
pub open spec fn header_ok(b: Seq<u8>) -> bool {
    b.len() >= 4 && de16(b[0], b[1]) >= 4 && de16(b[0], b[1]) % 2 == 0 && valid_rec_num(b[2]) && b[3] <= 6
}


