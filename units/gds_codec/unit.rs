// Unit U2 gds_codec: gds21 record <-> bytes codec (C01, C02, C03, C10).
use vstd::prelude::*;
use vstd::string::*;
use vstd::utf8::*;
use std::convert::{TryFrom, TryInto};
verus! {
global size_of usize == 8;
//@ include units/gds_codec/spec.inc.rs
//@ include units/gds_codec/points.inc.rs
// =====================================================================================================
// WRITER (gds21/src/write.rs), extracted
// =====================================================================================================
//@ item gds21/src/write.rs :: struct GdsWriter
//@   sub R5 /GdsWriter<'wr>/ => GdsWriter
//@   sub R5 /dest: Box<dyn Write \+ 'wr>/ => pub dest: Dest
//@ end
impl GdsWriter {
//@ fn gds21/src/write.rs :: impl<'wr> GdsWriter<'wr> :: fn write_record_header
//@   ret r
//@   sub R5 /\|s: &str\| -> usize \{ s\.len\(\) \+ s\.len\(\) % 2 \}/ => |s: &String| -> (n: usize) requires string_bytes(s).len() < 0x7fff_ffff_ffff_ffff ensures n == padded(string_bytes(s)).len() { s.len() + s.len() % 2 }
//@   spec
//|     requires payload(*record).len() < 0x7fff_ffff_ffff_ff00,
//|     ensures
//|         r is Ok ==> writable(*record) && final(self).dest@ == old(self).dest@ + header_bytes(*record),
//|         !writable(*record) ==> r is Err && final(self).dest@ == old(self).dest@,
//@   before /let \(rtype, dtype, len\) = match record/
//|         proof { lemma_payload_len(*record); }
//@   before /Send those header-bytes to the writer/
//|         proof {
//|             assert(len == payload(*record).len());
//|             assert(rtype as u8 == rec_num(*record));
//|             assert(dtype as u8 == rec_dtype(*record));
//|         }
//@ end

//@ fn gds21/src/write.rs :: impl<'wr> GdsWriter<'wr> :: fn write_record_content
//@   sub R5? /(\w+)\.to_be_bytes\(\)/ => vp_i32_to_be(\1)
//@   ret r
//@   spec
//|     ensures r is Ok ==> final(self).dest@ == old(self).dest@ + payload(*record),
//@   loop 1 iter it
//|                 invariant self.dest@ == old(self).dest@ + i16s_bytes(d@.take(it.index@ as int)), it.index@ <= 12,
//@   loopend 1
//|                     proof { lemma_i16s_push(d@.take(it.index@ as int), *val); assert(d@.take(it.index@ + 1) == d@.take(it.index@ as int).push(*val)); }
//@   loop 2 iter it
//|                 invariant self.dest@ == old(self).dest@ + i16s_bytes(d@.take(it.index@ as int)), it.index@ <= 6,
//@   loopend 2
//|                     proof { lemma_i16s_push(d@.take(it.index@ as int), *val); assert(d@.take(it.index@ + 1) == d@.take(it.index@ as int).push(*val)); }
//@   loop 3 iter it
//|                 invariant self.dest@ == old(self).dest@ + i32s_bytes(d@.take(it.index@ as int)), it.index@ <= d@.len(),
//@   loopend 3
//|                     proof { lemma_i32s_push(d@.take(it.index@ as int), *val); assert(d@.take(it.index@ + 1) == d@.take(it.index@ as int).push(*val)); }
//@   loop 4 iter it
//|                 invariant self.dest@ == old(self).dest@ + string_bytes(s).take(it.index@ as int), it.index@ <= string_bytes(s).len(),
//@   loopend 4
//|                     proof { assert(string_bytes(s).take(it.index@ + 1) == string_bytes(s).take(it.index@ as int).push(*b)); }
//@   before /^        Ok\(\(\)\)$/
//|         proof {
//|             match record {
//|                 GdsRecord::BgnLib { dates: d } | GdsRecord::BgnStruct { dates: d } => { assert(d@.take(12) == d@); }
//|                 GdsRecord::TapeCode(d) => { assert(d@.take(6) == d@); }
//|                 GdsRecord::Xy(d) => { assert(d@.take(d@.len() as int) == d@); }
//|                 GdsRecord::LibName(s) | GdsRecord::StructName(s) | GdsRecord::StructRefName(s) | GdsRecord::String(s) | GdsRecord::RefLibs(s) | GdsRecord::Fonts(s)
//|                 | GdsRecord::AttrTable(s) | GdsRecord::PropValue(s) | GdsRecord::Mask(s) | GdsRecord::SrfName(s) => {
//|                     assert(string_bytes(s).take(string_bytes(s).len() as int) == string_bytes(s));
//|                 }
//|                 _ => {}
//|             }
//|             assert(self.dest@ =~= old(self).dest@ + payload(*record));
//|         }
//@ end
//@ fn gds21/src/write.rs :: impl<'wr> GdsWriter<'wr> :: fn write_record
//@   ret r
//@   spec
//|     requires payload(*record).len() < 0x7fff_ffff_ffff_ff00,
//|     ensures
//|         r is Ok ==> writable(*record) && final(self).dest@ == old(self).dest@ + rec_bytes(*record),
//|         !writable(*record) ==> r is Err && final(self).dest@ == old(self).dest@,
//@ end

//@ fn gds21/src/write.rs :: impl<'wr> GdsWriter<'wr> :: fn write_records
//@   ret r
//@   spec
//|     requires forall|i: int| 0 <= i < records@.len() ==> payload(#[trigger] records@[i]).len() < 0x7fff_ffff_ffff_ff00,
//|     ensures r is Ok ==> (forall|i: int| 0 <= i < records@.len() ==> writable(#[trigger] records@[i]))
//|             && final(self).dest@ == old(self).dest@ + recs_bytes(records@),
//@   loop 1 iter it
//|             invariant self.dest@ == old(self).dest@ + recs_bytes(records@.take(it.index@ as int)), it.index@ <= records@.len(),
//|                 forall|i: int| 0 <= i < it.index@ ==> writable(#[trigger] records@[i]),
//|                 forall|i: int| 0 <= i < records@.len() ==> payload(#[trigger] records@[i]).len() < 0x7fff_ffff_ffff_ff00,
//@   loopend 1
//|             proof {
//|                 assert(records@.take(it.index@ + 1) == records@.take(it.index@ as int).push(*r));
//|                 lemma_recs_push(records@.take(it.index@ as int), *r);
//|                 assert(self.dest@ =~= old(self).dest@ + recs_bytes(records@.take(it.index@ + 1)));
//|             }
//@   before /^        Ok\(\(\)\)$/
//|         proof { assert(records@.take(records@.len() as int) == records@); }
//@ end
}

//@ include units/gds_codec/reader.inc.rs
// =====================================================================================================
// COMPOSITION LEMMAS (spec level): what the writer emits is what the reader accepts, and decodes to the same content
// =====================================================================================================
proof fn lemma_be16_rt(v: u16) ensures de16(be16(v)[0], be16(v)[1]) == v, be16(v).len() == 2 {
    assert(((((v >> 8) as u8) as u16) << 8) | (((v & 0xff) as u8) as u16) == v) by (bit_vector);
}
proof fn lemma_be16_rt_i16(d: i16) ensures de16(be16(d as u16)[0], be16(d as u16)[1]) as i16 == d {
    lemma_be16_rt(d as u16);
    assert(((d as u16) as i16) == d) by (bit_vector);
}
proof fn lemma_be32_rt(v: u32) ensures de32(be32(v)[0], be32(v)[1], be32(v)[2], be32(v)[3]) == v, be32(v).len() == 4 {
    assert(((((v >> 24) as u8) as u32) << 24) | (((((v >> 16) & 0xff) as u8) as u32) << 16) | (((((v >> 8) & 0xff) as u8) as u32) << 8) | (((v & 0xff) as u8) as u32) == v) by (bit_vector);
}
proof fn lemma_be32_rt_i32(d: i32) ensures de32(be32(d as u32)[0], be32(d as u32)[1], be32(d as u32)[2], be32(d as u32)[3]) as i32 == d {
    lemma_be32_rt(d as u32);
    assert(((d as u32) as i32) == d) by (bit_vector);
}
proof fn lemma_be64_rt(v: u64) ensures de64(be64(v), 0) == v, be64(v).len() == 8 {
    let hi = (v >> 32) as u32; let lo = (v & 0xffff_ffff) as u32;
    lemma_be32_rt(hi); lemma_be32_rt(lo);
    let b = be64(v);
    assert(b[0] == be32(hi)[0] && b[1] == be32(hi)[1] && b[2] == be32(hi)[2] && b[3] == be32(hi)[3]);
    assert(b[4] == be32(lo)[0] && b[5] == be32(lo)[1] && b[6] == be32(lo)[2] && b[7] == be32(lo)[3]);
    assert(((((v >> 32) as u32) as u64) << 32) | (((v & 0xffff_ffff) as u32) as u64) == v) by (bit_vector);
}
proof fn lemma_i16s_at(s: Seq<i16>, i: int) requires 0 <= i < s.len() ensures i16_at(i16s_bytes(s), i) == s[i], i16s_bytes(s).len() == 2 * s.len()
    decreases s.len()
{
    lemma_i16s_len(s); lemma_i16s_len(s.drop_last());
    let p = i16s_bytes(s.drop_last());
    if i < s.len() - 1 { lemma_i16s_at(s.drop_last(), i); assert(i16s_bytes(s)[2 * i] == p[2 * i]); assert(i16s_bytes(s)[2 * i + 1] == p[2 * i + 1]); }
    else { lemma_be16_rt_i16(s.last()); assert(i16s_bytes(s)[2 * i] == be16(s.last() as u16)[0]); assert(i16s_bytes(s)[2 * i + 1] == be16(s.last() as u16)[1]); }
}
proof fn lemma_i32s_at(s: Seq<i32>, i: int) requires 0 <= i < s.len() ensures i32_at(i32s_bytes(s), i) == s[i], i32s_bytes(s).len() == 4 * s.len()
    decreases s.len()
{
    lemma_i32s_len(s); lemma_i32s_len(s.drop_last());
    let p = i32s_bytes(s.drop_last()); let q = i32s_bytes(s);
    if i < s.len() - 1 { lemma_i32s_at(s.drop_last(), i); assert(q[4 * i] == p[4 * i] && q[4 * i + 1] == p[4 * i + 1] && q[4 * i + 2] == p[4 * i + 2] && q[4 * i + 3] == p[4 * i + 3]); }
    else { let e = be32(s.last() as u32); lemma_be32_rt_i32(s.last()); assert(q[4 * i] == e[0] && q[4 * i + 1] == e[1] && q[4 * i + 2] == e[2] && q[4 * i + 3] == e[3]); }
}
/// contract of the real codec imported from the Kani unit gds_real (C15): in range (or zero) => decode(encode(x)) == x
pub uninterp spec fn gds_in_range(x: f64) -> bool;
#[verifier::external_body]
proof fn axiom_gds_real_roundtrip(x: f64) requires gds_in_range(x) ensures gds_dec(gds_enc(x)) == x {}
pub open spec fn reals_ok(r: GdsRecord) -> bool {
    match r { GdsRecord::Mag(x) | GdsRecord::Angle(x) => gds_in_range(x), GdsRecord::Units(x, y) => gds_in_range(x) && gds_in_range(y), _ => true }
}
proof fn lemma_strip_padded(sb: Seq<u8>) requires sb.len() == 0 || sb.last() != 0u8 ensures strip_nul(padded(sb)) == sb {
    if sb.len() % 2 != 0 { assert(sb.push(0u8).drop_last() == sb); }
}
/// (a) C01/C03: a record the writer accepts is a row of the format's table and its payload decodes to the same record
proof fn lemma_payload_roundtrip(rec: GdsRecord)
    requires writable(rec), reals_ok(rec),
    ensures payload_matches(rec, payload(rec)), table_row(rec_num(rec), rec_dtype(rec), payload(rec).len() as int),
        rec_dtype(rec) == 6 ==> valid_utf8(strip_nul(payload(rec))),
{
    lemma_payload_len(rec);
    match rec {
        GdsRecord::Header { version: d } | GdsRecord::Layer(d) | GdsRecord::DataType(d) | GdsRecord::TextType(d) | GdsRecord::PathType(d) | GdsRecord::Generations(d)
        | GdsRecord::Nodetype(d) | GdsRecord::PropAttr(d) | GdsRecord::BoxType(d) | GdsRecord::TapeNum(d) | GdsRecord::Format(d) | GdsRecord::LibDirSize(d)
        | GdsRecord::LibSecur(d) => { lemma_be16_rt_i16(d); }
        GdsRecord::BgnLib { dates: d } | GdsRecord::BgnStruct { dates: d } => {
            assert forall|i: int| 0 <= i < 12 implies #[trigger] d@[i] == i16_at(i16s_bytes(d@), i) by { lemma_i16s_at(d@, i); }
        }
        GdsRecord::TapeCode(d) => {
            assert forall|i: int| 0 <= i < 6 implies #[trigger] d@[i] == i16_at(i16s_bytes(d@), i) by { lemma_i16s_at(d@, i); }
        }
        GdsRecord::ColRow { cols, rows } => {
            lemma_be16_rt_i16(cols); lemma_be16_rt_i16(rows);
            let b = be16(cols as u16) + be16(rows as u16);
            assert(b[0] == be16(cols as u16)[0] && b[1] == be16(cols as u16)[1] && b[2] == be16(rows as u16)[0] && b[3] == be16(rows as u16)[1]);
        }
        GdsRecord::Width(d) | GdsRecord::Plex(d) | GdsRecord::BeginExtn(d) | GdsRecord::EndExtn(d) => { lemma_be32_rt_i32(d); }
        GdsRecord::Xy(v) => {
            lemma_i32s_len(v@);
            assert forall|i: int| 0 <= i < v@.len() implies #[trigger] v@[i] == i32_at(i32s_bytes(v@), i) by { lemma_i32s_at(v@, i); }
        }
        GdsRecord::Mag(x) | GdsRecord::Angle(x) => { lemma_be64_rt(gds_enc(x)); axiom_gds_real_roundtrip(x); }
        GdsRecord::Units(x, y) => {
            lemma_be64_rt(gds_enc(x)); lemma_be64_rt(gds_enc(y)); axiom_gds_real_roundtrip(x); axiom_gds_real_roundtrip(y);
            let b = be64(gds_enc(x)) + be64(gds_enc(y));
            assert forall|k: int| 0 <= k < 8 implies b[k] == be64(gds_enc(x))[k] && b[8 + k] == be64(gds_enc(y))[k] by {}
            assert(de64(b, 0) == de64(be64(gds_enc(x)), 0));
            assert(de64(b, 8) == de64(be64(gds_enc(y)), 0));
        }
        GdsRecord::LibName(s) | GdsRecord::StructName(s) | GdsRecord::StructRefName(s) | GdsRecord::String(s) | GdsRecord::RefLibs(s) | GdsRecord::Fonts(s)
        | GdsRecord::AttrTable(s) | GdsRecord::PropValue(s) | GdsRecord::Mask(s) | GdsRecord::SrfName(s) => {
            lemma_strip_padded(string_bytes(&s));
            encode_utf8_valid_utf8(s@);
        }
        _ => {}
    }
}
/// (a') C02/C03: the four header bytes the writer emits are a header the reader accepts, with the right length, type and data type
proof fn lemma_header_roundtrip(rec: GdsRecord)
    requires fits(rec),
    ensures ({
        let b = rec_bytes(rec);
        &&& header_ok(b) &&& de16(b[0], b[1]) - 4 == payload(rec).len() &&& b[2] == rec_num(rec) &&& b[3] == rec_dtype(rec)
        &&& b.subrange(4, 4 + payload(rec).len() as int) == payload(rec)
        // C02: length field even, >= 4, equal to the bytes present
        &&& de16(b[0], b[1]) % 2 == 0 &&& de16(b[0], b[1]) >= 4 &&& de16(b[0], b[1]) == b.len()
    }),
{
    lemma_payload_len(rec);
    let n = (payload(rec).len() + 4) as u16;
    lemma_be16_rt(n);
    let b = rec_bytes(rec);
    assert(b[0] == be16(n)[0] && b[1] == be16(n)[1]);
    assert(b.subrange(4, 4 + payload(rec).len() as int) =~= payload(rec));
}


/// the integer fields as the decoder determines them from the payload
pub open spec fn ints_of(r: GdsRecord, b: Seq<u8>) -> Seq<int> {
    match rec_dtype(r) {
        1 => seq![b[0] as int, b[1] as int],
        2 => Seq::new((b.len() / 2) as nat, |i: int| i16_at(b, i) as int),
        3 => Seq::new((b.len() / 4) as nat, |i: int| i32_at(b, i) as int),
        _ => Seq::<int>::empty(),
    }
}
pub open spec fn reals_of(r: GdsRecord, b: Seq<u8>) -> Seq<f64> {
    if rec_dtype(r) == 5 { if b.len() == 8 { seq![gds_dec(de64(b, 0))] } else { seq![gds_dec(de64(b, 0)), gds_dec(de64(b, 8))] } } else { Seq::<f64>::empty() }
}
/// (b) a payload determines the content: whatever record matches these bytes under this record number has exactly these fields
proof fn lemma_decode_determined(r: GdsRecord, b: Seq<u8>)
    requires payload_matches(r, b),
    ensures content(r) == (rec_num(r), ints_of(r, b), if rec_dtype(r) == 6 { strip_nul(b) } else { Seq::<u8>::empty() }, reals_of(r, b)),
{
    match r {
        GdsRecord::Presentation(x, y) | GdsRecord::Strans(x, y) | GdsRecord::ElemFlags(x, y) => { assert(content(r).1 =~= ints_of(r, b)); }
        GdsRecord::Header { version: d } | GdsRecord::Layer(d) | GdsRecord::DataType(d) | GdsRecord::TextType(d) | GdsRecord::PathType(d) | GdsRecord::Generations(d)
        | GdsRecord::Nodetype(d) | GdsRecord::PropAttr(d) | GdsRecord::BoxType(d) | GdsRecord::TapeNum(d) | GdsRecord::Format(d) | GdsRecord::LibDirSize(d)
        | GdsRecord::LibSecur(d) => { assert(content(r).1 =~= ints_of(r, b)); }
        GdsRecord::BgnLib { dates: d } => {
            assert forall|i: int| 0 <= i < 12 implies content(r).1[i] == ints_of(r, b)[i] by { assert(d@[i] == i16_at(b, i)); }
            assert(content(r).1 =~= ints_of(r, b));
        }
        GdsRecord::BgnStruct { dates: d } => {
            assert forall|i: int| 0 <= i < 12 implies content(r).1[i] == ints_of(r, b)[i] by { assert(d@[i] == i16_at(b, i)); }
            assert(content(r).1 =~= ints_of(r, b));
        }
        GdsRecord::TapeCode(d) => {
            assert forall|i: int| 0 <= i < 6 implies content(r).1[i] == ints_of(r, b)[i] by { assert(d@[i] == i16_at(b, i)); }
            assert(content(r).1 =~= ints_of(r, b));
        }
        GdsRecord::ColRow { cols, rows } => { assert(content(r).1 =~= ints_of(r, b)); }
        GdsRecord::Width(d) | GdsRecord::Plex(d) | GdsRecord::BeginExtn(d) | GdsRecord::EndExtn(d) => { assert(content(r).1 =~= ints_of(r, b)); }
        GdsRecord::Xy(v) => { assert(content(r).1 =~= ints_of(r, b)); }
        GdsRecord::Mag(x) | GdsRecord::Angle(x) => { assert(content(r).3 =~= reals_of(r, b)); }
        GdsRecord::Units(x, y) => { assert(content(r).3 =~= reals_of(r, b)); }
        _ => {}
    }
}
proof fn lemma_decode_unique(r1: GdsRecord, r2: GdsRecord, b: Seq<u8>)
    requires payload_matches(r1, b), payload_matches(r2, b), rec_num(r1) == rec_num(r2), rec_dtype(r1) == rec_dtype(r2),
    ensures content(r1) == content(r2),
{
    lemma_decode_determined(r1, b); lemma_decode_determined(r2, b);
}
// ---- vacuity canaries ----
proof fn canary_writable(r: GdsRecord) requires writable(r), reals_ok(r), r is LibName, string_bytes(&r->LibName_0).len() == 3 ensures false {}
proof fn canary_header_ok(b: Seq<u8>) requires header_ok(b), table_row(b[2], b[3], de16(b[0], b[1]) - 4), b[3] == 6 ensures false {}
proof fn canary_matches(r: GdsRecord, b: Seq<u8>) requires payload_matches(r, b), r is Xy, b.len() == 16 ensures false {}

}
fn main() {}