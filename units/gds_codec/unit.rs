// Unit U2 gds_codec: gds21 record <-> bytes codec (C01, C02, C03, C10).
use vstd::prelude::*;
use vstd::string::*;
use vstd::utf8::*;
use std::convert::{TryFrom, TryInto};
verus! {
global size_of usize == 8;
//@ include units/common/float.inc.rs
//@ include units/gds_codec/spec.inc.rs
//@ include units/gds_codec/points.inc.rs
//@ include units/gds_codec/writer.inc.rs
//@ include units/gds_codec/reader.inc.rs
//@ include units/gds_codec/lemmas.inc.rs
// ---- vacuity canaries ----
proof fn canary_writable(r: GdsRecord) requires writable(r), reals_ok(r), r is LibName, string_bytes(&r->LibName_0).len() == 3 ensures false {}
proof fn canary_header_ok(b: Seq<u8>) requires header_ok(b), table_row(b[2], b[3], de16(b[0], b[1]) - 4), b[3] == 6 ensures false {}
proof fn canary_matches(r: GdsRecord, b: Seq<u8>) requires payload_matches(r, b), r is Xy, b.len() == 16 ensures false {}

}
fn main() {}