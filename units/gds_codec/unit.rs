// Unit U2 gds_codec: gds21 record <-> bytes codec (C01, C02, C03, C10).
use vstd::prelude::*;
use vstd::string::*;
use vstd::utf8::*;
use std::convert::{TryFrom, TryInto};
verus! {
global size_of usize == 8;

// =====================================================================================================
// MODELS of external code (assumptions; rule R5)
// =====================================================================================================
pub struct BigEndian;
#[derive(Debug)]
pub struct IoError;
#[derive(Debug)]
pub struct Utf8Error;
pub open spec fn be16(v: u16) -> Seq<u8> { seq![(v >> 8) as u8, (v & 0xff) as u8] }
pub open spec fn be32(v: u32) -> Seq<u8> { seq![(v >> 24) as u8, ((v >> 16) & 0xff) as u8, ((v >> 8) & 0xff) as u8, (v & 0xff) as u8] }
pub open spec fn be64(v: u64) -> Seq<u8> { be32((v >> 32) as u32) + be32((v & 0xffff_ffff) as u32) }
/// model of `Box<dyn std::io::Write>` + byteorder::WriteBytesExt: an append-only byte sink; any write may fail
pub struct Dest { pub bytes: Vec<u8> }
impl Dest {
    pub open spec fn view(&self) -> Seq<u8> { self.bytes@ }
    #[verifier::external_body]
    pub fn write_u8(&mut self, v: u8) -> (r: Result<(), IoError>)
        ensures r is Ok ==> final(self)@ == old(self)@.push(v),
    { self.bytes.push(v); Ok(()) }
    #[verifier::external_body]
    pub fn write_u16<E>(&mut self, v: u16) -> (r: Result<(), IoError>)
        ensures r is Ok ==> final(self)@ == old(self)@ + be16(v),
    { unimplemented!() }
    #[verifier::external_body]
    pub fn write_i16<E>(&mut self, v: i16) -> (r: Result<(), IoError>)
        ensures r is Ok ==> final(self)@ == old(self)@ + be16(v as u16),
    { unimplemented!() }
    #[verifier::external_body]
    pub fn write_i32<E>(&mut self, v: i32) -> (r: Result<(), IoError>)
        ensures r is Ok ==> final(self)@ == old(self)@ + be32(v as u32),
    { unimplemented!() }
    #[verifier::external_body]
    pub fn write_u64<E>(&mut self, v: u64) -> (r: Result<(), IoError>)
        ensures r is Ok ==> final(self)@ == old(self)@ + be64(v),
    { unimplemented!() }
}
/// strings: only their UTF-8 byte content matters
pub open spec fn string_bytes(s: &String) -> Seq<u8> { encode_utf8(s@) }
pub assume_specification [std::string::String::as_bytes] (s: &std::string::String) -> (r: &[u8]) ensures r@ == string_bytes(s);
pub assume_specification [std::string::String::len] (s: &std::string::String) -> (r: usize) ensures r == string_bytes(s).len();
/// GDSII real codec: contract of GdsFloat64::encode / ::decode (proved by the Kani unit gds_real, C15)
pub uninterp spec fn gds_enc(x: f64) -> u64;
pub uninterp spec fn gds_dec(v: u64) -> f64;
pub struct GdsFloat64;
impl GdsFloat64 {
    #[verifier::external_body]
    pub fn encode(val: f64) -> (r: u64) ensures r == gds_enc(val) { unimplemented!() }
    #[verifier::external_body]
    pub fn decode(val: u64) -> (r: f64) ensures r == gds_dec(val) { unimplemented!() }
}

//@ item gds21/src/data.rs :: enum GdsRecordType
//@   derive Debug, Clone, Copy
//@ end
//@ item gds21/src/data.rs :: enum GdsDataType
//@   derive Debug, Clone, Copy
//@ end
//@ item gds21/src/data.rs :: struct GdsRecordHeader
//@   derive Debug, Clone, Copy
//@ end
//@ item gds21/src/data.rs :: enum GdsRecord
//@ end
//@ item gds21/src/data.rs :: enum GdsContext
//@ end
//@ item gds21/src/data.rs :: enum GdsError
//@   sub R5 /Box<dyn Error>/ => IoError
//@ end
//@ item gds21/src/data.rs :: type GdsResult
//@ end
impl vstd::std_specs::convert::FromSpecImpl<IoError> for GdsError {
    open spec fn obeys_from_spec() -> bool { true }
    open spec fn from_spec(e: IoError) -> GdsError { GdsError::Boxed(e) }
}
impl From<IoError> for GdsError { fn from(e: IoError) -> Self { Self::Boxed(e) } }

// =====================================================================================================
// SPEC: the GDSII stream format (typed from the Stream Format manual, DESIGN.md appendix A) — independent of the code
// =====================================================================================================
pub open spec fn i16s_bytes(s: Seq<i16>) -> Seq<u8> decreases s.len() {
    if s.len() == 0 { Seq::<u8>::empty() } else { i16s_bytes(s.drop_last()) + be16(s.last() as u16) }
}
pub open spec fn i32s_bytes(s: Seq<i32>) -> Seq<u8> decreases s.len() {
    if s.len() == 0 { Seq::<u8>::empty() } else { i32s_bytes(s.drop_last()) + be32(s.last() as u32) }
}
/// ASCII string payload: NUL-padded to even length
pub open spec fn padded(b: Seq<u8>) -> Seq<u8> { if b.len() % 2 == 0 { b } else { b.push(0u8) } }
/// record number (hex column of the manual's table)
pub open spec fn rec_num(r: GdsRecord) -> u8 {
    match r {
        GdsRecord::Header { .. } => 0x00, GdsRecord::BgnLib { .. } => 0x01, GdsRecord::LibName(_) => 0x02, GdsRecord::Units(_, _) => 0x03,
        GdsRecord::EndLib => 0x04, GdsRecord::BgnStruct { .. } => 0x05, GdsRecord::StructName(_) => 0x06, GdsRecord::EndStruct => 0x07,
        GdsRecord::Boundary => 0x08, GdsRecord::Path => 0x09, GdsRecord::StructRef => 0x0A, GdsRecord::ArrayRef => 0x0B, GdsRecord::Text => 0x0C,
        GdsRecord::Layer(_) => 0x0D, GdsRecord::DataType(_) => 0x0E, GdsRecord::Width(_) => 0x0F, GdsRecord::Xy(_) => 0x10, GdsRecord::EndElement => 0x11,
        GdsRecord::StructRefName(_) => 0x12, GdsRecord::ColRow { .. } => 0x13, GdsRecord::Node => 0x15, GdsRecord::TextType(_) => 0x16,
        GdsRecord::Presentation(_, _) => 0x17, GdsRecord::String(_) => 0x19, GdsRecord::Strans(_, _) => 0x1A, GdsRecord::Mag(_) => 0x1B, GdsRecord::Angle(_) => 0x1C,
        GdsRecord::RefLibs(_) => 0x1F, GdsRecord::Fonts(_) => 0x20, GdsRecord::PathType(_) => 0x21, GdsRecord::Generations(_) => 0x22, GdsRecord::AttrTable(_) => 0x23,
        GdsRecord::ElemFlags(_, _) => 0x26, GdsRecord::Nodetype(_) => 0x2A, GdsRecord::PropAttr(_) => 0x2B, GdsRecord::PropValue(_) => 0x2C,
        GdsRecord::Box => 0x2D, GdsRecord::BoxType(_) => 0x2E, GdsRecord::Plex(_) => 0x2F, GdsRecord::BeginExtn(_) => 0x30, GdsRecord::EndExtn(_) => 0x31,
        GdsRecord::TapeNum(_) => 0x32, GdsRecord::TapeCode(_) => 0x33, GdsRecord::Format(_) => 0x36, GdsRecord::Mask(_) => 0x37, GdsRecord::EndMasks => 0x38,
        GdsRecord::LibDirSize(_) => 0x39, GdsRecord::SrfName(_) => 0x3A, GdsRecord::LibSecur(_) => 0x3B,
    }
}
/// data type code (0 none, 1 bit array, 2 i16, 3 i32, 5 eight-byte real, 6 string)
pub open spec fn rec_dtype(r: GdsRecord) -> u8 {
    match r {
        GdsRecord::EndLib | GdsRecord::EndStruct | GdsRecord::Boundary | GdsRecord::Path | GdsRecord::StructRef | GdsRecord::ArrayRef | GdsRecord::Text
        | GdsRecord::EndElement | GdsRecord::Node | GdsRecord::Box | GdsRecord::EndMasks => 0,
        GdsRecord::Presentation(_, _) | GdsRecord::Strans(_, _) | GdsRecord::ElemFlags(_, _) => 1,
        GdsRecord::Header { .. } | GdsRecord::BgnLib { .. } | GdsRecord::BgnStruct { .. } | GdsRecord::Layer(_) | GdsRecord::DataType(_) | GdsRecord::ColRow { .. }
        | GdsRecord::TextType(_) | GdsRecord::PathType(_) | GdsRecord::Generations(_) | GdsRecord::Nodetype(_) | GdsRecord::PropAttr(_) | GdsRecord::BoxType(_)
        | GdsRecord::TapeNum(_) | GdsRecord::TapeCode(_) | GdsRecord::Format(_) | GdsRecord::LibDirSize(_) | GdsRecord::LibSecur(_) => 2,
        GdsRecord::Width(_) | GdsRecord::Xy(_) | GdsRecord::Plex(_) | GdsRecord::BeginExtn(_) | GdsRecord::EndExtn(_) => 3,
        GdsRecord::Units(_, _) | GdsRecord::Mag(_) | GdsRecord::Angle(_) => 5,
        GdsRecord::LibName(_) | GdsRecord::StructName(_) | GdsRecord::StructRefName(_) | GdsRecord::String(_) | GdsRecord::RefLibs(_) | GdsRecord::Fonts(_)
        | GdsRecord::AttrTable(_) | GdsRecord::PropValue(_) | GdsRecord::Mask(_) | GdsRecord::SrfName(_) => 6,
    }
}
/// payload bytes
pub open spec fn payload(r: GdsRecord) -> Seq<u8> {
    match r {
        GdsRecord::EndLib | GdsRecord::EndStruct | GdsRecord::Boundary | GdsRecord::Path | GdsRecord::StructRef | GdsRecord::ArrayRef | GdsRecord::Text
        | GdsRecord::EndElement | GdsRecord::Node | GdsRecord::Box | GdsRecord::EndMasks => Seq::<u8>::empty(),
        GdsRecord::Presentation(a, b) | GdsRecord::Strans(a, b) | GdsRecord::ElemFlags(a, b) => seq![a, b],
        GdsRecord::Header { version: d } | GdsRecord::Layer(d) | GdsRecord::DataType(d) | GdsRecord::TextType(d) | GdsRecord::PathType(d) | GdsRecord::Generations(d)
        | GdsRecord::Nodetype(d) | GdsRecord::PropAttr(d) | GdsRecord::BoxType(d) | GdsRecord::TapeNum(d) | GdsRecord::Format(d) | GdsRecord::LibDirSize(d)
        | GdsRecord::LibSecur(d) => be16(d as u16),
        GdsRecord::BgnLib { dates: d } | GdsRecord::BgnStruct { dates: d } => i16s_bytes(d@),
        GdsRecord::TapeCode(d) => i16s_bytes(d@),
        GdsRecord::ColRow { cols, rows } => be16(cols as u16) + be16(rows as u16),
        GdsRecord::Width(d) | GdsRecord::Plex(d) | GdsRecord::BeginExtn(d) | GdsRecord::EndExtn(d) => be32(d as u32),
        GdsRecord::Xy(v) => i32s_bytes(v@),
        GdsRecord::Mag(x) | GdsRecord::Angle(x) => be64(gds_enc(x)),
        GdsRecord::Units(a, b) => be64(gds_enc(a)) + be64(gds_enc(b)),
        GdsRecord::LibName(s) | GdsRecord::StructName(s) | GdsRecord::StructRefName(s) | GdsRecord::String(s) | GdsRecord::RefLibs(s) | GdsRecord::Fonts(s)
        | GdsRecord::AttrTable(s) | GdsRecord::PropValue(s) | GdsRecord::Mask(s) | GdsRecord::SrfName(s) => padded(string_bytes(&s)),
    }
}
/// the four header bytes: total length (big-endian, includes the header), record number, data type
pub open spec fn header_bytes(r: GdsRecord) -> Seq<u8> { be16((payload(r).len() + 4) as u16) + seq![rec_num(r), rec_dtype(r)] }
/// a record fits the format iff its total length fits 16 bits
pub open spec fn fits(r: GdsRecord) -> bool { payload(r).len() + 4 <= 0xffff }
pub open spec fn rec_bytes(r: GdsRecord) -> Seq<u8> { header_bytes(r) + payload(r) }

proof fn lemma_i16s_len(s: Seq<i16>) ensures i16s_bytes(s).len() == 2 * s.len() decreases s.len() { if s.len() > 0 { lemma_i16s_len(s.drop_last()); } }
proof fn lemma_i32s_len(s: Seq<i32>) ensures i32s_bytes(s).len() == 4 * s.len() decreases s.len() { if s.len() > 0 { lemma_i32s_len(s.drop_last()); } }
/// payload length per record, as plain numbers
pub open spec fn payload_len(r: GdsRecord) -> int {
    match r {
        GdsRecord::EndLib | GdsRecord::EndStruct | GdsRecord::Boundary | GdsRecord::Path | GdsRecord::StructRef | GdsRecord::ArrayRef | GdsRecord::Text
        | GdsRecord::EndElement | GdsRecord::Node | GdsRecord::Box | GdsRecord::EndMasks => 0int,
        GdsRecord::BgnLib { .. } | GdsRecord::BgnStruct { .. } => 24,
        GdsRecord::TapeCode(_) => 12,
        GdsRecord::ColRow { .. } | GdsRecord::Width(_) | GdsRecord::Plex(_) | GdsRecord::BeginExtn(_) | GdsRecord::EndExtn(_) => 4,
        GdsRecord::Xy(v) => 4 * (v@.len() as int),
        GdsRecord::Mag(_) | GdsRecord::Angle(_) => 8,
        GdsRecord::Units(_, _) => 16,
        GdsRecord::LibName(s) | GdsRecord::StructName(s) | GdsRecord::StructRefName(s) | GdsRecord::String(s) | GdsRecord::RefLibs(s) | GdsRecord::Fonts(s)
        | GdsRecord::AttrTable(s) | GdsRecord::PropValue(s) | GdsRecord::Mask(s) | GdsRecord::SrfName(s) => (string_bytes(&s).len() + string_bytes(&s).len() % 2) as int,
        _ => 2,
    }
}
/// C02: every record's payload has even length, so the length field is even and >= 4
proof fn lemma_payload_len(r: GdsRecord) ensures payload(r).len() == payload_len(r), payload(r).len() % 2 == 0, rec_bytes(r).len() == 4 + payload(r).len(),
{
    match r {
        GdsRecord::BgnLib { dates: d } => { lemma_i16s_len(d@); }
        GdsRecord::BgnStruct { dates: d } => { lemma_i16s_len(d@); }
        GdsRecord::TapeCode(d) => { lemma_i16s_len(d@); }
        GdsRecord::Xy(v) => { lemma_i32s_len(v@); }
        GdsRecord::Units(a, b) => { assert(be64(gds_enc(a)).len() == 8); assert(be64(gds_enc(b)).len() == 8); }
        GdsRecord::Mag(a) => { assert(be64(gds_enc(a)).len() == 8); }
        GdsRecord::Angle(a) => { assert(be64(gds_enc(a)).len() == 8); }
        _ => {}
    }
}
proof fn lemma_i16s_push(s: Seq<i16>, v: i16) ensures i16s_bytes(s.push(v)) == i16s_bytes(s) + be16(v as u16) { assert(s.push(v).drop_last() == s); }
proof fn lemma_i32s_push(s: Seq<i32>, v: i32) ensures i32s_bytes(s.push(v)) == i32s_bytes(s) + be32(v as u32) { assert(s.push(v).drop_last() == s); }


/// byte stream of a record sequence
pub open spec fn recs_bytes(rs: Seq<GdsRecord>) -> Seq<u8> decreases rs.len() {
    if rs.len() == 0 { Seq::<u8>::empty() } else { recs_bytes(rs.drop_last()) + rec_bytes(rs.last()) }
}
proof fn lemma_recs_push(rs: Seq<GdsRecord>, r: GdsRecord) ensures recs_bytes(rs.push(r)) == recs_bytes(rs) + rec_bytes(r) { assert(rs.push(r).drop_last() == rs); }


// =====================================================================================================
// POINT LISTS (gds21/src/data.rs), extracted
// =====================================================================================================
//@ item gds21/src/data.rs :: struct GdsPoint
//@ end
/// the XY payload of a point list: x0 y0 x1 y1 ...
pub open spec fn xy_of(p: Seq<GdsPoint>, v: Seq<i32>) -> bool {
    v.len() == 2 * p.len() && forall|k: int| 0 <= k < p.len() ==> v[2 * k] == (#[trigger] p[k]).x && v[2 * k + 1] == p[k].y
}
impl GdsPoint {
//@ fn gds21/src/data.rs :: impl GdsPoint :: fn parse
//@   ret r
//@   sub R7 /"GdsPoint coordinate vector: Invalid number of elements"\.into\(\)/ => String::new()
//@   spec
//|     ensures from@.len() != 2 ==> r is Err,
//|             from@.len() == 2 ==> r is Ok && r->Ok_0.x == from@[0] && r->Ok_0.y == from@[1],
//@ end
//@ fn gds21/src/data.rs :: impl GdsPoint :: fn parse_vec
//@   ret r
//@   sub R7 /"GdsPoint coordinate vector: Invalid number of elements"\.into\(\)/ => String::new()
//@   let rv : Vec<GdsPoint>
//@   spec
//|     ensures from@.len() % 2 != 0 ==> r is Err,
//|             from@.len() % 2 == 0 ==> r is Ok && xy_of(r->Ok_0@, from@),
//@   loop 1
//|             invariant rv@.len() == i, from@.len() % 2 == 0,
//|                 forall|k: int| 0 <= k < i ==> (#[trigger] rv@[k]).x == from@[2 * k] && rv@[k].y == from@[2 * k + 1],
//@ end
//@ fn gds21/src/data.rs :: impl GdsPoint :: fn flatten
//@   ret r
//@   spec
//|     ensures r@ == seq![self.x, self.y],
//@ end
//@ fn gds21/src/data.rs :: impl GdsPoint :: fn flatten_vec
//@   ret rv
//@   let rv : Vec<i32>
//@   spec
//|     requires src@.len() < 0x3fff_ffff_ffff_ffff,
//|     ensures xy_of(src@, rv@),
//@   loop 1 iter it
//|             invariant rv@.len() == 2 * it.index@,
//|                 forall|k: int| 0 <= k < it.index@ ==> rv@[2 * k] == (#[trigger] src@[k]).x && rv@[2 * k + 1] == src@[k].y,
//@ end
}
/// C01 layer 1: parse_vec inverts flatten_vec (both contracts are stated over the whole sequence)
proof fn lemma_points_roundtrip(p: Seq<GdsPoint>, q: Seq<GdsPoint>, v: Seq<i32>)
    requires xy_of(p, v), xy_of(q, v),
    ensures p =~= q,
{
    assert(p.len() == q.len());
    assert forall|k: int| 0 <= k < p.len() implies p[k] == q[k] by { assert(p[k].x == v[2 * k] && q[k].x == v[2 * k]); }
}

// =====================================================================================================
// WRITER (gds21/src/write.rs), extracted
// =====================================================================================================
//@ item gds21/src/write.rs :: struct GdsWriter
//@   sub R5 /GdsWriter<'wr>/ => GdsWriter
//@   sub R5 /dest: Box<dyn Write \+ 'wr>/ => pub dest: Dest
//@ end
impl GdsWriter {
//@ fn gds21/src/write.rs :: impl<'wr> GdsWriter<'wr> :: fn write_record_header
//@   ret r
//@   sub R5 /\|s: &str\| -> usize \{ s\.len\(\) \+ s\.len\(\) % 2 \}/ => |s: &String| -> (n: usize) requires string_bytes(s).len() < 0x7fff_ffff_ffff_ffff ensures n == padded(string_bytes(s)).len() { s.len() + s.len() % 2 }
//@   spec
//|     requires payload(*record).len() < 0x7fff_ffff_ffff_ff00,
//|     ensures
//|         r is Ok ==> fits(*record) && final(self).dest@ == old(self).dest@ + header_bytes(*record),
//|         !fits(*record) ==> r is Err && final(self).dest@ == old(self).dest@,
//@   before /let \(rtype, dtype, len\) = match record/
//|         proof { lemma_payload_len(*record); }
//@   before /Send those header-bytes to the writer/
//|         proof {
//|             assert(len == payload(*record).len());
//|             assert(rtype as u8 == rec_num(*record));
//|             assert(dtype as u8 == rec_dtype(*record));
//|         }
//@ end

//@ fn gds21/src/write.rs :: impl<'wr> GdsWriter<'wr> :: fn write_record_content
//@   ret r
//@   spec
//|     ensures r is Ok ==> final(self).dest@ == old(self).dest@ + payload(*record),
//@   loop 1 iter it
//|                 invariant self.dest@ == old(self).dest@ + i16s_bytes(d@.take(it.index@ as int)), it.index@ <= 12,
//@   loopend 1
//|                     proof { lemma_i16s_push(d@.take(it.index@ as int), *val); assert(d@.take(it.index@ + 1) == d@.take(it.index@ as int).push(*val)); }
//@   loop 2 iter it
//|                 invariant self.dest@ == old(self).dest@ + i16s_bytes(d@.take(it.index@ as int)), it.index@ <= 6,
//@   loopend 2
//|                     proof { lemma_i16s_push(d@.take(it.index@ as int), *val); assert(d@.take(it.index@ + 1) == d@.take(it.index@ as int).push(*val)); }
//@   loop 3 iter it
//|                 invariant self.dest@ == old(self).dest@ + i32s_bytes(d@.take(it.index@ as int)), it.index@ <= d@.len(),
//@   loopend 3
//|                     proof { lemma_i32s_push(d@.take(it.index@ as int), *val); assert(d@.take(it.index@ + 1) == d@.take(it.index@ as int).push(*val)); }
//@   loop 4 iter it
//|                 invariant self.dest@ == old(self).dest@ + string_bytes(s).take(it.index@ as int), it.index@ <= string_bytes(s).len(),
//@   loopend 4
//|                     proof { assert(string_bytes(s).take(it.index@ + 1) == string_bytes(s).take(it.index@ as int).push(*b)); }
//@   before /^        Ok\(\(\)\)$/
//|         proof {
//|             match record {
//|                 GdsRecord::BgnLib { dates: d } | GdsRecord::BgnStruct { dates: d } => { assert(d@.take(12) == d@); }
//|                 GdsRecord::TapeCode(d) => { assert(d@.take(6) == d@); }
//|                 GdsRecord::Xy(d) => { assert(d@.take(d@.len() as int) == d@); }
//|                 GdsRecord::LibName(s) | GdsRecord::StructName(s) | GdsRecord::StructRefName(s) | GdsRecord::String(s) | GdsRecord::RefLibs(s) | GdsRecord::Fonts(s)
//|                 | GdsRecord::AttrTable(s) | GdsRecord::PropValue(s) | GdsRecord::Mask(s) | GdsRecord::SrfName(s) => {
//|                     assert(string_bytes(s).take(string_bytes(s).len() as int) == string_bytes(s));
//|                 }
//|                 _ => {}
//|             }
//|             assert(self.dest@ =~= old(self).dest@ + payload(*record));
//|         }
//@ end
//@ fn gds21/src/write.rs :: impl<'wr> GdsWriter<'wr> :: fn write_record
//@   ret r
//@   spec
//|     requires payload(*record).len() < 0x7fff_ffff_ffff_ff00,
//|     ensures
//|         r is Ok ==> fits(*record) && final(self).dest@ == old(self).dest@ + rec_bytes(*record),
//|         !fits(*record) ==> r is Err && final(self).dest@ == old(self).dest@,
//@ end

//@ fn gds21/src/write.rs :: impl<'wr> GdsWriter<'wr> :: fn write_records
//@   ret r
//@   spec
//|     requires forall|i: int| 0 <= i < records@.len() ==> payload(#[trigger] records@[i]).len() < 0x7fff_ffff_ffff_ff00,
//|     ensures r is Ok ==> (forall|i: int| 0 <= i < records@.len() ==> fits(#[trigger] records@[i]))
//|             && final(self).dest@ == old(self).dest@ + recs_bytes(records@),
//@   loop 1 iter it
//|             invariant self.dest@ == old(self).dest@ + recs_bytes(records@.take(it.index@ as int)), it.index@ <= records@.len(),
//|                 forall|i: int| 0 <= i < it.index@ ==> fits(#[trigger] records@[i]),
//|                 forall|i: int| 0 <= i < records@.len() ==> payload(#[trigger] records@[i]).len() < 0x7fff_ffff_ffff_ff00,
//@   loopend 1
//|             proof {
//|                 assert(records@.take(it.index@ + 1) == records@.take(it.index@ as int).push(*r));
//|                 lemma_recs_push(records@.take(it.index@ as int), *r);
//|                 assert(self.dest@ =~= old(self).dest@ + recs_bytes(records@.take(it.index@ + 1)));
//|             }
//@   before /^        Ok\(\(\)\)$/
//|         proof { assert(records@.take(records@.len() as int) == records@); }
//@ end
}
}
fn main() {}
