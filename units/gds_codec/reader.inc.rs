// shared by units gds_codec and gds_parse: reader-side models, the format's decoder-view oracle, the record reader under contract
// =====================================================================================================
// READER models: std::io::Cursor<&[u8]> + byteorder::ReadBytesExt (assumptions; rule R5)
// =====================================================================================================
/// a positioned byte source; reads fail exactly when fewer bytes remain than requested (Cursor semantics)
pub struct Source { pub data: Vec<u8>, pub pos: usize }
impl Source {
    pub open spec fn rest(&self) -> Seq<u8> { self.data@.subrange(self.pos as int, self.data@.len() as int) }
    pub open spec fn wf(&self) -> bool { self.pos <= self.data@.len() }
    /// what every read guarantees: the underlying bytes never change, the position never moves backwards
    pub open spec fn step(&self, old: Source) -> bool { self.wf() && self.data@ == old.data@ && self.pos >= old.pos }
    #[verifier::external_body]
    pub fn read_u16<E>(&mut self) -> (r: Result<u16, IoError>)
        requires old(self).wf(),
        ensures final(self).step(*old(self)),
            r is Ok <==> old(self).rest().len() >= 2,
            r is Ok ==> final(self).pos == old(self).pos + 2 && r->Ok_0 == de16(old(self).rest()[0], old(self).rest()[1]),
    { unimplemented!() }
    #[verifier::external_body]
    pub fn read_u8(&mut self) -> (r: Result<u8, IoError>)
        requires old(self).wf(),
        ensures final(self).step(*old(self)),
            r is Ok <==> old(self).rest().len() >= 1,
            r is Ok ==> final(self).pos == old(self).pos + 1 && r->Ok_0 == old(self).rest()[0],
    { unimplemented!() }
    #[verifier::external_body]
    pub fn read_exact(&mut self, buf: &mut [u8]) -> (r: Result<(), IoError>)
        requires old(self).wf(),
        ensures final(self).step(*old(self)), final(buf)@.len() == old(buf)@.len(),
            r is Ok <==> old(self).rest().len() >= old(buf)@.len(),
            r is Ok ==> final(self).pos == old(self).pos + old(buf)@.len() && final(buf)@ == old(self).rest().take(old(buf)@.len() as int),
    { unimplemented!() }
    /// std::io::Read::read on a Cursor: copies as many bytes as are available (possibly fewer than requested, possibly none)
    #[verifier::external_body]
    pub fn read(&mut self, buf: &mut [u8]) -> (r: Result<usize, IoError>)
        requires old(self).wf(),
        ensures final(self).step(*old(self)), final(buf)@.len() == old(buf)@.len(), r is Ok,
            r->Ok_0 == (if old(self).rest().len() < old(buf)@.len() { old(self).rest().len() } else { old(buf)@.len() }),
            final(self).pos == old(self).pos + r->Ok_0,
            forall|i: int| 0 <= i < r->Ok_0 ==> #[trigger] final(buf)@[i] == old(self).rest()[i],
            forall|i: int| r->Ok_0 <= i < old(buf)@.len() ==> #[trigger] final(buf)@[i] == old(buf)@[i],
    { unimplemented!() }
    #[verifier::external_body]
    pub fn read_u64_into<E>(&mut self, dst: &mut [u64]) -> (r: Result<(), IoError>)
        requires old(self).wf(),
        ensures final(self).step(*old(self)), final(dst)@.len() == old(dst)@.len(),
            r is Ok <==> old(self).rest().len() >= 8 * old(dst)@.len(),
            r is Ok ==> final(self).pos == old(self).pos + 8 * old(dst)@.len()
                && forall|i: int| 0 <= i < old(dst)@.len() ==> #[trigger] final(dst)@[i] == de64(old(self).rest(), 8 * i),
    { unimplemented!() }
}

/// model of `impl Read for &[u8]` + byteorder::ReadBytesExt::read_*_into on an in-memory slice
pub assume_specification<T>[ <[T] as core::convert::AsRef<[T]>>::as_ref ](s: &[T]) -> (r: &[T]) ensures r@ == s@;
pub trait SliceReadExt {
    spec fn sview(&self) -> Seq<u8>;
    fn read_i16_into<E>(&mut self, dst: &mut [i16]) -> (r: Result<(), IoError>)
        ensures final(dst)@.len() == old(dst)@.len(),
            r is Ok <==> old(self).sview().len() >= 2 * old(dst)@.len(),
            r is Ok ==> forall|i: int| 0 <= i < old(dst)@.len() ==> #[trigger] final(dst)@[i] == de16(old(self).sview()[2 * i], old(self).sview()[2 * i + 1]) as i16;
    fn read_i32_into<E>(&mut self, dst: &mut [i32]) -> (r: Result<(), IoError>)
        ensures final(dst)@.len() == old(dst)@.len(),
            r is Ok <==> old(self).sview().len() >= 4 * old(dst)@.len(),
            r is Ok ==> forall|i: int| 0 <= i < old(dst)@.len() ==> #[trigger] final(dst)@[i]
                == de32(old(self).sview()[4 * i], old(self).sview()[4 * i + 1], old(self).sview()[4 * i + 2], old(self).sview()[4 * i + 3]) as i32;
}
impl SliceReadExt for &[u8] {
    open spec fn sview(&self) -> Seq<u8> { (*self)@ }
    #[verifier::external_body]
    fn read_i16_into<E>(&mut self, dst: &mut [i16]) -> (r: Result<(), IoError>) { unimplemented!() }
    #[verifier::external_body]
    fn read_i32_into<E>(&mut self, dst: &mut [i32]) -> (r: Result<(), IoError>) { unimplemented!() }
}
/// ASSUMED element-wise contract of the iterator idiom `u64s.into_iter().map(GdsFloat64::decode).collect()` (rule R6)
#[verifier::external_body]
pub fn vp_map_decode(u64s: Vec<u64>) -> (rv: Vec<f64>)
    ensures rv@.len() == u64s@.len(), forall|i: int| 0 <= i < u64s@.len() ==> #[trigger] rv@[i] == gds_dec(u64s@[i]),
{ u64s.into_iter().map(GdsFloat64::decode).collect() }
/// model of core::str::from_utf8 followed by `.into()`: the String with exactly these bytes, or an error when they are not UTF-8
#[verifier::external_body]
pub fn vp_from_utf8_into(b: &[u8]) -> (r: Result<String, Utf8Error>)
    ensures r is Ok <==> valid_utf8(b@), r is Ok ==> string_bytes(&r->Ok_0) == b@,
{ match std::str::from_utf8(b) { Ok(s) => Ok(s.into()), Err(_) => Err(Utf8Error) } }
impl vstd::std_specs::convert::FromSpecImpl<Utf8Error> for GdsError {
    open spec fn obeys_from_spec() -> bool { true }
    open spec fn from_spec(e: Utf8Error) -> GdsError { GdsError::Boxed(Box::new(IoError)) }
}
impl From<Utf8Error> for GdsError { fn from(e: Utf8Error) -> Self { Self::Boxed(Box::new(IoError)) } }

/// model of u16::from_be_bytes (std; its signature cannot be named in an assume_specification): big-endian decode
#[verifier::external_body]
pub fn vp_u16_from_be(b: [u8; 2]) -> (r: u16) ensures r == de16(b@[0], b@[1]) { u16::from_be_bytes(b) }
/// model of derive(FromPrimitive): from_u8(n) is the variant whose discriminant is n, if there is one
pub trait FromPrimitive: Sized {
    spec fn num(&self) -> u8;
    fn from_u8(n: u8) -> (r: Option<Self>)
        ensures match r { Some(v) => v.num() == n, None => forall|v: Self| #[trigger] v.num() != n };
}
impl FromPrimitive for GdsRecordType {
    open spec fn num(&self) -> u8 { *self as u8 }
    #[verifier::external_body]
    fn from_u8(n: u8) -> (r: Option<Self>) { unimplemented!() }
}
impl FromPrimitive for GdsDataType {
    open spec fn num(&self) -> u8 { *self as u8 }
    #[verifier::external_body]
    fn from_u8(n: u8) -> (r: Option<Self>) { unimplemented!() }
}


/// model of `Vec<T>::try_into::<[T; N]>().unwrap()`: the array with the same elements; the length match is an OBLIGATION (requires)
#[verifier::external_body]
pub fn vp_to_array<const N: usize>(v: Vec<i16>) -> (r: [i16; N])
    requires v@.len() == N,
    ensures r@ == v@,
{ v.try_into().unwrap() }
/// the record-type numbering of the manual (appendix A), 0x00..0x3B: witness that every number in range names a record type
proof fn lemma_rtype_of(n: u8) -> (v: GdsRecordType) requires n <= 0x3B ensures v as u8 == n, v.num() == n {
    match n {
        0x00 => GdsRecordType::Header,
        0x01 => GdsRecordType::BgnLib,
        0x02 => GdsRecordType::LibName,
        0x03 => GdsRecordType::Units,
        0x04 => GdsRecordType::EndLib,
        0x05 => GdsRecordType::BgnStruct,
        0x06 => GdsRecordType::StructName,
        0x07 => GdsRecordType::EndStruct,
        0x08 => GdsRecordType::Boundary,
        0x09 => GdsRecordType::Path,
        0x0A => GdsRecordType::StructRef,
        0x0B => GdsRecordType::ArrayRef,
        0x0C => GdsRecordType::Text,
        0x0D => GdsRecordType::Layer,
        0x0E => GdsRecordType::DataType,
        0x0F => GdsRecordType::Width,
        0x10 => GdsRecordType::Xy,
        0x11 => GdsRecordType::EndElement,
        0x12 => GdsRecordType::StructRefName,
        0x13 => GdsRecordType::ColRow,
        0x14 => GdsRecordType::TextNode,
        0x15 => GdsRecordType::Node,
        0x16 => GdsRecordType::TextType,
        0x17 => GdsRecordType::Presentation,
        0x18 => GdsRecordType::Spacing,
        0x19 => GdsRecordType::String,
        0x1A => GdsRecordType::Strans,
        0x1B => GdsRecordType::Mag,
        0x1C => GdsRecordType::Angle,
        0x1D => GdsRecordType::Uinteger,
        0x1E => GdsRecordType::Ustring,
        0x1F => GdsRecordType::RefLibs,
        0x20 => GdsRecordType::Fonts,
        0x21 => GdsRecordType::PathType,
        0x22 => GdsRecordType::Generations,
        0x23 => GdsRecordType::AttrTable,
        0x24 => GdsRecordType::StypTable,
        0x25 => GdsRecordType::StrType,
        0x26 => GdsRecordType::ElemFlags,
        0x27 => GdsRecordType::ElemKey,
        0x28 => GdsRecordType::LinkType,
        0x29 => GdsRecordType::LinkKeys,
        0x2A => GdsRecordType::Nodetype,
        0x2B => GdsRecordType::PropAttr,
        0x2C => GdsRecordType::PropValue,
        0x2D => GdsRecordType::Box,
        0x2E => GdsRecordType::BoxType,
        0x2F => GdsRecordType::Plex,
        0x30 => GdsRecordType::BeginExtn,
        0x31 => GdsRecordType::EndExtn,
        0x32 => GdsRecordType::TapeNum,
        0x33 => GdsRecordType::TapeCode,
        0x34 => GdsRecordType::StrClass,
        0x35 => GdsRecordType::Reserved,
        0x36 => GdsRecordType::Format,
        0x37 => GdsRecordType::Mask,
        0x38 => GdsRecordType::EndMasks,
        0x39 => GdsRecordType::LibDirSize,
        0x3A => GdsRecordType::SrfName,
        0x3B => GdsRecordType::LibSecur,
        _ => GdsRecordType::LibSecur,
    }
}
proof fn lemma_dtype_of(n: u8) -> (v: GdsDataType) requires n <= 6 ensures v as u8 == n, v.num() == n {
    match n { 0 => GdsDataType::NoData, 1 => GdsDataType::BitArray, 2 => GdsDataType::I16, 3 => GdsDataType::I32, 4 => GdsDataType::F32, 5 => GdsDataType::F64, _ => GdsDataType::Str }
}
proof fn lemma_rtype_range(v: GdsRecordType) ensures v as u8 <= 0x3B {}
proof fn lemma_dtype_range(v: GdsDataType) ensures v as u8 <= 6 {}


// =====================================================================================================
// READER (gds21/src/read.rs), extracted
// =====================================================================================================
//@ item gds21/src/read.rs :: const READER_BUFSIZE
//@ end
//@ item gds21/src/read.rs :: struct GdsReader
//@   sub R5 /GdsReader<R>/ => GdsReader
//@   sub R5 /source: R,/ => pub source: Source,
//@   sub R4 /\n    buf:/ => \n    pub buf:
//@ end
impl GdsRecordType {
//@ fn gds21/src/data.rs :: impl GdsRecordType :: fn valid
//@   ret r
//@   spec
//|     ensures r == valid_rec_num(*self as u8),
//@ end
}
impl GdsReader {
//@ fn gds21/src/read.rs :: impl<R> GdsReader<R> :: fn read_record_header
//@   sub R5? /u16::from_be_bytes\(/ => vp_u16_from_be(
//@   ret r
//@   spec
//|     requires old(self).source.wf(),
//|     ensures final(self).source.step(old(self).source),
//|         // accepted exactly when the next four bytes form a header the format allows
//|         r is Ok <==> header_ok(old(self).source.rest()),
//|         r is Ok ==> ({
//|             let b = old(self).source.rest(); let h = r->Ok_0;
//|             &&& final(self).source.pos == old(self).source.pos + 4
//|             &&& h.len == de16(b[0], b[1]) - 4 &&& h.len % 2 == 0
//|             &&& h.rtype as u8 == b[2] &&& h.dtype as u8 == b[3]
//|         }),
//@   before /let record_type: GdsRecordType =/
//|         proof { if record_type <= 0x3B { let w = lemma_rtype_of(record_type); } }
//@   before /let data_type =\s*$/
//|         proof { if data_type <= 6 { let w = lemma_dtype_of(data_type); } }
//@   before /Ok\(GdsRecordHeader \{/
//|         proof { lemma_rtype_range(record_type); lemma_dtype_range(data_type); }
//@ end

//@ fn gds21/src/read.rs :: impl<R> GdsReader<R> :: fn read_bytes
//@   ret r
//@   sub R5 /std::io::Error/ => IoError
//@   spec
//|     requires old(self).source.wf(),
//|     ensures final(self).source.step(old(self).source),
//|         r is Ok <==> old(self).source.rest().len() >= len,
//|         r is Ok ==> final(self).source.pos == old(self).source.pos + len && r->Ok_0@ == old(self).source.rest().take(len as int),
//@   sub R10 /&mut rv\[0\.\.len\]/ => &mut rv.as_mut_slice()[0..len]
//@   before /^        Ok\(rv\)$/
//|         proof { assert(rv@ =~= old(self).source.rest().take(len as int)); }
//@ end
//@ fn gds21/src/read.rs :: impl<R> GdsReader<R> :: fn read_i16
//@   ret r
//@   sub R5 /std::io::Error/ => IoError
//@   spec
//|     requires old(self).source.wf(),
//|     ensures final(self).source.step(old(self).source),
//|         r is Ok <==> old(self).source.rest().len() >= len,
//|         r is Ok ==> final(self).source.pos == old(self).source.pos + len && r->Ok_0@.len() == len / 2
//|             && forall|i: int| 0 <= i < len / 2 ==> #[trigger] r->Ok_0@[i] == de16(old(self).source.rest()[2 * i], old(self).source.rest()[2 * i + 1]) as i16,
//@ end
//@ fn gds21/src/read.rs :: impl<R> GdsReader<R> :: fn read_i32
//@   ret r
//@   sub R5 /std::io::Error/ => IoError
//@   spec
//|     requires old(self).source.wf(),
//|     ensures final(self).source.step(old(self).source),
//|         r is Ok <==> old(self).source.rest().len() >= len,
//|         r is Ok ==> final(self).source.pos == old(self).source.pos + len && r->Ok_0@.len() == len / 4
//|             && forall|i: int| 0 <= i < len / 4 ==> #[trigger] r->Ok_0@[i]
//|                 == de32(old(self).source.rest()[4 * i], old(self).source.rest()[4 * i + 1], old(self).source.rest()[4 * i + 2], old(self).source.rest()[4 * i + 3]) as i32,
//@ end
//@ fn gds21/src/read.rs :: impl<R> GdsReader<R> :: fn read_f64
//@   ret r
//@   sub R6 /u64s\.into_iter\(\)\.map\(GdsFloat64::decode\)\.collect\(\)/ => vp_map_decode(u64s)
//@   let u64s : Vec<u64>
//@   spec
//|     requires old(self).source.wf(),
//|     ensures final(self).source.step(old(self).source),
//|         r is Ok <==> old(self).source.rest().len() >= 8 * (len / 8),
//|         r is Ok ==> final(self).source.pos == old(self).source.pos + 8 * (len / 8) && r->Ok_0@.len() == len / 8
//|             && forall|i: int| 0 <= i < len / 8 ==> #[trigger] r->Ok_0@[i] == gds_dec(de64(old(self).source.rest(), 8 * i)),
//@ end
//@ fn gds21/src/read.rs :: impl<R> GdsReader<R> :: fn read_str
//@   ret r
//@   sub R5 /std::str::from_utf8\(([^;]*?)\)\?\.into\(\)/ => vp_from_utf8_into(\1)?
//@   spec
//|     requires old(self).source.wf(),
//|     ensures final(self).source.step(old(self).source),
//|         r is Ok <==> old(self).source.rest().len() >= len && valid_utf8(strip_nul(old(self).source.rest().take(len as int))),
//|         r is Ok ==> final(self).source.pos == old(self).source.pos + len
//|             && string_bytes(&r->Ok_0) == strip_nul(old(self).source.rest().take(len as int)),
//@ end

//@ fn gds21/src/read.rs :: impl<R> GdsReader<R> :: fn read_record_content
//@   attr #[verifier::spinoff_prover] #[verifier::rlimit(100)]
//@   ret r
//@   sub R5 /self\.read_i16\(24\)\?\.try_into\(\)\.unwrap\(\)/ => vp_to_array::<12>(self.read_i16(24)?)
//@   sub R5 /self\.read_i16\(12\)\?\.try_into\(\)\.unwrap\(\)/ => vp_to_array::<6>(self.read_i16(12)?)
//@   spec
//|     requires old(self).source.wf(),
//|     ensures final(self).source.step(old(self).source),
//|         r is Ok ==> ({
//|             let b = old(self).source.rest(); let rec = r->Ok_0;
//|             &&& b.len() >= header.len &&& final(self).source.pos == old(self).source.pos + header.len
//|             &&& rec_num(rec) == header.rtype as u8 &&& rec_dtype(rec) == header.dtype as u8
//|             &&& payload_matches(rec, b.take(header.len as int))
//|         }),
//|         // every row of the format's table with its payload present is decoded (strings must be UTF-8) ...
//|         (table_row(header.rtype as u8, header.dtype as u8, header.len as int) && old(self).source.rest().len() >= header.len
//|             && (header.dtype as u8 == 6 ==> valid_utf8(strip_nul(old(self).source.rest().take(header.len as int))))) ==> r is Ok,
//|         // ... and anything that is not a row of the table is refused
//|         !table_row(header.rtype as u8, header.dtype as u8, header.len as int) ==> r is Err,
//@ end
//@ fn gds21/src/read.rs :: impl<R> GdsReader<R> :: fn read_record
//@   ret r
//@   spec
//|     requires old(self).source.wf(),
//|     ensures final(self).source.step(old(self).source),
//|         r is Ok ==> ({
//|             let b = old(self).source.rest(); let rec = r->Ok_0; let n = (de16(b[0], b[1]) - 4) as int;
//|             &&& header_ok(b) &&& b.len() >= 4 + n &&& final(self).source.pos == old(self).source.pos + 4 + n
//|             &&& rec_num(rec) == b[2] &&& rec_dtype(rec) == b[3]
//|             &&& payload_matches(rec, b.subrange(4, 4 + n))
//|         }),
//|         ({
//|             let b = old(self).source.rest(); let n = (de16(b[0], b[1]) - 4) as int;
//|             (header_ok(b) && table_row(b[2], b[3], n) && b.len() >= 4 + n && (b[3] == 6 ==> valid_utf8(strip_nul(b.subrange(4, 4 + n))))) ==> r is Ok
//|         }),
//@   before1 /And read the content|self\.read_record_content\(&header\)/
//|         proof {
//|             let b = old(self).source.rest();
//|             assert(self.source.rest() =~= b.subrange(4, b.len() as int));
//|             if b.len() >= 4 + header.len {
//|                 assert(self.source.rest().take(header.len as int) =~= b.subrange(4, 4 + header.len));
//|             }
//|         }
//@ end
}
