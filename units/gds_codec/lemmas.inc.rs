// shared by units gds_codec and gds_tree: spec-level lemmas connecting the encoder oracle, the decoder oracle and the byte stream
// =====================================================================================================
// COMPOSITION LEMMAS (spec level): what the writer emits is what the reader accepts, and decodes to the same content
// =====================================================================================================
proof fn lemma_be16_rt(v: u16) ensures de16(be16(v)[0], be16(v)[1]) == v, be16(v).len() == 2 {
    assert(((((v >> 8) as u8) as u16) << 8) | (((v & 0xff) as u8) as u16) == v) by (bit_vector);
}
proof fn lemma_be16_rt_i16(d: i16) ensures de16(be16(d as u16)[0], be16(d as u16)[1]) as i16 == d {
    lemma_be16_rt(d as u16);
    assert(((d as u16) as i16) == d) by (bit_vector);
}
proof fn lemma_be32_rt(v: u32) ensures de32(be32(v)[0], be32(v)[1], be32(v)[2], be32(v)[3]) == v, be32(v).len() == 4 {
    assert(((((v >> 24) as u8) as u32) << 24) | (((((v >> 16) & 0xff) as u8) as u32) << 16) | (((((v >> 8) & 0xff) as u8) as u32) << 8) | (((v & 0xff) as u8) as u32) == v) by (bit_vector);
}
proof fn lemma_be32_rt_i32(d: i32) ensures de32(be32(d as u32)[0], be32(d as u32)[1], be32(d as u32)[2], be32(d as u32)[3]) as i32 == d {
    lemma_be32_rt(d as u32);
    assert(((d as u32) as i32) == d) by (bit_vector);
}
proof fn lemma_be64_rt(v: u64) ensures de64(be64(v), 0) == v, be64(v).len() == 8 {
    let hi = (v >> 32) as u32; let lo = (v & 0xffff_ffff) as u32;
    lemma_be32_rt(hi); lemma_be32_rt(lo);
    let b = be64(v);
    assert(b[0] == be32(hi)[0] && b[1] == be32(hi)[1] && b[2] == be32(hi)[2] && b[3] == be32(hi)[3]);
    assert(b[4] == be32(lo)[0] && b[5] == be32(lo)[1] && b[6] == be32(lo)[2] && b[7] == be32(lo)[3]);
    assert(((((v >> 32) as u32) as u64) << 32) | (((v & 0xffff_ffff) as u32) as u64) == v) by (bit_vector);
}
proof fn lemma_i16s_at(s: Seq<i16>, i: int) requires 0 <= i < s.len() ensures i16_at(i16s_bytes(s), i) == s[i], i16s_bytes(s).len() == 2 * s.len()
    decreases s.len()
{
    lemma_i16s_len(s); lemma_i16s_len(s.drop_last());
    let p = i16s_bytes(s.drop_last());
    if i < s.len() - 1 { lemma_i16s_at(s.drop_last(), i); assert(i16s_bytes(s)[2 * i] == p[2 * i]); assert(i16s_bytes(s)[2 * i + 1] == p[2 * i + 1]); }
    else { lemma_be16_rt_i16(s.last()); assert(i16s_bytes(s)[2 * i] == be16(s.last() as u16)[0]); assert(i16s_bytes(s)[2 * i + 1] == be16(s.last() as u16)[1]); }
}
proof fn lemma_i32s_at(s: Seq<i32>, i: int) requires 0 <= i < s.len() ensures i32_at(i32s_bytes(s), i) == s[i], i32s_bytes(s).len() == 4 * s.len()
    decreases s.len()
{
    lemma_i32s_len(s); lemma_i32s_len(s.drop_last());
    let p = i32s_bytes(s.drop_last()); let q = i32s_bytes(s);
    if i < s.len() - 1 { lemma_i32s_at(s.drop_last(), i); assert(q[4 * i] == p[4 * i] && q[4 * i + 1] == p[4 * i + 1] && q[4 * i + 2] == p[4 * i + 2] && q[4 * i + 3] == p[4 * i + 3]); }
    else { let e = be32(s.last() as u32); lemma_be32_rt_i32(s.last()); assert(q[4 * i] == e[0] && q[4 * i + 1] == e[1] && q[4 * i + 2] == e[2] && q[4 * i + 3] == e[3]); }
}
/// contract of the real codec imported from the Kani unit gds_real (C15): in range (or zero) => decode(encode(x)) == x
pub uninterp spec fn gds_in_range(x: f64) -> bool;
#[verifier::external_body]
proof fn axiom_gds_real_roundtrip(x: f64) requires gds_in_range(x) ensures gds_dec(gds_enc(x)) == x {}
pub open spec fn reals_ok(r: GdsRecord) -> bool {
    match r { GdsRecord::Mag(x) | GdsRecord::Angle(x) => gds_in_range(x), GdsRecord::Units(x, y) => gds_in_range(x) && gds_in_range(y), _ => true }
}
proof fn lemma_strip_padded(sb: Seq<u8>) requires sb.len() == 0 || sb.last() != 0u8 ensures strip_nul(padded(sb)) == sb {
    if sb.len() % 2 != 0 { assert(sb.push(0u8).drop_last() == sb); }
}
/// (a) C01/C03: a record the writer accepts is a row of the format's table and its payload decodes to the same record
proof fn lemma_payload_roundtrip(rec: GdsRecord)
    requires writable(rec), reals_ok(rec),
    ensures payload_matches(rec, payload(rec)), table_row(rec_num(rec), rec_dtype(rec), payload(rec).len() as int),
        rec_dtype(rec) == 6 ==> valid_utf8(strip_nul(payload(rec))),
{
    lemma_payload_len(rec);
    match rec {
        GdsRecord::Header { version: d } | GdsRecord::Layer(d) | GdsRecord::DataType(d) | GdsRecord::TextType(d) | GdsRecord::PathType(d) | GdsRecord::Generations(d)
        | GdsRecord::Nodetype(d) | GdsRecord::PropAttr(d) | GdsRecord::BoxType(d) | GdsRecord::TapeNum(d) | GdsRecord::Format(d) | GdsRecord::LibDirSize(d)
        | GdsRecord::LibSecur(d) => { lemma_be16_rt_i16(d); }
        GdsRecord::BgnLib { dates: d } | GdsRecord::BgnStruct { dates: d } => {
            assert forall|i: int| 0 <= i < 12 implies #[trigger] d@[i] == i16_at(i16s_bytes(d@), i) by { lemma_i16s_at(d@, i); }
        }
        GdsRecord::TapeCode(d) => {
            assert forall|i: int| 0 <= i < 6 implies #[trigger] d@[i] == i16_at(i16s_bytes(d@), i) by { lemma_i16s_at(d@, i); }
        }
        GdsRecord::ColRow { cols, rows } => {
            lemma_be16_rt_i16(cols); lemma_be16_rt_i16(rows);
            let b = be16(cols as u16) + be16(rows as u16);
            assert(b[0] == be16(cols as u16)[0] && b[1] == be16(cols as u16)[1] && b[2] == be16(rows as u16)[0] && b[3] == be16(rows as u16)[1]);
        }
        GdsRecord::Width(d) | GdsRecord::Plex(d) | GdsRecord::BeginExtn(d) | GdsRecord::EndExtn(d) => { lemma_be32_rt_i32(d); }
        GdsRecord::Xy(v) => {
            lemma_i32s_len(v@);
            assert forall|i: int| 0 <= i < v@.len() implies #[trigger] v@[i] == i32_at(i32s_bytes(v@), i) by { lemma_i32s_at(v@, i); }
        }
        GdsRecord::Mag(x) | GdsRecord::Angle(x) => { lemma_be64_rt(gds_enc(x)); axiom_gds_real_roundtrip(x); }
        GdsRecord::Units(x, y) => {
            lemma_be64_rt(gds_enc(x)); lemma_be64_rt(gds_enc(y)); axiom_gds_real_roundtrip(x); axiom_gds_real_roundtrip(y);
            let b = be64(gds_enc(x)) + be64(gds_enc(y));
            assert forall|k: int| 0 <= k < 8 implies b[k] == be64(gds_enc(x))[k] && b[8 + k] == be64(gds_enc(y))[k] by {}
            assert(de64(b, 0) == de64(be64(gds_enc(x)), 0));
            assert(de64(b, 8) == de64(be64(gds_enc(y)), 0));
        }
        GdsRecord::LibName(s) | GdsRecord::StructName(s) | GdsRecord::StructRefName(s) | GdsRecord::String(s) | GdsRecord::RefLibs(s) | GdsRecord::Fonts(s)
        | GdsRecord::AttrTable(s) | GdsRecord::PropValue(s) | GdsRecord::Mask(s) | GdsRecord::SrfName(s) => {
            lemma_strip_padded(string_bytes(&s));
            encode_utf8_valid_utf8(s@);
        }
        _ => {}
    }
}
/// (a') C02/C03: the four header bytes the writer emits are a header the reader accepts, with the right length, type and data type
proof fn lemma_header_roundtrip(rec: GdsRecord)
    requires fits(rec),
    ensures ({
        let b = rec_bytes(rec);
        &&& header_ok(b) &&& de16(b[0], b[1]) - 4 == payload(rec).len() &&& b[2] == rec_num(rec) &&& b[3] == rec_dtype(rec)
        &&& b.subrange(4, 4 + payload(rec).len() as int) == payload(rec)
        // C02: length field even, >= 4, equal to the bytes present
        &&& de16(b[0], b[1]) % 2 == 0 &&& de16(b[0], b[1]) >= 4 &&& de16(b[0], b[1]) == b.len()
    }),
{
    lemma_payload_len(rec);
    let n = (payload(rec).len() + 4) as u16;
    lemma_be16_rt(n);
    let b = rec_bytes(rec);
    assert(b[0] == be16(n)[0] && b[1] == be16(n)[1]);
    assert(b.subrange(4, 4 + payload(rec).len() as int) =~= payload(rec));
}


/// the integer fields as the decoder determines them from the payload
pub open spec fn ints_of_dt(dt: u8, b: Seq<u8>) -> Seq<int> {
    match dt {
        1 => seq![b[0] as int, b[1] as int],
        2 => Seq::new((b.len() / 2) as nat, |i: int| i16_at(b, i) as int),
        3 => Seq::new((b.len() / 4) as nat, |i: int| i32_at(b, i) as int),
        _ => Seq::<int>::empty(),
    }
}
pub open spec fn ints_of(r: GdsRecord, b: Seq<u8>) -> Seq<int> { ints_of_dt(rec_dtype(r), b) }
pub open spec fn reals_of_dt(dt: u8, b: Seq<u8>) -> Seq<f64> {
    if dt == 5 { if b.len() == 8 { seq![gds_dec(de64(b, 0))] } else { seq![gds_dec(de64(b, 0)), gds_dec(de64(b, 8))] } } else { Seq::<f64>::empty() }
}
pub open spec fn reals_of(r: GdsRecord, b: Seq<u8>) -> Seq<f64> { reals_of_dt(rec_dtype(r), b) }
/// (b) a payload determines the content: whatever record matches these bytes under this record number has exactly these fields
proof fn lemma_decode_determined(r: GdsRecord, b: Seq<u8>)
    requires payload_matches(r, b),
    ensures content(r) == (rec_num(r), ints_of(r, b), if rec_dtype(r) == 6 { strip_nul(b) } else { Seq::<u8>::empty() }, reals_of(r, b)),
{
    match r {
        GdsRecord::Presentation(x, y) | GdsRecord::Strans(x, y) | GdsRecord::ElemFlags(x, y) => { assert(content(r).1 =~= ints_of(r, b)); }
        GdsRecord::Header { version: d } | GdsRecord::Layer(d) | GdsRecord::DataType(d) | GdsRecord::TextType(d) | GdsRecord::PathType(d) | GdsRecord::Generations(d)
        | GdsRecord::Nodetype(d) | GdsRecord::PropAttr(d) | GdsRecord::BoxType(d) | GdsRecord::TapeNum(d) | GdsRecord::Format(d) | GdsRecord::LibDirSize(d)
        | GdsRecord::LibSecur(d) => { assert(content(r).1 =~= ints_of(r, b)); }
        GdsRecord::BgnLib { dates: d } => {
            assert forall|i: int| 0 <= i < 12 implies content(r).1[i] == ints_of(r, b)[i] by { assert(d@[i] == i16_at(b, i)); }
            assert(content(r).1 =~= ints_of(r, b));
        }
        GdsRecord::BgnStruct { dates: d } => {
            assert forall|i: int| 0 <= i < 12 implies content(r).1[i] == ints_of(r, b)[i] by { assert(d@[i] == i16_at(b, i)); }
            assert(content(r).1 =~= ints_of(r, b));
        }
        GdsRecord::TapeCode(d) => {
            assert forall|i: int| 0 <= i < 6 implies content(r).1[i] == ints_of(r, b)[i] by { assert(d@[i] == i16_at(b, i)); }
            assert(content(r).1 =~= ints_of(r, b));
        }
        GdsRecord::ColRow { cols, rows } => { assert(content(r).1 =~= ints_of(r, b)); }
        GdsRecord::Width(d) | GdsRecord::Plex(d) | GdsRecord::BeginExtn(d) | GdsRecord::EndExtn(d) => { assert(content(r).1 =~= ints_of(r, b)); }
        GdsRecord::Xy(v) => { assert(content(r).1 =~= ints_of(r, b)); }
        GdsRecord::Mag(x) | GdsRecord::Angle(x) => { assert(content(r).3 =~= reals_of(r, b)); }
        GdsRecord::Units(x, y) => { assert(content(r).3 =~= reals_of(r, b)); }
        _ => {}
    }
}
proof fn lemma_decode_unique(r1: GdsRecord, r2: GdsRecord, b: Seq<u8>)
    requires payload_matches(r1, b), payload_matches(r2, b), rec_num(r1) == rec_num(r2), rec_dtype(r1) == rec_dtype(r2),
    ensures content(r1) == content(r2),
{
    lemma_decode_determined(r1, b); lemma_decode_determined(r2, b);
}

// =====================================================================================================
// STREAM level: an independent spec decoder of a whole byte stream, and "appending a written record appends its content"
// =====================================================================================================
pub open spec fn rec_total(b: Seq<u8>) -> int { de16(b[0], b[1]) as int }
/// content of the record at the head of `b`, decoded from the bytes alone (record number, data type, payload)
pub open spec fn content_of_bytes(b: Seq<u8>) -> (u8, Seq<int>, Seq<u8>, Seq<f64>) {
    let p = b.subrange(4, rec_total(b));
    (b[2], ints_of_dt(b[3], p), if b[3] == 6 { strip_nul(p) } else { Seq::<u8>::empty() }, reals_of_dt(b[3], p))
}
/// `b` is a sequence of complete, well-headed records
pub open spec fn wf_stream(b: Seq<u8>) -> bool
    decreases b.len()
{
    b.len() == 0 || (b.len() >= 4 && header_ok(b) && b.len() >= rec_total(b) && wf_stream(b.skip(rec_total(b))))
}
/// THE INDEPENDENT DECODER (C02): the contents of the records of a stream, read front to back from the bytes alone
pub open spec fn cstream(b: Seq<u8>) -> Seq<(u8, Seq<int>, Seq<u8>, Seq<f64>)>
    decreases b.len()
{
    if b.len() < 4 || !header_ok(b) || b.len() < rec_total(b) { Seq::empty() }
    else { seq![content_of_bytes(b)] + cstream(b.skip(rec_total(b))) }
}
/// one written record is a well-formed stream of one record with exactly that record's content
proof fn lemma_stream_one(r: GdsRecord)
    requires writable(r), reals_ok(r),
    ensures wf_stream(rec_bytes(r)), cstream(rec_bytes(r)) == seq![content(r)], rec_bytes(r).len() >= 4,
{
    let b = rec_bytes(r);
    lemma_header_roundtrip(r);
    lemma_payload_roundtrip(r);
    lemma_decode_determined(r, payload(r));
    lemma_payload_len(r);
    assert(rec_total(b) == b.len());
    assert(b.skip(rec_total(b)) =~= Seq::<u8>::empty());
    assert(b.subrange(4, rec_total(b)) == payload(r));
    assert(content_of_bytes(b) == content(r));
    assert(wf_stream(b.skip(rec_total(b))));
    assert(cstream(b.skip(rec_total(b))) =~= Seq::empty());
    assert(cstream(b) =~= seq![content(r)]);
}
/// decoding is compositional over concatenation of well-formed streams
proof fn lemma_stream_append(b: Seq<u8>, x: Seq<u8>)
    requires wf_stream(b), wf_stream(x),
    ensures wf_stream(b + x), cstream(b + x) == cstream(b) + cstream(x),
    decreases b.len()
{
    if b.len() == 0 {
        assert(b + x =~= x);
        assert(cstream(b) =~= Seq::empty());
        assert(cstream(b) + cstream(x) =~= cstream(x));
    } else {
        let n = rec_total(b);
        let c = b + x;
        assert(c[0] == b[0] && c[1] == b[1] && c[2] == b[2] && c[3] == b[3]);
        assert(header_ok(c));
        assert(rec_total(c) == n);
        assert(c.skip(n) =~= b.skip(n) + x);
        assert(c.subrange(4, n) =~= b.subrange(4, n));
        assert(content_of_bytes(c) == content_of_bytes(b));
        lemma_stream_append(b.skip(n), x);
        assert(cstream(c) =~= cstream(b) + cstream(x));
    }
}
/// C02, end to end at the byte level: appending what write_record writes appends exactly that record's content to the decoded stream
proof fn lemma_stream_push(b: Seq<u8>, r: GdsRecord)
    requires wf_stream(b), writable(r), reals_ok(r),
    ensures wf_stream(b + rec_bytes(r)), cstream(b + rec_bytes(r)) == cstream(b).push(content(r)),
{
    lemma_stream_one(r);
    lemma_stream_append(b, rec_bytes(r));
    assert(cstream(b) + seq![content(r)] =~= cstream(b).push(content(r)));
}
