// shared by units gds_codec and gds_tree: the record writer under contract
// =====================================================================================================
// WRITER (gds21/src/write.rs), extracted
// =====================================================================================================
//@ item gds21/src/write.rs :: struct GdsWriter
//@   sub R5 /GdsWriter<'wr>/ => GdsWriter
//@   sub R5 /dest: Box<dyn Write \+ 'wr>/ => pub dest: Dest
//@ end
impl GdsWriter {
//@ fn gds21/src/write.rs :: impl<'wr> GdsWriter<'wr> :: fn write_record_header
//@   ret r
//@   sub R5 /\|s: &str\| -> usize \{ s\.len\(\) \+ s\.len\(\) % 2 \}/ => |s: &String| -> (n: usize) requires string_bytes(s).len() < 0x7fff_ffff_ffff_ffff ensures n == padded(string_bytes(s)).len() { s.len() + s.len() % 2 }
//@   spec
//|     requires payload(*record).len() < 0x7fff_ffff_ffff_ff00,
//|     ensures
//|         r is Ok ==> writable(*record) && final(self).dest@ == old(self).dest@ + header_bytes(*record),
//|         !writable(*record) ==> r is Err && final(self).dest@ == old(self).dest@,
//@   before /let \(rtype, dtype, len\) = match record/
//|         proof { lemma_payload_len(*record); }
//@   before1 /Send those header-bytes to the writer|match u16::try_from\(len \+ 4\)/
//|         proof {
//|             assert(len == payload(*record).len());
//|             assert(rtype as u8 == rec_num(*record));
//|             assert(dtype as u8 == rec_dtype(*record));
//|         }
//@ end

//@ fn gds21/src/write.rs :: impl<'wr> GdsWriter<'wr> :: fn write_record_content
//@   sub R5? /(\w+)\.to_be_bytes\(\)/ => vp_i32_to_be(\1)
//@   ret r
//@   spec
//|     ensures r is Ok ==> final(self).dest@ == old(self).dest@ + payload(*record),
//@   loop 1 iter it
//|                 invariant self.dest@ == old(self).dest@ + i16s_bytes(d@.take(it.index@ as int)), it.index@ <= 12,
//@   loopend 1
//|                     proof { lemma_i16s_push(d@.take(it.index@ as int), *val); assert(d@.take(it.index@ + 1) == d@.take(it.index@ as int).push(*val)); }
//@   loop 2 iter it
//|                 invariant self.dest@ == old(self).dest@ + i16s_bytes(d@.take(it.index@ as int)), it.index@ <= 6,
//@   loopend 2
//|                     proof { lemma_i16s_push(d@.take(it.index@ as int), *val); assert(d@.take(it.index@ + 1) == d@.take(it.index@ as int).push(*val)); }
//@   loop 3 iter it
//|                 invariant self.dest@ == old(self).dest@ + i32s_bytes(d@.take(it.index@ as int)), it.index@ <= d@.len(),
//@   loopend 3
//|                     proof { lemma_i32s_push(d@.take(it.index@ as int), *val); assert(d@.take(it.index@ + 1) == d@.take(it.index@ as int).push(*val)); }
//@   loop 4 iter it
//|                 invariant self.dest@ == old(self).dest@ + string_bytes(s).take(it.index@ as int), it.index@ <= string_bytes(s).len(),
//@   loopend 4
//|                     proof { assert(string_bytes(s).take(it.index@ + 1) == string_bytes(s).take(it.index@ as int).push(*b)); }
//@   before /^        Ok\(\(\)\)$/
//|         proof {
//|             match record {
//|                 GdsRecord::BgnLib { dates: d } | GdsRecord::BgnStruct { dates: d } => { assert(d@.take(12) == d@); }
//|                 GdsRecord::TapeCode(d) => { assert(d@.take(6) == d@); }
//|                 GdsRecord::Xy(d) => { assert(d@.take(d@.len() as int) == d@); }
//|                 GdsRecord::LibName(s) | GdsRecord::StructName(s) | GdsRecord::StructRefName(s) | GdsRecord::String(s) | GdsRecord::RefLibs(s) | GdsRecord::Fonts(s)
//|                 | GdsRecord::AttrTable(s) | GdsRecord::PropValue(s) | GdsRecord::Mask(s) | GdsRecord::SrfName(s) => {
//|                     assert(string_bytes(s).take(string_bytes(s).len() as int) == string_bytes(s));
//|                 }
//|                 _ => {}
//|             }
//|             assert(self.dest@ =~= old(self).dest@ + payload(*record));
//|         }
//@ end
//@ fn gds21/src/write.rs :: impl<'wr> GdsWriter<'wr> :: fn write_record
//@   ret r
//@   spec
//|     requires payload(*record).len() < 0x7fff_ffff_ffff_ff00,
//|     ensures
//|         r is Ok ==> writable(*record) && final(self).dest@ == old(self).dest@ + rec_bytes(*record),
//|         !writable(*record) ==> r is Err && final(self).dest@ == old(self).dest@,
//@ end

//@ fn gds21/src/write.rs :: impl<'wr> GdsWriter<'wr> :: fn write_records
//@   ret r
//@   spec
//|     requires forall|i: int| 0 <= i < records@.len() ==> payload(#[trigger] records@[i]).len() < 0x7fff_ffff_ffff_ff00,
//|     ensures r is Ok ==> (forall|i: int| 0 <= i < records@.len() ==> writable(#[trigger] records@[i]))
//|             && final(self).dest@ == old(self).dest@ + recs_bytes(records@),
//@   loop 1 iter it
//|             invariant self.dest@ == old(self).dest@ + recs_bytes(records@.take(it.index@ as int)), it.index@ <= records@.len(),
//|                 forall|i: int| 0 <= i < it.index@ ==> writable(#[trigger] records@[i]),
//|                 forall|i: int| 0 <= i < records@.len() ==> payload(#[trigger] records@[i]).len() < 0x7fff_ffff_ffff_ff00,
//@   loopend 1
//|             proof {
//|                 assert(records@.take(it.index@ + 1) == records@.take(it.index@ as int).push(*r));
//|                 lemma_recs_push(records@.take(it.index@ as int), *r);
//|                 assert(self.dest@ =~= old(self).dest@ + recs_bytes(records@.take(it.index@ + 1)));
//|             }
//@   before /^        Ok\(\(\)\)$/
//|         proof { assert(records@.take(records@.len() as int) == records@); }
//@ end
}

