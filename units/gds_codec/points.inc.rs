// shared by units gds_codec and gds_tree: GdsPoint list conversions under contract
// =====================================================================================================
// POINT LISTS (gds21/src/data.rs), extracted
// =====================================================================================================
//@ item gds21/src/data.rs :: struct GdsPoint
//@   derive Clone
//@ end
/// the XY payload of a point list: x0 y0 x1 y1 ...
pub open spec fn xy_of(p: Seq<GdsPoint>, v: Seq<i32>) -> bool {
    v.len() == 2 * p.len() && forall|k: int| 0 <= k < p.len() ==> v[2 * k] == (#[trigger] p[k]).x && v[2 * k + 1] == p[k].y
}
impl GdsPoint {
//@ fn gds21/src/data.rs :: impl GdsPoint :: fn new
//@   ret r
//@   spec
//|     ensures r.x == x, r.y == y,
//@ end
//@ fn gds21/src/data.rs :: impl GdsPoint :: fn parse
//@   ret r
//@   sub R7 /"GdsPoint coordinate vector: Invalid number of elements"\.into\(\)/ => String::new()
//@   spec
//|     ensures from@.len() != 2 ==> r is Err,
//|             from@.len() == 2 ==> r is Ok && r->Ok_0.x == from@[0] && r->Ok_0.y == from@[1],
//@ end
//@ fn gds21/src/data.rs :: impl GdsPoint :: fn parse_vec
//@   ret r
//@   sub R7 /"GdsPoint coordinate vector: Invalid number of elements"\.into\(\)/ => String::new()
//@   let rv : Vec<GdsPoint>
//@   spec
//|     ensures from@.len() % 2 != 0 ==> r is Err,
//|             from@.len() % 2 == 0 ==> r is Ok && xy_of(r->Ok_0@, from@),
//@   loop 1
//|             invariant rv@.len() == i, from@.len() % 2 == 0,
//|                 forall|k: int| 0 <= k < i ==> (#[trigger] rv@[k]).x == from@[2 * k] && rv@[k].y == from@[2 * k + 1],
//@ end
//@ fn gds21/src/data.rs :: impl GdsPoint :: fn flatten
//@   ret r
//@   spec
//|     ensures r@ == seq![self.x, self.y],
//@ end
//@ fn gds21/src/data.rs :: impl GdsPoint :: fn flatten_vec
//@   ret rv
//@   let rv : Vec<i32>
//@   spec
//|     requires src@.len() < 0x3fff_ffff_ffff_ffff,
//|     ensures xy_of(src@, rv@),
//@   loop 1 iter it
//|             invariant rv@.len() == 2 * it.index@,
//|                 forall|k: int| 0 <= k < it.index@ ==> rv@[2 * k] == (#[trigger] src@[k]).x && rv@[2 * k + 1] == src@[k].y,
//@ end
}
/// C01 layer 1: parse_vec inverts flatten_vec (both contracts are stated over the whole sequence)
proof fn lemma_points_roundtrip(p: Seq<GdsPoint>, q: Seq<GdsPoint>, v: Seq<i32>)
    requires xy_of(p, v), xy_of(q, v),
    ensures p =~= q,
{
    assert(p.len() == q.len());
    assert forall|k: int| 0 <= k < p.len() implies p[k] == q[k] by { assert(p[k].x == v[2 * k] && q[k].x == v[2 * k]); }
}

