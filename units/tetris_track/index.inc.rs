// =====================================================================================================
// ValidMetalLayer::track_index (layout21tetris/src/validate.rs) with the two DbUnits operators it uses
// =====================================================================================================
/// Rust's `%` truncates toward zero: the remainder as a mathematical function (positive divisors only)
pub open spec fn trem(a: int, b: int) -> int { if a >= 0 { a % b } else { -((-a) % b) } }
impl vstd::std_specs::ops::DivSpecImpl<DbUnits> for DbUnits {
    open spec fn obeys_div_spec() -> bool { true }
    open spec fn div_req(self, rhs: DbUnits) -> bool { rhs.0 > 0 }
    open spec fn div_spec(self, rhs: DbUnits) -> Int { tdiv(self.0 as int, rhs.0 as int) as isize }
}
impl std::ops::Div<DbUnits> for DbUnits {
    type Output = Int;
//@ fn layout21tetris/src/coords.rs :: impl std::ops::Div<DbUnits> for DbUnits :: fn div
//@ end
}
impl vstd::std_specs::ops::RemSpecImpl<DbUnits> for DbUnits {
    open spec fn obeys_rem_spec() -> bool { true }
    open spec fn rem_req(self, rhs: DbUnits) -> bool { rhs.0 > 0 }
    open spec fn rem_spec(self, rhs: DbUnits) -> Int { trem(self.0 as int, rhs.0 as int) as isize }
}
impl std::ops::Rem<DbUnits> for DbUnits {
    type Output = Int;
//@ fn layout21tetris/src/coords.rs :: impl std::ops::Rem<DbUnits> for DbUnits :: fn rem
//@   sub R10 /self\.raw\(\)\.rem\(rhs\.raw\(\)\)/ => self.raw() % rhs.raw()
//@ end
}
/// model of `usize::try_from(Int)?` (std TryFrom<isize> for usize; the error converted into LayoutError by `?`)
#[verifier::external_body]
pub fn vp_usize_try_from_int(w: Int) -> (r: Result<usize, LayoutError>)
    ensures w >= 0 ==> r == Ok::<usize, LayoutError>(w as usize), w < 0 ==> r is Err,
{ match usize::try_from(w) { Ok(v) => Ok(v), Err(_) => Err(LayoutError { }) } }
/// signal track `k` of the period is the first whose far edge lies beyond offset `rem`
pub open spec fn first_sig_after(sigs: Seq<TrackData>, rem: int, k: int) -> bool {
    0 <= k < sigs.len() && sigs[k].start.0 + sigs[k].width.0 > rem && forall|j: int| 0 <= j < k ==> (#[trigger] sigs[j]).start.0 + sigs[j].width.0 <= rem
}
/// R6: `self.period_data.signals.iter().position(|sig| sig.start + sig.width > remainder)` — the first-match loop that Iterator::position performs
pub fn vp_position_sig_after(sigs: &Vec<TrackData>, remainder: DbUnits) -> (r: Option<usize>)
    requires forall|i: int| 0 <= i < sigs@.len() ==> 0 <= (#[trigger] sigs@[i]).start.0 <= 0x1_0000_0000 && 0 <= sigs@[i].width.0 <= 0x1_0000_0000,
    ensures match r { Some(k) => first_sig_after(sigs@, remainder.0 as int, k as int), None => forall|j: int| 0 <= j < sigs@.len() ==> (#[trigger] sigs@[j]).start.0 + sigs@[j].width.0 <= remainder.0 },
{
    let mut k: usize = 0;
    while k < sigs.len()
        invariant k <= sigs.len(), forall|j: int| 0 <= j < k ==> (#[trigger] sigs@[j]).start.0 + sigs@[j].width.0 <= remainder.0,
            forall|i: int| 0 <= i < sigs@.len() ==> 0 <= (#[trigger] sigs@[i]).start.0 <= 0x1_0000_0000 && 0 <= sigs@[i].width.0 <= 0x1_0000_0000,
        decreases sigs.len() - k,
    {
        let sig = &sigs[k];
        if sig.start + sig.width > remainder { return Some(k); }
        k += 1;
    }
    None
}
impl ValidMetalLayer {
//@ fn layout21tetris/src/validate.rs :: impl ValidMetalLayer :: fn track_index
//@   ret r
//@   sub R5 /usize::try_from\(npitches\)\?/ => vp_usize_try_from_int(npitches)?
//@   sub R6 /self\s*\.period_data\s*\.signals\s*\.iter\(\)\s*\.position\(\|sig\| sig\.start \+ sig\.width > remainder\)/ => vp_position_sig_after(&self.period_data.signals, remainder)
//@   spec
//|     // panic-freedom minimum: a covered offset (`position(..).unwrap()`), no usize overflow
//|     requires layer_ok(*self), -0x1000_0000_0000 <= dist.0 <= 0x1000_0000_0000, self.period_data.signals@.len() <= 0x1_0000,
//|         tdiv(dist.0 as int, self.pitch.0 as int) >= 0 ==> exists|k: int| #[trigger] first_sig_after(self.period_data.signals@, trem(dist.0 as int, self.pitch.0 as int), k),
//|     // a distance a whole pitch or more below zero is an error; otherwise the index is (whole periods, truncated) * (tracks per period) +
//|     // the first track of the period whose far edge lies beyond the (truncated) offset into the period
//|     ensures tdiv(dist.0 as int, self.pitch.0 as int) < 0 <==> r is Err,
//|         r is Ok ==> first_sig_after(self.period_data.signals@, trem(dist.0 as int, self.pitch.0 as int),
//|             r->Ok_0 as int - tdiv(dist.0 as int, self.pitch.0 as int) * (self.period_data.signals@.len() as int)),
//@   atstart
//|         proof {
//|             let n = self.period_data.signals@.len() as int; let p = self.pitch.0 as int; let d = dist.0 as int; let q = tdiv(d, p);
//|             if d >= 0 { assert(0 <= d / p <= d) by (nonlinear_arith) requires d >= 0, p >= 1; }
//|             else { assert(0 <= (-d) / p <= -d) by (nonlinear_arith) requires -d >= 0, p >= 1; }
//|             if q >= 0 { assert(0 <= q * n <= 0x1000_0000_0000 * 0x1_0000) by (nonlinear_arith) requires 0 <= q <= 0x1000_0000_0000, 0 <= n <= 0x1_0000; }
//|         }
//@ end
}
