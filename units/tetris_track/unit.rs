// Unit U8 tetris_track: layout21tetris track segments — cuts, blockages, net assignment (C08).
use vstd::prelude::*;
use vstd::std_specs::cmp::*;
use core::cmp::Ordering;
verus! {
global size_of usize == 8;
//@ include units/common/float.inc.rs
//@ include units/tetris_track/track.inc.rs
proof fn canary_tiles(s: Seq<TrackSegment>) requires tiles(s), s.len() == 3 ensures false {}
proof fn canary_layer(l: ValidMetalLayer) requires layer_ok(l), l.period_data.signals@.len() == 2 ensures false {}
}
fn main() {}