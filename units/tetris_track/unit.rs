// Unit U8 tetris_track: layout21tetris track segments — cuts, blockages, net assignment (C08).
use vstd::prelude::*;
use vstd::std_specs::cmp::*;
use core::cmp::Ordering;
verus! {
global size_of usize == 8;
//@ include units/common/float.inc.rs
//@ include units/tetris_track/track.inc.rs
//@ include units/tetris_track/index.inc.rs
proof fn canary_track_index(l: ValidMetalLayer, d: DbUnits) requires layer_ok(l), d.0 >= 0, exists|k: int| #[trigger] first_sig_after(l.period_data.signals@, trem(d.0 as int, l.pitch.0 as int), k), l.period_data.signals@.len() == 2 ensures false {}
proof fn canary_tiles(s: Seq<TrackSegment>) requires tiles(s), s.len() == 3 ensures false {}
proof fn canary_layer(l: ValidMetalLayer) requires layer_ok(l), l.period_data.signals@.len() == 2 ensures false {}
}
fn main() {}