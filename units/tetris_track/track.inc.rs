// shared by units tetris_track and tetris_export: track segments, DbUnits operators, centre/span under contract
//@ item layout21tetris/src/coords.rs :: type Int
//@ end
// =====================================================================================================
// MODELS (rule R5)
// =====================================================================================================
//@ item layout21tetris/src/coords.rs :: struct DbUnits
//@   derive Debug, Clone, Copy
//@ end
// model of #[derive(PartialEq, PartialOrd)] on DbUnits(pub Int): comparison of the wrapped integer (Verus gives derived comparisons no meaning)
impl PartialEqSpecImpl for DbUnits {
    open spec fn obeys_eq_spec() -> bool { true }
    open spec fn eq_spec(&self, other: &Self) -> bool { self.0 == other.0 }
}
impl PartialEq for DbUnits { fn eq(&self, other: &Self) -> bool { self.0 == other.0 } }
impl PartialOrdSpecImpl for DbUnits {
    open spec fn obeys_partial_cmp_spec() -> bool { true }
    open spec fn partial_cmp_spec(&self, other: &Self) -> Option<Ordering> {
        if self.0 < other.0 { Some(Ordering::Less) } else if self.0 > other.0 { Some(Ordering::Greater) } else { Some(Ordering::Equal) }
    }
}
impl PartialOrd for DbUnits {
    fn partial_cmp(&self, other: &Self) -> Option<Ordering> {
        if self.0 < other.0 { Some(Ordering::Less) } else if self.0 > other.0 { Some(Ordering::Greater) } else { Some(Ordering::Equal) }
    }
}
/// model of layout21utils::Ptr<T> (opaque shared handle; clone yields the same handle)
pub struct Ptr<T> { pub id: usize, pub _p: core::marker::PhantomData<T> }
impl<T> Clone for Ptr<T> { #[verifier::external_body] fn clone(&self) -> (r: Self) ensures r == *self { unimplemented!() } }
pub struct Instance { pub name: String }
#[derive(Debug)]
pub struct LayoutError { }
pub type LayoutResult<T> = Result<T, LayoutError>;
impl LayoutError {
    /// model of LayoutError::fail: always an error
    #[verifier::external_body]
    pub fn fail<T, M>(msg: M) -> (r: Result<T, LayoutError>) ensures r is Err { Err(LayoutError { }) }
}
//@ item layout21tetris/src/tracks.rs :: struct TrackRef
//@   derive Debug, Clone, Copy
//@ end
//@ item layout21tetris/src/tracks.rs :: struct TrackCross
//@   derive Debug, Clone, Copy
//@ end
//@ item layout21tetris/src/stack.rs :: struct Assign
//@ end
impl Clone for Assign { #[verifier::external_body] fn clone(&self) -> (r: Self) ensures r == *self { unimplemented!() } }
//@ item layout21tetris/src/tracks.rs :: enum RailKind
//@   derive Debug, Clone, Copy
//@ end
//@ item layout21tetris/src/tracks.rs :: enum TrackSegmentType
//@ end
// model of #[derive(Clone)]: an equal value
impl<'lib> Clone for TrackSegmentType<'lib> { #[verifier::external_body] fn clone(&self) -> (r: Self) ensures r == *self { unimplemented!() } }
//@ item layout21tetris/src/tracks.rs :: struct TrackSegment
//@ end
//@ item layout21tetris/src/tracks.rs :: enum TrackConflict
//@ end
//@ item layout21tetris/src/tracks.rs :: enum TrackError
//@ end
//@ item layout21tetris/src/tracks.rs :: type TrackResult
//@ end
/// model of `impl From<TrackSegmentType> for TrackConflict` (panics with unreachable!() on wires and rails: that is a precondition)
#[verifier::external_body]
pub fn vp_conflict_from<'a>(tp: TrackSegmentType<'a>) -> (r: TrackConflict)
    requires tp is Cut || tp is Blockage,
{ unimplemented!() }
pub assume_specification<T>[ Option::<T>::replace ](o: &mut Option<T>, v: T) -> (r: Option<T>) ensures *final(o) == Some(v), r == *old(o);
//@ item layout21raw/src/geom.rs :: enum Dir
//@   derive Debug, Clone, Copy
//@ end
impl PartialEqSpecImpl for Dir {
    open spec fn obeys_eq_spec() -> bool { true }
    open spec fn eq_spec(&self, other: &Self) -> bool { *self == *other }
}
impl PartialEq for Dir { fn eq(&self, other: &Self) -> bool { match (self, other) { (Dir::Horiz, Dir::Horiz) => true, (Dir::Vert, Dir::Vert) => true, _ => false } } }
//@ item layout21tetris/src/tracks.rs :: enum TrackType
//@   derive Debug, Clone, Copy
//@ end
//@ item layout21tetris/src/tracks.rs :: struct TrackData
//@ end
//@ item layout21tetris/src/tracks.rs :: struct Track
//@ end

// =====================================================================================================
// SPEC: a track's segments tile its span (C08)
// =====================================================================================================
/// ordered pieces, each starting where the previous one stops, none of negative length
pub open spec fn tiles(s: Seq<TrackSegment>) -> bool {
    &&& s.len() >= 1
    &&& forall|i: int| 0 <= i < s.len() ==> (#[trigger] s[i]).start.0 <= s[i].stop.0
    &&& forall|i: int| 0 <= i < s.len() - 1 ==> #[trigger] joined(s, i)
}
pub open spec fn joined(s: Seq<TrackSegment>, i: int) -> bool { s[i].stop == s[i + 1].start }
/// the result of cutting [start, stop) out of segment k: the piece before, the cut/blockage, the piece after (if any), everything else untouched
pub open spec fn cut_result<'a>(s: Seq<TrackSegment<'a>>, k: int, start: DbUnits, stop: DbUnits, tp: TrackSegmentType<'a>) -> Seq<TrackSegment<'a>> {
    let head = s.take(k).push(TrackSegment { tp: s[k].tp, start: s[k].start, stop: start }).push(TrackSegment { tp, start, stop });
    let mid = if s[k].stop != stop { head.push(TrackSegment { tp: s[k].tp, start: stop, stop: s[k].stop }) } else { head };
    mid + s.skip(k + 1)
}
/// the segment a cut at `start` lands in: the first one that stops after `start`
pub open spec fn first_after(s: Seq<TrackSegment>, start: DbUnits, k: int) -> bool {
    0 <= k < s.len() && s[k].stop.0 > start.0 && forall|j: int| 0 <= j < k ==> (#[trigger] s[j]).stop.0 <= start.0
}
/// piece `s` contains position `at` (ends included)
pub open spec fn hits(s: TrackSegment, at: DbUnits) -> bool { s.start.0 <= at.0 && s.stop.0 >= at.0 }
/// piece k is the first that contains `at`
pub open spec fn first_hit(s: Seq<TrackSegment>, at: DbUnits, k: int) -> bool { 0 <= k < s.len() && hits(s[k], at) && forall|j: int| 0 <= j < k ==> !hits(#[trigger] s[j], at) }
/// R6: `self.segments.iter_mut().position(|seg| seg.stop > start)` — the first-match loop that Iterator::position performs
pub fn vp_position_stop_gt<'a>(segs: &Vec<TrackSegment<'a>>, start: DbUnits) -> (r: Option<usize>)
    ensures match r { Some(k) => first_after(segs@, start, k as int), None => forall|j: int| 0 <= j < segs@.len() ==> (#[trigger] segs@[j]).stop.0 <= start.0 },
{
    let mut k: usize = 0;
    while k < segs.len()
        invariant k <= segs.len(), forall|j: int| 0 <= j < k ==> (#[trigger] segs@[j]).stop.0 <= start.0,
        decreases segs.len() - k,
    {
        if segs[k].stop > start { return Some(k); }
        k += 1;
    }
    None
}


pub open spec fn no_rail(s: Seq<TrackSegment>) -> bool { forall|i: int| 0 <= i < s.len() ==> !((#[trigger] s[i]).tp is Rail) }
proof fn lemma_cut_no_rail<'a>(o: Seq<TrackSegment<'a>>, k: int, start: DbUnits, stop: DbUnits, tp: TrackSegmentType<'a>)
    requires 0 <= k < o.len(), !(tp is Rail),
    ensures no_rail(o) ==> no_rail(cut_result(o, k, start, stop, tp)), cut_result(o, k, start, stop, tp).len() >= o.len(),
{
    let f = cut_result(o, k, start, stop, tp);
    let n: int = if o[k].stop != stop { 2 } else { 1 };
    assert(f.len() == o.len() + n);
    if no_rail(o) {
        assert forall|i: int| 0 <= i < f.len() implies !((#[trigger] f[i]).tp is Rail) by {
            if i < k { assert(f[i] == o[i]); }
            else if i == k { assert(f[k] == TrackSegment { tp: o[k].tp, start: o[k].start, stop: start }); }
            else if i == k + 1 { assert(f[k + 1] == TrackSegment { tp, start, stop }); }
            else if i == k + 2 && n == 2 { assert(f[k + 2] == TrackSegment { tp: o[k].tp, start: stop, stop: o[k].stop }); }
            else { assert(f[i] == o[i - n]); }
        }
    }
}
/// cutting inside a tiling leaves a tiling (pure sequence reasoning)
proof fn lemma_cut_tiles<'a>(o: Seq<TrackSegment<'a>>, k: int, start: DbUnits, stop: DbUnits, tp: TrackSegmentType<'a>)
    requires tiles(o), first_after(o, start, k), o[0].start.0 <= start.0, start.0 < stop.0, stop.0 <= o[k].stop.0,
    ensures tiles(cut_result(o, k, start, stop, tp)),
{
    let f = cut_result(o, k, start, stop, tp);
    let n: int = if o[k].stop != stop { 2 } else { 1 };
    assert(f.len() == o.len() + n);
    assert(forall|i: int| 0 <= i < k ==> f[i] == o[i]);
    assert(f[k] == TrackSegment { tp: o[k].tp, start: o[k].start, stop: start });
    assert(f[k + 1] == TrackSegment { tp, start, stop });
    if n == 2 { assert(f[k + 2] == TrackSegment { tp: o[k].tp, start: stop, stop: o[k].stop }); }
    assert(forall|i: int| k + n < i < f.len() ==> f[i] == o[i - n]);
    // the piece before the cut is not of negative length
    if k > 0 { assert(joined(o, k - 1)); assert(o[k - 1].stop.0 <= start.0); }
    assert(o[k].start.0 <= start.0);
    assert forall|i: int| 0 <= i < f.len() implies (#[trigger] f[i]).start.0 <= f[i].stop.0 by {
        if i < k { assert(o[i].start.0 <= o[i].stop.0); } else if i > k + n { assert(o[i - n].start.0 <= o[i - n].stop.0); }
    }
    assert forall|i: int| 0 <= i < f.len() - 1 implies #[trigger] joined(f, i) by {
        if i < k - 1 { assert(joined(o, i)); }
        else if i == k - 1 { assert(joined(o, k - 1)); }
        else if i == k || (i == k + 1 && n == 2) { }
        else if i == k + n { assert(joined(o, k)); }
        else { assert(joined(o, i - n)); }
    }
}

impl<'lib> Track<'lib> {
//@ fn layout21tetris/src/tracks.rs :: impl<'lib> Track<'lib> :: fn cut_or_block
//@   ret r
//@   sub R6 /self\s*\.segments\s*\.iter_mut\(\)\s*\.position\(\|seg\| seg\.stop > start\)/ => vp_position_stop_gt(&self.segments, start)
//@   sub R5 /TrackConflict::from\(tp\)/ => vp_conflict_from(tp)
//@   spec
//|     // preconditions = what the body needs not to panic: a first piece exists (`last().unwrap()`), room for two insertions, and a cut/blockage type (TrackConflict::from)
//|     requires old(self).segments@.len() >= 1, tp is Cut || tp is Blockage, old(self).segments@.len() < 0x7fff_ffff_ffff_fff0,
//|     ensures
//|         r is Ok ==> (exists|k: int| first_after(old(self).segments@, start, k) && (old(self).segments@[k].tp is Wire || old(self).segments@[k].tp is Rail)
//|             && stop.0 <= old(self).segments@[k].stop.0 && #[trigger] cut_result(old(self).segments@, k, start, stop, tp) == final(self).segments@),
//|         // on a tiling track, a cut that starts inside it and has positive length leaves a tiling
//|         (r is Ok && tiles(old(self).segments@) && old(self).segments@[0].start.0 <= start.0 && start.0 < stop.0) ==> tiles(final(self).segments@),
//|         r is Err ==> final(self).segments@ == old(self).segments@,
//|         final(self).data == old(self).data, final(self).segments@.len() >= old(self).segments@.len(),
//|         // pieces keep their kind: no rail appears where there was none
//|         no_rail(old(self).segments@) ==> no_rail(final(self).segments@),
//@   before /for \(idx, seg\) in to_be_inserted/
//|         let ghost k = segidx as int;
//|         let ghost o = old(self).segments@;
//|         let ghost base = o.update(k, TrackSegment { tp: o[k].tp, start: o[k].start, stop: start });
//|         let ghost ins = to_be_inserted@;
//|         proof {
//|             assert(self.segments@ =~= base);
//|             assert(first_after(o, start, k));
//|             assert(ins.len() == 1 || ins.len() == 2);
//|             assert(ins[0].0 == k + 1 && ins[0].1 == TrackSegment { tp, start, stop });
//|             assert(ins.len() == 2 ==> ins[1].0 == k + 2 && ins[1].1 == TrackSegment { tp: o[k].tp, start: stop, stop: o[k].stop });
//|             assert((ins.len() == 2) == (o[k].stop != stop));
//|         }
//@   loop 1 iter it
//|             invariant it.seq() == ins, ins.len() == 1 || ins.len() == 2, 0 <= k < base.len(), ins[0].0 == k + 1, ins.len() == 2 ==> ins[1].0 == k + 2,
//|                 it.index@ == 0 ==> self.segments@ == base,
//|                 it.index@ == 1 ==> self.segments@ == base.insert(k + 1, ins[0].1),
//|                 it.index@ == 2 ==> self.segments@ == base.insert(k + 1, ins[0].1).insert(k + 2, ins[1].1),
//|                 base.len() < 0x7fff_ffff_ffff_fff0,
//@   before /^        Ok\(\(\)\)$/
//|         proof {
//|             assert(self.segments@ =~= cut_result(o, k, start, stop, tp));
//|             if tiles(o) && o[0].start.0 <= start.0 && start.0 < stop.0 { lemma_cut_tiles(o, k, start, stop, tp); }
//|             lemma_cut_no_rail(o, k, start, stop, tp);
//|         }
//@ end

//@ fn layout21tetris/src/tracks.rs :: impl<'lib> Track<'lib> :: fn block
//@   ret r
//@   spec
//|     requires old(self).segments@.len() >= 1, old(self).segments@.len() < 0x7fff_ffff_ffff_fff0,
//|     ensures
//|         r is Ok ==> (exists|k: int| first_after(old(self).segments@, start, k) && (old(self).segments@[k].tp is Wire || old(self).segments@[k].tp is Rail)
//|             && stop.0 <= old(self).segments@[k].stop.0 && #[trigger] cut_result(old(self).segments@, k, start, stop, TrackSegmentType::Blockage { src: *src }) == final(self).segments@),
//|         (r is Ok && tiles(old(self).segments@) && old(self).segments@[0].start.0 <= start.0 && start.0 < stop.0) ==> tiles(final(self).segments@),
//|         r is Err ==> final(self).segments@ == old(self).segments@,
//|         final(self).data == old(self).data, final(self).segments@.len() >= old(self).segments@.len(),
//|         no_rail(old(self).segments@) ==> no_rail(final(self).segments@),
//@ end
//@ fn layout21tetris/src/tracks.rs :: impl<'lib> Track<'lib> :: fn cut
//@   ret r
//@   spec
//|     requires old(self).segments@.len() >= 1, old(self).segments@.len() < 0x7fff_ffff_ffff_fff0,
//|     ensures
//|         r is Ok ==> (exists|k: int| first_after(old(self).segments@, start, k) && (old(self).segments@[k].tp is Wire || old(self).segments@[k].tp is Rail)
//|             && stop.0 <= old(self).segments@[k].stop.0 && #[trigger] cut_result(old(self).segments@, k, start, stop, TrackSegmentType::Cut { src }) == final(self).segments@),
//|         (r is Ok && tiles(old(self).segments@) && old(self).segments@[0].start.0 <= start.0 && start.0 < stop.0) ==> tiles(final(self).segments@),
//|         r is Err ==> final(self).segments@ == old(self).segments@,
//|         final(self).data == old(self).data, final(self).segments@.len() >= old(self).segments@.len(),
//|         no_rail(old(self).segments@) ==> no_rail(final(self).segments@),
//@ end
//@ fn layout21tetris/src/tracks.rs :: impl<'lib> Track<'lib> :: fn stop
//@   ret r
//@   spec
//|     ensures r is Ok <==> old(self).segments@.len() > 0, final(self).data == old(self).data,
//|         r is Ok ==> final(self).segments@ == old(self).segments@.update(old(self).segments@.len() - 1,
//|             TrackSegment { tp: old(self).segments@.last().tp, start: old(self).segments@.last().start, stop }),
//@ end

//@ fn layout21tetris/src/tracks.rs :: impl<'lib> Track<'lib> :: fn set_net
//@   sub R5 /TrackConflict::from\(seg\.tp\.clone\(\)\)/ => vp_conflict_from(seg.tp.clone())
//@   ret r
//@   sub R6 /let mut seg = None;\s*for s in self\.segments\.iter_mut\(\) \{\s*if (.*?) \{\s*break;\s*\}\s*if (.*?) \{\s*seg = Some\(s\);\s*break;\s*\}\s*\}/ => let mut vp_k: Option<usize> = None; let mut vp_i: usize = 0; while vp_i < self.segments.len() { let s = &self.segments[vp_i]; if \1 { break; } if \2 { vp_k = Some(vp_i); break; } vp_i += 1; } let seg: Option<&mut TrackSegment<'lib>> = match vp_k { None => None, Some(k) => Some(&mut self.segments[k]) };
//@   spec
//|     requires no_rail(old(self).segments@),
//|     ensures final(self).segments@.len() == old(self).segments@.len(), final(self).data == old(self).data, no_rail(final(self).segments@),
//|         ({ let o = old(self).segments@; match r {
//|             // the first piece containing `at` (touching pieces: the earlier one) gets the net if it is a wire; a blockage is left alone
//|             Ok(_) => exists|k: int| #[trigger] first_hit(o, at, k) && (
//|                     (o[k].tp is Wire && final(self).segments@ == o.update(k, TrackSegment { tp: TrackSegmentType::Wire { src: Some(assn) }, start: o[k].start, stop: o[k].stop }))
//|                  || (o[k].tp is Blockage && final(self).segments@ == o)),
//|             Err(_) => final(self).segments@ == o,
//|         } }),
//@   loop 1
//|             invariant vp_i <= self.segments@.len(), self.segments@ == old(self).segments@, self.data == old(self).data,
//|                 forall|j: int| 0 <= j < vp_i ==> !hits(#[trigger] self.segments@[j], at),
//|                 match vp_k { Some(k) => k == vp_i && first_hit(self.segments@, at, k as int), None => true },
//|             decreases self.segments@.len() - vp_i,
//@ end
}

// =====================================================================================================
// track centre / span arithmetic (layout21tetris/src/validate.rs), with the DbUnits operators it uses
// =====================================================================================================
// model of derive_more::{Add, AddAssign} on DbUnits(pub Int): component-wise on the wrapped integer — assumption
impl vstd::std_specs::ops::AddSpecImpl<DbUnits> for DbUnits {
    open spec fn obeys_add_spec() -> bool { true }
    open spec fn add_req(self, rhs: DbUnits) -> bool { isize::MIN <= self.0 + rhs.0 <= isize::MAX }
    open spec fn add_spec(self, rhs: DbUnits) -> DbUnits { DbUnits((self.0 + rhs.0) as isize) }
}
impl std::ops::Add<DbUnits> for DbUnits { type Output = DbUnits; fn add(self, rhs: DbUnits) -> DbUnits { DbUnits(self.0 + rhs.0) } }
/// model of the derived `+=`
#[verifier::external_body]
pub fn vp_add_assign(a: &mut DbUnits, b: DbUnits) requires isize::MIN <= old(a).0 + b.0 <= isize::MAX ensures final(a).0 == old(a).0 + b.0 { a.0 += b.0 }
// R8: contracts of the hand-written operators, through vstd's operator spec traits
/// Rust's integer division truncates toward zero (spec `/` on int is Euclidean): the quotient as a mathematical function
/// (positive divisors only: this Verus release leaves `/` by a negative machine integer unspecified)
pub open spec fn tdiv(a: int, b: int) -> int { if a >= 0 { a / b } else { -((-a) / b) } }
impl vstd::std_specs::ops::DivSpecImpl<Int> for DbUnits {
    open spec fn obeys_div_spec() -> bool { true }
    open spec fn div_req(self, rhs: Int) -> bool { rhs > 0 }
    open spec fn div_spec(self, rhs: Int) -> DbUnits { DbUnits(tdiv(self.0 as int, rhs as int) as isize) }
}
// model of derive_more::Sub on DbUnits(pub Int): component-wise on the wrapped integer — assumption
impl vstd::std_specs::ops::SubSpecImpl<DbUnits> for DbUnits {
    open spec fn obeys_sub_spec() -> bool { true }
    open spec fn sub_req(self, rhs: DbUnits) -> bool { isize::MIN <= self.0 - rhs.0 <= isize::MAX }
    open spec fn sub_spec(self, rhs: DbUnits) -> DbUnits { DbUnits((self.0 - rhs.0) as isize) }
}
impl std::ops::Sub<DbUnits> for DbUnits { type Output = DbUnits; fn sub(self, rhs: DbUnits) -> DbUnits { DbUnits(self.0 - rhs.0) } }
impl std::ops::Div<Int> for DbUnits {
    type Output = Self;
//@ fn layout21tetris/src/coords.rs :: impl std::ops::Div<Int> for DbUnits :: fn div
//@ end
}
impl HasUnits for DbUnits {
//@ fn layout21tetris/src/coords.rs :: impl HasUnits for DbUnits :: fn raw
//@   ret r
//@   spec
//|     ensures r == self.0,
//@ end
}
//@ item layout21tetris/src/coords.rs :: trait HasUnits
//@ end
impl vstd::std_specs::ops::MulSpecImpl<usize> for DbUnits {
    open spec fn obeys_mul_spec() -> bool { true }
    open spec fn mul_req(self, rhs: usize) -> bool { rhs <= isize::MAX && isize::MIN <= rhs * self.0 <= isize::MAX }
    open spec fn mul_spec(self, rhs: usize) -> DbUnits { DbUnits((rhs * self.0) as isize) }
}
/// model of `Int::try_from(usize)` (std TryFrom<usize> for isize) by its documented meaning
#[verifier::external_body]
pub fn vp_int_try_from_usize(w: usize) -> (r: Result<Int, LayoutError>)
    ensures w <= isize::MAX ==> r == Ok::<Int, LayoutError>(w as isize), w > isize::MAX ==> r is Err,
{ match Int::try_from(w) { Ok(v) => Ok(v), Err(_) => Err(LayoutError { }) } }
impl std::ops::Mul<usize> for DbUnits {
    type Output = Self;
//@ fn layout21tetris/src/coords.rs :: impl std::ops::Mul<usize> for DbUnits :: fn mul
//@   sub R5 /Int::try_from\(rhs\)/ => vp_int_try_from_usize(rhs)
//@ end
}
//@ item layout21tetris/src/stack.rs :: struct LayerPeriodData
//@ end
/// model of slotmap's raw::LayerKey: an opaque copyable key
#[derive(Debug, Clone, Copy)]
pub struct LayerKey { pub id: u64 }
//@ item layout21tetris/src/tracks.rs :: struct TrackEntry
//@ end
//@ item layout21tetris/src/tracks.rs :: enum TrackSpec
//@ end
//@ item layout21tetris/src/tracks.rs :: struct Repeat
//@ end
//@ item layout21tetris/src/stack.rs :: enum FlipMode
//@ end
//@ item layout21tetris/src/stack.rs :: enum PrimitiveMode
//@ end
//@ item layout21tetris/src/stack.rs :: struct MetalLayer
//@   sub R5 /raw::LayerKey/ => LayerKey
//@ end
//@ item layout21tetris/src/validate.rs :: struct ValidMetalLayer
//@   sub R5 /raw::LayerKey/ => LayerKey
//@ end
pub open spec fn layer_ok(l: ValidMetalLayer) -> bool {
    &&& l.period_data.signals@.len() >= 1 &&& 0 < l.pitch.0 <= 0x1_0000_0000
    &&& forall|i: int| 0 <= i < l.period_data.signals@.len() ==> 0 <= (#[trigger] l.period_data.signals@[i]).start.0 <= 0x1_0000_0000 && 0 <= l.period_data.signals@[i].width.0 <= 0x1_0000_0000
}
/// centre of signal track `idx` in the layer's periodic dimension: period number * pitch + the track's offset in its period + half its width
pub open spec fn center_spec(l: ValidMetalLayer, idx: usize) -> int {
    let n = l.period_data.signals@.len() as int; let t = l.period_data.signals@[idx as int % n];
    l.pitch.0 * (idx as int / n) + t.start.0 + t.width.0 / 2
}
/// start of signal track `idx` in the layer's periodic dimension
pub open spec fn span_start_spec(l: ValidMetalLayer, idx: usize) -> int {
    let n = l.period_data.signals@.len() as int; let t = l.period_data.signals@[idx as int % n];
    l.pitch.0 * (idx as int / n) + t.start.0
}
impl ValidMetalLayer {
//@ fn layout21tetris/src/validate.rs :: impl ValidMetalLayer :: fn center
//@   ret r
//@   sub R10 /cursor \+= ([^;]*);/ => vp_add_assign(&mut cursor, \1);
//@   atstart
//|         proof {
//|             let n = self.period_data.signals@.len() as int; let q = idx as int / n; let p = self.pitch.0 as int;
//|             assert(0 <= q <= idx) by (nonlinear_arith) requires q == idx as int / n, n >= 1, idx >= 0;
//|             assert(0 <= q * p <= 0x1000_0000 * 0x1_0000_0000 && q * p == p * q) by (nonlinear_arith) requires 0 <= q <= 0x1000_0000, 0 < p <= 0x1_0000_0000;
//|             assert(0 <= idx as int % n < n);
//|         }
//@   spec
//|     requires layer_ok(*self), idx <= 0x1000_0000,
//|     ensures r is Ok, r->Ok_0.0 == center_spec(*self, idx),
//@ end
//@ fn layout21tetris/src/validate.rs :: impl ValidMetalLayer :: fn span
//@   ret r
//@   atstart
//|         proof {
//|             let n = self.period_data.signals@.len() as int; let q = idx as int / n; let p = self.pitch.0 as int;
//|             assert(0 <= q <= idx) by (nonlinear_arith) requires q == idx as int / n, n >= 1, idx >= 0;
//|             assert(0 <= q * p <= 0x1000_0000 * 0x1_0000_0000 && q * p == p * q) by (nonlinear_arith) requires 0 <= q <= 0x1000_0000, 0 < p <= 0x1_0000_0000;
//|             assert(0 <= idx as int % n < n);
//|         }
//@   spec
//|     requires layer_ok(*self), idx <= 0x1000_0000,
//|     ensures r is Ok, r->Ok_0.0.0 == span_start_spec(*self, idx),
//|         r->Ok_0.1.0 == span_start_spec(*self, idx) + self.period_data.signals@[idx as int % (self.period_data.signals@.len() as int)].width.0,
//@ end
}
