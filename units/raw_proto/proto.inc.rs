// shared by units raw_proto and raw_proto_layout: raw <-> vlsir protobuf converters under contract
pub type Int = isize;

// =====================================================================================================
// MODELS (rule R5)
// =====================================================================================================
#[derive(Debug)]
pub struct LayoutError { }
pub type LayoutResult<T> = Result<T, LayoutError>;
impl vstd::std_specs::convert::FromSpecImpl<std::num::TryFromIntError> for LayoutError {
    open spec fn obeys_from_spec() -> bool { true }
    open spec fn from_spec(e: std::num::TryFromIntError) -> LayoutError { LayoutError { } }
}
impl From<std::num::TryFromIntError> for LayoutError { fn from(e: std::num::TryFromIntError) -> Self { LayoutError { } } }
pub assume_specification [isize::abs] (x: isize) -> (r: isize) requires x > isize::MIN ensures r == (if x >= 0 { x as int } else { -x });
pub assume_specification [i64::abs] (x: i64) -> (r: i64) requires x > i64::MIN ensures r == (if x >= 0 { x as int } else { -x });
/// stand-ins for the prost-generated vlsir message structs (field names and types copied from the generated vlsir.raw.rs / vlsir.utils.rs)
pub mod proto {
    use vstd::prelude::*;
    #[derive(Debug, Clone, Copy)]
    pub struct Point { pub x: i64, pub y: i64 }
    impl Point { pub fn new(x: i64, y: i64) -> (r: Self) ensures r.x == x, r.y == y { Self { x, y } } }
    pub struct Rectangle { pub net: String, pub lower_left: Option<Point>, pub width: i64, pub height: i64 }
    pub struct Polygon { pub net: String, pub vertices: Vec<Point> }
    pub struct Path { pub net: String, pub points: Vec<Point>, pub width: i64 }
    pub struct TextElement { pub string: String, pub loc: Option<Point> }
    pub struct QualifiedName { pub domain: String, pub name: String }
    pub mod reference { pub enum To { Local(String), External(super::QualifiedName) } }
    pub struct Reference { pub to: Option<reference::To> }
    pub struct Instance { pub name: String, pub cell: Option<Reference>, pub origin_location: Option<Point>, pub reflect_vert: bool, pub rotation_clockwise_degrees: i32 }
    pub struct Layer { pub number: i64, pub purpose: i64 }
    pub struct LayerShapes { pub layer: Option<Layer>, pub rectangles: Vec<Rectangle>, pub polygons: Vec<Polygon>, pub paths: Vec<Path> }
    pub struct Layout { pub name: String, pub shapes: Vec<LayerShapes>, pub instances: Vec<Instance>, pub annotations: Vec<TextElement> }
    pub struct AbstractPort { pub net: String, pub shapes: Vec<LayerShapes> }
    pub struct Abstract { pub name: String, pub outline: Option<Polygon>, pub ports: Vec<AbstractPort>, pub blockages: Vec<LayerShapes> }
    pub struct Cell { pub name: String, pub r#abstract: Option<Abstract>, pub layout: Option<Layout> }
    pub struct Library { pub domain: String, pub units: i32, pub cells: Vec<Cell> }
    #[derive(Debug, Clone, Copy)]
    pub enum Units { Micro = 0, Nano = 1, Angstrom = 2 }
    // prost messages derive Clone: a clone is equal to its original
    impl Clone for Rectangle { #[verifier::external_body] fn clone(&self) -> (r: Self) ensures r == *self { unimplemented!() } }
    impl Clone for Polygon { #[verifier::external_body] fn clone(&self) -> (r: Self) ensures r == *self { unimplemented!() } }
    impl Clone for Path { #[verifier::external_body] fn clone(&self) -> (r: Self) ensures r == *self { unimplemented!() } }
    impl Clone for TextElement { #[verifier::external_body] fn clone(&self) -> (r: Self) ensures r == *self { unimplemented!() } }
    impl Clone for Instance { #[verifier::external_body] fn clone(&self) -> (r: Self) ensures r == *self { unimplemented!() } }
    impl Clone for Layer { #[verifier::external_body] fn clone(&self) -> (r: Self) ensures r == *self { unimplemented!() } }
    impl Clone for LayerShapes { #[verifier::external_body] fn clone(&self) -> (r: Self) ensures r == *self { unimplemented!() } }
    impl Clone for Layout { #[verifier::external_body] fn clone(&self) -> (r: Self) ensures r == *self { unimplemented!() } }
    impl Clone for AbstractPort { #[verifier::external_body] fn clone(&self) -> (r: Self) ensures r == *self { unimplemented!() } }
    impl Clone for Abstract { #[verifier::external_body] fn clone(&self) -> (r: Self) ensures r == *self { unimplemented!() } }
    impl Clone for Cell { #[verifier::external_body] fn clone(&self) -> (r: Self) ensures r == *self { unimplemented!() } }
    impl Clone for Library { #[verifier::external_body] fn clone(&self) -> (r: Self) ensures r == *self { unimplemented!() } }
    impl Default for AbstractPort { fn default() -> (r: Self) ensures r.net@.len() == 0, r.shapes@.len() == 0 { AbstractPort { net: String::new(), shapes: Vec::new() } } }
    impl Default for Abstract { fn default() -> (r: Self) ensures r.name@.len() == 0, r.outline is None, r.ports@.len() == 0, r.blockages@.len() == 0 { Abstract { name: String::new(), outline: None, ports: Vec::new(), blockages: Vec::new() } } }
    impl Default for Cell { fn default() -> (r: Self) ensures r.name@.len() == 0, r.r#abstract is None, r.layout is None { Cell { name: String::new(), r#abstract: None, layout: None } } }
    impl Default for Library { fn default() -> (r: Self) ensures r.domain@.len() == 0, r.units == 0, r.cells@.len() == 0 { Library { domain: String::new(), units: 0, cells: Vec::new() } } }
    impl Default for LayerShapes { fn default() -> (r: Self) ensures r.layer is None, r.rectangles@.len() == 0, r.polygons@.len() == 0, r.paths@.len() == 0 { LayerShapes { layer: None, rectangles: Vec::new(), polygons: Vec::new(), paths: Vec::new() } } }
    impl Default for Layout { fn default() -> (r: Self) ensures r.name@.len() == 0, r.shapes@.len() == 0, r.instances@.len() == 0, r.annotations@.len() == 0 { Layout { name: String::new(), shapes: Vec::new(), instances: Vec::new(), annotations: Vec::new() } } }
    // prost messages derive Default: every field its type's default
    impl Default for Rectangle { fn default() -> (r: Self) ensures r.lower_left is None, r.width == 0, r.height == 0, r.net@.len() == 0 { Rectangle { net: String::new(), lower_left: None, width: 0, height: 0 } } }
    impl Default for Polygon { fn default() -> (r: Self) ensures r.vertices@.len() == 0, r.net@.len() == 0 { Polygon { net: String::new(), vertices: Vec::new() } } }
    impl Default for Path { fn default() -> (r: Self) ensures r.points@.len() == 0, r.width == 0, r.net@.len() == 0 { Path { net: String::new(), points: Vec::new(), width: 0 } } }
    impl Default for TextElement { fn default() -> (r: Self) ensures r.loc is None, r.string@.len() == 0 { TextElement { string: String::new(), loc: None } } }
    impl Default for Instance { fn default() -> (r: Self) ensures r.cell is None, r.origin_location is None, !r.reflect_vert, r.rotation_clockwise_degrees == 0, r.name@.len() == 0 { Instance { name: String::new(), cell: None, origin_location: None, reflect_vert: false, rotation_clockwise_degrees: 0 } } }
}
/// model of layout21utils::Ptr<T> (opaque shared handle); `read` yields the pointee or a lock-poison error
pub struct Ptr<T> { pub v: Box<T> }
impl<T> Ptr<T> {
    #[verifier::external_body]
    pub fn read(&self) -> (r: LayoutResult<&T>) ensures r is Ok ==> *r->Ok_0 == *self.v { Ok(&*self.v) }
}
impl<T> Clone for Ptr<T> { #[verifier::external_body] fn clone(&self) -> (r: Self) ensures r == *self { unimplemented!() } }
//@ pin layout21utils/src/ptr.rs :: impl<T> PtrList<T> :: fn insert @cadd958f
//@ pin layout21utils/src/ptr.rs :: impl<T> PtrList<T> :: fn add @305d31d1
/// model of layout21utils::PtrList<T> (newtype over Vec<Ptr<T>>); `insert` = `add`: wrap in a new Ptr, append, return the pointer
pub struct PtrList<T> { pub v: Vec<Ptr<T>> }
impl<T> View for PtrList<T> { type V = Seq<Ptr<T>>; open spec fn view(&self) -> Seq<Ptr<T>> { self.v@ } }
impl<T> PtrList<T> {
    #[verifier::external_body]
    pub fn insert(&mut self, t: T) -> (r: Ptr<T>) ensures final(self)@ == old(self)@.push(r), *r.v == t { unimplemented!() }
}
//@ item layout21raw/src/data.rs :: enum Units
//@   derive Debug, Clone, Copy
//@ end
//@ item layout21raw/src/data.rs :: struct AbstractPort
//@ end
//@ item layout21raw/src/data.rs :: struct Abstract
//@ end
//@ item layout21raw/src/data.rs :: struct Cell
//@ end
/// R5: layout21raw::Library without its shared layer table (modelled by the functions `nums` / `layer_of`)
pub struct Library { pub name: String, pub units: Units, pub cells: PtrList<Cell> }
//@ item layout21raw/src/geom.rs :: struct Point
//@   derive Debug, Copy, Clone
//@ end
//@ item layout21raw/src/geom.rs :: struct Rect
//@ end
//@ item layout21raw/src/geom.rs :: struct Polygon
//@ end
//@ item layout21raw/src/geom.rs :: struct Path
//@ end
//@ item layout21raw/src/geom.rs :: enum Shape
//@ end
//@ item layout21raw/src/data.rs :: struct Instance
//@ end
//@ item layout21raw/src/data.rs :: struct TextElement
//@ end
/// model of slotmap's LayerKey: an opaque copyable, hashable key
#[derive(Debug, Clone, Copy, PartialEq, Eq, Hash)]
pub struct LayerKey { pub id: u64 }
//@ item layout21raw/src/data.rs :: enum LayerPurpose
//@ end
impl Clone for LayerPurpose { #[verifier::external_body] fn clone(&self) -> (r: Self) ensures r == *self { unimplemented!() } }
//@ item layout21raw/src/data.rs :: struct Element
//@ end
//@ item layout21raw/src/data.rs :: struct Layout
//@ end
//@ item layout21raw/src/proto.rs :: enum ProtoShape
//@   sub R4 /enum ProtoShape/ => pub enum ProtoShape
//@ end
impl Default for TextElement { fn default() -> (r: Self) ensures r.loc.x == 0, r.loc.y == 0 { TextElement { string: String::new(), loc: Point { x: 0, y: 0 } } } }
impl Point {
//@ fn layout21raw/src/geom.rs :: impl Point :: fn new
//@   ret r
//@   spec
//|     ensures r.x == x, r.y == y,
//@ end
}
//@ item layout21utils/src/context.rs :: enum ErrorContext
//@ end
/// whole degrees of an angle, as the schema stores them (f64 is opaque to the verifier)
pub uninterp spec fn whole_degrees(a: f64) -> Option<i32>;
pub uninterp spec fn degrees_f64(d: i32) -> f64;

// =====================================================================================================
// SPEC
// =====================================================================================================
pub open spec fn same_pt(g: proto::Point, p: Point) -> bool { g.x == p.x && g.y == p.y }
pub open spec fn same_pts(g: Seq<proto::Point>, p: Seq<Point>) -> bool { g.len() == p.len() && forall|i: int| 0 <= i < p.len() ==> same_pt(#[trigger] g[i], p[i]) }
/// machine-integer range in which differences of coordinates fit 64 bits
pub open spec fn small(p: Point) -> bool { -0x2000_0000_0000_0000 <= p.x <= 0x2000_0000_0000_0000 && -0x2000_0000_0000_0000 <= p.y <= 0x2000_0000_0000_0000 }
pub open spec fn imin(a: int, b: int) -> int { if a <= b { a } else { b } }
pub open spec fn imax(a: int, b: int) -> int { if a >= b { a } else { b } }
/// protobuf rectangle `g` is raw rectangle `rc`: lower-left corner, width and height (corners normalised)
pub open spec fn rect_is(g: proto::Rectangle, rc: Rect) -> bool {
    &&& g.lower_left is Some &&& g.lower_left->0.x == imin(rc.p0.x as int, rc.p1.x as int) &&& g.lower_left->0.y == imin(rc.p0.y as int, rc.p1.y as int)
    &&& g.width == imax(rc.p0.x as int, rc.p1.x as int) - imin(rc.p0.x as int, rc.p1.x as int)
    &&& g.height == imax(rc.p0.y as int, rc.p1.y as int) - imin(rc.p0.y as int, rc.p1.y as int)
}
pub open spec fn poly_is(g: proto::Polygon, p: Polygon) -> bool { same_pts(g.vertices@, p.points@) }
pub open spec fn path_is(g: proto::Path, p: Path) -> bool { same_pts(g.points@, p.points@) && g.width == p.width }
pub open spec fn shape_small(s: Shape) -> bool { s is Rect ==> small(s->Rect_0.p0) && small(s->Rect_0.p1) }
/// the exported shape has the same kind and geometry
pub open spec fn shape_exp(g: ProtoShape, s: Shape) -> bool {
    match s {
        Shape::Rect(rc) => g is Rect && rect_is(g->Rect_0, rc),
        Shape::Polygon(p) => g is Poly && poly_is(g->Poly_0, p),
        Shape::Path(p) => g is Path && path_is(g->Path_0, p),
    }
}
/// the instance message: name, reflection, location, target cell by name, rotation in whole degrees (zero for none)
pub open spec fn inst_exp(g: proto::Instance, inst: Instance) -> bool {
    &&& g.name@ == inst.inst_name@ &&& g.reflect_vert == inst.reflect_vert
    &&& g.origin_location is Some && same_pt(g.origin_location->0, inst.loc)
    &&& g.cell is Some && g.cell->0.to is Some && g.cell->0.to->0 is Local && g.cell->0.to->0->Local_0@ == (*inst.cell.v).name@
    &&& match inst.angle { None => g.rotation_clockwise_degrees == 0, Some(a) => whole_degrees(a) == Some(g.rotation_clockwise_degrees) }
}
pub open spec fn pnet(g: ProtoShape) -> Seq<char> { match g { ProtoShape::Rect(r) => r.net@, ProtoShape::Poly(r) => r.net@, ProtoShape::Path(r) => r.net@ } }
/// the schema stores "no net" as the empty string
pub open spec fn net_exp(g: Seq<char>, net: Option<String>) -> bool { match net { Some(n) => g == n@, None => g.len() == 0 } }

// =====================================================================================================
// EXPORTER (layout21raw/src/proto.rs)
// =====================================================================================================
//@ item layout21raw/src/proto.rs :: struct ProtoExporter
//@   sub R4 /\n    lib:/ => \n    pub lib:
//@   sub R4 /\n    ctx:/ => \n    pub ctx:
//@ end
impl<'lib> ProtoExporter<'lib> {
    #[verifier::external_body]
    fn fail<T, M>(&self, msg: M) -> (r: LayoutResult<T>) ensures r is Err { Err(LayoutError { }) }
//@ fn layout21raw/src/proto.rs :: impl<'lib> ProtoExporter<'lib> :: fn export_point
//@   ret r
//@   spec
//|     ensures final(self).lib == old(self).lib, r is Ok, same_pt(r->Ok_0, *p),
//@ end
    /// ASSUMED element-wise contract of `points.iter().map(|p| self.export_point(p)).collect::<Result<Vec<_>, _>>()?` (rule R6)
    #[verifier::external_body]
    fn vp_export_points(&mut self, pts: &Vec<Point>) -> (r: LayoutResult<Vec<proto::Point>>)
        ensures final(self).lib == old(self).lib, r is Ok, same_pts(r->Ok_0@, pts@),
    { unimplemented!() }
//@ fn layout21raw/src/proto.rs :: impl<'lib> ProtoExporter<'lib> :: fn export_rect
//@   ret r
//@   sub R7 /net: ""\.into\(\),/ => net: String::new(),
//@   spec
//|     requires small(rect.p0), small(rect.p1),
//|     ensures final(self).lib == old(self).lib, r is Ok, rect_is(r->Ok_0, *rect), r->Ok_0.net@.len() == 0,
//@ end
//@ fn layout21raw/src/proto.rs :: impl<'lib> ProtoExporter<'lib> :: fn export_polygon
//@   ret r
//@   sub R7 /net: ""\.into\(\),/ => net: String::new(),
//@   sub R6 /poly\s*\.points\s*\.iter\(\)\s*\.map\(\|p\| self\.export_point\(p\)\)\s*\.collect::<Result<Vec<_>, _>>\(\)\?/ => self.vp_export_points(&poly.points)?
//@   spec
//|     ensures final(self).lib == old(self).lib, r is Ok ==> poly_is(r->Ok_0, *poly) && r->Ok_0.net@.len() == 0,
//@ end
//@ fn layout21raw/src/proto.rs :: impl<'lib> ProtoExporter<'lib> :: fn export_path
//@   ret r
//@   sub R7 /net: ""\.into\(\),/ => net: String::new(),
//@   sub R6 /path\s*\.points\s*\.iter\(\)\s*\.map\(\|p\| self\.export_point\(p\)\)\s*\.collect::<Result<Vec<_>, _>>\(\)\?/ => self.vp_export_points(&path.points)?
//@   spec
//|     ensures final(self).lib == old(self).lib, r is Ok ==> path_is(r->Ok_0, *path) && r->Ok_0.net@.len() == 0,
//@ end
//@ fn layout21raw/src/proto.rs :: impl<'lib> ProtoExporter<'lib> :: fn export_annotation
//@   ret r
//@   spec
//|     ensures final(self).lib == old(self).lib, r is Ok ==> r->Ok_0.string@ == text.string@ && r->Ok_0.loc is Some && same_pt(r->Ok_0.loc->0, text.loc),
//@ end
//@ fn layout21raw/src/proto.rs :: impl<'lib> ProtoExporter<'lib> :: fn export_shape
//@   ret r
//@   spec
//|     requires shape_small(*shape),
//|     ensures final(self).lib == old(self).lib, r is Ok ==> shape_exp(r->Ok_0, *shape) && pnet(r->Ok_0).len() == 0,
//|         shape is Rect ==> r is Ok,
//@ end
//@ fn layout21raw/src/proto.rs :: impl<'lib> ProtoExporter<'lib> :: fn export_element
//@   ret r
//@   sub R5 /net\.to_string\(\)/ => net.clone()
//@   spec
//|     requires shape_small(elem.inner),
//|     ensures final(self).lib == old(self).lib, r is Ok ==> shape_exp(r->Ok_0, elem.inner) && net_exp(pnet(r->Ok_0), elem.net),
//@ end
//@ fn layout21raw/src/proto.rs :: impl<'lib> ProtoExporter<'lib> :: fn export_and_add_shape
//@   ret r
//@   spec
//|     requires shape_small(*shape),
//|     ensures final(self).lib == old(self).lib, r is Ok ==> final(pshapes).layer == old(pshapes).layer && (match *shape {
//|         // the shape is appended to the list of its own kind; the two other lists are untouched
//|         Shape::Rect(rc) => final(pshapes).rectangles@.len() == old(pshapes).rectangles@.len() + 1 && final(pshapes).rectangles@.drop_last() == old(pshapes).rectangles@
//|             && rect_is(final(pshapes).rectangles@.last(), rc) && final(pshapes).rectangles@.last().net@.len() == 0 && final(pshapes).polygons@ == old(pshapes).polygons@ && final(pshapes).paths@ == old(pshapes).paths@,
//|         Shape::Polygon(p) => final(pshapes).polygons@.len() == old(pshapes).polygons@.len() + 1 && final(pshapes).polygons@.drop_last() == old(pshapes).polygons@
//|             && poly_is(final(pshapes).polygons@.last(), p) && final(pshapes).polygons@.last().net@.len() == 0 && final(pshapes).rectangles@ == old(pshapes).rectangles@ && final(pshapes).paths@ == old(pshapes).paths@,
//|         Shape::Path(p) => final(pshapes).paths@.len() == old(pshapes).paths@.len() + 1 && final(pshapes).paths@.drop_last() == old(pshapes).paths@
//|             && path_is(final(pshapes).paths@.last(), p) && final(pshapes).paths@.last().net@.len() == 0 && final(pshapes).rectangles@ == old(pshapes).rectangles@ && final(pshapes).polygons@ == old(pshapes).polygons@,
//|     }),
//@ end
    //@ pin layout21raw/src/proto.rs :: impl<'lib> ProtoExporter<'lib> :: fn export_angle @91a4f6ed
    /// the float side of export_angle is outside the verifier: ASSUMED contract (whole degrees or an error), see DESIGN
    #[verifier::external_body]
    fn export_angle(&mut self, angle: Option<f64>) -> (r: LayoutResult<i32>)
        ensures final(self).lib == old(self).lib, match angle { None => r == Ok::<i32, LayoutError>(0), Some(a) => (r is Ok ==> whole_degrees(a) == Some(r->Ok_0)) && (whole_degrees(a) is None ==> r is Err) },
    { unimplemented!() }
//@ fn layout21raw/src/proto.rs :: impl<'lib> ProtoExporter<'lib> :: fn export_instance
//@   ret r
//@   spec
//|     ensures final(self).lib == old(self).lib, r is Ok ==> inst_exp(r->Ok_0, *inst),
//@ end
}

// =====================================================================================================
// IMPORTER
// =====================================================================================================
/// model of the name -> cell map used read-only by import_reference
pub struct CellMap { pub m: Vec<Ptr<Cell>> }
impl CellMap {
    pub uninterp spec fn lookup(&self, k: Seq<char>) -> Option<Ptr<Cell>>;
    /// model of HashMap::insert: the key now maps to `v`, every other key as before
    #[verifier::external_body]
    pub fn insert(&mut self, k: String, v: Ptr<Cell>) -> (r: Option<Ptr<Cell>>)
        ensures forall|q: Seq<char>| #[trigger] final(self).lookup(q) == (if q == k@ { Some(v) } else { old(self).lookup(q) }),
    { unimplemented!() }
    #[verifier::external_body]
    pub fn get(&self, k: &String) -> (r: Option<&Ptr<Cell>>)
        ensures (r is Some) == (self.lookup(k@) is Some), r is Some ==> *r->0 == self.lookup(k@)->0,
    { unimplemented!() }
}
/// model of layout21utils::Unwrapper for Option (Some(t) => Ok(t), None => helper.fail(msg))
pub trait Unwrapper: Sized {
    type Ok;
    spec fn some_spec(&self) -> Option<Self::Ok>;
    fn unwrapper<H, M>(self, helper: &H, msg: M) -> (r: Result<Self::Ok, LayoutError>)
        ensures self.some_spec() is Some ==> r == Ok::<Self::Ok, LayoutError>(self.some_spec()->0), self.some_spec() is None ==> r is Err;
}
impl<T> Unwrapper for Option<T> {
    type Ok = T;
    open spec fn some_spec(&self) -> Option<T> { *self }
    #[verifier::external_body]
    fn unwrapper<H, M>(self, helper: &H, msg: M) -> (r: Result<T, LayoutError>) { match self { Some(t) => Ok(t), None => Err(LayoutError { }) } }
}
// R5: importer reduced to the fields the leaf converters touch
//@ item layout21raw/src/proto.rs :: struct ProtoImporter
//@   sub R5 /pub layers: Ptr<Layers>,/ =>
//@   sub R5 /cell_map: HashMap<String, Ptr<Cell>>,/ => pub cell_map: CellMap,
//@   sub R4 /\n    lib: Library,/ => \n    pub lib: Library,
//@   sub R4 /\n    ctx:/ => \n    pub ctx:
//@ end
/// R11: i32 -> f64 conversion (exact), wrapped because f64 is opaque to the verifier
#[verifier::external_body]
pub fn vp_f64_from_i32(d: i32) -> (r: f64) ensures r == degrees_f64(d) { f64::from(d) }
impl ProtoImporter {
    #[verifier::external_body]
    fn fail<T, M>(&self, msg: M) -> (r: LayoutResult<T>) ensures r is Err { Err(LayoutError { }) }
//@ fn layout21raw/src/proto.rs :: impl ProtoImporter :: fn import_point
//@   ret r
//@   spec
//|     ensures r is Ok, same_pt(*pt, r->Ok_0), final(self).cell_map == old(self).cell_map, final(self).lib == old(self).lib, final(self).ctx == old(self).ctx,
//@ end
    /// ASSUMED element-wise contract of the iterator idiom (rule R6)
    #[verifier::external_body]
    fn import_point_vec(&mut self, points: &Vec<proto::Point>) -> (r: LayoutResult<Vec<Point>>)
        ensures r is Ok, same_pts(points@, r->Ok_0@), final(self).cell_map == old(self).cell_map, final(self).lib == old(self).lib, final(self).ctx == old(self).ctx,
    { unimplemented!() }
//@ fn layout21raw/src/proto.rs :: impl ProtoImporter :: fn import_polygon
//@   ret r
//@   spec
//|     ensures final(self).cell_map == old(self).cell_map, final(self).lib == old(self).lib, final(self).ctx == old(self).ctx, r is Ok ==> poly_imp(r->Ok_0, *ppoly),
//@ end
//@ fn layout21raw/src/proto.rs :: impl ProtoImporter :: fn import_rect
//@   ret r
//@   spec
//|     requires rect_small(*prect),
//|     ensures final(self).cell_map == old(self).cell_map, final(self).lib == old(self).lib, final(self).ctx == old(self).ctx, r is Ok ==> rect_imp(r->Ok_0, *prect),
//|         prect.lower_left is None ==> r is Err,
//@ end
//@ fn layout21raw/src/proto.rs :: impl ProtoImporter :: fn import_path
//@   ret r
//@   spec
//|     ensures final(self).cell_map == old(self).cell_map, final(self).lib == old(self).lib, final(self).ctx == old(self).ctx, r is Ok ==> path_imp(r->Ok_0, *x),
//|         x.width < 0 ==> r is Err,
//@ end
//@ fn layout21raw/src/proto.rs :: impl ProtoImporter :: fn import_annotation
//@   ret r
//@   spec
//|     ensures final(self).cell_map == old(self).cell_map, final(self).lib == old(self).lib, final(self).ctx == old(self).ctx, r is Ok ==> x.loc is Some && same_pt(x.loc->0, r->Ok_0.loc) && r->Ok_0.string@ == x.string@,
//|         x.loc is None ==> r is Err,
//@ end
//@ fn layout21raw/src/proto.rs :: impl ProtoImporter :: fn import_reference
//@   ret r
//@   sub R5 /let cellname: &str = match pref_to/ => let cellname: &String = match pref_to
//@   spec
//|     ensures final(self).cell_map == old(self).cell_map, final(self).lib == old(self).lib, final(self).ctx == old(self).ctx,
//|         r is Ok ==> pinst.cell is Some && pinst.cell->0.to is Some && pinst.cell->0.to->0 is Local
//|             && old(self).cell_map.lookup(pinst.cell->0.to->0->Local_0@) == Some(r->Ok_0),
//|         // a missing reference, an external reference or an undefined cell is an error, not a crash
//|         (pinst.cell is None || pinst.cell->0.to is None || pinst.cell->0.to->0 is External
//|             || old(self).cell_map.lookup(pinst.cell->0.to->0->Local_0@) is None) ==> r is Err,
//@ end
//@ fn layout21raw/src/proto.rs :: impl ProtoImporter :: fn import_instance
//@   ret r
//@   sub R11 /Some\(f64::from\(pinst\.rotation_clockwise_degrees\)\)/ => Some(vp_f64_from_i32(pinst.rotation_clockwise_degrees))
//@   spec
//|     ensures final(self).cell_map == old(self).cell_map, final(self).lib == old(self).lib, r is Ok ==> final(self).ctx@ == old(self).ctx@ && inst_imp(r->Ok_0, *pinst, old(self).cell_map),
//|         pinst.origin_location is None ==> r is Err,
//@   before /^        Ok\(inst\)$/
//|         proof { assert(self.ctx@ =~= old(self).ctx@); }
//@ end
    //@ pin layout21raw/src/proto.rs :: impl ProtoImporter :: fn import_layer @98c3c818
    //@ pin layout21raw/src/data.rs :: impl Layers :: fn get_or_insert @8ccc5028
    /// model of ProtoImporter::import_layer (looks the (number, purpose) pair up in / adds it to the shared layer table): ASSUMED to be a function of the pair
    #[verifier::external_body]
    fn import_layer(&mut self, player: &proto::Layer) -> (r: LayoutResult<(LayerKey, LayerPurpose)>)
        ensures final(self).cell_map == old(self).cell_map, final(self).lib == old(self).lib, final(self).ctx == old(self).ctx, r is Ok ==> r->Ok_0 == layer_of(player.number, player.purpose),
    { unimplemented!() }
//@ fn layout21raw/src/proto.rs :: impl ProtoImporter :: fn convert_shape
//@   ret r
//@   sub R5 /net: &str,/ => net: &String,
//@   sub R5 /net\.is_empty\(\)/ => vp_str_is_empty(net)
//@   sub R5 /net\.to_string\(\)/ => net.clone()
//@   spec
//|     ensures final(self).cell_map == old(self).cell_map, final(self).lib == old(self).lib, final(self).ctx == old(self).ctx,
//|         r is Ok, r->Ok_0.inner == inner, r->Ok_0.layer == layer, r->Ok_0.purpose == purpose, net_imp(r->Ok_0.net, net@),
//@ end
//@ fn layout21raw/src/proto.rs :: impl ProtoImporter :: fn import_layer_shapes
//@   ret r
//@   sub R6 /for shape in &player\.rectangles \{/ => for shape in player.rectangles.iter() {
//@   sub R6 /for shape in &player\.polygons \{/ => for shape in player.polygons.iter() {
//@   sub R6 /for shape in &player\.paths \{/ => for shape in player.paths.iter() {
//@   spec
//|     requires layer_small(*player),
//|     ensures final(self).cell_map == old(self).cell_map, final(self).lib == old(self).lib,
//|         r is Ok ==> final(self).ctx@ == old(self).ctx@ && chunk_is(r->Ok_0@, *player),
//|         player.layer is None ==> r is Err,
//@   loop 1 iter it
//|             invariant self.cell_map == old(self).cell_map, self.lib == old(self).lib, self.ctx@ == old(self).ctx@.push(ErrorContext::Geometry), layer_small(*player), player.layer is Some,
//|                 (layer, purpose) == layer_of(player.layer->0.number, player.layer->0.purpose), it.index@ <= player.rectangles@.len(),
//|                 elems@.len() == it.index@, forall|i: int| 0 <= i < it.index@ ==> elem_rect(#[trigger] elems@[i], player.rectangles@[i], layer, purpose),
//@   loop 2 iter it
//|             invariant self.cell_map == old(self).cell_map, self.lib == old(self).lib, self.ctx@ == old(self).ctx@.push(ErrorContext::Geometry), player.layer is Some,
//|                 (layer, purpose) == layer_of(player.layer->0.number, player.layer->0.purpose), it.index@ <= player.polygons@.len(),
//|                 elems@.len() == player.rectangles@.len() + it.index@,
//|                 forall|i: int| 0 <= i < player.rectangles@.len() ==> elem_rect(#[trigger] elems@[i], player.rectangles@[i], layer, purpose),
//|                 forall|i: int| 0 <= i < it.index@ ==> elem_poly(#[trigger] elems@[player.rectangles@.len() + i], player.polygons@[i], layer, purpose),
//@   loop 3 iter it
//|             invariant self.cell_map == old(self).cell_map, self.lib == old(self).lib, self.ctx@ == old(self).ctx@.push(ErrorContext::Geometry), player.layer is Some,
//|                 (layer, purpose) == layer_of(player.layer->0.number, player.layer->0.purpose), it.index@ <= player.paths@.len(),
//|                 elems@.len() == player.rectangles@.len() + player.polygons@.len() + it.index@,
//|                 forall|i: int| 0 <= i < player.rectangles@.len() ==> elem_rect(#[trigger] elems@[i], player.rectangles@[i], layer, purpose),
//|                 forall|i: int| 0 <= i < player.polygons@.len() ==> elem_poly(#[trigger] elems@[player.rectangles@.len() + i], player.polygons@[i], layer, purpose),
//|                 forall|i: int| 0 <= i < it.index@ ==> elem_path(#[trigger] elems@[player.rectangles@.len() + player.polygons@.len() + i], player.paths@[i], layer, purpose),
//@   before /^        Ok\(elems\)$/
//|         proof { assert(self.ctx@ =~= old(self).ctx@); }
//@ end
}
/// raw instance `i` is the import of protobuf instance `g`: name, reflection, location, the referenced cell looked up by name, rotation (0 = none)
pub open spec fn inst_imp(i: Instance, g: proto::Instance, m: CellMap) -> bool {
    &&& i.inst_name@ == g.name@ &&& i.reflect_vert == g.reflect_vert
    &&& g.origin_location is Some && same_pt(g.origin_location->0, i.loc)
    &&& g.cell is Some && g.cell->0.to is Some && g.cell->0.to->0 is Local && m.lookup(g.cell->0.to->0->Local_0@) == Some(i.cell)
    &&& (g.rotation_clockwise_degrees == 0 ==> i.angle is None)
    &&& (g.rotation_clockwise_degrees != 0 ==> i.angle == Some(degrees_f64(g.rotation_clockwise_degrees)))
}
/// the elements of a layout are the imports of its protobuf layers, layer after layer
pub open spec fn elems_are(es: Seq<Element>, ls: Seq<proto::LayerShapes>) -> bool decreases ls.len() {
    if ls.len() == 0 { es.len() == 0 } else {
        let n = chunk_len(ls.last());
        es.len() >= n && elems_are(es.take(es.len() - n), ls.drop_last()) && chunk_is(es.skip(es.len() - n), ls.last())
    }
}
/// the imported layout: name; one instance per protobuf instance, in order; every shape of every layer, in order; one annotation per text, in order
pub open spec fn layout_imp(c: Layout, playout: proto::Layout, m: CellMap) -> bool {
    &&& c.name@ == playout.name@
    &&& c.insts@.len() == playout.instances@.len() &&& forall|i: int| 0 <= i < playout.instances@.len() ==> inst_imp(#[trigger] c.insts@[i], playout.instances@[i], m)
    &&& elems_are(c.elems@, playout.shapes@)
    &&& c.annotations@.len() == playout.annotations@.len()
    &&& forall|i: int| 0 <= i < playout.annotations@.len() ==> (#[trigger] playout.annotations@[i]).loc is Some && same_pt(playout.annotations@[i].loc->0, c.annotations@[i].loc) && c.annotations@[i].string@ == playout.annotations@[i].string@
}
pub open spec fn layers_small(ls: Seq<proto::LayerShapes>) -> bool { forall|i: int| 0 <= i < ls.len() ==> layer_small(#[trigger] ls[i]) }
/// model of `Vec::extend(Vec)` (rule R6): appends the elements in order
#[verifier::external_body]
pub fn vp_extend_elems(v: &mut Vec<Element>, w: Vec<Element>) ensures final(v)@ == old(v)@ + w@ { v.extend(w) }
impl Default for Layout { fn default() -> (r: Self) ensures r.name@.len() == 0, r.insts@.len() == 0, r.elems@.len() == 0, r.annotations@.len() == 0 { Layout { name: String::new(), insts: Vec::new(), elems: Vec::new(), annotations: Vec::new() } } }
impl ProtoImporter {
//@ fn layout21raw/src/proto.rs :: impl ProtoImporter :: fn import_layout
//@   ret r
//@   sub R6 /for inst in &playout\.instances \{/ => for inst in playout.instances.iter() {
//@   sub R6 /for s in &playout\.shapes \{/ => for s in playout.shapes.iter() {
//@   sub R6 /for txt in &playout\.annotations \{/ => for txt in playout.annotations.iter() {
//@   sub R6 /cell\.elems\.extend\(self\.import_layer_shapes\(s\)\?\);/ => vp_extend_elems(&mut cell.elems, self.import_layer_shapes(s)?);
//@   spec
//|     requires layers_small(playout.shapes@),
//|     ensures final(self).cell_map == old(self).cell_map, final(self).lib == old(self).lib,
//|         r is Ok ==> final(self).ctx@ == old(self).ctx@ && layout_imp(r->Ok_0, *playout, old(self).cell_map),
//@   loop 1 iter it
//|             invariant self.cell_map == old(self).cell_map, self.lib == old(self).lib, self.ctx@ == old(self).ctx@.push(ErrorContext::Impl), layers_small(playout.shapes@), cell.name@ == playout.name@,
//|                 cell.elems@.len() == 0, cell.annotations@.len() == 0, cell.insts@.len() == it.index@, it.index@ <= playout.instances@.len(),
//|                 forall|i: int| 0 <= i < it.index@ ==> inst_imp(#[trigger] cell.insts@[i], playout.instances@[i], self.cell_map),
//@   loop 2 iter it
//|             invariant self.cell_map == old(self).cell_map, self.lib == old(self).lib, self.ctx@ == old(self).ctx@.push(ErrorContext::Impl), layers_small(playout.shapes@), cell.name@ == playout.name@,
//|                 cell.annotations@.len() == 0, cell.insts@.len() == playout.instances@.len(), it.index@ <= playout.shapes@.len(),
//|                 forall|i: int| 0 <= i < playout.instances@.len() ==> inst_imp(#[trigger] cell.insts@[i], playout.instances@[i], self.cell_map),
//|                 elems_are(cell.elems@, playout.shapes@.take(it.index@ as int)),
//@   before /vp_extend_elems\(&mut cell\.elems/
//|             let ghost e0 = cell.elems@;
//@   loopend 2
//|             proof {
//|                 let t1 = playout.shapes@.take(it.index@ + 1); let n = chunk_len(*s);
//|                 assert(t1.drop_last() == playout.shapes@.take(it.index@ as int)); assert(t1.last() == *s);
//|                 assert(cell.elems@.len() == e0.len() + n);
//|                 assert(cell.elems@.take(cell.elems@.len() - n) =~= e0);
//|                 assert(chunk_is(cell.elems@.skip(cell.elems@.len() - n), *s)) by { assert(cell.elems@.skip(cell.elems@.len() - n) =~= cell.elems@.skip(e0.len() as int)); }
//|             }
//@   loop 3 iter it
//|             invariant self.cell_map == old(self).cell_map, self.lib == old(self).lib, self.ctx@ == old(self).ctx@.push(ErrorContext::Impl), cell.name@ == playout.name@,
//|                 cell.insts@.len() == playout.instances@.len(), it.index@ <= playout.annotations@.len(), cell.annotations@.len() == it.index@,
//|                 forall|i: int| 0 <= i < playout.instances@.len() ==> inst_imp(#[trigger] cell.insts@[i], playout.instances@[i], self.cell_map),
//|                 elems_are(cell.elems@, playout.shapes@),
//|                 forall|i: int| 0 <= i < it.index@ ==> (#[trigger] playout.annotations@[i]).loc is Some && same_pt(playout.annotations@[i].loc->0, cell.annotations@[i].loc) && cell.annotations@[i].string@ == playout.annotations@[i].string@,
//@   before /for txt in playout\.annotations\.iter\(\) \{/
//|         proof { assert(playout.shapes@.take(playout.shapes@.len() as int) == playout.shapes@); }
//@   before /^        Ok\(cell\)$/
//|         proof { assert(self.ctx@ =~= old(self).ctx@); }
//@ end
}
/// R5: `str::is_empty` on a String's contents
#[verifier::external_body]
pub fn vp_str_is_empty(s: &String) -> (r: bool) ensures r == (s@.len() == 0) { s.is_empty() }
/// the (LayerKey, LayerPurpose) the shared layer table gives a (number, purpose) pair — assumption (import_layer is modelled)
pub uninterp spec fn layer_of(number: i64, purpose: i64) -> (LayerKey, LayerPurpose);
/// the empty string means "no net"
pub open spec fn net_imp(net: Option<String>, g: Seq<char>) -> bool { if g.len() == 0 { net is None } else { net is Some && net->0@ == g } }
pub open spec fn rect_small(g: proto::Rectangle) -> bool {
    (g.lower_left is Some ==> (-0x2000_0000_0000_0000 <= g.lower_left->0.x <= 0x2000_0000_0000_0000 && -0x2000_0000_0000_0000 <= g.lower_left->0.y <= 0x2000_0000_0000_0000))
    && -0x2000_0000_0000_0000 <= g.width <= 0x2000_0000_0000_0000 && -0x2000_0000_0000_0000 <= g.height <= 0x2000_0000_0000_0000
}
pub open spec fn layer_small(l: proto::LayerShapes) -> bool { forall|i: int| 0 <= i < l.rectangles@.len() ==> rect_small(#[trigger] l.rectangles@[i]) }
/// raw rectangle from a protobuf one: p0 the lower-left corner, p1 = p0 + (width, height)
pub open spec fn rect_imp(s: Shape, g: proto::Rectangle) -> bool {
    match s { Shape::Rect(rc) => g.lower_left is Some && same_pt(g.lower_left->0, rc.p0) && rc.p1.x == rc.p0.x + g.width && rc.p1.y == rc.p0.y + g.height, _ => false }
}
pub open spec fn poly_imp(s: Shape, g: proto::Polygon) -> bool { match s { Shape::Polygon(p) => same_pts(g.vertices@, p.points@), _ => false } }
pub open spec fn path_imp(s: Shape, g: proto::Path) -> bool { match s { Shape::Path(p) => same_pts(g.points@, p.points@) && p.width == g.width && g.width >= 0, _ => false } }
pub open spec fn elem_rect(e: Element, g: proto::Rectangle, k: LayerKey, p: LayerPurpose) -> bool { e.layer == k && e.purpose == p && net_imp(e.net, g.net@) && rect_imp(e.inner, g) }
pub open spec fn elem_poly(e: Element, g: proto::Polygon, k: LayerKey, p: LayerPurpose) -> bool { e.layer == k && e.purpose == p && net_imp(e.net, g.net@) && poly_imp(e.inner, g) }
pub open spec fn elem_path(e: Element, g: proto::Path, k: LayerKey, p: LayerPurpose) -> bool { e.layer == k && e.purpose == p && net_imp(e.net, g.net@) && path_imp(e.inner, g) }
pub open spec fn chunk_len(l: proto::LayerShapes) -> int { (l.rectangles@.len() + l.polygons@.len() + l.paths@.len()) as int }
/// `es` is the import of one protobuf layer: its rectangles, then its polygons, then its paths, each on the layer's key and purpose with its own net
pub open spec fn chunk_is(es: Seq<Element>, l: proto::LayerShapes) -> bool {
    &&& l.layer is Some &&& es.len() == chunk_len(l)
    &&& forall|i: int| 0 <= i < l.rectangles@.len() ==> elem_rect(#[trigger] es[i], l.rectangles@[i], layer_of(l.layer->0.number, l.layer->0.purpose).0, layer_of(l.layer->0.number, l.layer->0.purpose).1)
    &&& forall|i: int| 0 <= i < l.polygons@.len() ==> elem_poly(#[trigger] es[l.rectangles@.len() + i], l.polygons@[i], layer_of(l.layer->0.number, l.layer->0.purpose).0, layer_of(l.layer->0.number, l.layer->0.purpose).1)
    &&& forall|i: int| 0 <= i < l.paths@.len() ==> elem_path(#[trigger] es[l.rectangles@.len() + l.polygons@.len() + i], l.paths@[i], layer_of(l.layer->0.number, l.layer->0.purpose).0, layer_of(l.layer->0.number, l.layer->0.purpose).1)
}
/// C14 (shapes): export then import gives the same point lists; a rectangle comes back with its corners normalised (p0 = lower-left, p1 = upper-right)
proof fn lemma_pts_roundtrip(p: Seq<Point>, g: Seq<proto::Point>, q: Seq<Point>) requires same_pts(g, p), same_pts(g, q) ensures p =~= q {
    assert forall|i: int| 0 <= i < p.len() implies p[i] == q[i] by { assert(same_pt(g[i], p[i]) && same_pt(g[i], q[i])); }
}

