// Unit U12a raw_proto: layout21raw <-> vlsir protobuf leaf converters (C14).
use vstd::prelude::*;
use vstd::std_specs::hash::*;
use std::convert::{TryFrom, TryInto};
use std::collections::HashMap;
verus! {
global size_of usize == 8;
//@ include units/common/float.inc.rs
//@ include units/raw_proto/proto.inc.rs
proof fn canary_same_pts(g: Seq<proto::Point>, p: Seq<Point>) requires same_pts(g, p), p.len() == 2 ensures false {}
}
fn main() {}
