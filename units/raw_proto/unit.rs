// Unit U12a raw_proto: layout21raw <-> vlsir protobuf leaf converters (C14).
use vstd::prelude::*;
use std::convert::{TryFrom, TryInto};
verus! {
global size_of usize == 8;
//@ include units/common/float.inc.rs
pub type Int = isize;

// =====================================================================================================
// MODELS (rule R5)
// =====================================================================================================
#[derive(Debug)]
pub struct LayoutError { }
pub type LayoutResult<T> = Result<T, LayoutError>;
impl vstd::std_specs::convert::FromSpecImpl<std::num::TryFromIntError> for LayoutError {
    open spec fn obeys_from_spec() -> bool { true }
    open spec fn from_spec(e: std::num::TryFromIntError) -> LayoutError { LayoutError { } }
}
impl From<std::num::TryFromIntError> for LayoutError { fn from(e: std::num::TryFromIntError) -> Self { LayoutError { } } }
pub assume_specification [isize::abs] (x: isize) -> (r: isize) requires x > isize::MIN ensures r == (if x >= 0 { x as int } else { -x });
pub assume_specification [i64::abs] (x: i64) -> (r: i64) requires x > i64::MIN ensures r == (if x >= 0 { x as int } else { -x });
/// stand-ins for the prost-generated vlsir message structs (field names and types copied from the generated vlsir.raw.rs / vlsir.utils.rs)
pub mod proto {
    use vstd::prelude::*;
    #[derive(Debug, Clone, Copy)]
    pub struct Point { pub x: i64, pub y: i64 }
    impl Point { pub fn new(x: i64, y: i64) -> (r: Self) ensures r.x == x, r.y == y { Self { x, y } } }
    pub struct Rectangle { pub net: String, pub lower_left: Option<Point>, pub width: i64, pub height: i64 }
    pub struct Polygon { pub net: String, pub vertices: Vec<Point> }
    pub struct Path { pub net: String, pub points: Vec<Point>, pub width: i64 }
    pub struct TextElement { pub string: String, pub loc: Option<Point> }
    pub struct QualifiedName { pub domain: String, pub name: String }
    pub mod reference { pub enum To { Local(String), External(super::QualifiedName) } }
    pub struct Reference { pub to: Option<reference::To> }
    pub struct Instance { pub name: String, pub cell: Option<Reference>, pub origin_location: Option<Point>, pub reflect_vert: bool, pub rotation_clockwise_degrees: i32 }
    // prost messages derive Default: every field its type's default
    impl Default for Rectangle { fn default() -> (r: Self) ensures r.lower_left is None, r.width == 0, r.height == 0, r.net@.len() == 0 { Rectangle { net: String::new(), lower_left: None, width: 0, height: 0 } } }
    impl Default for Polygon { fn default() -> (r: Self) ensures r.vertices@.len() == 0, r.net@.len() == 0 { Polygon { net: String::new(), vertices: Vec::new() } } }
    impl Default for Path { fn default() -> (r: Self) ensures r.points@.len() == 0, r.width == 0, r.net@.len() == 0 { Path { net: String::new(), points: Vec::new(), width: 0 } } }
    impl Default for TextElement { fn default() -> (r: Self) ensures r.loc is None, r.string@.len() == 0 { TextElement { string: String::new(), loc: None } } }
    impl Default for Instance { fn default() -> (r: Self) ensures r.cell is None, r.origin_location is None, !r.reflect_vert, r.rotation_clockwise_degrees == 0, r.name@.len() == 0 { Instance { name: String::new(), cell: None, origin_location: None, reflect_vert: false, rotation_clockwise_degrees: 0 } } }
}
/// model of layout21utils::Ptr<T> (opaque shared handle); `read` yields the pointee or a lock-poison error
pub struct Ptr<T> { pub v: Box<T> }
impl<T> Ptr<T> {
    #[verifier::external_body]
    pub fn read(&self) -> (r: LayoutResult<&T>) ensures r is Ok ==> *r->Ok_0 == *self.v { Ok(&*self.v) }
}
impl<T> Clone for Ptr<T> { #[verifier::external_body] fn clone(&self) -> (r: Self) ensures r == *self { unimplemented!() } }
pub struct Cell { pub name: String }
//@ item layout21raw/src/geom.rs :: struct Point
//@   derive Debug, Copy, Clone
//@ end
//@ item layout21raw/src/geom.rs :: struct Rect
//@ end
//@ item layout21raw/src/geom.rs :: struct Polygon
//@ end
//@ item layout21raw/src/geom.rs :: struct Path
//@ end
//@ item layout21raw/src/geom.rs :: enum Shape
//@ end
//@ item layout21raw/src/data.rs :: struct Instance
//@ end
//@ item layout21raw/src/data.rs :: struct TextElement
//@ end
impl Default for TextElement { fn default() -> (r: Self) ensures r.loc.x == 0, r.loc.y == 0 { TextElement { string: String::new(), loc: Point { x: 0, y: 0 } } } }
impl Point {
//@ fn layout21raw/src/geom.rs :: impl Point :: fn new
//@   ret r
//@   spec
//|     ensures r.x == x, r.y == y,
//@ end
}
//@ item layout21utils/src/context.rs :: enum ErrorContext
//@ end
/// whole degrees of an angle, as the schema stores them (f64 is opaque to the verifier)
pub uninterp spec fn whole_degrees(a: f64) -> Option<i32>;
pub uninterp spec fn degrees_f64(d: i32) -> f64;

// =====================================================================================================
// SPEC
// =====================================================================================================
pub open spec fn same_pt(g: proto::Point, p: Point) -> bool { g.x == p.x && g.y == p.y }
pub open spec fn same_pts(g: Seq<proto::Point>, p: Seq<Point>) -> bool { g.len() == p.len() && forall|i: int| 0 <= i < p.len() ==> same_pt(#[trigger] g[i], p[i]) }
/// machine-integer range in which differences of coordinates fit 64 bits
pub open spec fn small(p: Point) -> bool { -0x2000_0000_0000_0000 <= p.x <= 0x2000_0000_0000_0000 && -0x2000_0000_0000_0000 <= p.y <= 0x2000_0000_0000_0000 }
pub open spec fn imin(a: int, b: int) -> int { if a <= b { a } else { b } }
pub open spec fn imax(a: int, b: int) -> int { if a >= b { a } else { b } }

// =====================================================================================================
// EXPORTER (layout21raw/src/proto.rs)
// =====================================================================================================
// R5: exporter without its `lib: &Library` field
//@ item layout21raw/src/proto.rs :: struct ProtoExporter
//@   sub R5 /ProtoExporter<'lib>/ => ProtoExporter
//@   sub R5 /lib: &'lib Library,/ =>
//@   sub R4 /\n    ctx:/ => \n    pub ctx:
//@ end
impl ProtoExporter {
    #[verifier::external_body]
    fn fail<T, M>(&self, msg: M) -> (r: LayoutResult<T>) ensures r is Err { Err(LayoutError { }) }
//@ fn layout21raw/src/proto.rs :: impl<'lib> ProtoExporter<'lib> :: fn export_point
//@   ret r
//@   spec
//|     ensures r is Ok, same_pt(r->Ok_0, *p),
//@ end
    /// ASSUMED element-wise contract of `points.iter().map(|p| self.export_point(p)).collect::<Result<Vec<_>, _>>()?` (rule R6)
    #[verifier::external_body]
    fn vp_export_points(&mut self, pts: &Vec<Point>) -> (r: LayoutResult<Vec<proto::Point>>)
        ensures r is Ok, same_pts(r->Ok_0@, pts@),
    { unimplemented!() }
//@ fn layout21raw/src/proto.rs :: impl<'lib> ProtoExporter<'lib> :: fn export_rect
//@   ret r
//@   sub R7 /net: ""\.into\(\),/ => net: String::new(),
//@   spec
//|     requires small(rect.p0), small(rect.p1),
//|     ensures r is Ok ==> ({
//|         let g = r->Ok_0;
//|         &&& g.lower_left is Some &&& g.lower_left->0.x == imin(rect.p0.x as int, rect.p1.x as int) &&& g.lower_left->0.y == imin(rect.p0.y as int, rect.p1.y as int)
//|         &&& g.width == imax(rect.p0.x as int, rect.p1.x as int) - imin(rect.p0.x as int, rect.p1.x as int)
//|         &&& g.height == imax(rect.p0.y as int, rect.p1.y as int) - imin(rect.p0.y as int, rect.p1.y as int)
//|     }),
//@ end
//@ fn layout21raw/src/proto.rs :: impl<'lib> ProtoExporter<'lib> :: fn export_polygon
//@   ret r
//@   sub R7 /net: ""\.into\(\),/ => net: String::new(),
//@   sub R6 /poly\s*\.points\s*\.iter\(\)\s*\.map\(\|p\| self\.export_point\(p\)\)\s*\.collect::<Result<Vec<_>, _>>\(\)\?/ => self.vp_export_points(&poly.points)?
//@   spec
//|     ensures r is Ok ==> same_pts(r->Ok_0.vertices@, poly.points@),
//@ end
//@ fn layout21raw/src/proto.rs :: impl<'lib> ProtoExporter<'lib> :: fn export_path
//@   ret r
//@   sub R7 /net: ""\.into\(\),/ => net: String::new(),
//@   sub R6 /path\s*\.points\s*\.iter\(\)\s*\.map\(\|p\| self\.export_point\(p\)\)\s*\.collect::<Result<Vec<_>, _>>\(\)\?/ => self.vp_export_points(&path.points)?
//@   spec
//|     ensures r is Ok ==> same_pts(r->Ok_0.points@, path.points@) && r->Ok_0.width == path.width,
//@ end
//@ fn layout21raw/src/proto.rs :: impl<'lib> ProtoExporter<'lib> :: fn export_annotation
//@   ret r
//@   spec
//|     ensures r is Ok ==> r->Ok_0.string@ == text.string@ && r->Ok_0.loc is Some && same_pt(r->Ok_0.loc->0, text.loc),
//@ end
    /// the float side of export_angle is outside the verifier: ASSUMED contract (whole degrees or an error), see DESIGN
    #[verifier::external_body]
    fn export_angle(&mut self, angle: Option<f64>) -> (r: LayoutResult<i32>)
        ensures match angle { None => r == Ok::<i32, LayoutError>(0), Some(a) => (r is Ok ==> whole_degrees(a) == Some(r->Ok_0)) && (whole_degrees(a) is None ==> r is Err) },
    { unimplemented!() }
//@ fn layout21raw/src/proto.rs :: impl<'lib> ProtoExporter<'lib> :: fn export_instance
//@   ret r
//@   spec
//|     ensures r is Ok ==> ({
//|         let g = r->Ok_0;
//|         &&& g.name@ == inst.inst_name@ &&& g.reflect_vert == inst.reflect_vert
//|         &&& g.origin_location is Some && same_pt(g.origin_location->0, inst.loc)
//|         &&& g.cell is Some && g.cell->0.to is Some && g.cell->0.to->0 is Local && g.cell->0.to->0->Local_0@ == (*inst.cell.v).name@
//|         // the rotation is exported (whole degrees; zero for none)
//|         &&& match inst.angle { None => g.rotation_clockwise_degrees == 0, Some(a) => whole_degrees(a) == Some(g.rotation_clockwise_degrees) }
//|     }),
//@ end
}

// =====================================================================================================
// IMPORTER
// =====================================================================================================
/// model of the name -> cell map used read-only by import_reference
pub struct CellMap { pub m: Vec<Ptr<Cell>> }
impl CellMap {
    pub uninterp spec fn lookup(&self, k: Seq<char>) -> Option<Ptr<Cell>>;
    #[verifier::external_body]
    pub fn get(&self, k: &String) -> (r: Option<&Ptr<Cell>>)
        ensures (r is Some) == (self.lookup(k@) is Some), r is Some ==> *r->0 == self.lookup(k@)->0,
    { unimplemented!() }
}
/// model of layout21utils::Unwrapper for Option (Some(t) => Ok(t), None => helper.fail(msg))
pub trait Unwrapper: Sized {
    type Ok;
    spec fn some_spec(&self) -> Option<Self::Ok>;
    fn unwrapper<M>(self, helper: &ProtoImporter, msg: M) -> (r: Result<Self::Ok, LayoutError>)
        ensures self.some_spec() is Some ==> r == Ok::<Self::Ok, LayoutError>(self.some_spec()->0), self.some_spec() is None ==> r is Err;
}
impl<T> Unwrapper for Option<T> {
    type Ok = T;
    open spec fn some_spec(&self) -> Option<T> { *self }
    #[verifier::external_body]
    fn unwrapper<M>(self, helper: &ProtoImporter, msg: M) -> (r: Result<T, LayoutError>) { match self { Some(t) => Ok(t), None => Err(LayoutError { }) } }
}
// R5: importer reduced to the fields the leaf converters touch
//@ item layout21raw/src/proto.rs :: struct ProtoImporter
//@   sub R5 /pub layers: Ptr<Layers>,/ =>
//@   sub R5 /cell_map: HashMap<String, Ptr<Cell>>,/ => pub cell_map: CellMap,
//@   sub R5 /lib: Library,/ =>
//@   sub R4 /\n    ctx:/ => \n    pub ctx:
//@ end
/// R11: i32 -> f64 conversion (exact), wrapped because f64 is opaque to the verifier
#[verifier::external_body]
pub fn vp_f64_from_i32(d: i32) -> (r: f64) ensures r == degrees_f64(d) { f64::from(d) }
impl ProtoImporter {
    #[verifier::external_body]
    fn fail<T, M>(&self, msg: M) -> (r: LayoutResult<T>) ensures r is Err { Err(LayoutError { }) }
//@ fn layout21raw/src/proto.rs :: impl ProtoImporter :: fn import_point
//@   ret r
//@   spec
//|     ensures r is Ok, same_pt(*pt, r->Ok_0), final(self).cell_map == old(self).cell_map,
//@ end
    /// ASSUMED element-wise contract of the iterator idiom (rule R6)
    #[verifier::external_body]
    fn import_point_vec(&mut self, points: &Vec<proto::Point>) -> (r: LayoutResult<Vec<Point>>)
        ensures r is Ok, same_pts(points@, r->Ok_0@), final(self).cell_map == old(self).cell_map,
    { unimplemented!() }
//@ fn layout21raw/src/proto.rs :: impl ProtoImporter :: fn import_polygon
//@   ret r
//@   spec
//|     ensures r is Ok ==> (match r->Ok_0 { Shape::Polygon(p) => same_pts(ppoly.vertices@, p.points@), _ => false }),
//@ end
//@ fn layout21raw/src/proto.rs :: impl ProtoImporter :: fn import_rect
//@   ret r
//@   spec
//|     requires prect.lower_left is Some ==> (-0x2000_0000_0000_0000 <= prect.lower_left->0.x <= 0x2000_0000_0000_0000 && -0x2000_0000_0000_0000 <= prect.lower_left->0.y <= 0x2000_0000_0000_0000),
//|         -0x2000_0000_0000_0000 <= prect.width <= 0x2000_0000_0000_0000, -0x2000_0000_0000_0000 <= prect.height <= 0x2000_0000_0000_0000,
//|     ensures r is Ok ==> (match r->Ok_0 { Shape::Rect(rc) => prect.lower_left is Some && same_pt(prect.lower_left->0, rc.p0)
//|             && rc.p1.x == rc.p0.x + prect.width && rc.p1.y == rc.p0.y + prect.height, _ => false }),
//|         prect.lower_left is None ==> r is Err,
//@ end
//@ fn layout21raw/src/proto.rs :: impl ProtoImporter :: fn import_path
//@   ret r
//@   spec
//|     ensures r is Ok ==> (match r->Ok_0 { Shape::Path(p) => same_pts(x.points@, p.points@) && p.width == x.width && x.width >= 0, _ => false }),
//|         x.width < 0 ==> r is Err,
//@ end
//@ fn layout21raw/src/proto.rs :: impl ProtoImporter :: fn import_annotation
//@   ret r
//@   spec
//|     ensures r is Ok ==> x.loc is Some && same_pt(x.loc->0, r->Ok_0.loc) && r->Ok_0.string@ == x.string@,
//|         x.loc is None ==> r is Err,
//@ end
//@ fn layout21raw/src/proto.rs :: impl ProtoImporter :: fn import_reference
//@   ret r
//@   sub R5 /let cellname: &str = match pref_to/ => let cellname: &String = match pref_to
//@   spec
//|     ensures final(self).cell_map == old(self).cell_map,
//|         r is Ok ==> pinst.cell is Some && pinst.cell->0.to is Some && pinst.cell->0.to->0 is Local
//|             && old(self).cell_map.lookup(pinst.cell->0.to->0->Local_0@) == Some(r->Ok_0),
//|         // a missing reference, an external reference or an undefined cell is an error, not a crash
//|         (pinst.cell is None || pinst.cell->0.to is None || pinst.cell->0.to->0 is External
//|             || old(self).cell_map.lookup(pinst.cell->0.to->0->Local_0@) is None) ==> r is Err,
//@ end
//@ fn layout21raw/src/proto.rs :: impl ProtoImporter :: fn import_instance
//@   ret r
//@   sub R11 /Some\(f64::from\(pinst\.rotation_clockwise_degrees\)\)/ => Some(vp_f64_from_i32(pinst.rotation_clockwise_degrees))
//@   spec
//|     ensures r is Ok ==> ({
//|         let i = r->Ok_0;
//|         &&& i.inst_name@ == pinst.name@ &&& i.reflect_vert == pinst.reflect_vert
//|         &&& pinst.origin_location is Some && same_pt(pinst.origin_location->0, i.loc)
//|         &&& pinst.cell is Some && pinst.cell->0.to is Some && pinst.cell->0.to->0 is Local && old(self).cell_map.lookup(pinst.cell->0.to->0->Local_0@) == Some(i.cell)
//|         &&& (pinst.rotation_clockwise_degrees == 0 ==> i.angle is None)
//|         &&& (pinst.rotation_clockwise_degrees != 0 ==> i.angle == Some(degrees_f64(pinst.rotation_clockwise_degrees)))
//|     }),
//|         pinst.origin_location is None ==> r is Err,
//@ end
}
/// C14 (shapes): export then import gives the same point lists; a rectangle comes back with its corners normalised (p0 = lower-left, p1 = upper-right)
proof fn lemma_pts_roundtrip(p: Seq<Point>, g: Seq<proto::Point>, q: Seq<Point>) requires same_pts(g, p), same_pts(g, q) ensures p =~= q {
    assert forall|i: int| 0 <= i < p.len() implies p[i] == q[i] by { assert(same_pt(g[i], p[i]) && same_pt(g[i], q[i])); }
}

proof fn canary_same_pts(g: Seq<proto::Point>, p: Seq<Point>) requires same_pts(g, p), p.len() == 2 ensures false {}
}
fn main() {}
