// unit lef_layer (C16: "on the layer named in the LEF"): the REAL LefImporter::import_layer against a model of the shared layer table.
// The contract proved here is the one unit lef_import assumes for its copy of import_layer.
use vstd::prelude::*;
verus! {
#[derive(Debug)]
pub struct LayoutError { }
pub type LayoutResult<T> = Result<T, LayoutError>;
/// model of slotmap's LayerKey: an opaque copyable key
#[derive(Debug, Clone, Copy)]
pub struct LayerKey { pub id: u64 }
/// ABSTRACTION: a slot-map key is a fresh opaque value, so the key created for the first layer added under name `n` is called key_of(n)
pub uninterp spec fn key_of(name: Seq<char>) -> LayerKey;
/// model of layout21raw::data::Layer as far as import_layer builds one: number and name
pub struct Layer { pub layernum: i16, pub name: Option<String> }
impl Layer {
    //@ pin layout21raw/src/data.rs :: impl Layer :: fn new @25b40ddc
    //@ pin layout21raw/src/data.rs :: impl Layer :: fn from_num @13c7a624
    /// model of Layer::from_num: that number, no name
    #[verifier::external_body]
    pub fn from_num(layernum: i16) -> (r: Self) ensures r.layernum == layernum, r.name is None { unimplemented!() }
    /// model of Layer::new(layernum, impl Into<String>): that number, that name
    #[verifier::external_body]
    pub fn new(layernum: i16, name: &String) -> (r: Self) ensures r.layernum == layernum, r.name is Some, r.name->Some_0@ == name@ { unimplemented!() }
}
/// `impl Into<String>` as far as the callers use it: a borrowed or an owned string, by its characters
pub trait NameLike { spec fn chars(&self) -> Seq<char>; }
impl NameLike for &String { open spec fn chars(&self) -> Seq<char> { (**self)@ } }
impl NameLike for String { open spec fn chars(&self) -> Seq<char> { (*self)@ } }
/// str::to_lowercase (std): some string determined by the argument (its relation to the argument is left uninterpreted)
pub uninterp spec fn lower(s: Seq<char>) -> Seq<char>;
pub assume_specification [ str::to_lowercase ] (s: &str) -> (r: String) ensures r@ == lower(s@);
/// model of layout21raw::data::Layers (slot map + number map + name map) as far as import_layer uses it: the set of names present.
/// The key stored under a present name `n` is key_of(n) (see key_of); adding a SECOND layer under a name that is already present would store a
/// different, new key under it — the name would no longer denote one layer — so `add` requires the name to be absent (an OBLIGATION of the caller).
pub struct Layers { pub names: Ghost<Set<Seq<char>>> }
impl Layers {
    //@ pin layout21raw/src/data.rs :: impl Layers :: fn keyname @73d2c612
    #[verifier::external_body]
    pub fn keyname<S: NameLike>(&self, name: S) -> (r: Option<LayerKey>) ensures r == (if self.names@.contains(name.chars()) { Some(key_of(name.chars())) } else { None::<LayerKey> }) { unimplemented!() }
    //@ pin layout21raw/src/data.rs :: impl Layers :: fn nextnum @55257f5f
    #[verifier::external_body]
    pub fn nextnum(&self) -> (r: LayoutResult<i16>) { unimplemented!() }
    //@ pin layout21raw/src/data.rs :: impl Layers :: fn add @ff30ce7b
    #[verifier::external_body]
    pub fn add(&mut self, layer: Layer) -> (k: LayerKey)
        requires layer.name is Some, !old(self).names@.contains(layer.name->Some_0@),
        ensures final(self).names@ == old(self).names@.insert(layer.name->Some_0@), k == key_of(layer.name->Some_0@),
    { unimplemented!() }
}
// R5: the importer reduced to its layer table; `layers: Ptr<Layers>` (Arc<RwLock<..>>) as the table itself, `write()` as the exclusive borrow
// (the lock-poison error path of `write()?` is dropped: ASSUMPTION, uncontended lock)
pub struct LefImporter { pub layers: Layers }
impl LefImporter {
//@ fn layout21raw/src/lef.rs :: impl LefImporter :: fn import_layer
//@   ret r
//@   sub R5 /leflayer: &str/ => leflayer: &String
//@   sub R5 /let mut layers = self\.layers\.write\(\)\?;/ => let layers = &mut self.layers;
//@   spec
//|     // the key returned is THE key of that name (looked up if present, created under exactly that name if absent), and the name is present afterwards
//|     ensures r is Ok ==> r->Ok_0 == key_of(leflayer@) && final(self).layers.names@ =~= old(self).layers.names@.insert(leflayer@),
//@ end
}
/// vacuity canary: MUST fail
proof fn canary_layer(l: Layers, n: Seq<char>) requires !l.names@.contains(n) ensures false {}
} // verus!
fn main() {}
