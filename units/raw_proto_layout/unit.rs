// Unit U12c raw_proto_layout: raw ProtoExporter::export_layout — shapes grouped by (layer, purpose) in first-seen order (C14).
use vstd::prelude::*;
use vstd::std_specs::hash::*;
use std::convert::{TryFrom, TryInto};
use std::collections::HashMap;
verus! {
global size_of usize == 8;
//@ include units/common/float.inc.rs
//@ include units/raw_proto/proto.inc.rs

// =====================================================================================================
// MODELS (rule R5 / R6)
// =====================================================================================================
pub type LKey = (i16, i16);
/// the (layer number, purpose number) the library's layer table assigns to a (layer key, purpose) pair — assumption (the lookup block is modelled)
pub uninterp spec fn nums(k: LayerKey, p: LayerPurpose) -> Option<LKey>;
impl<'lib> ProtoExporter<'lib> {
    /// R5: the four-line lookup `self.lib.layers.read()?` / `.get(elem.layer).ok_or(..)?` / `layer.layernum` / `layer.num(&elem.purpose).ok_or(..)?.clone()`
    #[verifier::external_body]
    fn vp_layer_nums(&mut self, elem: &Element) -> (r: LayoutResult<LKey>)
        ensures r is Ok <==> nums(elem.layer, elem.purpose) is Some, r is Ok ==> r->Ok_0 == nums(elem.layer, elem.purpose)->0,
    { unimplemented!() }
    /// ASSUMED element-wise contracts of the two iterator map/collect idioms (rule R6)
    #[verifier::external_body]
    fn vp_export_instances(&mut self, insts: &Vec<Instance>) -> (r: LayoutResult<Vec<proto::Instance>>)
        ensures r is Ok ==> r->Ok_0@.len() == insts@.len() && forall|i: int| 0 <= i < insts@.len() ==> inst_exp(#[trigger] r->Ok_0@[i], insts@[i]),
    { unimplemented!() }
    #[verifier::external_body]
    fn vp_export_annotations(&mut self, v: &Vec<TextElement>) -> (r: LayoutResult<Vec<proto::TextElement>>)
        ensures r is Ok ==> r->Ok_0@.len() == v@.len() && forall|i: int| 0 <= i < v@.len() ==> (#[trigger] r->Ok_0@[i]).string@ == v@[i].string@ && r->Ok_0@[i].loc is Some && same_pt(r->Ok_0@[i].loc->0, v@[i].loc),
    { unimplemented!() }
}
/// R6: `layers.get_mut(&key).unwrap().push(elem)` — append to an existing group
#[verifier::external_body]
pub fn vp_group_push<'a>(m: &mut HashMap<LKey, Vec<&'a Element>>, k: LKey, e: &'a Element)
    requires old(m)@.dom().contains(k),
    ensures final(m)@.dom() == old(m)@.dom(), final(m)@[k]@ == old(m)@[k]@.push(e), forall|j: LKey| j != k && old(m)@.dom().contains(j) ==> #[trigger] final(m)@[j] == old(m)@[j],
{ unimplemented!() }

// =====================================================================================================
// SPEC (C14: "shape grouping by (layer, purpose) preserving first-seen order")
// =====================================================================================================
pub open spec fn key_of(e: Element) -> LKey { nums(e.layer, e.purpose)->0 }
/// the distinct (layer, purpose) keys in the order in which they first occur
pub open spec fn first_seen(es: Seq<Element>) -> Seq<LKey> decreases es.len() {
    if es.len() == 0 { Seq::empty() } else { let h = first_seen(es.drop_last()); if h.contains(key_of(es.last())) { h } else { h.push(key_of(es.last())) } }
}
/// the elements with key `k`, in their original order
pub open spec fn group(es: Seq<Element>, k: LKey) -> Seq<Element> decreases es.len() {
    if es.len() == 0 { Seq::empty() } else if key_of(es.last()) == k { group(es.drop_last(), k).push(es.last()) } else { group(es.drop_last(), k) }
}
pub open spec fn derefs(v: Seq<&Element>) -> Seq<Element> { Seq::new(v.len(), |i: int| *v[i]) }
/// the elements of one kind, in order
pub open spec fn of_kind(es: Seq<Element>, kind: int) -> Seq<Element> decreases es.len() {
    if es.len() == 0 { Seq::empty() } else {
        let h = of_kind(es.drop_last(), kind); let e = es.last();
        if (kind == 0 && e.inner is Rect) || (kind == 1 && e.inner is Polygon) || (kind == 2 && e.inner is Path) { h.push(e) } else { h }
    }
}
/// protobuf layer message `g` carries exactly the elements `es` (one group): key, and per kind the shapes in order with their nets
pub open spec fn layer_msg_is(g: proto::LayerShapes, k: LKey, es: Seq<Element>) -> bool {
    &&& g.layer is Some && g.layer->0.number == k.0 && g.layer->0.purpose == k.1
    &&& g.rectangles@.len() == of_kind(es, 0).len() &&& forall|i: int| 0 <= i < of_kind(es, 0).len() ==> rect_is(#[trigger] g.rectangles@[i], of_kind(es, 0)[i].inner->Rect_0) && net_exp(g.rectangles@[i].net@, of_kind(es, 0)[i].net)
    &&& g.polygons@.len() == of_kind(es, 1).len() &&& forall|i: int| 0 <= i < of_kind(es, 1).len() ==> poly_is(#[trigger] g.polygons@[i], of_kind(es, 1)[i].inner->Polygon_0) && net_exp(g.polygons@[i].net@, of_kind(es, 1)[i].net)
    &&& g.paths@.len() == of_kind(es, 2).len() &&& forall|i: int| 0 <= i < of_kind(es, 2).len() ==> path_is(#[trigger] g.paths@[i], of_kind(es, 2)[i].inner->Path_0) && net_exp(g.paths@[i].net@, of_kind(es, 2)[i].net)
}
pub open spec fn insts_annots_exp(g: proto::Layout, cell: Layout) -> bool {
    &&& forall|i: int| 0 <= i < cell.insts@.len() ==> inst_exp(#[trigger] g.instances@[i], cell.insts@[i])
    &&& forall|i: int| 0 <= i < cell.annotations@.len() ==> (#[trigger] g.annotations@[i]).string@ == cell.annotations@[i].string@ && g.annotations@[i].loc is Some && same_pt(g.annotations@[i].loc->0, cell.annotations@[i].loc)
}
pub open spec fn elems_small(es: Seq<Element>) -> bool { forall|i: int| 0 <= i < es.len() ==> shape_small((#[trigger] es[i]).inner) }
/// the grouping state after the first `n` elements: the order list is first_seen, the table holds exactly those keys, each with its group in order
pub open spec fn grouped(m: Map<LKey, Vec<&Element>>, order: Seq<LKey>, es: Seq<Element>) -> bool {
    &&& order == first_seen(es) &&& forall|k: LKey| m.dom().contains(k) <==> order.contains(k)
    &&& forall|k: LKey| m.dom().contains(k) ==> derefs(#[trigger] m[k]@) == group(es, k)
}
proof fn lemma_group_step(m0: Map<LKey, Vec<&Element>>, m1: Map<LKey, Vec<&Element>>, o0: Seq<LKey>, o1: Seq<LKey>, es: Seq<Element>, e: Element)
    requires grouped(m0, o0, es), nums(e.layer, e.purpose) is Some,
        m0.dom().contains(key_of(e)) ==> (o1 == o0 && m1.dom() == m0.dom() && derefs(m1[key_of(e)]@) == derefs(m0[key_of(e)]@).push(e) && forall|j: LKey| j != key_of(e) && m0.dom().contains(j) ==> #[trigger] m1[j] == m0[j]),
        !m0.dom().contains(key_of(e)) ==> (o1 == o0.push(key_of(e)) && m1 == m0.insert(key_of(e), m1[key_of(e)]) && derefs(m1[key_of(e)]@) == seq![e]),
    ensures grouped(m1, o1, es.push(e)),
{
    let es1 = es.push(e); let k0 = key_of(e);
    assert(es1.drop_last() == es); assert(es1.last() == e);
    assert forall|k: LKey| m1.dom().contains(k) implies derefs(#[trigger] m1[k]@) == group(es1, k) by {
        if k == k0 {
            if !m0.dom().contains(k0) { lemma_group_absent(es, k0, o0); }
        } else { assert(m0.dom().contains(k)); assert(m1[k] == m0[k]); }
    }
    assert forall|k: LKey| m1.dom().contains(k) <==> o1.contains(k) by {
        if m0.dom().contains(k0) { } else {
            if k == k0 { assert(o1[o0.len() as int] == k0); }
            else { if o0.contains(k) { let i = choose|i: int| 0 <= i < o0.len() && o0[i] == k; assert(o1[i] == k); } if o1.contains(k) { let i = choose|i: int| 0 <= i < o1.len() && o1[i] == k; assert(i < o0.len()); assert(o0[i] == k); } }
        }
    }
}
/// a key that was never seen has an empty group
proof fn lemma_group_absent(es: Seq<Element>, k: LKey, o: Seq<LKey>)
    requires o == first_seen(es), !o.contains(k),
    ensures group(es, k) == Seq::<Element>::empty(),
    decreases es.len()
{
    if es.len() > 0 {
        let h = first_seen(es.drop_last());
        if h.contains(key_of(es.last())) { lemma_group_absent(es.drop_last(), k, h); if key_of(es.last()) == k { assert(o.contains(k)); } }
        else {
            assert(o == h.push(key_of(es.last())));
            if h.contains(k) { let i = choose|i: int| 0 <= i < h.len() && h[i] == k; assert(o[i] == k); }
            lemma_group_absent(es.drop_last(), k, h);
            if key_of(es.last()) == k { assert(o[h.len() as int] == k); }
        }
    }
}
impl<'lib> ProtoExporter<'lib> {
//@ fn layout21raw/src/proto.rs :: impl<'lib> ProtoExporter<'lib> :: fn export_layout
//@   ret r
//@   sub R6 /cell\s*\.insts\s*\.iter\(\)\s*\.map\(\|c\| self\.export_instance\(c\)\)\s*\.collect::<Result<Vec<_>, _>>\(\)\?/ => self.vp_export_instances(&cell.insts)?
//@   sub R6 /cell\s*\.annotations\s*\.iter\(\)\s*\.map\(\|x\| self\.export_annotation\(x\)\)\s*\.collect::<Result<Vec<_>, _>>\(\)\?/ => self.vp_export_annotations(&cell.annotations)?
//@   sub R6 /for elem in &cell\.elems \{/ => for elem in cell.elems.iter() {
//@   sub R5 @cb96dffa /let selflayers = self\.lib\.layers\.read\(\)\?;[\s\S]*?\.clone\(\);/ => let (number, purpose) = self.vp_layer_nums(elem)?;
//@   sub R6 /layers\.get_mut\(&\(number, purpose\)\)\.unwrap\(\)\.push\(elem\);/ => vp_group_push(&mut layers, (number, purpose), elem);
//@   sub R6 /for layernums in layerorder \{/ => for vp_ln in layerorder.iter() { let layernums = *vp_ln;
//@   sub R6 /for elem in elems \{/ => for elem in elems.iter() {
//@   spec
//|     requires obeys_key_model::<LKey>(), elems_small(cell.elems@),
//|     ensures r is Ok ==> ({
//|         let g = r->Ok_0; let order = first_seen(cell.elems@);
//|         &&& g.name@ == cell.name@ &&& g.instances@.len() == cell.insts@.len() &&& g.annotations@.len() == cell.annotations@.len()
//|         // one message per instance and per annotation, in order
//|         &&& forall|i: int| 0 <= i < cell.insts@.len() ==> inst_exp(#[trigger] g.instances@[i], cell.insts@[i])
//|         &&& forall|i: int| 0 <= i < cell.annotations@.len() ==> (#[trigger] g.annotations@[i]).string@ == cell.annotations@[i].string@ && g.annotations@[i].loc is Some && same_pt(g.annotations@[i].loc->0, cell.annotations@[i].loc)
//|         // one layer message per distinct (layer, purpose), in first-seen order, each holding exactly its group's shapes, in order, by kind
//|         &&& g.shapes@.len() == order.len()
//|         &&& forall|q: int| 0 <= q < order.len() ==> layer_msg_is(#[trigger] g.shapes@[q], order[q], group(cell.elems@, order[q]))
//|     }),
//@   loop 1 iter it
//|             invariant obeys_key_model::<LKey>(), elems_small(cell.elems@), pcell.name@ == cell.name@, pcell.instances@.len() == cell.insts@.len(), pcell.annotations@.len() == cell.annotations@.len(), insts_annots_exp(pcell, *cell),
//|                 pcell.shapes@.len() == 0, it.index@ <= cell.elems@.len(), grouped(layers@, layerorder@, cell.elems@.take(it.index@ as int)),
//|                 forall|i: int| 0 <= i < it.index@ ==> nums((#[trigger] cell.elems@[i]).layer, cell.elems@[i].purpose) is Some,
//@   before /if layers\.contains_key\(&\(number, purpose\)\) \{/
//|             let ghost m0 = layers@; let ghost o0 = layerorder@;
//@   loopend 1
//|             proof {
//|                 assert(cell.elems@.take(it.index@ + 1) == cell.elems@.take(it.index@ as int).push(*elem));
//|                 let k0 = key_of(*elem);
//|                 if m0.dom().contains(k0) { assert(derefs(layers@[k0]@) =~= derefs(m0[k0]@).push(*elem)); }
//|                 else { assert(derefs(layers@[k0]@) =~= seq![*elem]); assert(layers@ =~= m0.insert(k0, layers@[k0])); }
//|                 lemma_group_step(m0, layers@, o0, layerorder@, cell.elems@.take(it.index@ as int), *elem);
//|             }
//@   before /for vp_ln in layerorder\.iter\(\) \{/
//|         proof { assert(cell.elems@.take(cell.elems@.len() as int) == cell.elems@); }
//|         let ghost order = layerorder@;
//@   loop 2 iter it2
//|             invariant obeys_key_model::<LKey>(), elems_small(cell.elems@), pcell.name@ == cell.name@, pcell.instances@.len() == cell.insts@.len(), pcell.annotations@.len() == cell.annotations@.len(), insts_annots_exp(pcell, *cell),
//|                 layerorder@ == order, grouped(layers@, order, cell.elems@), it2.index@ <= order.len(), pcell.shapes@.len() == it2.index@,
//|                 forall|q: int| 0 <= q < it2.index@ ==> layer_msg_is(#[trigger] pcell.shapes@[q], order[q], group(cell.elems@, order[q])),
//@   before /let elems = layers\.get\(&layernums\)\.unwrap\(\);/
//|             proof { assert(order[it2.index@ as int] == layernums); assert(order.contains(layernums)); }
//@   before /for elem in elems\.iter\(\) \{/
//|             let ghost grp = group(cell.elems@, layernums);
//|             proof { assert(derefs(elems@) == grp); lemma_group_small(cell.elems@, layernums); }
//@   loop 3 iter it3
//|                 invariant elems_small(grp), derefs(elems@) == grp, it3.index@ <= grp.len(), layershape.layer == Some(proto::Layer { number: layernums.0 as i64, purpose: layernums.1 as i64 }),
//|                     layer_msg_is(layershape, layernums, grp.take(it3.index@ as int)),
//@   before /match self\.export_element\(elem\)\? \{/
//|                 let ghost ls0 = layershape;
//|                 proof { assert(**elem == grp[it3.index@ as int]); assert(grp.take(it3.index@ + 1).drop_last() == grp.take(it3.index@ as int)); assert(grp.take(it3.index@ + 1).last() == **elem); }
//@   before /pcell\.shapes\.push\(layershape\);/
//|             proof { assert(grp.take(grp.len() as int) == grp); }
//@ end
}
proof fn lemma_group_small(es: Seq<Element>, k: LKey)
    requires elems_small(es),
    ensures elems_small(group(es, k)),
    decreases es.len()
{
    if es.len() > 0 {
        assert(elems_small(es.drop_last())) by { assert forall|i: int| 0 <= i < es.drop_last().len() implies shape_small((#[trigger] es.drop_last()[i]).inner) by { assert(es.drop_last()[i] == es[i]); } }
        lemma_group_small(es.drop_last(), k);
        assert(shape_small(es.last().inner)) by { assert(es[es.len() - 1] == es.last()); }
    }
}
proof fn canary_groups(es: Seq<Element>) requires first_seen(es).len() == 2, es.len() == 3 ensures false {}
}
fn main() {}
